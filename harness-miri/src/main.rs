//! Runs the second-generation front end (lex -> dumps -> parse -> errors -> header
//! -> dumps, staged as main.rs does) on the inputs given as hex strings, one per
//! line of the file named on the command line.  Meant for `cargo +nightly miri run`:
//! Miri reports reads of uninitialised memory and out-of-bounds accesses inside
//! the unsafe buffer code (MaybeUninit, set_len) that no ordinary run can see.
use penne::delta::*;

fn unhex(s: &str) -> Vec<u8>
{
	let b = s.as_bytes();
	(0..b.len() / 2)
		.map(|i| u8::from_str_radix(std::str::from_utf8(&b[2 * i..2 * i + 2]).unwrap(), 16).unwrap())
		.collect()
}

fn run(src: &[u8]) -> String
{
	let tokens = lexer::lex(src, "case.pn");
	let ntok = tokens.base_tokens().len();
	if tokens.errors().is_some()
	{
		return format!("lexerr ntok={}", ntok);
	}
	let source = std::str::from_utf8(src).ok();
	let mut xml = 0usize;
	if let Some(source) = source
	{
		xml += tokens.as_xml(source).map(|l| l.len()).sum::<usize>();
	}
	let tree = parser::parse(&tokens);
	if tree.errors(&tokens).is_some()
	{
		return format!("parseerr ntok={} nodes={}", ntok, tree.num_parse_nodes());
	}
	let header = tree.build_header();
	if let Some(source) = source
	{
		xml += tree.as_xml(&tokens, source).map(|l| l.len()).sum::<usize>();
		xml += header.as_xml(&tokens, source).map(|l| l.len()).sum::<usize>();
	}
	format!("ok ntok={} nodes={} hdr={} xml={}", ntok, tree.num_parse_nodes(), header.num_parse_nodes(), xml)
}

fn main()
{
	let path = std::env::args().nth(1).expect("case file");
	let text = std::fs::read_to_string(path).unwrap();
	for (i, line) in text.lines().enumerate()
	{
		let src = unhex(line.trim());
		println!("{}\t{}", i, run(&src));
	}
}
