(* Extraction of the executable models for the correspondence driver.
   Only ExtrOcamlBasic is used: bool, option, unit, list, prod, sumbool map to
   OCaml's; positive/N/Z/nat stay the extracted inductive types. *)
From Coq Require Extraction ExtrOcamlBasic.
From PV Require Import Base.Common Model.LabelScope Model.Syntax Model.VarScope Proofs.VarScopeProofs.

Extraction Language OCaml.
Separate Extraction
  N.add N.mul N.div_eucl N.eqb Z.add Z.mul Z.of_N Z.to_N Z.eqb
  LabelScope.scan_program LabelScope.spec_program
  VarScope.an_program VarScope.spec_program VarScopeProofs.once VarScopeProofs.events
  Syntax.body_codes Syntax.spec_body Syntax.lint_body Syntax.lint_spec_body.
