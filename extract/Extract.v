(* Extraction of the executable models for the correspondence driver.
   Only ExtrOcamlBasic is used: bool, option, unit, list, prod, sumbool map to
   OCaml's; positive/N/Z/nat stay the extracted inductive types. *)
From Coq Require Extraction ExtrOcamlBasic.
From PV Require Import Base.Common Model.LabelScope Model.Syntax Model.VarScope Proofs.VarScopeProofs Base.IR Model.Lower Model.Sem Model.Expand Model.Header Model.Containers Model.Layout Model.Literal Gen.Linkage Base.Tok Model.LexAlpha Model.LexDelta Model.Cli Model.RefParser Model.Resolve Model.Cfg Model.Mutability Model.DeltaNodes Model.TypeLegal Proofs.ResolveProofs Model.LintWalk Model.Escape Model.MemLower Model.OutPath Model.Loc Model.DeltaExpr.
From PV Require Model.Autoderef Model.CallFrame Model.AssignSteps.

Extraction Language OCaml.
Separate Extraction
  N.add N.mul N.div_eucl N.eqb Z.add Z.mul Z.of_N Z.to_N Z.eqb
  LabelScope.scan_program LabelScope.spec_program
  IR.mem_operand LowerTables.select_binop LowerTables.select_unop LowerTables.select_icmp LowerTables.select_cast
  LowerTables.signed_lit_small_min LowerTables.signed_lit_small_max LowerTables.bit_lit_usize_mask LowerTables.bit_lit_pointer_mask
  TypeTables.vt_is_signed TypeTables.vt_is_integral TypeTables.vt_is_bitfield TypeTables.vt_min TypeTables.vt_max TypeTables.vt_bits TypeTables.vt_word_member_size
  ResolverTables.binop_valid_types ResolverTables.unop_valid_types ResolverTables.cmpop_valid_types ResolverTables.is_valid_primitive_conversion
  Lower.src_binop Lower.src_unop Lower.src_cmp Lower.src_cast Bits.ir_binop Bits.ir_unop Bits.ir_icmp Bits.ir_cast Bits.repr Bits.sgn
  Layout.penne_sizeof Layout.llvm_alloc_size Layout.wf_ty Layout.typer_aligned_size Layout.word_accepted Layout.struct_offsets
  Literal.source_literal Literal.lint Literal.bits_of
  Linkage.linkage_of Linkage.callconv_of
  LexAlpha.lex_alpha_fixed LexAlpha.lex_alpha LexDelta.lex_delta LexDelta.num_end_tokens
  Cli.backend_for Cli.tool_succeeds Cli.invokes_backend Cli.ll_files_written
  RefParser.parse_module RefParser.print_module RefParser.show_module RefParser.wf_module RefParser.toks_ok RefParser.mk
  Resolve.resolve_expr Resolve.resolve_cmp Resolve.check_call
  ResolveProofs.binop_class ResolveProofs.unop_class ResolveProofs.cmpop_class ResolveProofs.conversion_spec
  Cfg.lower_body Cfg.cfg_view Cfg.cfg_wfb Cfg.accepted
  Mutability.mut_program Mutability.mut_decl Mutability.mut_stmt Mutability.mut_expr
  Mutability.check_assignment Mutability.check_address_taken Mutability.use_variable Mutability.uv_codes
  Mutability.fc_body Mutability.fc_stmt Mutability.fc_expr Mutability.fc_decl_type
  Mutability.use_function
  DeltaNodes.parse_full DeltaNodes.btok_of_code DeltaNodes.capacity
  TypeLegal.legal_outcome TypeLegal.legal TypeLegal.legal_outcome_pinned TypeLegal.legal_pinned TypeLegal.parse_type TypeLegal.typed_type TypeLegal.is_wellformed
  Containers.run Sem.run_main Expand.expand_sorted Expand.get_key_offset Header.build_header Header.header_spec Header.zones_wfb Header.refs_localb
  VarScope.an_program VarScope.spec_program VarScopeProofs.once VarScopeProofs.events
  OutPath.ll_path OutPath.is_pn_module
  DeltaExpr.parse_expression DeltaExpr.parse_expression_res DeltaExpr.fold_negative_literals DeltaExpr.admissible RefParser.parse_expr
  Loc.combined_with Loc.comparison_key Loc.key_leb Loc.key_eqb
  LintWalk.lint_module LintWalk.lint_positions LintWalk.occs_decl LintWalk.range_test
  Escape.rebuild_const_string Escape.rebuild_import Escape.rebuild_string
  MemLower.ref_instrs MemLower.ref_instrs_pinned MemLower.elaborate MemLower.lower_ref MemLower.lower_ref_pinned MemLower.gep_offset MemLower.gen MemLower.erase
  Autoderef.pred_table Autoderef.pred_table_private Autoderef.analyze_deref Autoderef.autoderef Autoderef.pointer_depth Autoderef.is_slice_pointer Autoderef.type_of_reference Autoderef.argument_coercion
  CallFrame.run_frame_case CallFrame.arg_value CallFrame.arg_view CallFrame.arg_slice CallFrame.arg_pointer CallFrame.arg_slice_pointer CallFrame.local_var CallFrame.constant
  Literal.lint_on AssignSteps.assignment_steps
  Syntax.body_codes Syntax.spec_body Syntax.lint_body Syntax.lint_spec_body.
