
type linkage =
| LExternal
| LPrivate
| LInternal

type callconv =
| CC_C
| CC_Fast

val linkage_of : bool -> bool -> bool -> bool -> bool -> linkage

val callconv_of : bool -> bool -> bool -> bool -> bool -> callconv
