open Datatypes
open List
open VarScope

type event =
| EGoto of id
| ELabel of id

val ev_stmt : stmt -> event list

val ev_list : stmt list -> event list

val ev_func : func -> event list

val events : func list -> event list

val once : id list -> event list -> bool
