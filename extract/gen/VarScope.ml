open BinNat
open BinNums
open Common
open Datatypes
open List

type id = coq_N

type stmt =
| SDecl of name * name list
| SUse of name list
| SGoto of id
| SLabel of id
| SIf of name list * stmt * stmt option
| SBlock of stmt list
| SNop

(** val coq_E402 : code **)

let coq_E402 =
  Npos (Coq_xO (Coq_xI (Coq_xO (Coq_xO (Coq_xI (Coq_xO (Coq_xO (Coq_xI
    Coq_xH))))))))

(** val coq_E422 : code **)

let coq_E422 =
  Npos (Coq_xO (Coq_xI (Coq_xI (Coq_xO (Coq_xO (Coq_xI (Coq_xO (Coq_xI
    Coq_xH))))))))

(** val coq_E424 : code **)

let coq_E424 =
  Npos (Coq_xO (Coq_xO (Coq_xO (Coq_xI (Coq_xO (Coq_xI (Coq_xO (Coq_xI
    Coq_xH))))))))

(** val coq_E482 : code **)

let coq_E482 =
  Npos (Coq_xO (Coq_xI (Coq_xO (Coq_xO (Coq_xO (Coq_xI (Coq_xI (Coq_xI
    Coq_xH))))))))

(** val mem_id : id -> id list -> bool **)

let mem_id i l =
  existsb (N.eqb i) l

(** val remove_id : id -> id list -> id list **)

let remove_id i l =
  filter (fun j -> negb (N.eqb i j)) l

type state = { stack : (name * id) list list; next : id;
               unres : (id * id list) list; pruned : id list;
               poisoned : id list }

(** val with_stack : state -> (name * id) list list -> state **)

let with_stack st s =
  { stack = s; next = st.next; unres = st.unres; pruned = st.pruned;
    poisoned = st.poisoned }

(** val find_name : name -> (name * id) list list -> id option **)

let find_name x st =
  match find (fun b -> N.eqb (fst b) x) (concat st) with
  | Some b -> Some (snd b)
  | None -> None

(** val push_last : 'a1 -> 'a1 list list -> 'a1 list list **)

let rec push_last x = function
| [] -> (x :: []) :: []
| f :: rest ->
  (match rest with
   | [] -> (app f (x :: [])) :: []
   | _ :: _ -> f :: (push_last x rest))

(** val declare : name -> state -> state * bool **)

let declare x st =
  let dup = match find_name x st.stack with
            | Some _ -> true
            | None -> false in
  ({ stack = (push_last (x, st.next) st.stack); next = (N.succ st.next);
  unres = st.unres; pruned = st.pruned; poisoned = st.poisoned }, dup)

(** val use : name -> state -> state * code list **)

let use x st =
  match find_name x st.stack with
  | Some i ->
    if mem_id i st.pruned
    then ({ stack = st.stack; next = st.next; unres = st.unres; pruned =
           (remove_id i st.pruned); poisoned = (i :: st.poisoned) },
           (coq_E482 :: []))
    else (st, [])
  | None -> (st, (coq_E402 :: []))

(** val uses : name list -> state -> state * code list **)

let rec uses xs st =
  match xs with
  | [] -> (st, [])
  | x :: r ->
    let (st0, c) = use x st in let (st1, cr) = uses r st0 in (st1, (app c cr))

(** val in_scope : state -> id list **)

let in_scope st =
  map snd (concat st.stack)

(** val update_unres :
    id -> id list -> (id * id list) list -> (id * id list) list **)

let rec update_unres l scope = function
| [] -> (l, scope) :: []
| p :: r ->
  let (l', s) = p in
  if N.eqb l l'
  then (l', (filter (fun i -> mem_id i scope) s)) :: r
  else (l', s) :: (update_unres l scope r)

(** val at_goto : id -> state -> state **)

let at_goto l st =
  { stack = st.stack; next = st.next; unres =
    (update_unres l (in_scope st) st.unres); pruned = st.pruned; poisoned =
    st.poisoned }

(** val lookup_unres : id -> (id * id list) list -> id list option **)

let rec lookup_unres l = function
| [] -> None
| p :: r -> let (l', s) = p in if N.eqb l l' then Some s else lookup_unres l r

(** val remove_unres : id -> (id * id list) list -> (coq_N * id list) list **)

let remove_unres l u =
  filter (fun e -> negb (N.eqb l (fst e))) u

(** val add_pruned : id list -> id list -> id list **)

let rec add_pruned ids p =
  match ids with
  | [] -> p
  | i :: r -> add_pruned r (if mem_id i p then p else app p (i :: []))

(** val at_label : id -> state -> state **)

let at_label l st =
  match lookup_unres l st.unres with
  | Some inter ->
    let layer = match rev st.stack with
                | [] -> []
                | top :: _ -> map snd top in
    let to_prune = filter (fun i -> negb (mem_id i inter)) layer in
    { stack = st.stack; next = st.next; unres = (remove_unres l st.unres);
    pruned =
    (match rev st.stack with
     | [] -> st.pruned
     | _ :: _ -> add_pruned to_prune st.pruned); poisoned = st.poisoned }
  | None -> st

(** val push_scope : state -> state **)

let push_scope st =
  with_stack st (app st.stack ([] :: []))

(** val pop_scope : state -> state **)

let pop_scope st =
  with_stack st (removelast st.stack)

(** val an_stmt : stmt -> state -> state * code list **)

let rec an_stmt s st =
  match s with
  | SDecl (v, us) ->
    let (st0, c) = uses us st in
    let (st1, dup) = declare v st0 in
    (st1, (if dup then coq_E422 :: [] else c))
  | SUse us -> uses us st
  | SGoto l -> ((at_goto l st), [])
  | SLabel l -> ((at_label l st), [])
  | SIf (us, t, e) ->
    let (st0, c0) = uses us st in
    let (st1, c1) = an_stmt t st0 in
    (match e with
     | Some e' ->
       let (st2, c2) = an_stmt e' st1 in (st2, (app c0 (app c1 c2)))
     | None -> (st1, (app c0 c1)))
  | SBlock b ->
    let an_list0 =
      let rec an_list0 ss st0 =
        match ss with
        | [] -> (st0, [])
        | s0 :: r ->
          let (st1, c) = an_stmt s0 st0 in
          let (st2, cr) = an_list0 r st1 in (st2, (app c cr))
      in an_list0
    in
    let (st0, c) = an_list0 b (push_scope st) in ((pop_scope st0), c)
  | SNop -> (st, [])

(** val an_list : stmt list -> state -> state * code list **)

let rec an_list ss st =
  match ss with
  | [] -> (st, [])
  | s :: r ->
    let (st0, c) = an_stmt s st in
    let (st1, cr) = an_list r st0 in (st1, (app c cr))

(** val declare_params : name list -> state -> state * code list **)

let rec declare_params ps st =
  match ps with
  | [] -> (st, [])
  | p :: r ->
    let (st0, dup) = declare p st in
    let (st1, cr) = declare_params r st0 in
    (st1, (app (if dup then coq_E424 :: [] else []) cr))

type func = { params : name list; body : stmt list; ret : name list }

(** val an_func : func -> state -> state * code list **)

let an_func f st =
  let st0 = push_scope st in
  let (st1, c0) = declare_params f.params st0 in
  let st2 = push_scope st1 in
  let (st3, c1) = an_list f.body st2 in
  let (st4, c2) = uses f.ret st3 in
  let st5 = pop_scope (pop_scope st4) in (st5, (app c0 (app c1 c2)))

(** val an_funcs : func list -> state -> code list **)

let rec an_funcs fs st =
  match fs with
  | [] -> []
  | f :: r -> let (st0, c) = an_func f st in app c (an_funcs r st0)

(** val declare_consts : name list -> state -> state **)

let rec declare_consts cs st =
  match cs with
  | [] -> st
  | c :: r -> declare_consts r (fst (declare c st))

(** val init_state : state **)

let init_state =
  { stack = ([] :: []); next = (Npos Coq_xH); unres = []; pruned = [];
    poisoned = [] }

(** val an_program : name list -> func list -> code list **)

let an_program consts fs =
  an_funcs fs (declare_consts consts init_state)

type binding = { bname : name; bid : id; skippers : id list }

type sstate = { env : binding list list; snext : id; seen : id list;
                skipped : id list }

(** val sfind : name -> binding list list -> binding option **)

let sfind x e =
  find (fun b -> N.eqb b.bname x) (concat e)

(** val sdeclare : name -> sstate -> sstate * bool **)

let sdeclare x st =
  let dup = match sfind x st.env with
            | Some _ -> true
            | None -> false in
  ({ env =
  (push_last { bname = x; bid = st.snext; skippers = st.seen } st.env);
  snext = (N.succ st.snext); seen = st.seen; skipped = st.skipped }, dup)

(** val suse : name -> sstate -> sstate * code list **)

let suse x st =
  match sfind x st.env with
  | Some b ->
    if mem_id b.bid st.skipped
    then ({ env = st.env; snext = st.snext; seen = st.seen; skipped =
           (remove_id b.bid st.skipped) }, (coq_E482 :: []))
    else (st, [])
  | None -> (st, (coq_E402 :: []))

(** val suses : name list -> sstate -> sstate * code list **)

let rec suses xs st =
  match xs with
  | [] -> (st, [])
  | x :: r ->
    let (st0, c) = suse x st in
    let (st1, cr) = suses r st0 in (st1, (app c cr))

(** val s_goto : id -> sstate -> sstate **)

let s_goto l st =
  { env = st.env; snext = st.snext; seen =
    (if mem_id l st.seen then st.seen else l :: st.seen); skipped =
    st.skipped }

(** val s_label : id -> sstate -> sstate **)

let s_label l st =
  match rev st.env with
  | [] -> st
  | top :: _ ->
    let hit = map (fun b -> b.bid) (filter (fun b -> mem_id l b.skippers) top)
    in
    { env = st.env; snext = st.snext; seen = st.seen; skipped =
    (add_pruned hit st.skipped) }

(** val s_push : sstate -> sstate **)

let s_push st =
  { env = (app st.env ([] :: [])); snext = st.snext; seen = st.seen;
    skipped = st.skipped }

(** val s_pop : sstate -> sstate **)

let s_pop st =
  { env = (removelast st.env); snext = st.snext; seen = st.seen; skipped =
    st.skipped }

(** val sp_stmt : stmt -> sstate -> sstate * code list **)

let rec sp_stmt s st =
  match s with
  | SDecl (v, us) ->
    let (st0, c) = suses us st in
    let (st1, dup) = sdeclare v st0 in
    (st1, (if dup then coq_E422 :: [] else c))
  | SUse us -> suses us st
  | SGoto l -> ((s_goto l st), [])
  | SLabel l -> ((s_label l st), [])
  | SIf (us, t, e) ->
    let (st0, c0) = suses us st in
    let (st1, c1) = sp_stmt t st0 in
    (match e with
     | Some e' ->
       let (st2, c2) = sp_stmt e' st1 in (st2, (app c0 (app c1 c2)))
     | None -> (st1, (app c0 c1)))
  | SBlock b ->
    let sp_list0 =
      let rec sp_list0 ss st0 =
        match ss with
        | [] -> (st0, [])
        | s0 :: r ->
          let (st1, c) = sp_stmt s0 st0 in
          let (st2, cr) = sp_list0 r st1 in (st2, (app c cr))
      in sp_list0
    in
    let (st0, c) = sp_list0 b (s_push st) in ((s_pop st0), c)
  | SNop -> (st, [])

(** val sp_list : stmt list -> sstate -> sstate * code list **)

let rec sp_list ss st =
  match ss with
  | [] -> (st, [])
  | s :: r ->
    let (st0, c) = sp_stmt s st in
    let (st1, cr) = sp_list r st0 in (st1, (app c cr))

(** val sdeclare_params : name list -> sstate -> sstate * code list **)

let rec sdeclare_params ps st =
  match ps with
  | [] -> (st, [])
  | p :: r ->
    let (st0, dup) = sdeclare p st in
    let (st1, cr) = sdeclare_params r st0 in
    (st1, (app (if dup then coq_E424 :: [] else []) cr))

(** val sp_func : func -> sstate -> sstate * code list **)

let sp_func f st =
  let st0 = s_push st in
  let (st1, c0) = sdeclare_params f.params st0 in
  let st2 = s_push st1 in
  let (st3, c1) = sp_list f.body st2 in
  let (st4, c2) = suses f.ret st3 in
  ((s_pop (s_pop st4)), (app c0 (app c1 c2)))

(** val sp_funcs : func list -> sstate -> code list **)

let rec sp_funcs fs st =
  match fs with
  | [] -> []
  | f :: r -> let (st0, c) = sp_func f st in app c (sp_funcs r st0)

(** val sdeclare_consts : name list -> sstate -> sstate **)

let rec sdeclare_consts cs st =
  match cs with
  | [] -> st
  | c :: r -> sdeclare_consts r (fst (sdeclare c st))

(** val spec_program : name list -> func list -> code list **)

let spec_program consts fs =
  sp_funcs fs
    (sdeclare_consts consts { env = ([] :: []); snext = (Npos Coq_xH); seen =
      []; skipped = [] })
