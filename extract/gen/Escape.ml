open BinNat
open BinNums
open Datatypes
open List

(** val hex_digit_lower : coq_N -> coq_N **)

let hex_digit_lower d =
  if N.ltb d (Npos (Coq_xO (Coq_xI (Coq_xO Coq_xH))))
  then N.add (Npos (Coq_xO (Coq_xO (Coq_xO (Coq_xO (Coq_xI Coq_xH)))))) d
  else N.add (Npos (Coq_xI (Coq_xI (Coq_xI (Coq_xO (Coq_xI (Coq_xO
         Coq_xH))))))) d

(** val escape_default : coq_N -> coq_N list **)

let escape_default b =
  if N.eqb b (Npos (Coq_xI (Coq_xO (Coq_xO Coq_xH))))
  then (Npos (Coq_xO (Coq_xO (Coq_xI (Coq_xI (Coq_xI (Coq_xO
         Coq_xH))))))) :: ((Npos (Coq_xO (Coq_xO (Coq_xI (Coq_xO (Coq_xI
         (Coq_xI Coq_xH))))))) :: [])
  else if N.eqb b (Npos (Coq_xI (Coq_xO (Coq_xI Coq_xH))))
       then (Npos (Coq_xO (Coq_xO (Coq_xI (Coq_xI (Coq_xI (Coq_xO
              Coq_xH))))))) :: ((Npos (Coq_xO (Coq_xI (Coq_xO (Coq_xO (Coq_xI
              (Coq_xI Coq_xH))))))) :: [])
       else if N.eqb b (Npos (Coq_xO (Coq_xI (Coq_xO Coq_xH))))
            then (Npos (Coq_xO (Coq_xO (Coq_xI (Coq_xI (Coq_xI (Coq_xO
                   Coq_xH))))))) :: ((Npos (Coq_xO (Coq_xI (Coq_xI (Coq_xI
                   (Coq_xO (Coq_xI Coq_xH))))))) :: [])
            else if N.eqb b (Npos (Coq_xO (Coq_xO (Coq_xI (Coq_xI (Coq_xI
                      (Coq_xO Coq_xH)))))))
                 then (Npos (Coq_xO (Coq_xO (Coq_xI (Coq_xI (Coq_xI (Coq_xO
                        Coq_xH))))))) :: ((Npos (Coq_xO (Coq_xO (Coq_xI
                        (Coq_xI (Coq_xI (Coq_xO Coq_xH))))))) :: [])
                 else if N.eqb b (Npos (Coq_xI (Coq_xI (Coq_xI (Coq_xO
                           (Coq_xO Coq_xH))))))
                      then (Npos (Coq_xO (Coq_xO (Coq_xI (Coq_xI (Coq_xI
                             (Coq_xO Coq_xH))))))) :: ((Npos (Coq_xI (Coq_xI
                             (Coq_xI (Coq_xO (Coq_xO Coq_xH)))))) :: [])
                      else if N.eqb b (Npos (Coq_xO (Coq_xI (Coq_xO (Coq_xO
                                (Coq_xO Coq_xH))))))
                           then (Npos (Coq_xO (Coq_xO (Coq_xI (Coq_xI (Coq_xI
                                  (Coq_xO Coq_xH))))))) :: ((Npos (Coq_xO
                                  (Coq_xI (Coq_xO (Coq_xO (Coq_xO
                                  Coq_xH)))))) :: [])
                           else if (&&)
                                     (N.leb (Npos (Coq_xO (Coq_xO (Coq_xO
                                       (Coq_xO (Coq_xO Coq_xH)))))) b)
                                     (N.leb b (Npos (Coq_xO (Coq_xI (Coq_xI
                                       (Coq_xI (Coq_xI (Coq_xI Coq_xH))))))))
                                then b :: []
                                else (Npos (Coq_xO (Coq_xO (Coq_xI (Coq_xI
                                       (Coq_xI (Coq_xO
                                       Coq_xH))))))) :: ((Npos (Coq_xO
                                       (Coq_xO (Coq_xO (Coq_xI (Coq_xI
                                       (Coq_xI
                                       Coq_xH))))))) :: ((hex_digit_lower
                                                           (N.div b (Npos
                                                             (Coq_xO (Coq_xO
                                                             (Coq_xO (Coq_xO
                                                             Coq_xH))))))) :: (
                                       (hex_digit_lower
                                         (N.modulo b (Npos (Coq_xO (Coq_xO
                                           (Coq_xO (Coq_xO Coq_xH))))))) :: [])))

(** val escape_bytes : coq_N list -> coq_N list **)

let escape_bytes bs =
  flat_map escape_default bs

(** val rebuild_string : coq_N list -> coq_N list **)

let rebuild_string bs =
  (Npos (Coq_xO (Coq_xI (Coq_xO (Coq_xO (Coq_xO
    Coq_xH)))))) :: (app (escape_bytes bs) ((Npos (Coq_xO (Coq_xI (Coq_xO
                      (Coq_xO (Coq_xO Coq_xH)))))) :: []))

(** val rebuild_import : coq_N list -> coq_N list -> coq_N list **)

let rebuild_import indentation path =
  app indentation
    (app ((Npos (Coq_xI (Coq_xO (Coq_xO (Coq_xI (Coq_xO (Coq_xI
      Coq_xH))))))) :: ((Npos (Coq_xI (Coq_xO (Coq_xI (Coq_xI (Coq_xO (Coq_xI
      Coq_xH))))))) :: ((Npos (Coq_xO (Coq_xO (Coq_xO (Coq_xO (Coq_xI (Coq_xI
      Coq_xH))))))) :: ((Npos (Coq_xI (Coq_xI (Coq_xI (Coq_xI (Coq_xO (Coq_xI
      Coq_xH))))))) :: ((Npos (Coq_xO (Coq_xI (Coq_xO (Coq_xO (Coq_xI (Coq_xI
      Coq_xH))))))) :: ((Npos (Coq_xO (Coq_xO (Coq_xI (Coq_xO (Coq_xI (Coq_xI
      Coq_xH))))))) :: ((Npos (Coq_xO (Coq_xO (Coq_xO (Coq_xO (Coq_xO
      Coq_xH)))))) :: [])))))))
      (app (rebuild_string path) ((Npos (Coq_xI (Coq_xI (Coq_xO (Coq_xI
        (Coq_xI Coq_xH)))))) :: ((Npos (Coq_xO (Coq_xI (Coq_xO
        Coq_xH)))) :: []))))

(** val rebuild_const_string : coq_N list -> coq_N list **)

let rebuild_const_string bs =
  app ((Npos (Coq_xI (Coq_xI (Coq_xO (Coq_xO (Coq_xO (Coq_xI
    Coq_xH))))))) :: ((Npos (Coq_xI (Coq_xI (Coq_xI (Coq_xI (Coq_xO (Coq_xI
    Coq_xH))))))) :: ((Npos (Coq_xO (Coq_xI (Coq_xI (Coq_xI (Coq_xO (Coq_xI
    Coq_xH))))))) :: ((Npos (Coq_xI (Coq_xI (Coq_xO (Coq_xO (Coq_xI (Coq_xI
    Coq_xH))))))) :: ((Npos (Coq_xO (Coq_xO (Coq_xI (Coq_xO (Coq_xI (Coq_xI
    Coq_xH))))))) :: ((Npos (Coq_xO (Coq_xO (Coq_xO (Coq_xO (Coq_xO
    Coq_xH)))))) :: ((Npos (Coq_xI (Coq_xI (Coq_xO (Coq_xO (Coq_xI (Coq_xO
    Coq_xH))))))) :: ((Npos (Coq_xO (Coq_xI (Coq_xO (Coq_xI (Coq_xI
    Coq_xH)))))) :: ((Npos (Coq_xO (Coq_xO (Coq_xO (Coq_xO (Coq_xO
    Coq_xH)))))) :: ((Npos (Coq_xI (Coq_xI (Coq_xO (Coq_xI (Coq_xI (Coq_xO
    Coq_xH))))))) :: ((Npos (Coq_xI (Coq_xO (Coq_xI (Coq_xI (Coq_xI (Coq_xO
    Coq_xH))))))) :: ((Npos (Coq_xI (Coq_xI (Coq_xO (Coq_xO (Coq_xO (Coq_xI
    Coq_xH))))))) :: ((Npos (Coq_xO (Coq_xO (Coq_xO (Coq_xI (Coq_xO (Coq_xI
    Coq_xH))))))) :: ((Npos (Coq_xI (Coq_xO (Coq_xO (Coq_xO (Coq_xO (Coq_xI
    Coq_xH))))))) :: ((Npos (Coq_xO (Coq_xI (Coq_xO (Coq_xO (Coq_xI (Coq_xI
    Coq_xH))))))) :: ((Npos (Coq_xO (Coq_xO (Coq_xO (Coq_xI (Coq_xI
    Coq_xH)))))) :: ((Npos (Coq_xO (Coq_xO (Coq_xO (Coq_xO (Coq_xO
    Coq_xH)))))) :: ((Npos (Coq_xI (Coq_xO (Coq_xI (Coq_xI (Coq_xI
    Coq_xH)))))) :: ((Npos (Coq_xO (Coq_xO (Coq_xO (Coq_xO (Coq_xO
    Coq_xH)))))) :: [])))))))))))))))))))
    (app (rebuild_string bs) ((Npos (Coq_xI (Coq_xI (Coq_xO (Coq_xI (Coq_xI
      Coq_xH)))))) :: ((Npos (Coq_xO (Coq_xI (Coq_xO Coq_xH)))) :: [])))
