open BinNat
open BinNums
open List

type name = coq_N

type code = coq_N

(** val mem_name : name -> name list -> bool **)

let mem_name l ls =
  existsb (N.eqb l) ls
