open BinInt
open BinNat
open BinNums
open Common
open Datatypes
open List
open PeanoNat

type kind =
| KConstant
| KFunction
| KFunctionHead
| KStructure
| KImport of coq_N
| KPoison of code

type flags = { f_public : bool; f_external : bool; f_main : bool;
               f_forward : bool; f_opaque : bool }

type decl = { d_kind : kind; d_payload : coq_N; d_body : coq_N option;
              d_flags : flags }

type pmodule = coq_N * decl list

val dmod : pmodule

val decls_of : pmodule list -> nat -> decl list

val coq_E470 : code

val coq_E477 : code

val no_flags : flags

val is_import : decl -> bool

val extract_public : flags -> flags option

val export : decl -> decl option

val exports : decl list -> decl list

val import_key : decl -> coq_Z

val insert_stable : decl -> decl list -> decl list

val sort_imports_first : decl list -> decl list

val partition_point : (decl -> bool) -> decl list -> nat

val poison_of : code -> decl -> decl

val path_eqb : coq_N list -> coq_N list -> bool

val position_of : coq_N list -> coq_N list list -> nat option

val parent_of : coq_N list -> coq_N list option

val get_key_offset : coq_N list -> coq_N list list -> coq_N list -> nat option

val pair_eqb : (nat * nat) -> (nat * nat) -> bool

val pair_leb : (nat * nat) -> (nat * nat) -> bool

val mem_pair : (nat * nat) -> (nat * nat) list -> bool

val dedup : (nat * nat) list -> (nat * nat) list

val import_set : (nat * nat) list -> (nat * nat) list

val insert_pair : (nat * nat) -> (nat * nat) list -> (nat * nat) list

val sort_pairs : (nat * nat) list -> (nat * nat) list

val update_nth : nat -> (pmodule -> pmodule) -> pmodule list -> pmodule list

val splice_one : (nat * nat) -> pmodule list -> pmodule list

val splice_all : (nat * nat) list -> pmodule list -> pmodule list

val retain_nonimports : pmodule list -> pmodule list

val process_import :
  (coq_N -> coq_N -> nat option) -> (coq_N -> bool) -> nat -> coq_N -> decl
  -> decl * (nat * nat) list

val process_imports :
  (coq_N -> coq_N -> nat option) -> (coq_N -> bool) -> nat -> coq_N -> decl
  list -> decl list * (nat * nat) list

val phase1_module :
  (coq_N -> coq_N -> nat option) -> (coq_N -> bool) -> nat -> pmodule ->
  pmodule * (nat * nat) list

val phase1 :
  (coq_N -> coq_N -> nat option) -> (coq_N -> bool) -> nat -> pmodule list ->
  pmodule list * (nat * nat) list

val expand_order :
  (coq_N -> coq_N -> nat option) -> (coq_N -> bool) -> ((nat * nat) list ->
  (nat * nat) list) -> pmodule list -> pmodule list

val expand_sorted :
  (coq_N -> coq_N -> nat option) -> (coq_N -> bool) -> pmodule list ->
  pmodule list
