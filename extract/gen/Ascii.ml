open BinNat
open BinNums

type ascii =
| Ascii of bool * bool * bool * bool * bool * bool * bool * bool

(** val coq_N_of_digits : bool list -> coq_N **)

let rec coq_N_of_digits = function
| [] -> N0
| b :: l' ->
  N.add (if b then Npos Coq_xH else N0)
    (N.mul (Npos (Coq_xO Coq_xH)) (coq_N_of_digits l'))

(** val coq_N_of_ascii : ascii -> coq_N **)

let coq_N_of_ascii = function
| Ascii (a0, a1, a2, a3, a4, a5, a6, a7) ->
  coq_N_of_digits
    (a0 :: (a1 :: (a2 :: (a3 :: (a4 :: (a5 :: (a6 :: (a7 :: []))))))))
