open BinNums
open Common
open Datatypes
open List

type stmt =
| SSimple
| SGoto
| SLoop
| SPoison
| SIf of stmt * stmt option
| SBlock of stmt list

val coq_E800 : code

val coq_E801 : code

val coq_E840 : code

val coq_L1800 : code

type flags = { nt : bool; ne : bool; ib : bool }

val set_nt : flags -> bool -> flags

val set_ne : flags -> bool -> flags

val set_ib : flags -> bool -> flags

val an_stmt : bool -> stmt -> flags -> (flags * code list) * bool

val an_body : bool -> stmt list -> flags -> flags * code list

val init_flags : flags

val body_codes : bool -> stmt list -> code list

type lstate = { nb : bool; fs : bool }

val lint_stmt : stmt -> lstate -> lstate * code list

val lint_list : stmt list -> lstate -> lstate * code list

val lint_body : stmt list -> code list

type ctx =
| CBody
| COther
| CLast
| CThen
| CElse

val spec_stmt : ctx -> stmt -> code list

val spec_body : stmt list -> code list

val first_is_loop : stmt -> bool

val lint_spec : stmt -> code list

val lint_spec_body : stmt list -> code list
