open BinNat
open BinNums
open Common
open Datatypes
open List

(** val coq_E413 : code **)

let coq_E413 =
  Npos (Coq_xI (Coq_xO (Coq_xI (Coq_xI (Coq_xI (Coq_xO (Coq_xO (Coq_xI
    Coq_xH))))))))

(** val coq_E415 : code **)

let coq_E415 =
  Npos (Coq_xI (Coq_xI (Coq_xI (Coq_xI (Coq_xI (Coq_xO (Coq_xO (Coq_xI
    Coq_xH))))))))

(** val coq_E416 : code **)

let coq_E416 =
  Npos (Coq_xO (Coq_xO (Coq_xO (Coq_xO (Coq_xO (Coq_xI (Coq_xO (Coq_xI
    Coq_xH))))))))

(** val set_union : coq_N list -> coq_N list -> coq_N list **)

let set_union a b =
  app a (filter (fun x -> negb (mem_name x a)) b)

(** val set_insert : coq_N -> coq_N list -> coq_N list **)

let set_insert x a =
  if mem_name x a then a else app a (x :: [])

(** val set_diff : coq_N list -> coq_N list -> coq_N list **)

let set_diff a b =
  filter (fun x -> negb (mem_name x b)) a

type container = { c_id : coq_N; c_ids : coq_N list; c_struct : bool }

type state = container list

(** val init : (coq_N * bool) list -> state **)

let init cs =
  map (fun p -> { c_id = (fst p); c_ids = []; c_struct = (snd p) }) cs

(** val find_c : coq_N -> state -> container option **)

let rec find_c id = function
| [] -> None
| c :: rest -> if N.eqb c.c_id id then Some c else find_c id rest

(** val update_first : coq_N -> coq_N list -> state -> state **)

let rec update_first id ids = function
| [] -> []
| c :: rest ->
  if N.eqb c.c_id id
  then { c_id = c.c_id; c_ids = ids; c_struct = c.c_struct } :: rest
  else c :: (update_first id ids rest)

(** val propagate1 : coq_N -> coq_N list -> container -> container **)

let propagate1 cid tr o =
  if mem_name cid o.c_ids
  then { c_id = o.c_id; c_ids = (set_union o.c_ids tr); c_struct =
         o.c_struct }
  else o

(** val propagate : coq_N -> coq_N list -> state -> state **)

let propagate cid tr st =
  map (propagate1 cid tr) st

type result =
| Ok
| Poisoned
| Err of code
| Panic

(** val cycle_code : bool -> coq_N list -> state -> code **)

let cycle_code via_member cycle st =
  if via_member
  then if existsb (fun x -> (&&) (negb x.c_struct) (mem_name x.c_id cycle)) st
       then coq_E416
       else coq_E415
  else coq_E413

(** val found1 : bool -> coq_N -> coq_N -> state -> state * result **)

let found1 via_member cid eid st =
  match find_c eid st with
  | Some e ->
    let tr = set_insert eid e.c_ids in
    (match find_c cid st with
     | Some c ->
       if mem_name cid c.c_ids
       then (st, Poisoned)
       else let ids' = set_union c.c_ids tr in
            let st1 = update_first cid ids' st in
            if mem_name cid ids'
            then (st1, (Err (cycle_code via_member ids' st1)))
            else ((propagate cid tr st1), Ok)
     | None -> (st, Panic))
  | None -> (st, Panic)

type edge = (coq_N * coq_N) * bool

(** val process : edge list -> state -> state * result list **)

let rec process edges st =
  match edges with
  | [] -> (st, [])
  | e0 :: rest ->
    let (p, m) = e0 in
    let (c, e) = p in
    let (st1, r) = found1 m c e st in
    let (st2, rs) = process rest st1 in (st2, (r :: rs))

(** val codes_of : result list -> code list **)

let codes_of rs =
  flat_map (fun r -> match r with
                     | Err c -> c :: []
                     | _ -> []) rs

type dcont = { d_id : coq_N; d_rem : coq_N list; d_depth : coq_N option }

(** val is_ready : dcont -> bool **)

let is_ready d =
  match d.d_depth with
  | Some _ -> false
  | None -> (match d.d_rem with
             | [] -> true
             | _ :: _ -> false)

(** val mark : coq_N -> dcont -> dcont **)

let mark k d =
  if is_ready d
  then { d_id = d.d_id; d_rem = d.d_rem; d_depth = (Some k) }
  else d

(** val resolved_ids : dcont list -> coq_N list **)

let resolved_ids ds =
  map (fun d -> d.d_id) (filter is_ready ds)

(** val subtract : coq_N list -> dcont -> dcont **)

let subtract res d =
  { d_id = d.d_id; d_rem = (set_diff d.d_rem res); d_depth = d.d_depth }

(** val depth_loop : nat -> coq_N -> dcont list -> dcont list **)

let rec depth_loop fuel k ds =
  match fuel with
  | O -> ds
  | S f ->
    let res = resolved_ids ds in
    let ds1 = map (mark k) ds in
    (match res with
     | [] -> ds1
     | _ :: _ -> depth_loop f (N.succ k) (map (subtract res) ds1))

(** val depths : state -> (coq_N * coq_N option) list **)

let depths st =
  map (fun d -> (d.d_id, d.d_depth))
    (depth_loop (length st) N0
      (map (fun c -> { d_id = c.c_id; d_rem = c.c_ids; d_depth = None }) st))

(** val run :
    (coq_N * bool) list -> edge list -> (coq_N * coq_N option) list * code
    list **)

let run cs edges =
  let (st, rs) = process edges (init cs) in ((depths st), (codes_of rs))
