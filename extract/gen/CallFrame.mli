open BinInt
open BinNat
open BinNums
open Common
open Datatypes
open Layout
open List
open MemLower
open Mutability
open Nat

type bkind =
| KParam
| KLocal
| KConst

type bstore =
| SAddr of coq_Z
| SImm of coq_Z
| SImmSlice of coq_Z * coq_Z

type binding = { b_kind : bkind; b_ty : MemLower.pty; b_store : bstore }

type frame = binding list

val base_loc : binding -> loc option

val arg_value : MemLower.pty -> coq_Z -> binding

val arg_view : coq_Z -> MemLower.pty -> binding

val arg_slice : coq_Z -> coq_Z -> MemLower.pty -> binding

val arg_pointer : coq_Z -> MemLower.pty -> binding

val arg_slice_pointer : coq_Z -> coq_Z -> MemLower.pty -> binding

val local_var : coq_Z -> MemLower.pty -> binding

val constant : coq_Z -> MemLower.pty -> binding

type reference = { r_base : nat; r_path : path; r_ad : nat }

val ptr_depth : MemLower.pty -> nat

val strip_ptrs : nat -> MemLower.pty -> MemLower.pty

val elab_assign :
  MemLower.pty -> path -> nat -> (MemLower.rstep list * MemLower.pty) option

type stmt =
| SSetConst of reference * coq_Z
| SCopy of reference * reference
| SSetAddr of reference * reference

val step_defined : loc -> coq_Z option -> MemLower.rstep -> bool

val next_slen : loc -> MemLower.rstep -> coq_Z option

val sem_checked :
  mem -> loc -> coq_Z option -> MemLower.rstep list -> loc option

val ref_loc : mem -> frame -> reference -> (coq_Z * lt) option

val is_data : lt -> bool

val read_scalar : mem -> frame -> reference -> coq_Z option

val lt_eqb : lt -> lt -> bool

val src_ad : frame -> reference -> nat

val addr_of : mem -> frame -> reference -> (coq_Z * lt) option

val exec_stmt : mem -> frame -> stmt -> mem option

val exec_body : mem -> frame -> stmt list -> mem option

val to_mty : MemLower.pty -> mty

val cons_step :
  rstep -> (rstep list * MemLower.pty) option -> (rstep list * MemLower.pty)
  option

val mut_chain :
  MemLower.pty -> MemLower.rstep list -> (rstep list * MemLower.pty) option

val to_mut_ref_at :
  frame -> reference -> nat -> coq_N -> Mutability.reference option

val to_mut_ref : frame -> reference -> Mutability.reference option

val to_mut_stmt : frame -> stmt -> Mutability.stmt option

val declare_binding : menv -> nat -> binding -> menv

val frame_menv_from : nat -> frame -> menv -> menv

val frame_menv : frame -> menv

val coq_E_NOT_ELABORATED : code

val stmt_codes : frame -> stmt -> code list

val accepted : frame -> stmt -> bool

val body_codes : frame -> stmt list -> code list

val accepted_body : frame -> stmt list -> bool

type range = coq_Z * coq_Z

val in_range : coq_Z -> range -> bool

val in_ranges : coq_Z -> range list -> bool

val obj_range : coq_Z -> lt -> range

val pointees : mem -> lt -> coq_Z -> range list

val binding_ranges : bool -> mem -> binding -> range list

val allowed : bool -> mem -> frame -> range list

val cell_eqb : cell -> cell -> bool

val range_addrs : range -> coq_Z list

val changed : mem -> mem -> range list -> coq_Z list

val mem_of : ((coq_Z * ty) * value) list -> mem -> mem

type case_result =
| CaseRejected of code list
| CaseUndefined
| CaseRan of coq_Z list * coq_Z list * coq_Z list

val run_frame_case :
  frame -> ((coq_Z * ty) * value) list -> stmt list -> range list -> bool ->
  case_result
