open BinInt
open BinNat
open BinNums
open Datatypes
open IR
open Tok

val in_range : coq_N -> coq_N -> coq_N -> bool

val is_lower : coq_N -> bool

val is_upper : coq_N -> bool

val is_dec : coq_N -> bool

val is_nonzero_dec : coq_N -> bool

val is_hex : coq_N -> bool

val is_bin : coq_N -> bool

val is_ident_start : coq_N -> bool

val is_ident_cont : coq_N -> bool

val is_ascii_graphic : coq_N -> bool

val is_ascii : coq_N -> bool

val digit_val : coq_N -> coq_Z

val keyword_table : (coq_N list * tkind) list

val bool_table : (coq_N list * coq_Z) list

val type_table : (coq_N list * tykw) list

val suffix_table : (coq_N list * prim) list

val escape_table : (coq_N * coq_N) list

val str_eqb : coq_N list -> coq_N list -> bool

val assoc : coq_N list -> (coq_N list * 'a1) list -> 'a1 option

val assoc_char : coq_N -> (coq_N * coq_N) list -> coq_N option

val len : coq_N list -> coq_N

val coq_U128_LIMIT : coq_Z

val coq_U32_LIMIT : coq_Z

val parse_acc : coq_Z -> coq_Z -> coq_Z -> coq_N list -> coq_Z option

val from_str_radix : coq_Z -> coq_Z -> coq_N list -> coq_Z option

val parse_integer_suffix : coq_N list -> prim option

val take_ident : coq_N list -> coq_N list * coq_N list

val take_digits :
  (coq_N -> bool) -> coq_N list -> (coq_N list * coq_N) * coq_N list

val take_uhex : coq_N list -> ((coq_N list * bool) * coq_N) * coq_N list

type step =
| StEnd
| StSkip
| StTok of tkind * coq_Z * tykw option * coq_N list * coq_N * coq_N list
| StStrErr of coq_Z * coq_N * coq_N * coq_N * coq_N * coq_N * coq_N list

type payload = (tkind * coq_Z) * tykw option

val classify_word : coq_N list -> payload option

val lex_word : coq_N -> coq_N list -> step

val is_nil : coq_N list -> bool

val finish_number :
  bool -> coq_Z option -> coq_N list -> coq_N list -> payload

val lex_radix : (coq_N -> bool) -> coq_Z -> coq_N -> coq_N list -> step

val lex_zero : coq_N list -> step

val lex_decimal : coq_N -> coq_N list -> step

val utf8 : coq_N -> coq_N list

val is_scalar : coq_Z -> bool

val parse_unicode : coq_N list -> coq_N option

val esc_step :
  coq_N list -> (((coq_N list * coq_Z option) * coq_N) * coq_N) * coq_N list

type strerr = ((coq_Z * coq_N) * coq_N) * coq_N

type strres = { sr_bytes : coq_N list; sr_closed : bool;
                sr_err : strerr option; sr_soe : coq_N; sr_eolo : coq_N;
                sr_chars : coq_N; sr_rest : coq_N list }

val coq_OOF : coq_Z

val sr_cons : coq_N list -> strerr option -> coq_N -> strres -> strres

val str_loop : nat -> coq_N -> coq_N -> coq_N -> coq_N list -> strres

val lex_quote : coq_N -> coq_N list -> step

val single : tkind -> coq_N list -> step

val double : coq_N -> tkind -> tkind -> coq_N list -> step

val lex_step : coq_N -> coq_N list -> step

val mk :
  tkind -> coq_Z -> tykw option -> coq_N list -> coq_N -> coq_N -> coq_N ->
  coq_N -> tok

val lex_line_fuel : nat -> coq_N -> coq_N -> coq_N -> coq_N list -> tok list

val lex_line : coq_N list -> coq_N -> coq_N -> tok list

val lines_of : coq_N list -> coq_N list list

val lex_lines : coq_N list list -> coq_N -> coq_N -> tok list

val zero_byte_tok : tok

val lex_alpha : coq_N list -> tok list

val lines_term : coq_N list -> (coq_N list * coq_N) list

val lex_lines_fixed : (coq_N list * coq_N) list -> coq_N -> coq_N -> tok list

val lex_alpha_fixed : coq_N list -> tok list
