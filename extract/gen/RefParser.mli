open Ascii
open BinInt
open BinNat
open BinNums
open Common
open Datatypes
open IR
open List
open PeanoNat
open String
open Tok

type ty =
| TVoid
| TPrim of prim
| TNamed of name
| TArray of coq_Z * ty
| TArrayNamed of name * ty
| TSlice of ty
| TEndless of ty
| TArraylike of ty
| TPointer of ty
| TView of ty

type expr =
| EBinary of binop * expr * expr
| EUnary of unop * expr
| EBool of bool
| ESigned of coq_Z * prim option
| EBits of coq_Z * prim option
| EString of coq_N list
| EArray of expr list
| EStructural of name * (name * expr) list
| EParen of expr
| EDeref of reference
| EBitCast of expr
| ETypeCast of expr * ty
| ELength of reference
| ESizeOf of ty
| ECall of bool * name * expr list
and reference =
| Ref of coq_N * name * step list
and step =
| RsElement of expr
| RsMember of name

type stmt =
| StVar of name * ty option * expr option
| StAssign of reference * expr
| StCall of bool * name * expr list
| StLoop
| StGoto of name
| StLabel of name
| StIf of cmpop * expr * expr * stmt * stmt option
| StBlock of stmt list

type fbody = stmt list * expr option

type skind =
| SkStruct
| SkOpaque
| SkWord8
| SkWord16
| SkWord32
| SkWord64
| SkWord128

type decl =
| DImport of coq_N list
| DConst of bool * bool * name * ty * expr
| DFn of bool * bool * name * (name * ty) list * ty * fbody option
| DStruct of bool * bool * skind * name * (name * ty) list

val name_return : name

val coq_MAX_ADDRESS_DEPTH : coq_N

val coq_MAX_REFERENCE_DEPTH : nat

val i128_max : coq_Z

val i128_min_abs : coq_Z

val u128_lim : coq_Z

val usize_lim : coq_Z

val mk : tkind -> coq_Z -> tykw option -> coq_N list -> tok

val tk : tkind -> tok

val tk_id : name -> tok

val tk_builtin : name -> tok

val tok_name : tok -> name

val hdk : tok list -> tkind

val isParenLeft : tkind -> bool

val isParenRight : tkind -> bool

val isBraceLeft : tkind -> bool

val isBraceRight : tkind -> bool

val isBracketLeft : tkind -> bool

val isBracketRight : tkind -> bool

val isPipe : tkind -> bool

val isSemicolon : tkind -> bool

val isAssignment : tkind -> bool

val isColon : tkind -> bool

val isComma : tkind -> bool

val isElse : tkind -> bool

val isArrow : tkind -> bool

val isDots : tkind -> bool

val isDot : tkind -> bool

val isAs : tkind -> bool

val isCast : tkind -> bool

val isAmpersand : tkind -> bool

val isString : tkind -> bool

val isPub : tkind -> bool

val isExtern : tkind -> bool

val isIdentifier : tkind -> bool

val expect : (tkind -> bool) -> tok list -> tok list option

val expect_id : tok list -> (name * tok list) option

val addop_of : tkind -> binop option

val mulop_of : tkind -> binop option

val bitop_of : tkind -> binop option

val shiftop_of : tkind -> binop option

val cmpop_of : tkind -> cmpop option

val binop_eqb : binop -> binop -> bool

val same_bitop : binop -> tkind -> bool

val is_binary : expr -> bool

val prim_signed : prim -> bool

val can_be_element : ty -> bool

val ty_wf_inner : ty -> bool

val ty_wellformed : ty -> bool

val parse_inner_type : nat -> tok list -> (ty * tok list) option

val parse_wellformed_type : nat -> tok list -> (ty * tok list) option

val as_loop : nat -> expr -> tok list -> (expr * tok list) option

val take_strings : tok list -> coq_N list * tok list

val count_amps : tok list -> coq_N * tok list

val literal_of : tok -> expr option

val is_close : bool -> tkind -> bool

val parse_addition : nat -> bool -> tok list -> (expr * tok list) option

val add_loop : nat -> bool -> expr -> tok list -> (expr * tok list) option

val bit_loop :
  nat -> bool -> binop -> expr -> tok list -> (expr * tok list) option

val parse_multiplication : nat -> bool -> tok list -> (expr * tok list) option

val mul_loop : nat -> bool -> expr -> tok list -> (expr * tok list) option

val parse_singular : nat -> bool -> tok list -> (expr * tok list) option

val parse_unary : nat -> bool -> tok list -> (expr * tok list) option

val parse_primary : nat -> bool -> tok list -> (expr * tok list) option

val expr_list :
  nat -> bool -> bool -> tok list -> (expr list * tok list) option

val members_loop :
  nat -> bool -> tok list -> ((name * expr) list * tok list) option

val parse_reference : nat -> bool -> tok list -> (reference * tok list) option

val steps_loop :
  nat -> bool -> nat -> tok list -> (step list * tok list) option

val parse_expr : nat -> tok list -> (expr * tok list) option

val parse_addressed_reference :
  nat -> bool -> tok list -> (reference * tok list) option

val parse_arguments : nat -> tok list -> (expr list * tok list) option

val parse_comparison :
  nat -> tok list -> (((cmpop * expr) * expr) * tok list) option

val parse_assign_tail : nat -> tok list -> (expr * tok list) option

val parse_statement : nat -> tok list -> (stmt * tok list) option

val block_loop : nat -> tok list -> (stmt list * tok list) option

val is_return_label : stmt -> bool

val body_loop : nat -> tok list -> (fbody * tok list) option

val parse_typed_name : nat -> tok list -> ((name * ty) * tok list) option

val is_close_tn : bool -> tkind -> bool

val typed_names :
  nat -> bool -> tok list -> ((name * ty) list * tok list) option

val parse_struct_members :
  nat -> tok list -> ((name * ty) list * tok list) option

val word_kind : tkind -> skind option

val is_cont : coq_N -> bool

val in_rng : coq_N -> coq_N -> coq_N -> bool

val utf8_valid : coq_N list -> bool

val parse_declaration_rest :
  nat -> bool -> bool -> tok list -> (decl * tok list) option

val parse_declaration : nat -> tok list -> (decl * tok list) option

val decls_loop : nat -> nat -> tok list -> decl list option

val parse_module : nat -> tok list -> decl list option

val tk_type : tykw -> tok

val print_type : ty -> tok list

val kind_of_binop : binop -> tkind

val kind_of_unop : unop -> tkind

val kind_of_cmpop : cmpop -> tkind

val tk_sint : coq_Z -> prim option -> tok

val tk_bits : coq_Z -> prim option -> tok

val print_sep : ('a1 -> tok list) -> 'a1 list -> tok list

val print_expr : expr -> tok list

val print_ref : reference -> tok list

val print_step : step -> tok list

val print_args : bool -> name -> expr list -> tok list

val print_stmt : stmt -> tok list

val print_body : fbody -> tok list

val print_typed_name : (name * ty) -> tok list

val print_flags : bool -> bool -> tok list

val kind_of_skind : skind -> tkind

val is_tvoid : ty -> bool

val print_decl : decl -> tok list

val print_module : decl list -> tok list

val tok_ok : tok -> bool

val toks_ok : tok list -> bool

val ty_rng : ty -> bool

val ty_ok : ty -> bool

val lvl : expr -> nat

val is_none : 'a1 option -> bool

val pstop : bool -> tkind -> bool

val stopl : nat -> bool -> tkind -> bool

val top_stop : bool -> expr -> tkind -> bool

val redge : bool -> expr -> tkind -> bool

val estop : bool -> expr -> tkind -> bool

val is_pos_signed : expr -> bool

val lit_type_ok_signed : prim option -> bool

val lit_type_ok_min : prim option -> bool

val lit_type_ok_bits : coq_Z -> prim option -> bool

val wf_expr : bool -> expr -> bool

val wf_ref : bool -> reference -> bool

val wf_step : bool -> step -> bool

val open_if : stmt -> bool

val first_kind_stmt : stmt -> tkind

val opt_ok : ('a1 -> bool) -> 'a1 option -> bool

val wf_stmt : stmt -> bool

val body_shape : stmt list -> bool -> bool

val wf_body : fbody -> bool

val wf_typed_name : (name * ty) -> bool

val wf_decl : decl -> bool

val wf_module : decl list -> bool

val s2l : string -> coq_N list

val dec_digits : nat -> coq_N -> coq_N list -> coq_N list

val show_N : coq_N -> coq_N list

val show_Z : coq_Z -> coq_N list

val show_name : name -> coq_N list

val sx : string -> coq_N list list -> coq_N list

val none_atom : coq_N list

val show_opt : ('a1 -> coq_N list) -> 'a1 option -> coq_N list

val show_prim : prim -> coq_N list

val show_type : ty -> coq_N list

val show_binop : binop -> coq_N list

val show_unop : unop -> coq_N list

val show_cmpop : cmpop -> coq_N list

val show_expr : expr -> coq_N list

val show_ref : reference -> coq_N list

val show_step : step -> coq_N list

val show_stmt : stmt -> coq_N list

val show_flags : bool -> bool -> coq_N list

val show_typed_name : (name * ty) -> coq_N list

val show_skind : skind -> string

val show_decl : decl -> coq_N list

val show_module : decl list -> coq_N list
