open BinInt
open BinNums
open Datatypes
open IR

(** val modulus : coq_Z -> coq_Z **)

let modulus w =
  Z.pow (Zpos (Coq_xO Coq_xH)) w

(** val repr : coq_Z -> coq_Z -> coq_Z **)

let repr w v =
  Z.modulo v (modulus w)

(** val sgn : coq_Z -> coq_Z -> coq_Z **)

let sgn w b =
  if Z.ltb b (Z.pow (Zpos (Coq_xO Coq_xH)) (Z.sub w (Zpos Coq_xH)))
  then b
  else Z.sub b (modulus w)

(** val value_of : bool -> coq_Z -> coq_Z -> coq_Z **)

let value_of signed w b =
  if signed then sgn w b else b

(** val wrap : bool -> coq_Z -> coq_Z -> coq_Z **)

let wrap signed w v =
  value_of signed w (repr w v)

(** val ir_binop : instr -> coq_Z -> coq_Z -> coq_Z -> coq_Z option **)

let ir_binop i w a b =
  match i with
  | IAdd -> Some (repr w (Z.add a b))
  | ISub -> Some (repr w (Z.sub a b))
  | IMul -> Some (repr w (Z.mul a b))
  | ISDiv ->
    if (||) (Z.eqb b Z0)
         ((&&)
           (Z.eqb (sgn w a)
             (Z.opp (Z.pow (Zpos (Coq_xO Coq_xH)) (Z.sub w (Zpos Coq_xH)))))
           (Z.eqb (sgn w b) (Zneg Coq_xH)))
    then None
    else Some (repr w (Z.quot (sgn w a) (sgn w b)))
  | IUDiv -> if Z.eqb b Z0 then None else Some (Z.div a b)
  | ISRem ->
    if (||) (Z.eqb b Z0)
         ((&&)
           (Z.eqb (sgn w a)
             (Z.opp (Z.pow (Zpos (Coq_xO Coq_xH)) (Z.sub w (Zpos Coq_xH)))))
           (Z.eqb (sgn w b) (Zneg Coq_xH)))
    then None
    else Some (repr w (Z.rem (sgn w a) (sgn w b)))
  | IURem -> if Z.eqb b Z0 then None else Some (Z.modulo a b)
  | IAnd -> Some (repr w (Z.coq_land a b))
  | IOr -> Some (repr w (Z.coq_lor a b))
  | IXor -> Some (repr w (Z.coq_lxor a b))
  | IShl ->
    if Z.ltb b w
    then Some (repr w (Z.mul a (Z.pow (Zpos (Coq_xO Coq_xH)) b)))
    else None
  | ILShr ->
    if Z.ltb b w
    then Some (Z.div a (Z.pow (Zpos (Coq_xO Coq_xH)) b))
    else None
  | IAShr ->
    if Z.ltb b w
    then Some (repr w (Z.div (sgn w a) (Z.pow (Zpos (Coq_xO Coq_xH)) b)))
    else None
  | _ -> None

(** val ir_unop : instr -> coq_Z -> coq_Z -> coq_Z option **)

let ir_unop i w a =
  match i with
  | INeg -> Some (repr w (Z.opp a))
  | INot -> Some (repr w (Z.sub (Z.sub (modulus w) (Zpos Coq_xH)) a))
  | _ -> None

(** val ir_icmp : pred -> coq_Z -> coq_Z -> coq_Z -> bool **)

let ir_icmp p w a b =
  match p with
  | PEq -> Z.eqb a b
  | PNe -> negb (Z.eqb a b)
  | PSgt -> Z.gtb (sgn w a) (sgn w b)
  | PUgt -> Z.gtb a b
  | PSlt -> Z.ltb (sgn w a) (sgn w b)
  | PUlt -> Z.ltb a b
  | PSge -> Z.geb (sgn w a) (sgn w b)
  | PUge -> Z.geb a b
  | PSle -> Z.leb (sgn w a) (sgn w b)
  | PUle -> Z.leb a b

(** val ir_cast : cast -> coq_Z -> coq_Z -> coq_Z -> coq_Z **)

let ir_cast c ws wd a =
  match c with
  | CTrunc -> Z.modulo a (modulus wd)
  | CSExt -> repr wd (sgn ws a)
  | _ -> a
