open BinNat
open BinNums
open Common
open Datatypes
open List
open PeanoNat

type stmt =
| SAct of coq_N
| SGoto of coq_N
| SLabel of coq_N
| SIf of coq_N * stmt * stmt option
| SBlock of stmt list
| SLoop

(** val is_loop : stmt -> bool **)

let is_loop = function
| SLoop -> true
| _ -> false

(** val is_nil : 'a1 list -> bool **)

let is_nil = function
| [] -> true
| _ :: _ -> false

(** val ends_in_loop : stmt list -> bool **)

let rec ends_in_loop = function
| [] -> false
| s :: r -> (match r with
             | [] -> is_loop s
             | _ :: _ -> ends_in_loop r)

type tag =
| Entry
| Looped
| AfterLooped
| Unreachable
| Lbl of coq_N
| Then_
| Else_
| After

type instr =
| IAct of coq_N
| ICmp of coq_N
| IBr of coq_N
| ICondBr of coq_N * coq_N * coq_N
| IRet

type block = { btag : tag; binstrs : instr list }

type bstate = { blocks : block list; cur : coq_N; lmap : (coq_N * coq_N) list }

(** val next_id : block list -> coq_N **)

let next_id bs =
  N.of_nat (length bs)

(** val emit_nth : nat -> instr -> block list -> block list **)

let rec emit_nth n x = function
| [] -> []
| b :: r ->
  (match n with
   | O -> { btag = b.btag; binstrs = (app b.binstrs (x :: [])) } :: r
   | S n' -> b :: (emit_nth n' x r))

(** val emit_at : coq_N -> instr -> bstate -> bstate **)

let emit_at i x s =
  { blocks = (emit_nth (N.to_nat i) x s.blocks); cur = s.cur; lmap = s.lmap }

(** val emit : instr -> bstate -> bstate **)

let emit x s =
  emit_at s.cur x s

(** val set_cur : coq_N -> bstate -> bstate **)

let set_cur i s =
  { blocks = s.blocks; cur = i; lmap = s.lmap }

(** val append_block : tag -> bstate -> coq_N * bstate **)

let append_block t s =
  ((next_id s.blocks), { blocks =
    (app s.blocks ({ btag = t; binstrs = [] } :: [])); cur = s.cur; lmap =
    s.lmap })

(** val lookup_label : coq_N -> (coq_N * coq_N) list -> coq_N option **)

let rec lookup_label l = function
| [] -> None
| p :: r -> let (l', i) = p in if N.eqb l l' then Some i else lookup_label l r

(** val find_or_append : coq_N -> bstate -> coq_N * bstate **)

let find_or_append l s =
  match lookup_label l s.lmap with
  | Some i -> (i, s)
  | None ->
    let (i, s1) = append_block (Lbl l) s in
    (i, { blocks = s1.blocks; cur = s1.cur; lmap = ((l, i) :: s1.lmap) })

(** val lower_stmt : stmt -> bstate -> bstate option **)

let rec lower_stmt s b =
  match s with
  | SAct a -> Some (emit (IAct a) b)
  | SGoto l ->
    let c0 = b.cur in
    let (u, b1) = append_block Unreachable b in
    let (lb, b2) = find_or_append l b1 in
    Some (set_cur u (emit_at c0 (IBr lb) b2))
  | SLabel l ->
    let c0 = b.cur in
    let (lb, b1) = find_or_append l b in
    Some (set_cur lb (emit_at c0 (IBr lb) b1))
  | SIf (c, t, e) ->
    let b0 = emit (ICmp c) b in
    let cb = b0.cur in
    let (th, b1) = append_block Then_ b0 in
    (match lower_stmt t (set_cur th b1) with
     | Some b2 ->
       let te = b2.cur in
       (match e with
        | Some e' ->
          let (el, b3) = append_block Else_ b2 in
          (match lower_stmt e' (set_cur el b3) with
           | Some b4 ->
             let ee = b4.cur in
             let (af, b5) = append_block After b4 in
             Some
             (set_cur af
               (emit_at cb (ICondBr (c, th, el))
                 (emit_at ee (IBr af) (emit_at te (IBr af) b5))))
           | None -> None)
        | None ->
          let (af, b3) = append_block After b2 in
          Some
          (set_cur af
            (emit_at cb (ICondBr (c, th, af)) (emit_at te (IBr af) b3))))
     | None -> None)
  | SBlock ss ->
    let go =
      let rec go ss0 b0 =
        match ss0 with
        | [] -> Some b0
        | s0 :: r ->
          if (&&) (is_loop s0) (is_nil r)
          then Some b0
          else (match lower_stmt s0 b0 with
                | Some b1 -> go r b1
                | None -> None)
      in go
    in
    if ends_in_loop ss
    then let (lp, b1) = append_block Looped b in
         (match go ss (set_cur lp (emit_at b.cur (IBr lp) b1)) with
          | Some b2 ->
            let b3 = emit (IBr lp) b2 in
            let (al, b4) = append_block AfterLooped b3 in Some (set_cur al b4)
          | None -> None)
    else go ss b
  | SLoop -> None

(** val lower_list : stmt list -> bstate -> bstate option **)

let rec lower_list ss b =
  match ss with
  | [] -> Some b
  | s :: r ->
    (match lower_stmt s b with
     | Some b1 -> lower_list r b1
     | None -> None)

(** val init_state : bstate **)

let init_state =
  { blocks = ({ btag = Entry; binstrs = [] } :: []); cur = N0; lmap = [] }

(** val lower_body_state : stmt list -> bstate option **)

let lower_body_state body =
  match lower_list body init_state with
  | Some b -> Some (emit IRet b)
  | None -> None

type cfg = block list

(** val lower_body : stmt list -> cfg option **)

let lower_body body =
  match lower_body_state body with
  | Some b -> Some b.blocks
  | None -> None

type term =
| TBr of coq_N
| TCondBr of coq_N * coq_N * coq_N
| TRet
| TNone

(** val is_term : instr -> bool **)

let is_term = function
| IAct _ -> false
| ICmp _ -> false
| _ -> true

(** val acts_of : instr list -> coq_N list **)

let rec acts_of = function
| [] -> []
| i :: r ->
  (match i with
   | IAct a -> a :: (acts_of r)
   | ICmp _ -> acts_of r
   | _ -> [])

(** val term_of : instr list -> term **)

let rec term_of = function
| [] -> TNone
| i :: r ->
  (match i with
   | IBr b -> TBr b
   | ICondBr (c, b1, b2) -> TCondBr (c, b1, b2)
   | IRet -> TRet
   | _ -> term_of r)

(** val view_block : block -> (tag * coq_N list) * term **)

let view_block b =
  ((b.btag, (acts_of b.binstrs)), (term_of b.binstrs))

(** val cfg_view : cfg -> ((tag * coq_N list) * term) list **)

let cfg_view g =
  map view_block g

(** val target_ok : coq_N -> instr -> bool **)

let target_ok n = function
| IBr b -> N.ltb b n
| ICondBr (_, b1, b2) -> (&&) (N.ltb b1 n) (N.ltb b2 n)
| _ -> true

(** val instrs_wfb : coq_N -> instr list -> bool **)

let rec instrs_wfb n = function
| [] -> false
| i :: r ->
  (match r with
   | [] -> (&&) (is_term i) (target_ok n i)
   | _ :: _ -> (&&) (negb (is_term i)) (instrs_wfb n r))

(** val tag_eqb : tag -> tag -> bool **)

let tag_eqb a b =
  match a with
  | Entry -> (match b with
              | Entry -> true
              | _ -> false)
  | Looped -> (match b with
               | Looped -> true
               | _ -> false)
  | AfterLooped -> (match b with
                    | AfterLooped -> true
                    | _ -> false)
  | Unreachable -> (match b with
                    | Unreachable -> true
                    | _ -> false)
  | Lbl x -> (match b with
              | Lbl y -> N.eqb x y
              | _ -> false)
  | Then_ -> (match b with
              | Then_ -> true
              | _ -> false)
  | Else_ -> (match b with
              | Else_ -> true
              | _ -> false)
  | After -> (match b with
              | After -> true
              | _ -> false)

(** val count_tag : tag -> cfg -> nat **)

let count_tag t g =
  length (filter (fun b -> tag_eqb b.btag t) g)

(** val cfg_wfb : cfg -> bool **)

let cfg_wfb g =
  (&&)
    ((&&) (forallb (fun b -> instrs_wfb (next_id g) b.binstrs) g)
      (match g with
       | [] -> false
       | b :: _ -> tag_eqb b.btag Entry)) (Nat.eqb (count_tag Entry g) (S O))

(** val labels_of : stmt -> coq_N list **)

let rec labels_of = function
| SLabel l -> l :: []
| SIf (_, t, e) ->
  app (labels_of t) (match e with
                     | Some e' -> labels_of e'
                     | None -> [])
| SBlock ss ->
  let rec go = function
  | [] -> []
  | s0 :: r -> app (labels_of s0) (go r)
  in go ss
| _ -> []

(** val labels_list : stmt list -> coq_N list **)

let rec labels_list = function
| [] -> []
| s :: r -> app (labels_of s) (labels_list r)

(** val loops_ok : stmt -> bool **)

let rec loops_ok = function
| SIf (_, t, e) ->
  (&&) (loops_ok t) (match e with
                     | Some e' -> loops_ok e'
                     | None -> true)
| SBlock ss ->
  let rec go = function
  | [] -> true
  | s0 :: r ->
    if (&&) (is_loop s0) (is_nil r) then true else (&&) (loops_ok s0) (go r)
  in go ss
| SLoop -> false
| _ -> true

(** val loops_ok_list : stmt list -> bool **)

let rec loops_ok_list = function
| [] -> true
| s :: r -> (&&) (loops_ok s) (loops_ok_list r)

(** val nodupb : coq_N list -> bool **)

let rec nodupb = function
| [] -> true
| x :: r -> (&&) (negb (mem_name x r)) (nodupb r)

(** val direct_labels : stmt list -> coq_N list **)

let rec direct_labels = function
| [] -> []
| s :: r ->
  (match s with
   | SLabel l -> l :: (direct_labels r)
   | _ -> direct_labels r)

(** val legal_stmt : stmt -> coq_N list -> bool **)

let rec legal_stmt s v =
  match s with
  | SGoto l -> mem_name l v
  | SIf (_, t, e) ->
    (&&) (legal_stmt t v)
      (match e with
       | Some e' -> legal_stmt e' v
       | None -> true)
  | SBlock ss ->
    let rec go = function
    | [] -> true
    | s0 :: r -> (&&) (legal_stmt s0 (app (direct_labels r) v)) (go r)
    in go ss
  | _ -> true

(** val legal_list : stmt list -> coq_N list -> bool **)

let rec legal_list ss v =
  match ss with
  | [] -> true
  | s :: r -> (&&) (legal_stmt s (app (direct_labels r) v)) (legal_list r v)

(** val accepted : stmt list -> bool **)

let accepted body =
  (&&) ((&&) (nodupb (labels_list body)) (legal_list body []))
    (loops_ok_list body)
