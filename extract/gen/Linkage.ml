
type linkage =
| LExternal
| LPrivate
| LInternal

type callconv =
| CC_C
| CC_Fast

(** val linkage_of : bool -> bool -> bool -> bool -> bool -> linkage **)

let linkage_of is_public _ is_main is_forward _ =
  if (||) ((||) is_public is_main) is_forward then LExternal else LPrivate

(** val callconv_of : bool -> bool -> bool -> bool -> bool -> callconv **)

let callconv_of _ is_external _ _ _ =
  if is_external then CC_C else CC_Fast
