open BinNums
open BinPosDef
open Datatypes

module Pos =
 struct
  (** val succ : positive -> positive **)

  let rec succ = function
  | Coq_xI p -> Coq_xO (succ p)
  | Coq_xO p -> Coq_xI p
  | Coq_xH -> Coq_xO Coq_xH

  (** val add : positive -> positive -> positive **)

  let rec add x y =
    match x with
    | Coq_xI p ->
      (match y with
       | Coq_xI q -> Coq_xO (add_carry p q)
       | Coq_xO q -> Coq_xI (add p q)
       | Coq_xH -> Coq_xO (succ p))
    | Coq_xO p ->
      (match y with
       | Coq_xI q -> Coq_xI (add p q)
       | Coq_xO q -> Coq_xO (add p q)
       | Coq_xH -> Coq_xI p)
    | Coq_xH ->
      (match y with
       | Coq_xI q -> Coq_xO (succ q)
       | Coq_xO q -> Coq_xI q
       | Coq_xH -> Coq_xO Coq_xH)

  (** val add_carry : positive -> positive -> positive **)

  and add_carry x y =
    match x with
    | Coq_xI p ->
      (match y with
       | Coq_xI q -> Coq_xI (add_carry p q)
       | Coq_xO q -> Coq_xO (add_carry p q)
       | Coq_xH -> Coq_xI (succ p))
    | Coq_xO p ->
      (match y with
       | Coq_xI q -> Coq_xO (add_carry p q)
       | Coq_xO q -> Coq_xI (add p q)
       | Coq_xH -> Coq_xO (succ p))
    | Coq_xH ->
      (match y with
       | Coq_xI q -> Coq_xI (succ q)
       | Coq_xO q -> Coq_xO (succ q)
       | Coq_xH -> Coq_xI Coq_xH)

  (** val pred_double : positive -> positive **)

  let rec pred_double = function
  | Coq_xI p -> Coq_xI (Coq_xO p)
  | Coq_xO p -> Coq_xI (pred_double p)
  | Coq_xH -> Coq_xH

  type mask = Pos.mask =
  | IsNul
  | IsPos of positive
  | IsNeg

  (** val succ_double_mask : mask -> mask **)

  let succ_double_mask = function
  | IsNul -> IsPos Coq_xH
  | IsPos p -> IsPos (Coq_xI p)
  | IsNeg -> IsNeg

  (** val double_mask : mask -> mask **)

  let double_mask = function
  | IsPos p -> IsPos (Coq_xO p)
  | x0 -> x0

  (** val double_pred_mask : positive -> mask **)

  let double_pred_mask = function
  | Coq_xI p -> IsPos (Coq_xO (Coq_xO p))
  | Coq_xO p -> IsPos (Coq_xO (pred_double p))
  | Coq_xH -> IsNul

  (** val sub_mask : positive -> positive -> mask **)

  let rec sub_mask x y =
    match x with
    | Coq_xI p ->
      (match y with
       | Coq_xI q -> double_mask (sub_mask p q)
       | Coq_xO q -> succ_double_mask (sub_mask p q)
       | Coq_xH -> IsPos (Coq_xO p))
    | Coq_xO p ->
      (match y with
       | Coq_xI q -> succ_double_mask (sub_mask_carry p q)
       | Coq_xO q -> double_mask (sub_mask p q)
       | Coq_xH -> IsPos (pred_double p))
    | Coq_xH -> (match y with
                 | Coq_xH -> IsNul
                 | _ -> IsNeg)

  (** val sub_mask_carry : positive -> positive -> mask **)

  and sub_mask_carry x y =
    match x with
    | Coq_xI p ->
      (match y with
       | Coq_xI q -> succ_double_mask (sub_mask_carry p q)
       | Coq_xO q -> double_mask (sub_mask p q)
       | Coq_xH -> IsPos (pred_double p))
    | Coq_xO p ->
      (match y with
       | Coq_xI q -> double_mask (sub_mask_carry p q)
       | Coq_xO q -> succ_double_mask (sub_mask_carry p q)
       | Coq_xH -> double_pred_mask p)
    | Coq_xH -> IsNeg

  (** val mul : positive -> positive -> positive **)

  let rec mul x y =
    match x with
    | Coq_xI p -> add y (Coq_xO (mul p y))
    | Coq_xO p -> Coq_xO (mul p y)
    | Coq_xH -> y

  (** val compare_cont : comparison -> positive -> positive -> comparison **)

  let rec compare_cont r x y =
    match x with
    | Coq_xI p ->
      (match y with
       | Coq_xI q -> compare_cont r p q
       | Coq_xO q -> compare_cont Gt p q
       | Coq_xH -> Gt)
    | Coq_xO p ->
      (match y with
       | Coq_xI q -> compare_cont Lt p q
       | Coq_xO q -> compare_cont r p q
       | Coq_xH -> Gt)
    | Coq_xH -> (match y with
                 | Coq_xH -> r
                 | _ -> Lt)

  (** val compare : positive -> positive -> comparison **)

  let compare =
    compare_cont Eq

  (** val eqb : positive -> positive -> bool **)

  let rec eqb p q =
    match p with
    | Coq_xI p0 -> (match q with
                    | Coq_xI q0 -> eqb p0 q0
                    | _ -> false)
    | Coq_xO p0 -> (match q with
                    | Coq_xO q0 -> eqb p0 q0
                    | _ -> false)
    | Coq_xH -> (match q with
                 | Coq_xH -> true
                 | _ -> false)
 end
