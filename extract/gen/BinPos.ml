open BinNums
open BinPosDef
open Datatypes
open Nat

module Pos =
 struct
  (** val succ : positive -> positive **)

  let rec succ = function
  | Coq_xI p -> Coq_xO (succ p)
  | Coq_xO p -> Coq_xI p
  | Coq_xH -> Coq_xO Coq_xH

  (** val add : positive -> positive -> positive **)

  let rec add x y =
    match x with
    | Coq_xI p ->
      (match y with
       | Coq_xI q -> Coq_xO (add_carry p q)
       | Coq_xO q -> Coq_xI (add p q)
       | Coq_xH -> Coq_xO (succ p))
    | Coq_xO p ->
      (match y with
       | Coq_xI q -> Coq_xI (add p q)
       | Coq_xO q -> Coq_xO (add p q)
       | Coq_xH -> Coq_xI p)
    | Coq_xH ->
      (match y with
       | Coq_xI q -> Coq_xO (succ q)
       | Coq_xO q -> Coq_xI q
       | Coq_xH -> Coq_xO Coq_xH)

  (** val add_carry : positive -> positive -> positive **)

  and add_carry x y =
    match x with
    | Coq_xI p ->
      (match y with
       | Coq_xI q -> Coq_xI (add_carry p q)
       | Coq_xO q -> Coq_xO (add_carry p q)
       | Coq_xH -> Coq_xI (succ p))
    | Coq_xO p ->
      (match y with
       | Coq_xI q -> Coq_xO (add_carry p q)
       | Coq_xO q -> Coq_xI (add p q)
       | Coq_xH -> Coq_xO (succ p))
    | Coq_xH ->
      (match y with
       | Coq_xI q -> Coq_xI (succ q)
       | Coq_xO q -> Coq_xO (succ q)
       | Coq_xH -> Coq_xI Coq_xH)

  (** val pred_double : positive -> positive **)

  let rec pred_double = function
  | Coq_xI p -> Coq_xI (Coq_xO p)
  | Coq_xO p -> Coq_xI (pred_double p)
  | Coq_xH -> Coq_xH

  (** val pred_N : positive -> coq_N **)

  let pred_N = function
  | Coq_xI p -> Npos (Coq_xO p)
  | Coq_xO p -> Npos (pred_double p)
  | Coq_xH -> N0

  type mask = Pos.mask =
  | IsNul
  | IsPos of positive
  | IsNeg

  (** val succ_double_mask : mask -> mask **)

  let succ_double_mask = function
  | IsNul -> IsPos Coq_xH
  | IsPos p -> IsPos (Coq_xI p)
  | IsNeg -> IsNeg

  (** val double_mask : mask -> mask **)

  let double_mask = function
  | IsPos p -> IsPos (Coq_xO p)
  | x0 -> x0

  (** val double_pred_mask : positive -> mask **)

  let double_pred_mask = function
  | Coq_xI p -> IsPos (Coq_xO (Coq_xO p))
  | Coq_xO p -> IsPos (Coq_xO (pred_double p))
  | Coq_xH -> IsNul

  (** val sub_mask : positive -> positive -> mask **)

  let rec sub_mask x y =
    match x with
    | Coq_xI p ->
      (match y with
       | Coq_xI q -> double_mask (sub_mask p q)
       | Coq_xO q -> succ_double_mask (sub_mask p q)
       | Coq_xH -> IsPos (Coq_xO p))
    | Coq_xO p ->
      (match y with
       | Coq_xI q -> succ_double_mask (sub_mask_carry p q)
       | Coq_xO q -> double_mask (sub_mask p q)
       | Coq_xH -> IsPos (pred_double p))
    | Coq_xH -> (match y with
                 | Coq_xH -> IsNul
                 | _ -> IsNeg)

  (** val sub_mask_carry : positive -> positive -> mask **)

  and sub_mask_carry x y =
    match x with
    | Coq_xI p ->
      (match y with
       | Coq_xI q -> succ_double_mask (sub_mask_carry p q)
       | Coq_xO q -> double_mask (sub_mask p q)
       | Coq_xH -> IsPos (pred_double p))
    | Coq_xO p ->
      (match y with
       | Coq_xI q -> double_mask (sub_mask_carry p q)
       | Coq_xO q -> succ_double_mask (sub_mask_carry p q)
       | Coq_xH -> double_pred_mask p)
    | Coq_xH -> IsNeg

  (** val mul : positive -> positive -> positive **)

  let rec mul x y =
    match x with
    | Coq_xI p -> add y (Coq_xO (mul p y))
    | Coq_xO p -> Coq_xO (mul p y)
    | Coq_xH -> y

  (** val iter : ('a1 -> 'a1) -> 'a1 -> positive -> 'a1 **)

  let rec iter f x = function
  | Coq_xI n' -> f (iter f (iter f x n') n')
  | Coq_xO n' -> iter f (iter f x n') n'
  | Coq_xH -> f x

  (** val size : positive -> positive **)

  let rec size = function
  | Coq_xI p0 -> succ (size p0)
  | Coq_xO p0 -> succ (size p0)
  | Coq_xH -> Coq_xH

  (** val compare_cont : comparison -> positive -> positive -> comparison **)

  let rec compare_cont r x y =
    match x with
    | Coq_xI p ->
      (match y with
       | Coq_xI q -> compare_cont r p q
       | Coq_xO q -> compare_cont Gt p q
       | Coq_xH -> Gt)
    | Coq_xO p ->
      (match y with
       | Coq_xI q -> compare_cont Lt p q
       | Coq_xO q -> compare_cont r p q
       | Coq_xH -> Gt)
    | Coq_xH -> (match y with
                 | Coq_xH -> r
                 | _ -> Lt)

  (** val compare : positive -> positive -> comparison **)

  let compare =
    compare_cont Eq

  (** val eqb : positive -> positive -> bool **)

  let rec eqb p q =
    match p with
    | Coq_xI p0 -> (match q with
                    | Coq_xI q0 -> eqb p0 q0
                    | _ -> false)
    | Coq_xO p0 -> (match q with
                    | Coq_xO q0 -> eqb p0 q0
                    | _ -> false)
    | Coq_xH -> (match q with
                 | Coq_xH -> true
                 | _ -> false)

  (** val coq_Nsucc_double : coq_N -> coq_N **)

  let coq_Nsucc_double = function
  | N0 -> Npos Coq_xH
  | Npos p -> Npos (Coq_xI p)

  (** val coq_Ndouble : coq_N -> coq_N **)

  let coq_Ndouble = function
  | N0 -> N0
  | Npos p -> Npos (Coq_xO p)

  (** val coq_lor : positive -> positive -> positive **)

  let rec coq_lor p q =
    match p with
    | Coq_xI p0 ->
      (match q with
       | Coq_xI q0 -> Coq_xI (coq_lor p0 q0)
       | Coq_xO q0 -> Coq_xI (coq_lor p0 q0)
       | Coq_xH -> p)
    | Coq_xO p0 ->
      (match q with
       | Coq_xI q0 -> Coq_xI (coq_lor p0 q0)
       | Coq_xO q0 -> Coq_xO (coq_lor p0 q0)
       | Coq_xH -> Coq_xI p0)
    | Coq_xH -> (match q with
                 | Coq_xO q0 -> Coq_xI q0
                 | _ -> q)

  (** val coq_land : positive -> positive -> coq_N **)

  let rec coq_land p q =
    match p with
    | Coq_xI p0 ->
      (match q with
       | Coq_xI q0 -> coq_Nsucc_double (coq_land p0 q0)
       | Coq_xO q0 -> coq_Ndouble (coq_land p0 q0)
       | Coq_xH -> Npos Coq_xH)
    | Coq_xO p0 ->
      (match q with
       | Coq_xI q0 -> coq_Ndouble (coq_land p0 q0)
       | Coq_xO q0 -> coq_Ndouble (coq_land p0 q0)
       | Coq_xH -> N0)
    | Coq_xH -> (match q with
                 | Coq_xO _ -> N0
                 | _ -> Npos Coq_xH)

  (** val ldiff : positive -> positive -> coq_N **)

  let rec ldiff p q =
    match p with
    | Coq_xI p0 ->
      (match q with
       | Coq_xI q0 -> coq_Ndouble (ldiff p0 q0)
       | Coq_xO q0 -> coq_Nsucc_double (ldiff p0 q0)
       | Coq_xH -> Npos (Coq_xO p0))
    | Coq_xO p0 ->
      (match q with
       | Coq_xI q0 -> coq_Ndouble (ldiff p0 q0)
       | Coq_xO q0 -> coq_Ndouble (ldiff p0 q0)
       | Coq_xH -> Npos p)
    | Coq_xH -> (match q with
                 | Coq_xO _ -> Npos Coq_xH
                 | _ -> N0)

  (** val coq_lxor : positive -> positive -> coq_N **)

  let rec coq_lxor p q =
    match p with
    | Coq_xI p0 ->
      (match q with
       | Coq_xI q0 -> coq_Ndouble (coq_lxor p0 q0)
       | Coq_xO q0 -> coq_Nsucc_double (coq_lxor p0 q0)
       | Coq_xH -> Npos (Coq_xO p0))
    | Coq_xO p0 ->
      (match q with
       | Coq_xI q0 -> coq_Nsucc_double (coq_lxor p0 q0)
       | Coq_xO q0 -> coq_Ndouble (coq_lxor p0 q0)
       | Coq_xH -> Npos (Coq_xI p0))
    | Coq_xH ->
      (match q with
       | Coq_xI q0 -> Npos (Coq_xO q0)
       | Coq_xO q0 -> Npos (Coq_xI q0)
       | Coq_xH -> N0)

  (** val shiftl : positive -> coq_N -> positive **)

  let shiftl p = function
  | N0 -> p
  | Npos n0 -> iter (fun x -> Coq_xO x) p n0

  (** val iter_op : ('a1 -> 'a1 -> 'a1) -> positive -> 'a1 -> 'a1 **)

  let rec iter_op op p a =
    match p with
    | Coq_xI p0 -> op a (iter_op op p0 (op a a))
    | Coq_xO p0 -> iter_op op p0 (op a a)
    | Coq_xH -> a

  (** val to_nat : positive -> nat **)

  let to_nat x =
    iter_op Nat.add x (S O)

  (** val of_succ_nat : nat -> positive **)

  let rec of_succ_nat = function
  | O -> Coq_xH
  | S x -> succ (of_succ_nat x)
 end
