open BinInt
open BinNat
open BinNums
open Common
open Datatypes
open IR
open List
open Lower
open PeanoNat
open TypeTables

val usize_bits : coq_Z

type ty =
| TPrim of prim
| TArr of coq_Z * ty
| TPtr of ty
| TView of ty
| TStruct of name

type value =
| VInt of prim * coq_Z
| VArr of value list
| VStruct of (name * value) list
| VPtr of coq_N * coq_N list
| VUninit

type expr =
| ELit of prim * coq_Z
| EVar of name
| EIndex of expr * expr
| EMember of expr * name
| EBin of binop * expr * expr
| EUn of unop * expr
| ECast of prim * expr
| ELen of expr
| EAddr of coq_N * expr
| ECall of name * expr list
| EArrLit of expr list
| EStructLit of name * (name * expr) list
| ESizeOf of ty
| EParen of expr

type cmp =
| Cmp of cmpop * expr * expr

type pitem =
| PStr of coq_N list
| PExpr of expr

type stmt =
| SDecl of name * ty * expr option
| SAssign of expr * expr
| SAssignAddr of coq_N * name * expr
| SIf of cmp * stmt * stmt option
| SGoto of name
| SLabel of name
| SBlock of stmt list
| SLoop
| SCall of name * expr list
| SPrint of pitem list

type func = { fname : name; fparams : (name * ty) list; fret : ty option;
              fbody : stmt list; fresult : expr option }

type sdecl = { sname : name; smembers : (name * ty) list }

type program = { structs : sdecl list; consts : ((name * ty) * expr) list;
                 funcs : func list }

type state = { store : (coq_N * value) list; nexta : coq_N; out : coq_N list }

type env = (name * coq_N) list

val lookup : coq_N -> (coq_N * 'a1) list -> 'a1 option

val update : coq_N -> 'a1 -> (coq_N * 'a1) list -> (coq_N * 'a1) list

val alloc : value -> state -> coq_N * state

val get_path : value -> coq_N list -> value option

val set_nth : nat -> 'a1 -> 'a1 list -> 'a1 list option

val set_path : value -> coq_N list -> value -> value option

val load : coq_N -> coq_N list -> state -> value option

val storev : coq_N -> coq_N list -> value -> state -> state option

type 'a res =
| Ok of 'a
| UB
| Stuck
| OutOfFuel

val bind : 'a1 res -> ('a1 -> 'a2 res) -> 'a2 res

val of_opt : 'a1 option -> 'a1 res

val pbits : prim -> coq_Z

val psigned : prim -> bool

val zero_value : sdecl list -> nat -> ty -> value

val deref_addr :
  nat -> coq_N -> coq_N list -> state -> (coq_N * coq_N list) res

val decimal_digits : nat -> coq_Z -> coq_N list

val show_int : coq_Z -> coq_N list

val str_true : coq_N list

val str_false : coq_N list

val show_value : value -> coq_N list res

val find_func : program -> name -> func option

type outcome =
| Normal
| Jump of name

val jump_target : name -> stmt list -> stmt list option

val array_len : value -> coq_Z res

val eval :
  program -> env -> nat -> expr -> env -> state -> (value * state) res

val call :
  program -> env -> nat -> name -> value list -> state -> (value
  option * state) res

val alloc_consts :
  nat -> program -> ((name * ty) * expr) list -> env -> state ->
  (env * state) res

val init_state : state

val run_main : nat -> program -> name -> (coq_Z * coq_N list) res
