open BinInt
open BinNums
open Bits
open Datatypes
open IR

(** val div_ub : bool -> coq_Z -> coq_Z -> coq_Z -> bool **)

let div_ub signed w x y =
  (||) (Z.eqb y Z0)
    ((&&)
      ((&&) signed
        (Z.eqb x
          (Z.opp (Z.pow (Zpos (Coq_xO Coq_xH)) (Z.sub w (Zpos Coq_xH))))))
      (Z.eqb y (Zneg Coq_xH)))

(** val src_binop :
    binop -> bool -> coq_Z -> coq_Z -> coq_Z -> coq_Z option **)

let src_binop op signed w x y =
  match op with
  | Add -> Some (wrap signed w (Z.add x y))
  | Subtract -> Some (wrap signed w (Z.sub x y))
  | Multiply -> Some (wrap signed w (Z.mul x y))
  | Divide -> if div_ub signed w x y then None else Some (Z.quot x y)
  | Modulo -> if div_ub signed w x y then None else Some (Z.rem x y)
  | BitwiseAnd -> Some (Z.coq_land x y)
  | BitwiseOr -> Some (Z.coq_lor x y)
  | BitwiseXor -> Some (Z.coq_lxor x y)
  | ShiftLeft ->
    if Z.ltb y w
    then Some
           (Z.modulo (Z.mul x (Z.pow (Zpos (Coq_xO Coq_xH)) y))
             (Z.pow (Zpos (Coq_xO Coq_xH)) w))
    else None
  | ShiftRight ->
    if Z.ltb y w
    then Some (Z.div x (Z.pow (Zpos (Coq_xO Coq_xH)) y))
    else None
  | AdvancePointer -> None

(** val src_unop : unop -> bool -> coq_Z -> coq_Z -> coq_Z option **)

let src_unop op signed w x =
  match op with
  | Negative -> Some (wrap signed w (Z.opp x))
  | BitwiseComplement ->
    Some (Z.sub (Z.sub (Z.pow (Zpos (Coq_xO Coq_xH)) w) (Zpos Coq_xH)) x)

(** val src_cmp : cmpop -> coq_Z -> coq_Z -> bool **)

let src_cmp op x y =
  match op with
  | Equals -> Z.eqb x y
  | DoesNotEqual -> negb (Z.eqb x y)
  | IsGreater -> Z.gtb x y
  | IsGE -> Z.geb x y
  | IsLess -> Z.ltb x y
  | IsLE -> Z.leb x y

(** val src_cast : bool -> coq_Z -> coq_Z -> coq_Z **)

let src_cast =
  wrap
