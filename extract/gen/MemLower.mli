open BinInt
open BinNums
open Datatypes
open Layout
open List
open Nat

type value =
| VS of coq_Z
| VArr of value list
| VStruct of value list

type step =
| SElem of coq_Z
| SMember of nat

type path = step list

type cell =
| CPad
| CFrag of coq_Z * coq_Z * coq_Z

type mem = coq_Z -> cell

val scalar_size : ty -> coq_Z

val enc : ty -> value -> coq_Z -> cell

val store : mem -> coq_Z -> ty -> value -> mem

val check_frag : mem -> coq_Z -> coq_Z -> coq_Z -> coq_Z -> nat -> bool

val load_scalar : mem -> coq_Z -> coq_Z -> coq_Z option

val gep_offset : ty -> path -> (coq_Z * ty) option

type lt =
| LInt of coq_Z
| LBool
| LPtr of lt
| LArr of coq_Z * lt
| LStruct of lt list

val erase : lt -> ty

val erase_list : lt list -> ty list

val lsize : lt -> coq_Z

val slice_lt : lt -> lt

type pty =
| PInt of coq_Z
| PBool
| PArr of coq_Z * pty
| PStruct of pty list
| PPtr of pty
| PView of pty
| PSlice of pty
| PSlicePtr of pty
| PEndless of pty

val gen : pty -> lt

type rstep =
| RElem of coq_Z * bool
| RMember of nat
| RAutoderef
| RAutoview
| RDeslice0
| RDeslice1

val elaborate_fuel : nat -> pty -> path -> (rstep list * pty) option

val coq_MAX_NUM_AUTODEREF_STEPS : nat

val elaborate : pty -> path -> (rstep list * pty) option

type base_kind =
| BParam
| BLocal
| BGlobal

type gidx =
| GConst of coq_Z
| GDyn of coq_Z

type instr =
| IGep of gidx list
| ILoad
| IExtract of coq_Z

val is_nil : 'a1 list -> bool

val flush : gidx list -> instr list

val lower_steps : rstep list -> gidx list -> bool -> instr list

val lower_ref : base_kind -> rstep list -> instr list

val lower_steps_pinned : rstep list -> gidx list -> bool -> instr list

val lower_ref_pinned : base_kind -> rstep list -> instr list

type loc =
| LocMem of coq_Z * lt
| LocPtr of coq_Z * lt
| LocSlice of coq_Z * coq_Z * lt

val sem_step : mem -> loc -> rstep -> loc option

val ref_instrs : base_kind -> pty -> path -> instr list option

val ref_instrs_pinned : base_kind -> pty -> path -> instr list option
