open BinInt
open BinNums
open IR

(** val select_binop : binop -> bool -> instr **)

let select_binop op is_signed =
  match op with
  | Add -> IAdd
  | Subtract -> ISub
  | Multiply -> IMul
  | Divide -> if is_signed then ISDiv else IUDiv
  | Modulo -> if is_signed then ISRem else IURem
  | BitwiseAnd -> IAnd
  | BitwiseOr -> IOr
  | BitwiseXor -> IXor
  | ShiftLeft -> IShl
  | ShiftRight -> ILShr
  | AdvancePointer -> IGEP

(** val select_unop : unop -> bool -> instr **)

let select_unop op _ =
  match op with
  | Negative -> INeg
  | BitwiseComplement -> INot

(** val select_icmp : cmpop -> bool -> pred **)

let select_icmp op is_signed =
  match op with
  | Equals -> PEq
  | DoesNotEqual -> PNe
  | IsGreater -> if is_signed then PSgt else PUgt
  | IsGE -> if is_signed then PSge else PUge
  | IsLess -> if is_signed then PSlt else PUlt
  | IsLE -> if is_signed then PSle else PUle

(** val select_cast :
    prim -> prim -> bool -> bool -> bool -> coq_Z -> coq_Z -> cast option **)

let select_cast s d s_integral d_integral s_signed s_bits d_bits =
  if prim_eqb s d
  then None
  else if (&&) s_integral d_integral
       then Some
              (if Z.ltb d_bits s_bits
               then CTrunc
               else if s_signed then CSExt else CZExt)
       else if (&&) (prim_eqb s Uint8) (prim_eqb d Char8)
            then Some CNone
            else if (&&) (prim_eqb s Char8) (prim_eqb d Uint8)
                 then Some CNone
                 else if (&&) (prim_eqb s Bool) d_integral
                      then Some CZExt
                      else None

(** val signed_lit_small_min : coq_Z **)

let signed_lit_small_min =
  Z.opp
    (Z.pow (Zpos (Coq_xO Coq_xH)) (Zpos (Coq_xI (Coq_xI (Coq_xI (Coq_xI
      (Coq_xI Coq_xH)))))))

(** val signed_lit_small_max : coq_Z **)

let signed_lit_small_max =
  Z.sub
    (Z.pow (Zpos (Coq_xO Coq_xH)) (Zpos (Coq_xO (Coq_xO (Coq_xO (Coq_xO
      (Coq_xO (Coq_xO Coq_xH)))))))) (Zpos Coq_xH)

(** val bit_lit_usize_mask : coq_Z option **)

let bit_lit_usize_mask =
  None

(** val bit_lit_pointer_mask : coq_Z option **)

let bit_lit_pointer_mask =
  None
