open Autoderef
open BinInt
open BinNat
open BinNums
open Datatypes
open Limits
open List
open TypeLegal

val max_address_depth_nat : nat

val strip_bounded : nat -> vt -> tstep list * vt

val deslice_of : vt -> tstep list

val element_is_endless : vt -> bool option

type asg_loop_result =
| AsgAt of tstep list * vt
| AsgPanic of coq_N

val asg_cons : tstep list -> asg_loop_result -> asg_loop_result

val assign_loop_fuel :
  (coq_N -> vt option) -> nat -> vt -> astep list -> asg_loop_result

val assign_loop : (coq_N -> vt option) -> vt -> astep list -> asg_loop_result

type assign_result =
| AOk of tstep list * coq_N
| APanic of coq_N

val excess_depth : coq_N -> coq_N

val assign_finish : tstep list -> vt -> coq_N -> assign_result

val assignment_steps :
  (coq_N -> vt option) -> vt -> astep list -> coq_N -> assign_result
