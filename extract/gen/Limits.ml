open BinNums

(** val max_address_depth : coq_Z **)

let max_address_depth =
  Zpos (Coq_xI (Coq_xI (Coq_xI (Coq_xI (Coq_xI (Coq_xI Coq_xH))))))

(** val max_reference_depth : coq_Z **)

let max_reference_depth =
  Zpos (Coq_xI (Coq_xI (Coq_xI (Coq_xI (Coq_xI (Coq_xI Coq_xH))))))
