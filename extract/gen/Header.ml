open BinNat
open BinNums
open Datatypes
open List

type refkind =
| RThenElse
| RIf
| RBlock
| RItem
| RList
| RListItem

type node =
| NPlain of coq_N * coq_N list
| NFlags of bool * coq_N
| NRef of refkind * coq_N
| NImpl of coq_N
| NStart of coq_N
| NEnd of coq_N
| NEndless

(** val coq_T_NoMoreItems : coq_N **)

let coq_T_NoMoreItems =
  N0

(** val coq_NoMoreItems : node **)

let coq_NoMoreItems =
  NPlain (coq_T_NoMoreItems, [])

(** val is_marker : node -> bool **)

let is_marker = function
| NStart _ -> true
| NEnd _ -> true
| NEndless -> true
| _ -> false

(** val coq_U24_MOD : coq_N **)

let coq_U24_MOD =
  Npos (Coq_xO (Coq_xO (Coq_xO (Coq_xO (Coq_xO (Coq_xO (Coq_xO (Coq_xO
    (Coq_xO (Coq_xO (Coq_xO (Coq_xO (Coq_xO (Coq_xO (Coq_xO (Coq_xO (Coq_xO
    (Coq_xO (Coq_xO (Coq_xO (Coq_xO (Coq_xO (Coq_xO (Coq_xO
    Coq_xH))))))))))))))))))))))))

(** val adjust : coq_N -> coq_N -> coq_N **)

let adjust skipped i =
  if N.leb skipped i
  then N.sub i skipped
  else N.modulo (N.sub coq_U24_MOD (N.modulo (N.sub skipped i) coq_U24_MOD))
         coq_U24_MOD

(** val convert : coq_N -> node -> node **)

let convert skipped n = match n with
| NFlags (_, rest) -> NFlags (false, rest)
| NRef (k, t) -> NRef (k, (adjust skipped t))
| NImpl _ -> coq_NoMoreItems
| _ -> n

(** val get : node list -> coq_N -> node option **)

let get ns i =
  nth_error ns (N.to_nat i)

(** val len : node list -> coq_N **)

let len ns =
  N.of_nat (length ns)

type outcome =
| Done of node list
| OutOfFuel
| Wrapped

(** val build : node list -> nat -> coq_N -> coq_N -> node list -> outcome **)

let rec build ns fuel i skipped acc =
  match get ns i with
  | Some n ->
    (match fuel with
     | O -> OutOfFuel
     | S fuel' ->
       (match n with
        | NStart e ->
          if N.leb i (N.add e (Npos Coq_xH))
          then build ns fuel' (N.add e (Npos Coq_xH))
                 (N.add skipped (N.sub (N.add e (Npos Coq_xH)) i)) acc
          else Wrapped
        | NEnd _ -> Done (rev acc)
        | NEndless -> Done (rev acc)
        | _ ->
          build ns fuel' (N.add i (Npos Coq_xH)) skipped
            ((convert skipped n) :: acc)))
  | None -> Done (rev acc)

(** val build_header : node list -> outcome **)

let build_header ns =
  build ns (length ns) N0 N0 []

(** val indexed : coq_N -> node list -> (coq_N * node) list **)

let rec indexed p = function
| [] -> []
| n :: r -> (p, n) :: (indexed (N.add p (Npos Coq_xH)) r)

(** val covers : coq_N -> (coq_N * node) -> bool **)

let covers i sn =
  match snd sn with
  | NStart e -> (&&) (N.leb (fst sn) i) (N.leb i e)
  | NEndless -> N.leb (fst sn) i
  | _ -> false

(** val privateb : node list -> coq_N -> bool **)

let privateb ns i =
  existsb (covers i) (indexed N0 ns)

(** val count_private : node list -> coq_N -> node list -> coq_N **)

let count_private all p l =
  N.of_nat (length (filter (fun jn -> privateb all (fst jn)) (indexed p l)))

(** val skipped_before : node list -> coq_N -> coq_N **)

let skipped_before ns i =
  count_private ns N0 (firstn (N.to_nat i) ns)

(** val public_part : node list -> coq_N -> node list -> node list **)

let public_part all p l =
  map (fun jn -> convert (skipped_before all (fst jn)) (snd jn))
    (filter (fun jn -> negb (privateb all (fst jn))) (indexed p l))

(** val header_spec : node list -> node list **)

let header_spec ns =
  public_part ns N0 ns

(** val slice : node list -> coq_N -> coq_N -> node list **)

let slice ns from to_excl =
  firstn (N.to_nat (N.sub to_excl from)) (skipn (N.to_nat from) ns)

(** val zone_ok : node list -> (coq_N * node) -> bool **)

let zone_ok ns sn =
  match snd sn with
  | NStart e ->
    (&&)
      ((&&) (N.ltb (fst sn) e)
        (match get ns e with
         | Some n -> (match n with
                      | NEnd s' -> N.eqb s' (fst sn)
                      | _ -> false)
         | None -> false))
      (forallb (fun n -> negb (is_marker n))
        (slice ns (N.add (fst sn) (Npos Coq_xH)) e))
  | NEnd s ->
    (&&) (N.ltb s (fst sn))
      (match get ns s with
       | Some n -> (match n with
                    | NStart e' -> N.eqb e' (fst sn)
                    | _ -> false)
       | None -> false)
  | _ -> true

(** val zones_wfb : node list -> bool **)

let zones_wfb ns =
  forallb (zone_ok ns) (indexed N0 ns)

(** val ref_ok : node list -> (coq_N * node) -> bool **)

let ref_ok ns jn =
  match snd jn with
  | NRef (_, t) ->
    (||) (privateb ns (fst jn))
      ((&&) (N.ltb t (len ns))
        (forallb (fun n -> negb (is_marker n))
          (slice ns (N.min (fst jn) t)
            (N.add (N.max (fst jn) t) (Npos Coq_xH)))))
  | _ -> true

(** val refs_localb : node list -> bool **)

let refs_localb ns =
  forallb (ref_ok ns) (indexed N0 ns)
