open BinNat
open BinNums
open Common
open Datatypes
open List

val coq_E413 : code

val coq_E415 : code

val coq_E416 : code

val set_union : coq_N list -> coq_N list -> coq_N list

val set_insert : coq_N -> coq_N list -> coq_N list

val set_diff : coq_N list -> coq_N list -> coq_N list

type container = { c_id : coq_N; c_ids : coq_N list; c_struct : bool }

type state = container list

val init : (coq_N * bool) list -> state

val find_c : coq_N -> state -> container option

val update_first : coq_N -> coq_N list -> state -> state

val propagate1 : coq_N -> coq_N list -> container -> container

val propagate : coq_N -> coq_N list -> state -> state

type result =
| Ok
| Poisoned
| Err of code
| Panic

val cycle_code : bool -> coq_N list -> state -> code

val found1 : bool -> coq_N -> coq_N -> state -> state * result

type edge = (coq_N * coq_N) * bool

val process : edge list -> state -> state * result list

val codes_of : result list -> code list

type dcont = { d_id : coq_N; d_rem : coq_N list; d_depth : coq_N option }

val is_ready : dcont -> bool

val mark : coq_N -> dcont -> dcont

val resolved_ids : dcont list -> coq_N list

val subtract : coq_N list -> dcont -> dcont

val depth_loop : nat -> coq_N -> dcont list -> dcont list

val depths : state -> (coq_N * coq_N option) list

val run :
  (coq_N * bool) list -> edge list -> (coq_N * coq_N option) list * code list
