open BinNums
open BinPos
open Datatypes

module N =
 struct
  (** val succ_double : coq_N -> coq_N **)

  let succ_double = function
  | N0 -> Npos Coq_xH
  | Npos p -> Npos (Coq_xI p)

  (** val double : coq_N -> coq_N **)

  let double = function
  | N0 -> N0
  | Npos p -> Npos (Coq_xO p)

  (** val succ : coq_N -> coq_N **)

  let succ = function
  | N0 -> Npos Coq_xH
  | Npos p -> Npos (Pos.succ p)

  (** val succ_pos : coq_N -> positive **)

  let succ_pos = function
  | N0 -> Coq_xH
  | Npos p -> Pos.succ p

  (** val add : coq_N -> coq_N -> coq_N **)

  let add n m =
    match n with
    | N0 -> m
    | Npos p -> (match m with
                 | N0 -> n
                 | Npos q -> Npos (Pos.add p q))

  (** val sub : coq_N -> coq_N -> coq_N **)

  let sub n m =
    match n with
    | N0 -> N0
    | Npos n' ->
      (match m with
       | N0 -> n
       | Npos m' ->
         (match Pos.sub_mask n' m' with
          | Pos.IsPos p -> Npos p
          | _ -> N0))

  (** val mul : coq_N -> coq_N -> coq_N **)

  let mul n m =
    match n with
    | N0 -> N0
    | Npos p -> (match m with
                 | N0 -> N0
                 | Npos q -> Npos (Pos.mul p q))

  (** val compare : coq_N -> coq_N -> comparison **)

  let compare n m =
    match n with
    | N0 -> (match m with
             | N0 -> Eq
             | Npos _ -> Lt)
    | Npos n' -> (match m with
                  | N0 -> Gt
                  | Npos m' -> Pos.compare n' m')

  (** val eqb : coq_N -> coq_N -> bool **)

  let eqb n m =
    match n with
    | N0 -> (match m with
             | N0 -> true
             | Npos _ -> false)
    | Npos p -> (match m with
                 | N0 -> false
                 | Npos q -> Pos.eqb p q)

  (** val leb : coq_N -> coq_N -> bool **)

  let leb x y =
    match compare x y with
    | Gt -> false
    | _ -> true

  (** val ltb : coq_N -> coq_N -> bool **)

  let ltb x y =
    match compare x y with
    | Lt -> true
    | _ -> false

  (** val min : coq_N -> coq_N -> coq_N **)

  let min n n' =
    match compare n n' with
    | Gt -> n'
    | _ -> n

  (** val max : coq_N -> coq_N -> coq_N **)

  let max n n' =
    match compare n n' with
    | Gt -> n
    | _ -> n'

  (** val size : coq_N -> coq_N **)

  let size = function
  | N0 -> N0
  | Npos p -> Npos (Pos.size p)

  (** val pos_div_eucl : positive -> coq_N -> coq_N * coq_N **)

  let rec pos_div_eucl a b =
    match a with
    | Coq_xI a' ->
      let (q, r) = pos_div_eucl a' b in
      let r' = succ_double r in
      if leb b r' then ((succ_double q), (sub r' b)) else ((double q), r')
    | Coq_xO a' ->
      let (q, r) = pos_div_eucl a' b in
      let r' = double r in
      if leb b r' then ((succ_double q), (sub r' b)) else ((double q), r')
    | Coq_xH ->
      (match b with
       | N0 -> (N0, (Npos Coq_xH))
       | Npos p ->
         (match p with
          | Coq_xH -> ((Npos Coq_xH), N0)
          | _ -> (N0, (Npos Coq_xH))))

  (** val div_eucl : coq_N -> coq_N -> coq_N * coq_N **)

  let div_eucl a b =
    match a with
    | N0 -> (N0, N0)
    | Npos na -> (match b with
                  | N0 -> (N0, a)
                  | Npos _ -> pos_div_eucl na b)

  (** val div : coq_N -> coq_N -> coq_N **)

  let div a b =
    fst (div_eucl a b)

  (** val modulo : coq_N -> coq_N -> coq_N **)

  let modulo a b =
    snd (div_eucl a b)

  (** val coq_lor : coq_N -> coq_N -> coq_N **)

  let coq_lor n m =
    match n with
    | N0 -> m
    | Npos p -> (match m with
                 | N0 -> n
                 | Npos q -> Npos (Pos.coq_lor p q))

  (** val coq_land : coq_N -> coq_N -> coq_N **)

  let coq_land n m =
    match n with
    | N0 -> N0
    | Npos p -> (match m with
                 | N0 -> N0
                 | Npos q -> Pos.coq_land p q)

  (** val ldiff : coq_N -> coq_N -> coq_N **)

  let ldiff n m =
    match n with
    | N0 -> N0
    | Npos p -> (match m with
                 | N0 -> n
                 | Npos q -> Pos.ldiff p q)

  (** val coq_lxor : coq_N -> coq_N -> coq_N **)

  let coq_lxor n m =
    match n with
    | N0 -> m
    | Npos p -> (match m with
                 | N0 -> n
                 | Npos q -> Pos.coq_lxor p q)

  (** val shiftl : coq_N -> coq_N -> coq_N **)

  let shiftl a n =
    match a with
    | N0 -> N0
    | Npos a0 -> Npos (Pos.shiftl a0 n)

  (** val to_nat : coq_N -> nat **)

  let to_nat = function
  | N0 -> O
  | Npos p -> Pos.to_nat p

  (** val of_nat : nat -> coq_N **)

  let of_nat = function
  | O -> N0
  | S n' -> Npos (Pos.of_succ_nat n')
 end
