open Datatypes
open List
open VarScope

type event =
| EGoto of id
| ELabel of id

(** val ev_stmt : stmt -> event list **)

let rec ev_stmt = function
| SGoto l -> (EGoto l) :: []
| SLabel l -> (ELabel l) :: []
| SIf (_, t, e) ->
  app (ev_stmt t) (match e with
                   | Some e' -> ev_stmt e'
                   | None -> [])
| SBlock b -> flat_map ev_stmt b
| _ -> []

(** val ev_list : stmt list -> event list **)

let ev_list b =
  flat_map ev_stmt b

(** val ev_func : func -> event list **)

let ev_func f =
  ev_list f.body

(** val events : func list -> event list **)

let events fs =
  flat_map ev_func fs

(** val once : id list -> event list -> bool **)

let rec once done0 = function
| [] -> true
| e :: r ->
  (match e with
   | EGoto _ -> once done0 r
   | ELabel l -> (&&) (negb (mem_id l done0)) (once (l :: done0) r))
