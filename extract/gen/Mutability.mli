open BinNat
open BinNums
open Common
open Datatypes
open PeanoNat

val coq_E_SILENT : code

val coq_E352 : code

val coq_E510 : code

val coq_E511 : code

val coq_E512 : code

val coq_E513 : code

val coq_E530 : code

val coq_E531 : code

val coq_E532 : code

val coq_E533 : code

val prim_void : coq_N

val prim_i32 : coq_N

val prim_u8 : coq_N

val prim_char8 : coq_N

val prim_bool : coq_N

type mty =
| MPrim of coq_N
| MArray of mty * coq_N
| MArrayNamed of mty * name
| MSlice of mty
| MSlicePointer of mty
| MEndless of mty
| MArraylike of mty
| MStruct of name
| MWord of name
| MUnresolved
| MPointer of mty
| MView of mty

type pty =
| PNone
| PErr
| POk of mty

val mty_eqb : mty -> mty -> bool

val prim_alias : coq_N -> coq_N -> bool

val ty_equals : mty -> mty -> bool

val is_void : mty -> bool

val can_be_element : mty -> bool

val is_wellformed_inner : mty -> bool

val is_wellformed : mty -> bool

val can_be_variable : mty -> bool

val can_coerce_address_into : mty -> mty -> bool

type expr =
| ELeaf
| EBinary of expr * expr
| EUnary of expr
| EArrayLit of expr list
| EStructural of expr list
| EParen of expr
| EAutocoerce of expr
| ECast of expr
| EDeref of reference * pty
| ELengthOf of reference
| ECall of name * expr list
| EPoison
and reference =
| Ref of name option * rstep list * coq_N
and rstep =
| Element of expr
| Member of name
| Autoderef
| Autoview
| AutodesliceByView
| AutodesliceByPointer
| AutodesliceLength

val r_base : reference -> name option

val r_steps : reference -> rstep list

val r_ad : reference -> coq_N

type stmt =
| SDeclaration of name * expr option * pty
| SAssignment of reference * expr
| SMethodCall of name * expr list
| SIf of expr * expr * stmt * stmt option
| SBlock of stmt list
| SOther

type param = { p_name : name option; p_type : mty option }

type fbody = { fb_statements : stmt list; fb_return : expr option }

type decl =
| DConstant of name * mty option
| DFunction of param list * fbody option
| DFunctionHead of param list
| DStructure of name option list
| DOther

type menv = (name * bool) list

val lookup : menv -> name -> bool option

val declare_variable : menv -> name -> bool -> menv

type uv_result =
| UvOk
| UvError of code
| UvPoisoned

val use_variable : menv -> name option -> bool -> uv_result

val uv_codes : uv_result -> code list

val needs_outer_mutability : rstep list -> bool

val var_is_mutable : pty -> bool

val check_assignment : menv -> reference -> code list

val is_addressed : reference -> bool

val check_address_taken : menv -> reference -> code list

val mut_expr : menv -> expr -> code list

val mut_ref : menv -> reference -> bool -> code list

val mut_step : menv -> rstep -> code list

val mut_exprs : menv -> expr list -> code list

val mut_steps : menv -> rstep list -> code list

val mut_stmt : menv -> stmt -> menv * code list

val mut_stmts : menv -> stmt list -> menv * code list

val mut_body : menv -> fbody -> menv * code list

val declare_param : menv -> param -> menv

val declare_params : menv -> param list -> menv

val declare_members : menv -> name option list -> menv

val mut_decl : menv -> decl -> menv * code list

val mut_program : menv -> decl list -> menv * code list

val check_value_use : bool -> pty -> code list

val fc_expr : bool -> expr -> bool * code list

val fc_ref : bool -> reference -> bool * code list

val fc_step : bool -> rstep -> bool * code list

val fc_args : expr list -> code list

val fc_decl_type : pty -> pty * code list

val fc_stmt : stmt -> bool * code list

val fc_stmts : bool -> stmt list -> bool * code list

val fc_body : fbody -> code list

val can_hint_missing_address : bool -> mty -> mty -> bool

val argument_code : param -> bool -> pty -> code option

val zip_argument_codes : param list -> (bool * pty) list -> code option

val use_function : param list -> (bool * pty) list -> code option
