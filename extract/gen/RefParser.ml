open Ascii
open BinInt
open BinNat
open BinNums
open Common
open Datatypes
open IR
open List
open PeanoNat
open String
open Tok

type ty =
| TVoid
| TPrim of prim
| TNamed of name
| TArray of coq_Z * ty
| TArrayNamed of name * ty
| TSlice of ty
| TEndless of ty
| TArraylike of ty
| TPointer of ty
| TView of ty

type expr =
| EBinary of binop * expr * expr
| EUnary of unop * expr
| EBool of bool
| ESigned of coq_Z * prim option
| EBits of coq_Z * prim option
| EString of coq_N list
| EArray of expr list
| EStructural of name * (name * expr) list
| EParen of expr
| EDeref of reference
| EBitCast of expr
| ETypeCast of expr * ty
| ELength of reference
| ESizeOf of ty
| ECall of bool * name * expr list
and reference =
| Ref of coq_N * name * step list
and step =
| RsElement of expr
| RsMember of name

type stmt =
| StVar of name * ty option * expr option
| StAssign of reference * expr
| StCall of bool * name * expr list
| StLoop
| StGoto of name
| StLabel of name
| StIf of cmpop * expr * expr * stmt * stmt option
| StBlock of stmt list

type fbody = stmt list * expr option

type skind =
| SkStruct
| SkOpaque
| SkWord8
| SkWord16
| SkWord32
| SkWord64
| SkWord128

type decl =
| DImport of coq_N list
| DConst of bool * bool * name * ty * expr
| DFn of bool * bool * name * (name * ty) list * ty * fbody option
| DStruct of bool * bool * skind * name * (name * ty) list

(** val name_return : name **)

let name_return =
  N0

(** val coq_MAX_ADDRESS_DEPTH : coq_N **)

let coq_MAX_ADDRESS_DEPTH =
  Npos (Coq_xI (Coq_xI (Coq_xI (Coq_xI (Coq_xI (Coq_xI Coq_xH))))))

(** val coq_MAX_REFERENCE_DEPTH : nat **)

let coq_MAX_REFERENCE_DEPTH =
  S (S (S (S (S (S (S (S (S (S (S (S (S (S (S (S (S (S (S (S (S (S (S (S (S
    (S (S (S (S (S (S (S (S (S (S (S (S (S (S (S (S (S (S (S (S (S (S (S (S
    (S (S (S (S (S (S (S (S (S (S (S (S (S (S (S (S (S (S (S (S (S (S (S (S
    (S (S (S (S (S (S (S (S (S (S (S (S (S (S (S (S (S (S (S (S (S (S (S (S
    (S (S (S (S (S (S (S (S (S (S (S (S (S (S (S (S (S (S (S (S (S (S (S (S
    (S (S (S (S (S (S
    O))))))))))))))))))))))))))))))))))))))))))))))))))))))))))))))))))))))))))))))))))))))))))))))))))))))))))))))))))))))))))))))

(** val i128_max : coq_Z **)

let i128_max =
  Z.sub
    (Z.pow (Zpos (Coq_xO Coq_xH)) (Zpos (Coq_xI (Coq_xI (Coq_xI (Coq_xI
      (Coq_xI (Coq_xI Coq_xH)))))))) (Zpos Coq_xH)

(** val i128_min_abs : coq_Z **)

let i128_min_abs =
  Z.pow (Zpos (Coq_xO Coq_xH)) (Zpos (Coq_xI (Coq_xI (Coq_xI (Coq_xI (Coq_xI
    (Coq_xI Coq_xH)))))))

(** val u128_lim : coq_Z **)

let u128_lim =
  Z.pow (Zpos (Coq_xO Coq_xH)) (Zpos (Coq_xO (Coq_xO (Coq_xO (Coq_xO (Coq_xO
    (Coq_xO (Coq_xO Coq_xH))))))))

(** val usize_lim : coq_Z **)

let usize_lim =
  Z.pow (Zpos (Coq_xO Coq_xH)) (Zpos (Coq_xO (Coq_xO (Coq_xO (Coq_xO (Coq_xO
    (Coq_xO Coq_xH)))))))

(** val mk : tkind -> coq_Z -> tykw option -> coq_N list -> tok **)

let mk k v vt bs =
  { kind = k; value = v; vtype = vt; bytes = bs; tstart = N0; tend = N0;
    line = N0; lstart = N0 }

(** val tk : tkind -> tok **)

let tk k =
  mk k Z0 None []

(** val tk_id : name -> tok **)

let tk_id n =
  mk KIdentifier (Z.of_N n) None []

(** val tk_builtin : name -> tok **)

let tk_builtin n =
  mk KBuiltin (Z.of_N n) None []

(** val tok_name : tok -> name **)

let tok_name t =
  Z.to_N t.value

(** val hdk : tok list -> tkind **)

let hdk = function
| [] -> KError
| t :: _ -> t.kind

(** val isParenLeft : tkind -> bool **)

let isParenLeft = function
| KParenLeft -> true
| _ -> false

(** val isParenRight : tkind -> bool **)

let isParenRight = function
| KParenRight -> true
| _ -> false

(** val isBraceLeft : tkind -> bool **)

let isBraceLeft = function
| KBraceLeft -> true
| _ -> false

(** val isBraceRight : tkind -> bool **)

let isBraceRight = function
| KBraceRight -> true
| _ -> false

(** val isBracketLeft : tkind -> bool **)

let isBracketLeft = function
| KBracketLeft -> true
| _ -> false

(** val isBracketRight : tkind -> bool **)

let isBracketRight = function
| KBracketRight -> true
| _ -> false

(** val isPipe : tkind -> bool **)

let isPipe = function
| KPipe -> true
| _ -> false

(** val isSemicolon : tkind -> bool **)

let isSemicolon = function
| KSemicolon -> true
| _ -> false

(** val isAssignment : tkind -> bool **)

let isAssignment = function
| KAssignment -> true
| _ -> false

(** val isColon : tkind -> bool **)

let isColon = function
| KColon -> true
| _ -> false

(** val isComma : tkind -> bool **)

let isComma = function
| KComma -> true
| _ -> false

(** val isElse : tkind -> bool **)

let isElse = function
| KElse -> true
| _ -> false

(** val isArrow : tkind -> bool **)

let isArrow = function
| KArrow -> true
| _ -> false

(** val isDots : tkind -> bool **)

let isDots = function
| KDots -> true
| _ -> false

(** val isDot : tkind -> bool **)

let isDot = function
| KDot -> true
| _ -> false

(** val isAs : tkind -> bool **)

let isAs = function
| KAs -> true
| _ -> false

(** val isCast : tkind -> bool **)

let isCast = function
| KCast -> true
| _ -> false

(** val isAmpersand : tkind -> bool **)

let isAmpersand = function
| KAmpersand -> true
| _ -> false

(** val isString : tkind -> bool **)

let isString = function
| KStringLiteral -> true
| _ -> false

(** val isPub : tkind -> bool **)

let isPub = function
| KPub -> true
| _ -> false

(** val isExtern : tkind -> bool **)

let isExtern = function
| KExtern -> true
| _ -> false

(** val isIdentifier : tkind -> bool **)

let isIdentifier = function
| KIdentifier -> true
| _ -> false

(** val expect : (tkind -> bool) -> tok list -> tok list option **)

let expect p = function
| [] -> None
| t :: r -> if p t.kind then Some r else None

(** val expect_id : tok list -> (name * tok list) option **)

let expect_id = function
| [] -> None
| t :: r -> if isIdentifier t.kind then Some ((tok_name t), r) else None

(** val addop_of : tkind -> binop option **)

let addop_of = function
| KPlus -> Some Add
| KMinus -> Some Subtract
| _ -> None

(** val mulop_of : tkind -> binop option **)

let mulop_of = function
| KTimes -> Some Multiply
| KDivide -> Some Divide
| KModulo -> Some Modulo
| _ -> None

(** val bitop_of : tkind -> binop option **)

let bitop_of = function
| KPipe -> Some BitwiseOr
| KAmpersand -> Some BitwiseAnd
| KCaret -> Some BitwiseXor
| _ -> None

(** val shiftop_of : tkind -> binop option **)

let shiftop_of = function
| KShiftLeft -> Some ShiftLeft
| KShiftRight -> Some ShiftRight
| _ -> None

(** val cmpop_of : tkind -> cmpop option **)

let cmpop_of = function
| KAngleLeft -> Some IsLess
| KAngleRight -> Some IsGreater
| KEquals -> Some Equals
| KDoesNotEqual -> Some DoesNotEqual
| KIsGE -> Some IsGE
| KIsLE -> Some IsLE
| _ -> None

(** val binop_eqb : binop -> binop -> bool **)

let binop_eqb a b =
  match a with
  | Add -> (match b with
            | Add -> true
            | _ -> false)
  | Subtract -> (match b with
                 | Subtract -> true
                 | _ -> false)
  | Multiply -> (match b with
                 | Multiply -> true
                 | _ -> false)
  | Divide -> (match b with
               | Divide -> true
               | _ -> false)
  | Modulo -> (match b with
               | Modulo -> true
               | _ -> false)
  | BitwiseAnd -> (match b with
                   | BitwiseAnd -> true
                   | _ -> false)
  | BitwiseOr -> (match b with
                  | BitwiseOr -> true
                  | _ -> false)
  | BitwiseXor -> (match b with
                   | BitwiseXor -> true
                   | _ -> false)
  | ShiftLeft -> (match b with
                  | ShiftLeft -> true
                  | _ -> false)
  | ShiftRight -> (match b with
                   | ShiftRight -> true
                   | _ -> false)
  | AdvancePointer -> (match b with
                       | AdvancePointer -> true
                       | _ -> false)

(** val same_bitop : binop -> tkind -> bool **)

let same_bitop op k =
  match bitop_of k with
  | Some op' -> binop_eqb op op'
  | None -> false

(** val is_binary : expr -> bool **)

let is_binary = function
| EBinary (_, _, _) -> true
| _ -> false

(** val prim_signed : prim -> bool **)

let prim_signed = function
| Int8 -> true
| Int16 -> true
| Int32 -> true
| Int64 -> true
| Int128 -> true
| _ -> false

(** val can_be_element : ty -> bool **)

let can_be_element = function
| TVoid -> false
| TSlice _ -> false
| TEndless _ -> false
| TView _ -> false
| _ -> true

(** val ty_wf_inner : ty -> bool **)

let rec ty_wf_inner = function
| TPrim _ -> true
| TNamed _ -> true
| TArray (_, e) -> (&&) (can_be_element e) (ty_wf_inner e)
| TArrayNamed (_, e) -> (&&) (can_be_element e) (ty_wf_inner e)
| TEndless e -> (&&) (can_be_element e) (ty_wf_inner e)
| TArraylike e -> (&&) (can_be_element e) (ty_wf_inner e)
| TPointer d -> ty_wf_inner d
| _ -> false

(** val ty_wellformed : ty -> bool **)

let ty_wellformed = function
| TArray (_, e) -> (&&) (can_be_element e) (ty_wf_inner e)
| TArrayNamed (_, e) -> (&&) (can_be_element e) (ty_wf_inner e)
| TSlice e -> (&&) (can_be_element e) (ty_wf_inner e)
| TEndless e -> (&&) (can_be_element e) (ty_wf_inner e)
| TArraylike e -> (&&) (can_be_element e) (ty_wf_inner e)
| TPointer d -> ty_wf_inner d
| TView d -> ty_wf_inner d
| _ -> true

(** val parse_inner_type : nat -> tok list -> (ty * tok list) option **)

let rec parse_inner_type f ts =
  match f with
  | O -> None
  | S f0 ->
    (match ts with
     | [] -> None
     | t :: ts1 ->
       (match t.kind with
        | KParenLeft ->
          (match parse_inner_type f0 ts1 with
           | Some p ->
             let (d, ts2) = p in
             (match expect isParenRight ts2 with
              | Some ts3 -> Some ((TView d), ts3)
              | None -> None)
           | None -> None)
        | KBracketLeft ->
          (match ts1 with
           | [] -> None
           | t1 :: ts2 ->
             (match t1.kind with
              | KBracketRight ->
                (match parse_inner_type f0 ts2 with
                 | Some p -> let (e, ts3) = p in Some ((TArraylike e), ts3)
                 | None -> None)
              | KColon ->
                (match expect isBracketRight ts2 with
                 | Some ts3 ->
                   (match parse_inner_type f0 ts3 with
                    | Some p -> let (e, ts4) = p in Some ((TSlice e), ts4)
                    | None -> None)
                 | None -> None)
              | KDots ->
                (match expect isBracketRight ts2 with
                 | Some ts3 ->
                   (match parse_inner_type f0 ts3 with
                    | Some p -> let (e, ts4) = p in Some ((TEndless e), ts4)
                    | None -> None)
                 | None -> None)
              | KIdentifier ->
                (match expect isBracketRight ts2 with
                 | Some ts3 ->
                   (match parse_inner_type f0 ts3 with
                    | Some p ->
                      let (e, ts4) = p in
                      Some ((TArrayNamed ((tok_name t1), e)), ts4)
                    | None -> None)
                 | None -> None)
              | KNakedDecimal ->
                (match expect isBracketRight ts2 with
                 | Some ts3 ->
                   (match parse_inner_type f0 ts3 with
                    | Some p ->
                      let (e, ts4) = p in
                      Some ((TArray ((Z.modulo t1.value usize_lim), e)), ts4)
                    | None -> None)
                 | None -> None)
              | _ -> None))
        | KAmpersand ->
          (match parse_inner_type f0 ts1 with
           | Some p -> let (d, ts2) = p in Some ((TPointer d), ts2)
           | None -> None)
        | KType ->
          (match t.vtype with
           | Some t0 ->
             (match t0 with
              | TyVoid -> Some (TVoid, ts1)
              | TyPrim p -> Some ((TPrim p), ts1))
           | None -> None)
        | KIdentifier -> Some ((TNamed (tok_name t)), ts1)
        | _ -> None))

(** val parse_wellformed_type : nat -> tok list -> (ty * tok list) option **)

let parse_wellformed_type f ts =
  match parse_inner_type f ts with
  | Some p -> let (t, r) = p in if ty_wellformed t then Some (t, r) else None
  | None -> None

(** val as_loop : nat -> expr -> tok list -> (expr * tok list) option **)

let rec as_loop f acc ts =
  match f with
  | O -> None
  | S f0 ->
    if isAs (hdk ts)
    then (match parse_wellformed_type f0 (tl ts) with
          | Some p -> let (t, ts1) = p in as_loop f0 (ETypeCast (acc, t)) ts1
          | None -> None)
    else Some (acc, ts)

(** val take_strings : tok list -> coq_N list * tok list **)

let rec take_strings ts = match ts with
| [] -> ([], ts)
| t :: r ->
  if isString t.kind
  then let (bs, r') = take_strings r in ((app t.bytes bs), r')
  else ([], ts)

(** val count_amps : tok list -> coq_N * tok list **)

let rec count_amps ts = match ts with
| [] -> (N0, ts)
| t :: r ->
  if isAmpersand t.kind
  then let (n, r') = count_amps r in ((N.succ n), r')
  else (N0, ts)

(** val literal_of : tok -> expr option **)

let literal_of t =
  match t.kind with
  | KNakedDecimal ->
    if Z.leb t.value i128_max
    then Some (ESigned (t.value, None))
    else Some (EBits (t.value, None))
  | KBitInteger -> Some (EBits (t.value, None))
  | KSuffixedInteger ->
    (match t.vtype with
     | Some t0 ->
       (match t0 with
        | TyVoid -> None
        | TyPrim p ->
          if (&&) (prim_signed p) (Z.leb t.value i128_max)
          then Some (ESigned (t.value, (Some p)))
          else Some (EBits (t.value, (Some p))))
     | None -> None)
  | KCharLiteral -> Some (EBits (t.value, (Some Char8)))
  | KBool -> Some (EBool (negb (Z.eqb t.value Z0)))
  | _ -> None

(** val is_close : bool -> tkind -> bool **)

let is_close br k =
  if br then isBracketRight k else isParenRight k

(** val parse_addition :
    nat -> bool -> tok list -> (expr * tok list) option **)

let rec parse_addition f nb ts =
  match f with
  | O -> None
  | S f0 ->
    (match parse_multiplication f0 nb ts with
     | Some p -> let (e, ts1) = p in add_loop f0 nb e ts1
     | None -> None)

(** val add_loop :
    nat -> bool -> expr -> tok list -> (expr * tok list) option **)

and add_loop f nb acc ts =
  match f with
  | O -> None
  | S f0 ->
    (match bitop_of (hdk ts) with
     | Some op ->
       if is_binary acc then None else bit_loop f0 nb op acc (tl ts)
     | None ->
       (match shiftop_of (hdk ts) with
        | Some op ->
          if is_binary acc
          then None
          else (match parse_unary f0 nb (tl ts) with
                | Some p ->
                  let (r, ts1) = p in Some ((EBinary (op, acc, r)), ts1)
                | None -> None)
        | None ->
          (match addop_of (hdk ts) with
           | Some op ->
             (match parse_multiplication f0 nb (tl ts) with
              | Some p ->
                let (r, ts1) = p in add_loop f0 nb (EBinary (op, acc, r)) ts1
              | None -> None)
           | None -> Some (acc, ts))))

(** val bit_loop :
    nat -> bool -> binop -> expr -> tok list -> (expr * tok list) option **)

and bit_loop f nb op acc ts =
  match f with
  | O -> None
  | S f0 ->
    (match parse_unary f0 nb ts with
     | Some p ->
       let (r, ts1) = p in
       if same_bitop op (hdk ts1)
       then bit_loop f0 nb op (EBinary (op, acc, r)) (tl ts1)
       else Some ((EBinary (op, acc, r)), ts1)
     | None -> None)

(** val parse_multiplication :
    nat -> bool -> tok list -> (expr * tok list) option **)

and parse_multiplication f nb ts =
  match f with
  | O -> None
  | S f0 ->
    (match parse_singular f0 nb ts with
     | Some p -> let (e, ts1) = p in mul_loop f0 nb e ts1
     | None -> None)

(** val mul_loop :
    nat -> bool -> expr -> tok list -> (expr * tok list) option **)

and mul_loop f nb acc ts =
  match f with
  | O -> None
  | S f0 ->
    (match mulop_of (hdk ts) with
     | Some op ->
       (match parse_singular f0 nb (tl ts) with
        | Some p ->
          let (r, ts1) = p in mul_loop f0 nb (EBinary (op, acc, r)) ts1
        | None -> None)
     | None -> Some (acc, ts))

(** val parse_singular :
    nat -> bool -> tok list -> (expr * tok list) option **)

and parse_singular f nb ts =
  match f with
  | O -> None
  | S f0 ->
    if isCast (hdk ts)
    then (match parse_unary f0 nb (tl ts) with
          | Some p -> let (e, ts1) = p in as_loop f0 (EBitCast e) ts1
          | None -> None)
    else (match parse_unary f0 nb ts with
          | Some p -> let (e, ts1) = p in as_loop f0 e ts1
          | None -> None)

(** val parse_unary : nat -> bool -> tok list -> (expr * tok list) option **)

and parse_unary f nb ts =
  match f with
  | O -> None
  | S f0 ->
    (match hdk ts with
     | KPipe ->
       (match parse_reference f0 nb (tl ts) with
        | Some p ->
          let (r, ts1) = p in
          (match expect isPipe ts1 with
           | Some ts2 -> Some ((ELength r), ts2)
           | None -> None)
        | None -> None)
     | KExclamation ->
       (match parse_primary f0 nb (tl ts) with
        | Some p ->
          let (e, ts1) = p in Some ((EUnary (BitwiseComplement, e)), ts1)
        | None -> None)
     | KMinus ->
       (match parse_primary f0 nb (tl ts) with
        | Some p ->
          let (e, ts1) = p in
          (match e with
           | ESigned (v, t) ->
             if Z.ltb Z0 v
             then Some ((ESigned ((Z.opp v), t)), ts1)
             else Some ((EUnary (Negative, (ESigned (v, t)))), ts1)
           | EBits (v, t) ->
             if Z.eqb v i128_min_abs
             then Some ((ESigned ((Z.opp i128_min_abs), t)), ts1)
             else Some ((EUnary (Negative, (EBits (v, t)))), ts1)
           | _ -> Some ((EUnary (Negative, e)), ts1))
        | None -> None)
     | KPipeForType ->
       (match parse_wellformed_type f0 (tl ts) with
        | Some p ->
          let (t, ts1) = p in
          (match expect isPipe ts1 with
           | Some ts2 -> Some ((ESizeOf t), ts2)
           | None -> None)
        | None -> None)
     | _ -> parse_primary f0 nb ts)

(** val parse_primary :
    nat -> bool -> tok list -> (expr * tok list) option **)

and parse_primary f nb ts =
  match f with
  | O -> None
  | S f0 ->
    (match ts with
     | [] -> None
     | t :: ts1 ->
       (match t.kind with
        | KParenLeft ->
          (match parse_addition f0 nb ts1 with
           | Some p ->
             let (e, ts2) = p in
             (match expect isParenRight ts2 with
              | Some ts3 -> Some ((EParen e), ts3)
              | None -> None)
           | None -> None)
        | KBracketLeft ->
          (match expr_list f0 nb true ts1 with
           | Some p ->
             let (es, ts2) = p in
             (match expect isBracketRight ts2 with
              | Some ts3 -> Some ((EArray es), ts3)
              | None -> None)
           | None -> None)
        | KAmpersand ->
          (match parse_reference f0 nb ts1 with
           | Some p ->
             let (r, ts2) = p in
             let Ref (d, b, steps) = r in
             if N.ltb coq_MAX_ADDRESS_DEPTH (N.add d (Npos Coq_xH))
             then None
             else let pointer = EDeref (Ref ((N.add d (Npos Coq_xH)), b,
                    steps))
                  in
                  if isDots (hdk ts2)
                  then (match parse_addition f0 nb (tl ts2) with
                        | Some p0 ->
                          let (off, ts3) = p0 in
                          Some ((EBinary (AdvancePointer, pointer, off)), ts3)
                        | None -> None)
                  else Some (pointer, ts2)
           | None -> None)
        | KIdentifier ->
          if isParenLeft (hdk ts1)
          then (match expr_list f0 nb false (tl ts1) with
                | Some p ->
                  let (args, ts2) = p in
                  (match expect isParenRight ts2 with
                   | Some ts3 ->
                     Some ((ECall (false, (tok_name t), args)), ts3)
                   | None -> None)
                | None -> None)
          else if (&&) (isBraceLeft (hdk ts1)) (negb nb)
               then (match members_loop f0 nb (tl ts1) with
                     | Some p ->
                       let (ms, ts2) = p in
                       (match expect isBraceRight ts2 with
                        | Some ts3 ->
                          Some ((EStructural ((tok_name t), ms)), ts3)
                        | None -> None)
                     | None -> None)
               else (match steps_loop f0 nb O ts1 with
                     | Some p ->
                       let (steps, ts2) = p in
                       Some ((EDeref (Ref (N0, (tok_name t), steps))), ts2)
                     | None -> None)
        | KBuiltin ->
          (match expect isParenLeft ts1 with
           | Some ts2 ->
             (match expr_list f0 nb false ts2 with
              | Some p ->
                let (args, ts3) = p in
                (match expect isParenRight ts3 with
                 | Some ts4 -> Some ((ECall (true, (tok_name t), args)), ts4)
                 | None -> None)
              | None -> None)
           | None -> None)
        | KNakedDecimal ->
          (match literal_of t with
           | Some e -> Some (e, ts1)
           | None -> None)
        | KBitInteger ->
          (match literal_of t with
           | Some e -> Some (e, ts1)
           | None -> None)
        | KSuffixedInteger ->
          (match literal_of t with
           | Some e -> Some (e, ts1)
           | None -> None)
        | KCharLiteral ->
          (match literal_of t with
           | Some e -> Some (e, ts1)
           | None -> None)
        | KBool ->
          (match literal_of t with
           | Some e -> Some (e, ts1)
           | None -> None)
        | KStringLiteral ->
          let (bs, ts2) = take_strings ts1 in
          Some ((EString (app t.bytes bs)), ts2)
        | _ -> None))

(** val expr_list :
    nat -> bool -> bool -> tok list -> (expr list * tok list) option **)

and expr_list f nb br ts =
  match f with
  | O -> None
  | S f0 ->
    if is_close br (hdk ts)
    then Some ([], ts)
    else (match parse_addition f0 nb ts with
          | Some p ->
            let (e, ts1) = p in
            if isComma (hdk ts1)
            then (match expr_list f0 nb br (tl ts1) with
                  | Some p0 -> let (es, ts2) = p0 in Some ((e :: es), ts2)
                  | None -> None)
            else Some ((e :: []), ts1)
          | None -> None)

(** val members_loop :
    nat -> bool -> tok list -> ((name * expr) list * tok list) option **)

and members_loop f nb ts =
  match f with
  | O -> None
  | S f0 ->
    if isBraceRight (hdk ts)
    then Some ([], ts)
    else (match expect_id ts with
          | Some p ->
            let (n, ts1) = p in
            let value0 =
              if isColon (hdk ts1)
              then parse_addition f0 nb (tl ts1)
              else Some ((EDeref (Ref (N0, n, []))), ts1)
            in
            (match value0 with
             | Some p0 ->
               let (e, ts2) = p0 in
               if isComma (hdk ts2)
               then (match members_loop f0 nb (tl ts2) with
                     | Some p1 ->
                       let (ms, ts3) = p1 in Some (((n, e) :: ms), ts3)
                     | None -> None)
               else Some (((n, e) :: []), ts2)
             | None -> None)
          | None -> None)

(** val parse_reference :
    nat -> bool -> tok list -> (reference * tok list) option **)

and parse_reference f nb ts =
  match f with
  | O -> None
  | S f0 ->
    let (d, ts1) = count_amps ts in
    if N.ltb coq_MAX_ADDRESS_DEPTH d
    then None
    else (match expect_id ts1 with
          | Some p ->
            let (b, ts2) = p in
            (match steps_loop f0 nb O ts2 with
             | Some p0 ->
               let (steps, ts3) = p0 in Some ((Ref (d, b, steps)), ts3)
             | None -> None)
          | None -> None)

(** val steps_loop :
    nat -> bool -> nat -> tok list -> (step list * tok list) option **)

and steps_loop f nb k ts =
  match f with
  | O -> None
  | S f0 ->
    if isBracketLeft (hdk ts)
    then (match parse_addition f0 nb (tl ts) with
          | Some p ->
            let (e, ts1) = p in
            (match expect isBracketRight ts1 with
             | Some ts2 ->
               if Nat.ltb coq_MAX_REFERENCE_DEPTH (S k)
               then None
               else (match steps_loop f0 nb (S k) ts2 with
                     | Some p0 ->
                       let (ss, ts3) = p0 in Some (((RsElement e) :: ss), ts3)
                     | None -> None)
             | None -> None)
          | None -> None)
    else if isDot (hdk ts)
         then (match expect_id (tl ts) with
               | Some p ->
                 let (m, ts1) = p in
                 if Nat.ltb coq_MAX_REFERENCE_DEPTH (S k)
                 then None
                 else (match steps_loop f0 nb (S k) ts1 with
                       | Some p0 ->
                         let (ss, ts2) = p0 in
                         Some (((RsMember m) :: ss), ts2)
                       | None -> None)
               | None -> None)
         else Some ([], ts)

(** val parse_expr : nat -> tok list -> (expr * tok list) option **)

let parse_expr f ts =
  parse_addition f false ts

(** val parse_addressed_reference :
    nat -> bool -> tok list -> (reference * tok list) option **)

let parse_addressed_reference f nb ts =
  match parse_reference f nb ts with
  | Some p ->
    let (r, ts1) = p in
    let Ref (d, b, steps) = r in
    if N.ltb coq_MAX_ADDRESS_DEPTH (N.add d (Npos Coq_xH))
    then None
    else Some ((Ref ((N.add d (Npos Coq_xH)), b, steps)), ts1)
  | None -> None

(** val parse_arguments : nat -> tok list -> (expr list * tok list) option **)

let parse_arguments f ts =
  match expect isParenLeft ts with
  | Some ts1 ->
    (match expr_list f false false ts1 with
     | Some p ->
       let (args, ts2) = p in
       (match expect isParenRight ts2 with
        | Some ts3 -> Some (args, ts3)
        | None -> None)
     | None -> None)
  | None -> None

(** val parse_comparison :
    nat -> tok list -> (((cmpop * expr) * expr) * tok list) option **)

let parse_comparison f ts =
  match parse_addition f true ts with
  | Some p ->
    let (l, ts1) = p in
    (match cmpop_of (hdk ts1) with
     | Some op ->
       (match parse_addition f true (tl ts1) with
        | Some p0 -> let (r, ts2) = p0 in Some (((op, l), r), ts2)
        | None -> None)
     | None -> None)
  | None -> None

(** val parse_assign_tail : nat -> tok list -> (expr * tok list) option **)

let parse_assign_tail f ts =
  match expect isAssignment ts with
  | Some ts1 ->
    (match parse_addition f false ts1 with
     | Some p ->
       let (e, ts2) = p in
       (match expect isSemicolon ts2 with
        | Some ts3 -> Some (e, ts3)
        | None -> None)
     | None -> None)
  | None -> None

(** val parse_statement : nat -> tok list -> (stmt * tok list) option **)

let rec parse_statement f ts =
  match f with
  | O -> None
  | S f0 ->
    (match ts with
     | [] -> None
     | t :: ts1 ->
       (match t.kind with
        | KBraceLeft ->
          (match block_loop f0 ts1 with
           | Some p -> let (ss, ts2) = p in Some ((StBlock ss), ts2)
           | None -> None)
        | KAmpersand ->
          (match parse_addressed_reference f0 false ts1 with
           | Some p ->
             let (r, ts2) = p in
             (match parse_assign_tail f0 ts2 with
              | Some p0 -> let (e, ts3) = p0 in Some ((StAssign (r, e)), ts3)
              | None -> None)
           | None -> None)
        | KVar ->
          (match expect_id ts1 with
           | Some p ->
             let (n, ts2) = p in
             let otype =
               if isColon (hdk ts2)
               then (match parse_wellformed_type f0 (tl ts2) with
                     | Some p0 -> let (t0, ts3) = p0 in Some ((Some t0), ts3)
                     | None -> None)
               else Some (None, ts2)
             in
             (match otype with
              | Some p0 ->
                let (ot, ts3) = p0 in
                let ovalue =
                  if isAssignment (hdk ts3)
                  then (match parse_addition f0 false (tl ts3) with
                        | Some p1 -> let (e, ts4) = p1 in Some ((Some e), ts4)
                        | None -> None)
                  else Some (None, ts3)
                in
                (match ovalue with
                 | Some p1 ->
                   let (ov, ts4) = p1 in
                   (match expect isSemicolon ts4 with
                    | Some ts5 -> Some ((StVar (n, ot, ov)), ts5)
                    | None -> None)
                 | None -> None)
              | None -> None)
           | None -> None)
        | KIf ->
          (match parse_comparison f0 ts1 with
           | Some p ->
             let (p0, ts2) = p in
             let (p1, r) = p0 in
             let (op, l) = p1 in
             (match parse_statement f0 ts2 with
              | Some p2 ->
                let (th, ts3) = p2 in
                if isElse (hdk ts3)
                then (match parse_statement f0 (tl ts3) with
                      | Some p3 ->
                        let (el, ts4) = p3 in
                        Some ((StIf (op, l, r, th, (Some el))), ts4)
                      | None -> None)
                else Some ((StIf (op, l, r, th, None)), ts3)
              | None -> None)
           | None -> None)
        | KGoto ->
          (match expect_id ts1 with
           | Some p ->
             let (l, ts2) = p in
             (match expect isSemicolon ts2 with
              | Some ts3 -> Some ((StGoto l), ts3)
              | None -> None)
           | None -> None)
        | KLoop ->
          (match expect isSemicolon ts1 with
           | Some ts2 -> Some (StLoop, ts2)
           | None -> None)
        | KIdentifier ->
          if isColon (hdk ts1)
          then Some ((StLabel (tok_name t)), (tl ts1))
          else if isParenLeft (hdk ts1)
               then (match parse_arguments f0 ts1 with
                     | Some p ->
                       let (args, ts2) = p in
                       (match expect isSemicolon ts2 with
                        | Some ts3 ->
                          Some ((StCall (false, (tok_name t), args)), ts3)
                        | None -> None)
                     | None -> None)
               else (match steps_loop f0 false O ts1 with
                     | Some p ->
                       let (steps, ts2) = p in
                       (match parse_assign_tail f0 ts2 with
                        | Some p0 ->
                          let (e, ts3) = p0 in
                          Some ((StAssign ((Ref (N0, (tok_name t), steps)),
                          e)), ts3)
                        | None -> None)
                     | None -> None)
        | KBuiltin ->
          (match parse_arguments f0 ts1 with
           | Some p ->
             let (args, ts2) = p in
             (match expect isSemicolon ts2 with
              | Some ts3 -> Some ((StCall (true, (tok_name t), args)), ts3)
              | None -> None)
           | None -> None)
        | _ -> None))

(** val block_loop : nat -> tok list -> (stmt list * tok list) option **)

and block_loop f ts =
  match f with
  | O -> None
  | S f0 ->
    if isBraceRight (hdk ts)
    then Some ([], (tl ts))
    else (match parse_statement f0 ts with
          | Some p ->
            let (s, ts1) = p in
            (match block_loop f0 ts1 with
             | Some p0 -> let (ss, ts2) = p0 in Some ((s :: ss), ts2)
             | None -> None)
          | None -> None)

(** val is_return_label : stmt -> bool **)

let is_return_label = function
| StLabel l -> N.eqb l name_return
| _ -> false

(** val body_loop : nat -> tok list -> (fbody * tok list) option **)

let rec body_loop f ts =
  match f with
  | O -> None
  | S f0 ->
    if isBraceRight (hdk ts)
    then Some (([], None), (tl ts))
    else (match parse_statement f0 ts with
          | Some p ->
            let (s, ts1) = p in
            if is_return_label s
            then if isBraceRight (hdk ts1)
                 then None
                 else (match parse_addition f0 false ts1 with
                       | Some p0 ->
                         let (e, ts2) = p0 in
                         (match expect isBraceRight ts2 with
                          | Some ts3 -> Some (((s :: []), (Some e)), ts3)
                          | None -> None)
                       | None -> None)
            else (match body_loop f0 ts1 with
                  | Some p0 ->
                    let (f1, ts2) = p0 in
                    let (ss, rv) = f1 in Some (((s :: ss), rv), ts2)
                  | None -> None)
          | None -> None)

(** val parse_typed_name :
    nat -> tok list -> ((name * ty) * tok list) option **)

let parse_typed_name f ts =
  match expect_id ts with
  | Some p ->
    let (n, ts1) = p in
    (match expect isColon ts1 with
     | Some ts2 ->
       (match parse_wellformed_type f ts2 with
        | Some p0 -> let (t, ts3) = p0 in Some ((n, t), ts3)
        | None -> None)
     | None -> None)
  | None -> None

(** val is_close_tn : bool -> tkind -> bool **)

let is_close_tn br k =
  if br then isBraceRight k else isParenRight k

(** val typed_names :
    nat -> bool -> tok list -> ((name * ty) list * tok list) option **)

let rec typed_names f br ts =
  match f with
  | O -> None
  | S f0 ->
    if is_close_tn br (hdk ts)
    then Some ([], ts)
    else (match parse_typed_name f0 ts with
          | Some p ->
            let (m, ts1) = p in
            if isComma (hdk ts1)
            then (match typed_names f0 br (tl ts1) with
                  | Some p0 -> let (ms, ts2) = p0 in Some ((m :: ms), ts2)
                  | None -> None)
            else Some ((m :: []), ts1)
          | None -> None)

(** val parse_struct_members :
    nat -> tok list -> ((name * ty) list * tok list) option **)

let parse_struct_members f ts =
  match expect isBraceLeft ts with
  | Some ts1 ->
    (match typed_names f true ts1 with
     | Some p ->
       let (ms, ts2) = p in
       (match expect isBraceRight ts2 with
        | Some ts3 -> Some (ms, ts3)
        | None -> None)
     | None -> None)
  | None -> None

(** val word_kind : tkind -> skind option **)

let word_kind = function
| KWord8 -> Some SkWord8
| KWord16 -> Some SkWord16
| KWord32 -> Some SkWord32
| KWord64 -> Some SkWord64
| KWord128 -> Some SkWord128
| _ -> None

(** val is_cont : coq_N -> bool **)

let is_cont b =
  (&&)
    (N.leb (Npos (Coq_xO (Coq_xO (Coq_xO (Coq_xO (Coq_xO (Coq_xO (Coq_xO
      Coq_xH)))))))) b)
    (N.leb b (Npos (Coq_xI (Coq_xI (Coq_xI (Coq_xI (Coq_xI (Coq_xI (Coq_xO
      Coq_xH)))))))))

(** val in_rng : coq_N -> coq_N -> coq_N -> bool **)

let in_rng lo hi b =
  (&&) (N.leb lo b) (N.leb b hi)

(** val utf8_valid : coq_N list -> bool **)

let rec utf8_valid = function
| [] -> true
| b :: r ->
  if N.ltb b (Npos (Coq_xO (Coq_xO (Coq_xO (Coq_xO (Coq_xO (Coq_xO (Coq_xO
       Coq_xH))))))))
  then utf8_valid r
  else if in_rng (Npos (Coq_xO (Coq_xI (Coq_xO (Coq_xO (Coq_xO (Coq_xO
            (Coq_xI Coq_xH)))))))) (Npos (Coq_xI (Coq_xI (Coq_xI (Coq_xI
            (Coq_xI (Coq_xO (Coq_xI Coq_xH)))))))) b
       then (match r with
             | [] -> false
             | c1 :: r1 -> (&&) (is_cont c1) (utf8_valid r1))
       else if in_rng (Npos (Coq_xO (Coq_xO (Coq_xO (Coq_xO (Coq_xO (Coq_xI
                 (Coq_xI Coq_xH)))))))) (Npos (Coq_xI (Coq_xI (Coq_xI (Coq_xI
                 (Coq_xO (Coq_xI (Coq_xI Coq_xH)))))))) b
            then (match r with
                  | [] -> false
                  | c1 :: l ->
                    (match l with
                     | [] -> false
                     | c2 :: r2 ->
                       (&&)
                         ((&&)
                           (if N.eqb b (Npos (Coq_xO (Coq_xO (Coq_xO (Coq_xO
                                 (Coq_xO (Coq_xI (Coq_xI Coq_xH))))))))
                            then in_rng (Npos (Coq_xO (Coq_xO (Coq_xO (Coq_xO
                                   (Coq_xO (Coq_xI (Coq_xO Coq_xH))))))))
                                   (Npos (Coq_xI (Coq_xI (Coq_xI (Coq_xI
                                   (Coq_xI (Coq_xI (Coq_xO Coq_xH)))))))) c1
                            else if N.eqb b (Npos (Coq_xI (Coq_xO (Coq_xI
                                      (Coq_xI (Coq_xO (Coq_xI (Coq_xI
                                      Coq_xH))))))))
                                 then in_rng (Npos (Coq_xO (Coq_xO (Coq_xO
                                        (Coq_xO (Coq_xO (Coq_xO (Coq_xO
                                        Coq_xH)))))))) (Npos (Coq_xI (Coq_xI
                                        (Coq_xI (Coq_xI (Coq_xI (Coq_xO
                                        (Coq_xO Coq_xH)))))))) c1
                                 else is_cont c1) (is_cont c2))
                         (utf8_valid r2)))
            else if in_rng (Npos (Coq_xO (Coq_xO (Coq_xO (Coq_xO (Coq_xI
                      (Coq_xI (Coq_xI Coq_xH)))))))) (Npos (Coq_xO (Coq_xO
                      (Coq_xI (Coq_xO (Coq_xI (Coq_xI (Coq_xI Coq_xH)))))))) b
                 then (match r with
                       | [] -> false
                       | c1 :: l ->
                         (match l with
                          | [] -> false
                          | c2 :: l0 ->
                            (match l0 with
                             | [] -> false
                             | c3 :: r3 ->
                               (&&)
                                 ((&&)
                                   ((&&)
                                     (if N.eqb b (Npos (Coq_xO (Coq_xO
                                           (Coq_xO (Coq_xO (Coq_xI (Coq_xI
                                           (Coq_xI Coq_xH))))))))
                                      then in_rng (Npos (Coq_xO (Coq_xO
                                             (Coq_xO (Coq_xO (Coq_xI (Coq_xO
                                             (Coq_xO Coq_xH)))))))) (Npos
                                             (Coq_xI (Coq_xI (Coq_xI (Coq_xI
                                             (Coq_xI (Coq_xI (Coq_xO
                                             Coq_xH)))))))) c1
                                      else if N.eqb b (Npos (Coq_xO (Coq_xO
                                                (Coq_xI (Coq_xO (Coq_xI
                                                (Coq_xI (Coq_xI Coq_xH))))))))
                                           then in_rng (Npos (Coq_xO (Coq_xO
                                                  (Coq_xO (Coq_xO (Coq_xO
                                                  (Coq_xO (Coq_xO
                                                  Coq_xH)))))))) (Npos
                                                  (Coq_xI (Coq_xI (Coq_xI
                                                  (Coq_xI (Coq_xO (Coq_xO
                                                  (Coq_xO Coq_xH)))))))) c1
                                           else is_cont c1) (is_cont c2))
                                   (is_cont c3)) (utf8_valid r3))))
                 else false

(** val parse_declaration_rest :
    nat -> bool -> bool -> tok list -> (decl * tok list) option **)

let parse_declaration_rest f pub ext = function
| [] -> None
| t :: ts2 ->
  (match t.kind with
   | KFn ->
     (match expect_id ts2 with
      | Some p ->
        let (n, ts3) = p in
        (match expect isParenLeft ts3 with
         | Some ts4 ->
           (match typed_names f false ts4 with
            | Some p0 ->
              let (ps, ts5) = p0 in
              (match expect isParenRight ts5 with
               | Some ts6 ->
                 let oret =
                   if isArrow (hdk ts6)
                   then parse_wellformed_type f (tl ts6)
                   else Some (TVoid, ts6)
                 in
                 (match oret with
                  | Some p1 ->
                    let (ret, ts7) = p1 in
                    if isSemicolon (hdk ts7)
                    then Some ((DFn (pub, ext, n, ps, ret, None)), (tl ts7))
                    else (match expect isBraceLeft ts7 with
                          | Some ts8 ->
                            (match body_loop f ts8 with
                             | Some p2 ->
                               let (b, ts9) = p2 in
                               Some ((DFn (pub, ext, n, ps, ret, (Some b))),
                               ts9)
                             | None -> None)
                          | None -> None)
                  | None -> None)
               | None -> None)
            | None -> None)
         | None -> None)
      | None -> None)
   | KConst ->
     (match parse_typed_name f ts2 with
      | Some p ->
        let (p0, ts3) = p in
        let (n, t0) = p0 in
        (match parse_assign_tail f ts3 with
         | Some p1 ->
           let (e, ts4) = p1 in Some ((DConst (pub, ext, n, t0, e)), ts4)
         | None -> None)
      | None -> None)
   | KImport ->
     (match ts2 with
      | [] -> None
      | s :: ts3 ->
        if (&&) (isString s.kind) (utf8_valid s.bytes)
        then (match expect isSemicolon ts3 with
              | Some ts4 -> Some ((DImport s.bytes), ts4)
              | None -> None)
        else None)
   | KStruct ->
     (match expect_id ts2 with
      | Some p ->
        let (n, ts3) = p in
        if isSemicolon (hdk ts3)
        then Some ((DStruct (pub, ext, SkOpaque, n, [])), (tl ts3))
        else (match parse_struct_members f ts3 with
              | Some p0 ->
                let (ms, ts4) = p0 in
                Some ((DStruct (pub, ext, SkStruct, n, ms)), ts4)
              | None -> None)
      | None -> None)
   | KWord8 ->
     (match word_kind t.kind with
      | Some k ->
        (match expect_id ts2 with
         | Some p ->
           let (n, ts3) = p in
           (match parse_struct_members f ts3 with
            | Some p0 ->
              let (ms, ts4) = p0 in Some ((DStruct (pub, ext, k, n, ms)), ts4)
            | None -> None)
         | None -> None)
      | None -> None)
   | KWord16 ->
     (match word_kind t.kind with
      | Some k ->
        (match expect_id ts2 with
         | Some p ->
           let (n, ts3) = p in
           (match parse_struct_members f ts3 with
            | Some p0 ->
              let (ms, ts4) = p0 in Some ((DStruct (pub, ext, k, n, ms)), ts4)
            | None -> None)
         | None -> None)
      | None -> None)
   | KWord32 ->
     (match word_kind t.kind with
      | Some k ->
        (match expect_id ts2 with
         | Some p ->
           let (n, ts3) = p in
           (match parse_struct_members f ts3 with
            | Some p0 ->
              let (ms, ts4) = p0 in Some ((DStruct (pub, ext, k, n, ms)), ts4)
            | None -> None)
         | None -> None)
      | None -> None)
   | KWord64 ->
     (match word_kind t.kind with
      | Some k ->
        (match expect_id ts2 with
         | Some p ->
           let (n, ts3) = p in
           (match parse_struct_members f ts3 with
            | Some p0 ->
              let (ms, ts4) = p0 in Some ((DStruct (pub, ext, k, n, ms)), ts4)
            | None -> None)
         | None -> None)
      | None -> None)
   | KWord128 ->
     (match word_kind t.kind with
      | Some k ->
        (match expect_id ts2 with
         | Some p ->
           let (n, ts3) = p in
           (match parse_struct_members f ts3 with
            | Some p0 ->
              let (ms, ts4) = p0 in Some ((DStruct (pub, ext, k, n, ms)), ts4)
            | None -> None)
         | None -> None)
      | None -> None)
   | _ -> None)

(** val parse_declaration : nat -> tok list -> (decl * tok list) option **)

let parse_declaration f ts =
  let pub = isPub (hdk ts) in
  let ts0 = if pub then tl ts else ts in
  let ext = isExtern (hdk ts0) in
  let ts1 = if ext then tl ts0 else ts0 in
  parse_declaration_rest f pub ext ts1

(** val decls_loop : nat -> nat -> tok list -> decl list option **)

let rec decls_loop f inner ts =
  match f with
  | O -> None
  | S f0 ->
    (match ts with
     | [] -> Some []
     | _ :: _ ->
       (match parse_declaration inner ts with
        | Some p ->
          let (d, ts1) = p in
          (match decls_loop f0 inner ts1 with
           | Some ds -> Some (d :: ds)
           | None -> None)
        | None -> None))

(** val parse_module : nat -> tok list -> decl list option **)

let parse_module fuel ts =
  decls_loop fuel fuel ts

(** val tk_type : tykw -> tok **)

let tk_type k =
  mk KType Z0 (Some k) []

(** val print_type : ty -> tok list **)

let rec print_type = function
| TVoid -> (tk_type TyVoid) :: []
| TPrim p -> (tk_type (TyPrim p)) :: []
| TNamed n -> (tk_id n) :: []
| TArray (len, e) ->
  (tk KBracketLeft) :: ((mk KNakedDecimal len None []) :: ((tk KBracketRight) :: 
    (print_type e)))
| TArrayNamed (n, e) ->
  (tk KBracketLeft) :: ((tk_id n) :: ((tk KBracketRight) :: (print_type e)))
| TSlice e ->
  (tk KBracketLeft) :: ((tk KColon) :: ((tk KBracketRight) :: (print_type e)))
| TEndless e ->
  (tk KBracketLeft) :: ((tk KDots) :: ((tk KBracketRight) :: (print_type e)))
| TArraylike e -> (tk KBracketLeft) :: ((tk KBracketRight) :: (print_type e))
| TPointer d -> (tk KAmpersand) :: (print_type d)
| TView d -> (tk KParenLeft) :: (app (print_type d) ((tk KParenRight) :: []))

(** val kind_of_binop : binop -> tkind **)

let kind_of_binop = function
| Add -> KPlus
| Subtract -> KMinus
| Multiply -> KTimes
| Divide -> KDivide
| Modulo -> KModulo
| BitwiseAnd -> KAmpersand
| BitwiseOr -> KPipe
| BitwiseXor -> KCaret
| ShiftLeft -> KShiftLeft
| ShiftRight -> KShiftRight
| AdvancePointer -> KDots

(** val kind_of_unop : unop -> tkind **)

let kind_of_unop = function
| Negative -> KMinus
| BitwiseComplement -> KExclamation

(** val kind_of_cmpop : cmpop -> tkind **)

let kind_of_cmpop = function
| Equals -> KEquals
| DoesNotEqual -> KDoesNotEqual
| IsGreater -> KAngleRight
| IsGE -> KIsGE
| IsLess -> KAngleLeft
| IsLE -> KIsLE

(** val tk_sint : coq_Z -> prim option -> tok **)

let tk_sint v = function
| Some p -> mk KSuffixedInteger v (Some (TyPrim p)) []
| None -> mk KNakedDecimal v None []

(** val tk_bits : coq_Z -> prim option -> tok **)

let tk_bits v = function
| Some p ->
  (match p with
   | Char8 -> mk KCharLiteral v None []
   | _ -> mk KSuffixedInteger v (Some (TyPrim p)) [])
| None -> mk KBitInteger v None []

(** val print_sep : ('a1 -> tok list) -> 'a1 list -> tok list **)

let print_sep f = function
| [] -> []
| x :: xs -> app (f x) (flat_map (fun y -> (tk KComma) :: (f y)) xs)

(** val print_expr : expr -> tok list **)

let rec print_expr = function
| EBinary (op, l, r) ->
  app (print_expr l) ((tk (kind_of_binop op)) :: (print_expr r))
| EUnary (op, e0) -> (tk (kind_of_unop op)) :: (print_expr e0)
| EBool b -> (mk KBool (if b then Zpos Coq_xH else Z0) None []) :: []
| ESigned (v, t) ->
  if Z.ltb v Z0
  then (tk KMinus) :: ((tk_sint (Z.opp v) t) :: [])
  else (tk_sint v t) :: []
| EBits (v, t) -> (tk_bits v t) :: []
| EString bs -> (mk KStringLiteral Z0 None bs) :: []
| EArray es ->
  (tk KBracketLeft) :: (app
                         (flat_map (fun e0 ->
                           app (print_expr e0) ((tk KComma) :: [])) es)
                         ((tk KBracketRight) :: []))
| EStructural (n, ms) ->
  (tk_id n) :: ((tk KBraceLeft) :: (app
                                     (flat_map (fun me ->
                                       let (m, e0) = me in
                                       (tk_id m) :: ((tk KColon) :: (app
                                                                    (print_expr
                                                                    e0)
                                                                    ((tk
                                                                    KComma) :: []))))
                                       ms) ((tk KBraceRight) :: [])))
| EParen e0 ->
  (tk KParenLeft) :: (app (print_expr e0) ((tk KParenRight) :: []))
| EDeref r -> print_ref r
| EBitCast e0 -> (tk KCast) :: (print_expr e0)
| ETypeCast (e0, t) -> app (print_expr e0) ((tk KAs) :: (print_type t))
| ELength r -> (tk KPipe) :: (app (print_ref r) ((tk KPipe) :: []))
| ESizeOf t -> (tk KPipeForType) :: (app (print_type t) ((tk KPipe) :: []))
| ECall (b, n, args) ->
  (if b then tk_builtin n else tk_id n) :: ((tk KParenLeft) :: (app
                                                                 (print_sep
                                                                   print_expr
                                                                   args)
                                                                 ((tk
                                                                    KParenRight) :: [])))

(** val print_ref : reference -> tok list **)

and print_ref = function
| Ref (d, b, steps) ->
  app (repeat (tk KAmpersand) (N.to_nat d))
    ((tk_id b) :: (flat_map print_step steps))

(** val print_step : step -> tok list **)

and print_step = function
| RsElement e ->
  (tk KBracketLeft) :: (app (print_expr e) ((tk KBracketRight) :: []))
| RsMember m -> (tk KDot) :: ((tk_id m) :: [])

(** val print_args : bool -> name -> expr list -> tok list **)

let print_args b n args =
  (if b then tk_builtin n else tk_id n) :: ((tk KParenLeft) :: (app
                                                                 (print_sep
                                                                   print_expr
                                                                   args)
                                                                 ((tk
                                                                    KParenRight) :: [])))

(** val print_stmt : stmt -> tok list **)

let rec print_stmt = function
| StVar (n, t, v) ->
  (tk KVar) :: ((tk_id n) :: (app
                               (match t with
                                | Some t0 -> (tk KColon) :: (print_type t0)
                                | None -> [])
                               (app
                                 (match v with
                                  | Some e ->
                                    (tk KAssignment) :: (print_expr e)
                                  | None -> []) ((tk KSemicolon) :: []))))
| StAssign (r, v) ->
  app (print_ref r)
    ((tk KAssignment) :: (app (print_expr v) ((tk KSemicolon) :: [])))
| StCall (b, n, args) -> app (print_args b n args) ((tk KSemicolon) :: [])
| StLoop -> (tk KLoop) :: ((tk KSemicolon) :: [])
| StGoto l -> (tk KGoto) :: ((tk_id l) :: ((tk KSemicolon) :: []))
| StLabel l -> (tk_id l) :: ((tk KColon) :: [])
| StIf (op, l, r, th, el) ->
  (tk KIf) :: (app (print_expr l)
                ((tk (kind_of_cmpop op)) :: (app (print_expr r)
                                              (app (print_stmt th)
                                                (match el with
                                                 | Some e ->
                                                   (tk KElse) :: (print_stmt
                                                                   e)
                                                 | None -> [])))))
| StBlock ss ->
  (tk KBraceLeft) :: (app (flat_map print_stmt ss) ((tk KBraceRight) :: []))

(** val print_body : fbody -> tok list **)

let print_body = function
| (ss, rv) ->
  (tk KBraceLeft) :: (app (flat_map print_stmt ss)
                       (app
                         (match rv with
                          | Some e -> print_expr e
                          | None -> []) ((tk KBraceRight) :: [])))

(** val print_typed_name : (name * ty) -> tok list **)

let print_typed_name = function
| (n, t) -> (tk_id n) :: ((tk KColon) :: (print_type t))

(** val print_flags : bool -> bool -> tok list **)

let print_flags pub ext =
  app (if pub then (tk KPub) :: [] else [])
    (if ext then (tk KExtern) :: [] else [])

(** val kind_of_skind : skind -> tkind **)

let kind_of_skind = function
| SkWord8 -> KWord8
| SkWord16 -> KWord16
| SkWord32 -> KWord32
| SkWord64 -> KWord64
| SkWord128 -> KWord128
| _ -> KStruct

(** val is_tvoid : ty -> bool **)

let is_tvoid = function
| TVoid -> true
| _ -> false

(** val print_decl : decl -> tok list **)

let print_decl = function
| DImport bs ->
  (tk KImport) :: ((mk KStringLiteral Z0 None bs) :: ((tk KSemicolon) :: []))
| DConst (pub, ext, n, t, v) ->
  app (print_flags pub ext)
    ((tk KConst) :: ((tk_id n) :: ((tk KColon) :: (app (print_type t)
                                                    ((tk KAssignment) :: 
                                                    (app (print_expr v)
                                                      ((tk KSemicolon) :: [])))))))
| DFn (pub, ext, n, ps, ret, body) ->
  app (print_flags pub ext)
    ((tk KFn) :: ((tk_id n) :: ((tk KParenLeft) :: (app
                                                     (print_sep
                                                       print_typed_name ps)
                                                     ((tk KParenRight) :: 
                                                     (app
                                                       (if is_tvoid ret
                                                        then []
                                                        else (tk KArrow) :: 
                                                               (print_type
                                                                 ret))
                                                       (match body with
                                                        | Some b ->
                                                          print_body b
                                                        | None ->
                                                          (tk KSemicolon) :: [])))))))
| DStruct (pub, ext, k, n, ms) ->
  app (print_flags pub ext)
    ((tk (kind_of_skind k)) :: ((tk_id n) :: (match k with
                                              | SkOpaque ->
                                                (tk KSemicolon) :: []
                                              | _ ->
                                                (tk KBraceLeft) :: (app
                                                                    (flat_map
                                                                    (fun m ->
                                                                    app
                                                                    (print_typed_name
                                                                    m)
                                                                    ((tk
                                                                    KComma) :: []))
                                                                    ms)
                                                                    ((tk
                                                                    KBraceRight) :: [])))))

(** val print_module : decl list -> tok list **)

let print_module ds =
  flat_map print_decl ds

(** val tok_ok : tok -> bool **)

let tok_ok t =
  match t.kind with
  | KNakedDecimal -> (&&) (Z.leb Z0 t.value) (Z.ltb t.value u128_lim)
  | KBitInteger -> (&&) (Z.leb Z0 t.value) (Z.ltb t.value u128_lim)
  | KSuffixedInteger ->
    (&&) ((&&) (Z.leb Z0 t.value) (Z.ltb t.value u128_lim))
      (match t.vtype with
       | Some t0 ->
         (match t0 with
          | TyVoid -> false
          | TyPrim p ->
            (match p with
             | Char8 -> false
             | Bool -> false
             | _ -> true))
       | None -> false)
  | KCharLiteral ->
    (&&) (Z.leb Z0 t.value)
      (Z.ltb t.value (Zpos (Coq_xO (Coq_xO (Coq_xO (Coq_xO (Coq_xO (Coq_xO
        (Coq_xO (Coq_xO Coq_xH))))))))))
  | KStringLiteral ->
    forallb (fun b ->
      N.ltb b (Npos (Coq_xO (Coq_xO (Coq_xO (Coq_xO (Coq_xO (Coq_xO (Coq_xO
        (Coq_xO Coq_xH)))))))))) t.bytes
  | _ -> true

(** val toks_ok : tok list -> bool **)

let toks_ok ts =
  forallb tok_ok ts

(** val ty_rng : ty -> bool **)

let rec ty_rng = function
| TArray (len, e) ->
  (&&) ((&&) (Z.leb Z0 len) (Z.ltb len usize_lim)) (ty_rng e)
| TArrayNamed (_, e) -> ty_rng e
| TSlice e -> ty_rng e
| TEndless e -> ty_rng e
| TArraylike e -> ty_rng e
| TPointer e -> ty_rng e
| TView e -> ty_rng e
| _ -> true

(** val ty_ok : ty -> bool **)

let ty_ok t =
  (&&) (ty_rng t) (ty_wellformed t)

(** val lvl : expr -> nat **)

let lvl = function
| EBinary (op, _, _) ->
  (match op with
   | Add -> S (S (S (S O)))
   | Subtract -> S (S (S (S O)))
   | Multiply -> S (S (S O))
   | Divide -> S (S (S O))
   | Modulo -> S (S (S O))
   | AdvancePointer -> O
   | _ -> S (S (S (S (S O)))))
| EUnary (_, _) -> S O
| ESigned (v, _) -> if Z.ltb v Z0 then S O else O
| EBitCast _ -> S (S O)
| ETypeCast (_, _) -> S (S O)
| ELength _ -> S O
| ESizeOf _ -> S O
| _ -> O

(** val is_none : 'a1 option -> bool **)

let is_none = function
| Some _ -> false
| None -> true

(** val pstop : bool -> tkind -> bool **)

let pstop nb k =
  negb
    ((||)
      ((||)
        ((||) ((||) ((||) (isBracketLeft k) (isDot k)) (isParenLeft k))
          ((&&) (isBraceLeft k) (negb nb))) (isString k)) (isDots k))

(** val stopl : nat -> bool -> tkind -> bool **)

let stopl lv nb k =
  (&&)
    ((&&)
      ((&&) (pstop nb k) ((||) (Nat.ltb lv (S (S (S O)))) (negb (isAs k))))
      ((||) (Nat.ltb lv (S (S (S (S O))))) (is_none (mulop_of k))))
    ((||) (Nat.ltb lv (S (S (S (S (S O))))))
      ((&&) ((&&) (is_none (addop_of k)) (is_none (bitop_of k)))
        (is_none (shiftop_of k))))

(** val top_stop : bool -> expr -> tkind -> bool **)

let top_stop nb r k =
  match r with
  | EBinary (op, _, _) ->
    (match op with
     | BitwiseAnd -> (&&) (pstop nb k) (negb (same_bitop op k))
     | BitwiseOr -> (&&) (pstop nb k) (negb (same_bitop op k))
     | BitwiseXor -> (&&) (pstop nb k) (negb (same_bitop op k))
     | ShiftLeft -> pstop nb k
     | ShiftRight -> pstop nb k
     | _ -> stopl (S (S (S (S (S O))))) nb k)
  | _ -> stopl (S (S (S (S (S O))))) nb k

(** val redge : bool -> expr -> tkind -> bool **)

let rec redge nb e k =
  match e with
  | EBinary (op, _, r) ->
    (match op with
     | AdvancePointer -> (&&) (redge nb r k) (top_stop nb r k)
     | _ -> redge nb r k)
  | EUnary (_, e0) -> redge nb e0 k
  | EBitCast e0 -> redge nb e0 k
  | _ -> true

(** val estop : bool -> expr -> tkind -> bool **)

let estop nb e k =
  (&&) (redge nb e k) (top_stop nb e k)

(** val is_pos_signed : expr -> bool **)

let is_pos_signed = function
| ESigned (v, _) -> Z.ltb Z0 v
| EBits (v, _) -> Z.eqb v i128_min_abs
| _ -> false

(** val lit_type_ok_signed : prim option -> bool **)

let lit_type_ok_signed = function
| Some p -> prim_signed p
| None -> true

(** val lit_type_ok_min : prim option -> bool **)

let lit_type_ok_min = function
| Some p -> (match p with
             | Char8 -> false
             | Bool -> false
             | _ -> true)
| None -> true

(** val lit_type_ok_bits : coq_Z -> prim option -> bool **)

let lit_type_ok_bits v = function
| Some p ->
  (match p with
   | Char8 ->
     Z.ltb v (Zpos (Coq_xO (Coq_xO (Coq_xO (Coq_xO (Coq_xO (Coq_xO (Coq_xO
       (Coq_xO Coq_xH)))))))))
   | Bool -> false
   | _ -> if prim_signed p then Z.ltb i128_max v else true)
| None -> true

(** val wf_expr : bool -> expr -> bool **)

let rec wf_expr nb = function
| EBinary (op, l, r) ->
  (&&) ((&&) (wf_expr nb l) (wf_expr nb r))
    (match op with
     | Add ->
       (&&)
         ((&&) (Nat.leb (lvl l) (S (S (S (S O)))))
           (Nat.leb (lvl r) (S (S (S O))))) (redge nb l (kind_of_binop op))
     | Subtract ->
       (&&)
         ((&&) (Nat.leb (lvl l) (S (S (S (S O)))))
           (Nat.leb (lvl r) (S (S (S O))))) (redge nb l (kind_of_binop op))
     | Multiply ->
       (&&)
         ((&&) (Nat.leb (lvl l) (S (S (S O)))) (Nat.leb (lvl r) (S (S O))))
         (redge nb l (kind_of_binop op))
     | Divide ->
       (&&)
         ((&&) (Nat.leb (lvl l) (S (S (S O)))) (Nat.leb (lvl r) (S (S O))))
         (redge nb l (kind_of_binop op))
     | Modulo ->
       (&&)
         ((&&) (Nat.leb (lvl l) (S (S (S O)))) (Nat.leb (lvl r) (S (S O))))
         (redge nb l (kind_of_binop op))
     | ShiftLeft ->
       (&&)
         ((&&) ((&&) (negb (is_binary l)) (Nat.leb (lvl l) (S (S O))))
           (Nat.leb (lvl r) (S O))) (redge nb l (kind_of_binop op))
     | ShiftRight ->
       (&&)
         ((&&) ((&&) (negb (is_binary l)) (Nat.leb (lvl l) (S (S O))))
           (Nat.leb (lvl r) (S O))) (redge nb l (kind_of_binop op))
     | AdvancePointer ->
       (match l with
        | EDeref r0 -> let Ref (d, _, _) = r0 in N.leb (Npos Coq_xH) d
        | _ -> false)
     | _ ->
       (&&)
         ((&&)
           (match l with
            | EBinary (op', _, _) -> binop_eqb op op'
            | _ -> Nat.leb (lvl l) (S (S O))) (Nat.leb (lvl r) (S O)))
         (redge nb l (kind_of_binop op)))
| EUnary (op, e0) ->
  (&&) ((&&) (wf_expr nb e0) (Nat.eqb (lvl e0) O))
    (match op with
     | Negative -> negb (is_pos_signed e0)
     | BitwiseComplement -> true)
| EBool _ -> true
| ESigned (v, t) ->
  (||)
    ((&&) ((&&) (Z.leb (Z.opp i128_max) v) (Z.leb v i128_max))
      (lit_type_ok_signed t))
    ((&&) (Z.eqb v (Z.opp i128_min_abs)) (lit_type_ok_min t))
| EBits (v, t) ->
  (&&) ((&&) (Z.leb Z0 v) (Z.ltb v u128_lim)) (lit_type_ok_bits v t)
| EString bs ->
  forallb (fun b ->
    N.ltb b (Npos (Coq_xO (Coq_xO (Coq_xO (Coq_xO (Coq_xO (Coq_xO (Coq_xO
      (Coq_xO Coq_xH)))))))))) bs
| EArray es -> forallb (wf_expr nb) es
| EStructural (_, ms) ->
  (&&) (negb nb) (forallb (fun me -> let (_, e0) = me in wf_expr nb e0) ms)
| EParen e0 -> wf_expr nb e0
| EDeref r -> wf_ref nb r
| EBitCast e0 -> (&&) (wf_expr nb e0) (Nat.leb (lvl e0) (S O))
| ETypeCast (e0, t) ->
  (&&)
    ((&&) ((&&) (wf_expr nb e0) (Nat.leb (lvl e0) (S (S O))))
      (redge nb e0 KAs)) (ty_ok t)
| ELength r -> wf_ref nb r
| ESizeOf t -> ty_ok t
| ECall (_, _, args) -> forallb (wf_expr nb) args

(** val wf_ref : bool -> reference -> bool **)

and wf_ref nb = function
| Ref (d, _, steps) ->
  (&&)
    ((&&) (N.leb d coq_MAX_ADDRESS_DEPTH)
      (Nat.leb (length steps) coq_MAX_REFERENCE_DEPTH))
    (forallb (wf_step nb) steps)

(** val wf_step : bool -> step -> bool **)

and wf_step nb = function
| RsElement e -> wf_expr nb e
| RsMember _ -> true

(** val open_if : stmt -> bool **)

let rec open_if = function
| StIf (_, _, _, _, el0) ->
  (match el0 with
   | Some el -> open_if el
   | None -> true)
| _ -> false

(** val first_kind_stmt : stmt -> tkind **)

let first_kind_stmt = function
| StVar (_, _, _) -> KVar
| StAssign (r, _) ->
  let Ref (d, _, _) = r in if N.eqb d N0 then KIdentifier else KAmpersand
| StCall (b, _, _) -> if b then KBuiltin else KIdentifier
| StLoop -> KLoop
| StGoto _ -> KGoto
| StLabel _ -> KIdentifier
| StIf (_, _, _, _, _) -> KIf
| StBlock _ -> KBraceLeft

(** val opt_ok : ('a1 -> bool) -> 'a1 option -> bool **)

let opt_ok p = function
| Some x -> p x
| None -> true

(** val wf_stmt : stmt -> bool **)

let rec wf_stmt = function
| StVar (_, t, v) -> (&&) (opt_ok ty_ok t) (opt_ok (wf_expr false) v)
| StAssign (r, v) -> (&&) (wf_ref false r) (wf_expr false v)
| StCall (_, _, args) -> forallb (wf_expr false) args
| StIf (_, l, r, th, el) ->
  (&&)
    ((&&) ((&&) ((&&) (wf_expr true l) (wf_expr true r)) (wf_stmt th))
      (estop true r (first_kind_stmt th)))
    (match el with
     | Some e -> (&&) (wf_stmt e) (negb (open_if th))
     | None -> true)
| StBlock ss -> forallb wf_stmt ss
| _ -> true

(** val body_shape : stmt list -> bool -> bool **)

let rec body_shape ss has_value =
  match ss with
  | [] -> negb has_value
  | s :: rest ->
    if is_return_label s
    then (&&) has_value (match rest with
                         | [] -> true
                         | _ :: _ -> false)
    else body_shape rest has_value

(** val wf_body : fbody -> bool **)

let wf_body = function
| (ss, rv) ->
  (&&) ((&&) (forallb wf_stmt ss) (opt_ok (wf_expr false) rv))
    (body_shape ss (match rv with
                    | Some _ -> true
                    | None -> false))

(** val wf_typed_name : (name * ty) -> bool **)

let wf_typed_name m =
  ty_ok (snd m)

(** val wf_decl : decl -> bool **)

let wf_decl = function
| DImport bs -> utf8_valid bs
| DConst (_, _, _, t, v) -> (&&) (ty_ok t) (wf_expr false v)
| DFn (_, _, _, ps, ret, body) ->
  (&&) ((&&) (forallb wf_typed_name ps) (ty_ok ret)) (opt_ok wf_body body)
| DStruct (_, _, k, _, ms) ->
  (&&) (forallb wf_typed_name ms)
    (match k with
     | SkOpaque -> (match ms with
                    | [] -> true
                    | _ :: _ -> false)
     | _ -> true)

(** val wf_module : decl list -> bool **)

let wf_module ds =
  forallb wf_decl ds

(** val s2l : string -> coq_N list **)

let s2l s =
  map coq_N_of_ascii (list_ascii_of_string s)

(** val dec_digits : nat -> coq_N -> coq_N list -> coq_N list **)

let rec dec_digits fuel n acc =
  match fuel with
  | O -> acc
  | S f ->
    let d =
      N.add (Npos (Coq_xO (Coq_xO (Coq_xO (Coq_xO (Coq_xI Coq_xH))))))
        (N.modulo n (Npos (Coq_xO (Coq_xI (Coq_xO Coq_xH)))))
    in
    if N.ltb n (Npos (Coq_xO (Coq_xI (Coq_xO Coq_xH))))
    then d :: acc
    else dec_digits f (N.div n (Npos (Coq_xO (Coq_xI (Coq_xO Coq_xH)))))
           (d :: acc)

(** val show_N : coq_N -> coq_N list **)

let show_N n =
  dec_digits (S (N.to_nat (N.size n))) n []

(** val show_Z : coq_Z -> coq_N list **)

let show_Z z =
  if Z.ltb z Z0
  then (Npos (Coq_xI (Coq_xO (Coq_xI (Coq_xI (Coq_xO
         Coq_xH)))))) :: (show_N (Z.abs_N z))
  else show_N (Z.abs_N z)

(** val show_name : name -> coq_N list **)

let show_name n =
  (Npos (Coq_xO (Coq_xI (Coq_xI (Coq_xI (Coq_xO (Coq_xI
    Coq_xH))))))) :: (show_N n)

(** val sx : string -> coq_N list list -> coq_N list **)

let sx head items =
  (Npos (Coq_xO (Coq_xO (Coq_xO (Coq_xI (Coq_xO
    Coq_xH)))))) :: (app (s2l head)
                      (app
                        (flat_map (fun i -> (Npos (Coq_xO (Coq_xO (Coq_xO
                          (Coq_xO (Coq_xO Coq_xH)))))) :: i) items) ((Npos
                        (Coq_xI (Coq_xO (Coq_xO (Coq_xI (Coq_xO
                        Coq_xH)))))) :: [])))

(** val none_atom : coq_N list **)

let none_atom =
  (Npos (Coq_xI (Coq_xI (Coq_xI (Coq_xI (Coq_xI (Coq_xO Coq_xH))))))) :: []

(** val show_opt : ('a1 -> coq_N list) -> 'a1 option -> coq_N list **)

let show_opt f = function
| Some x -> f x
| None -> none_atom

(** val show_prim : prim -> coq_N list **)

let show_prim p =
  s2l
    (match p with
     | Int8 ->
       String ((Ascii (true, false, false, true, false, true, true, false)),
         (String ((Ascii (false, false, false, true, true, true, false,
         false)), EmptyString)))
     | Int16 ->
       String ((Ascii (true, false, false, true, false, true, true, false)),
         (String ((Ascii (true, false, false, false, true, true, false,
         false)), (String ((Ascii (false, true, true, false, true, true,
         false, false)), EmptyString)))))
     | Int32 ->
       String ((Ascii (true, false, false, true, false, true, true, false)),
         (String ((Ascii (true, true, false, false, true, true, false,
         false)), (String ((Ascii (false, true, false, false, true, true,
         false, false)), EmptyString)))))
     | Int64 ->
       String ((Ascii (true, false, false, true, false, true, true, false)),
         (String ((Ascii (false, true, true, false, true, true, false,
         false)), (String ((Ascii (false, false, true, false, true, true,
         false, false)), EmptyString)))))
     | Int128 ->
       String ((Ascii (true, false, false, true, false, true, true, false)),
         (String ((Ascii (true, false, false, false, true, true, false,
         false)), (String ((Ascii (false, true, false, false, true, true,
         false, false)), (String ((Ascii (false, false, false, true, true,
         true, false, false)), EmptyString)))))))
     | Uint8 ->
       String ((Ascii (true, false, true, false, true, true, true, false)),
         (String ((Ascii (false, false, false, true, true, true, false,
         false)), EmptyString)))
     | Uint16 ->
       String ((Ascii (true, false, true, false, true, true, true, false)),
         (String ((Ascii (true, false, false, false, true, true, false,
         false)), (String ((Ascii (false, true, true, false, true, true,
         false, false)), EmptyString)))))
     | Uint32 ->
       String ((Ascii (true, false, true, false, true, true, true, false)),
         (String ((Ascii (true, true, false, false, true, true, false,
         false)), (String ((Ascii (false, true, false, false, true, true,
         false, false)), EmptyString)))))
     | Uint64 ->
       String ((Ascii (true, false, true, false, true, true, true, false)),
         (String ((Ascii (false, true, true, false, true, true, false,
         false)), (String ((Ascii (false, false, true, false, true, true,
         false, false)), EmptyString)))))
     | Uint128 ->
       String ((Ascii (true, false, true, false, true, true, true, false)),
         (String ((Ascii (true, false, false, false, true, true, false,
         false)), (String ((Ascii (false, true, false, false, true, true,
         false, false)), (String ((Ascii (false, false, false, true, true,
         true, false, false)), EmptyString)))))))
     | Usize ->
       String ((Ascii (true, false, true, false, true, true, true, false)),
         (String ((Ascii (true, true, false, false, true, true, true,
         false)), (String ((Ascii (true, false, false, true, false, true,
         true, false)), (String ((Ascii (false, true, false, true, true,
         true, true, false)), (String ((Ascii (true, false, true, false,
         false, true, true, false)), EmptyString)))))))))
     | Char8 ->
       String ((Ascii (true, true, false, false, false, true, true, false)),
         (String ((Ascii (false, false, false, true, false, true, true,
         false)), (String ((Ascii (true, false, false, false, false, true,
         true, false)), (String ((Ascii (false, true, false, false, true,
         true, true, false)), (String ((Ascii (false, false, false, true,
         true, true, false, false)), EmptyString)))))))))
     | Bool ->
       String ((Ascii (false, true, false, false, false, true, true, false)),
         (String ((Ascii (true, true, true, true, false, true, true, false)),
         (String ((Ascii (true, true, true, true, false, true, true, false)),
         (String ((Ascii (false, false, true, true, false, true, true,
         false)), EmptyString))))))))

(** val show_type : ty -> coq_N list **)

let rec show_type = function
| TVoid ->
  s2l (String ((Ascii (false, true, true, false, true, true, true, false)),
    (String ((Ascii (true, true, true, true, false, true, true, false)),
    (String ((Ascii (true, false, false, true, false, true, true, false)),
    (String ((Ascii (false, false, true, false, false, true, true, false)),
    EmptyString))))))))
| TPrim p -> show_prim p
| TNamed n ->
  sx (String ((Ascii (false, true, true, true, false, true, true, false)),
    (String ((Ascii (true, false, false, false, false, true, true, false)),
    (String ((Ascii (true, false, true, true, false, true, true, false)),
    (String ((Ascii (true, false, true, false, false, true, true, false)),
    (String ((Ascii (false, false, true, false, false, true, true, false)),
    EmptyString)))))))))) ((show_name n) :: [])
| TArray (len, e) ->
  sx (String ((Ascii (true, false, false, false, false, true, true, false)),
    (String ((Ascii (false, true, false, false, true, true, true, false)),
    (String ((Ascii (false, true, false, false, true, true, true, false)),
    (String ((Ascii (true, false, false, false, false, true, true, false)),
    (String ((Ascii (true, false, false, true, true, true, true, false)),
    EmptyString)))))))))) ((show_Z len) :: ((show_type e) :: []))
| TArrayNamed (n, e) ->
  sx (String ((Ascii (true, false, false, false, false, true, true, false)),
    (String ((Ascii (false, true, false, false, true, true, true, false)),
    (String ((Ascii (false, true, false, false, true, true, true, false)),
    (String ((Ascii (true, false, false, false, false, true, true, false)),
    (String ((Ascii (true, false, false, true, true, true, true, false)),
    (String ((Ascii (false, true, true, true, false, true, true, false)),
    EmptyString)))))))))))) ((show_name n) :: ((show_type e) :: []))
| TSlice e ->
  sx (String ((Ascii (true, true, false, false, true, true, true, false)),
    (String ((Ascii (false, false, true, true, false, true, true, false)),
    (String ((Ascii (true, false, false, true, false, true, true, false)),
    (String ((Ascii (true, true, false, false, false, true, true, false)),
    (String ((Ascii (true, false, true, false, false, true, true, false)),
    EmptyString)))))))))) ((show_type e) :: [])
| TEndless e ->
  sx (String ((Ascii (true, false, true, false, false, true, true, false)),
    (String ((Ascii (false, true, true, true, false, true, true, false)),
    (String ((Ascii (false, false, true, false, false, true, true, false)),
    (String ((Ascii (false, false, true, true, false, true, true, false)),
    (String ((Ascii (true, false, true, false, false, true, true, false)),
    (String ((Ascii (true, true, false, false, true, true, true, false)),
    (String ((Ascii (true, true, false, false, true, true, true, false)),
    EmptyString)))))))))))))) ((show_type e) :: [])
| TArraylike e ->
  sx (String ((Ascii (true, false, false, false, false, true, true, false)),
    (String ((Ascii (false, true, false, false, true, true, true, false)),
    (String ((Ascii (false, true, false, false, true, true, true, false)),
    (String ((Ascii (true, false, false, false, false, true, true, false)),
    (String ((Ascii (true, false, false, true, true, true, true, false)),
    (String ((Ascii (false, false, true, true, false, true, true, false)),
    (String ((Ascii (true, false, false, true, false, true, true, false)),
    (String ((Ascii (true, true, false, true, false, true, true, false)),
    (String ((Ascii (true, false, true, false, false, true, true, false)),
    EmptyString)))))))))))))))))) ((show_type e) :: [])
| TPointer d ->
  sx (String ((Ascii (false, false, false, false, true, true, true, false)),
    (String ((Ascii (false, false, true, false, true, true, true, false)),
    (String ((Ascii (false, true, false, false, true, true, true, false)),
    EmptyString)))))) ((show_type d) :: [])
| TView d ->
  sx (String ((Ascii (false, true, true, false, true, true, true, false)),
    (String ((Ascii (true, false, false, true, false, true, true, false)),
    (String ((Ascii (true, false, true, false, false, true, true, false)),
    (String ((Ascii (true, true, true, false, true, true, true, false)),
    EmptyString)))))))) ((show_type d) :: [])

(** val show_binop : binop -> coq_N list **)

let show_binop op =
  s2l
    (match op with
     | Add ->
       String ((Ascii (true, false, false, false, false, false, true,
         false)), (String ((Ascii (false, false, true, false, false, true,
         true, false)), (String ((Ascii (false, false, true, false, false,
         true, true, false)), EmptyString)))))
     | Subtract ->
       String ((Ascii (true, true, false, false, true, false, true, false)),
         (String ((Ascii (true, false, true, false, true, true, true,
         false)), (String ((Ascii (false, true, false, false, false, true,
         true, false)), (String ((Ascii (false, false, true, false, true,
         true, true, false)), (String ((Ascii (false, true, false, false,
         true, true, true, false)), (String ((Ascii (true, false, false,
         false, false, true, true, false)), (String ((Ascii (true, true,
         false, false, false, true, true, false)), (String ((Ascii (false,
         false, true, false, true, true, true, false)),
         EmptyString)))))))))))))))
     | Multiply ->
       String ((Ascii (true, false, true, true, false, false, true, false)),
         (String ((Ascii (true, false, true, false, true, true, true,
         false)), (String ((Ascii (false, false, true, true, false, true,
         true, false)), (String ((Ascii (false, false, true, false, true,
         true, true, false)), (String ((Ascii (true, false, false, true,
         false, true, true, false)), (String ((Ascii (false, false, false,
         false, true, true, true, false)), (String ((Ascii (false, false,
         true, true, false, true, true, false)), (String ((Ascii (true,
         false, false, true, true, true, true, false)),
         EmptyString)))))))))))))))
     | Divide ->
       String ((Ascii (false, false, true, false, false, false, true,
         false)), (String ((Ascii (true, false, false, true, false, true,
         true, false)), (String ((Ascii (false, true, true, false, true,
         true, true, false)), (String ((Ascii (true, false, false, true,
         false, true, true, false)), (String ((Ascii (false, false, true,
         false, false, true, true, false)), (String ((Ascii (true, false,
         true, false, false, true, true, false)), EmptyString)))))))))))
     | Modulo ->
       String ((Ascii (true, false, true, true, false, false, true, false)),
         (String ((Ascii (true, true, true, true, false, true, true, false)),
         (String ((Ascii (false, false, true, false, false, true, true,
         false)), (String ((Ascii (true, false, true, false, true, true,
         true, false)), (String ((Ascii (false, false, true, true, false,
         true, true, false)), (String ((Ascii (true, true, true, true, false,
         true, true, false)), EmptyString)))))))))))
     | BitwiseAnd ->
       String ((Ascii (false, true, false, false, false, false, true,
         false)), (String ((Ascii (true, false, false, true, false, true,
         true, false)), (String ((Ascii (false, false, true, false, true,
         true, true, false)), (String ((Ascii (true, true, true, false, true,
         true, true, false)), (String ((Ascii (true, false, false, true,
         false, true, true, false)), (String ((Ascii (true, true, false,
         false, true, true, true, false)), (String ((Ascii (true, false,
         true, false, false, true, true, false)), (String ((Ascii (true,
         false, false, false, false, false, true, false)), (String ((Ascii
         (false, true, true, true, false, true, true, false)), (String
         ((Ascii (false, false, true, false, false, true, true, false)),
         EmptyString)))))))))))))))))))
     | BitwiseOr ->
       String ((Ascii (false, true, false, false, false, false, true,
         false)), (String ((Ascii (true, false, false, true, false, true,
         true, false)), (String ((Ascii (false, false, true, false, true,
         true, true, false)), (String ((Ascii (true, true, true, false, true,
         true, true, false)), (String ((Ascii (true, false, false, true,
         false, true, true, false)), (String ((Ascii (true, true, false,
         false, true, true, true, false)), (String ((Ascii (true, false,
         true, false, false, true, true, false)), (String ((Ascii (true,
         true, true, true, false, false, true, false)), (String ((Ascii
         (false, true, false, false, true, true, true, false)),
         EmptyString)))))))))))))))))
     | BitwiseXor ->
       String ((Ascii (false, true, false, false, false, false, true,
         false)), (String ((Ascii (true, false, false, true, false, true,
         true, false)), (String ((Ascii (false, false, true, false, true,
         true, true, false)), (String ((Ascii (true, true, true, false, true,
         true, true, false)), (String ((Ascii (true, false, false, true,
         false, true, true, false)), (String ((Ascii (true, true, false,
         false, true, true, true, false)), (String ((Ascii (true, false,
         true, false, false, true, true, false)), (String ((Ascii (false,
         false, false, true, true, false, true, false)), (String ((Ascii
         (true, true, true, true, false, true, true, false)), (String ((Ascii
         (false, true, false, false, true, true, true, false)),
         EmptyString)))))))))))))))))))
     | ShiftLeft ->
       String ((Ascii (true, true, false, false, true, false, true, false)),
         (String ((Ascii (false, false, false, true, false, true, true,
         false)), (String ((Ascii (true, false, false, true, false, true,
         true, false)), (String ((Ascii (false, true, true, false, false,
         true, true, false)), (String ((Ascii (false, false, true, false,
         true, true, true, false)), (String ((Ascii (false, false, true,
         true, false, false, true, false)), (String ((Ascii (true, false,
         true, false, false, true, true, false)), (String ((Ascii (false,
         true, true, false, false, true, true, false)), (String ((Ascii
         (false, false, true, false, true, true, true, false)),
         EmptyString)))))))))))))))))
     | ShiftRight ->
       String ((Ascii (true, true, false, false, true, false, true, false)),
         (String ((Ascii (false, false, false, true, false, true, true,
         false)), (String ((Ascii (true, false, false, true, false, true,
         true, false)), (String ((Ascii (false, true, true, false, false,
         true, true, false)), (String ((Ascii (false, false, true, false,
         true, true, true, false)), (String ((Ascii (false, true, false,
         false, true, false, true, false)), (String ((Ascii (true, false,
         false, true, false, true, true, false)), (String ((Ascii (true,
         true, true, false, false, true, true, false)), (String ((Ascii
         (false, false, false, true, false, true, true, false)), (String
         ((Ascii (false, false, true, false, true, true, true, false)),
         EmptyString)))))))))))))))))))
     | AdvancePointer ->
       String ((Ascii (true, false, false, false, false, false, true,
         false)), (String ((Ascii (false, false, true, false, false, true,
         true, false)), (String ((Ascii (false, true, true, false, true,
         true, true, false)), (String ((Ascii (true, false, false, false,
         false, true, true, false)), (String ((Ascii (false, true, true,
         true, false, true, true, false)), (String ((Ascii (true, true,
         false, false, false, true, true, false)), (String ((Ascii (true,
         false, true, false, false, true, true, false)), (String ((Ascii
         (false, false, false, false, true, false, true, false)), (String
         ((Ascii (true, true, true, true, false, true, true, false)), (String
         ((Ascii (true, false, false, true, false, true, true, false)),
         (String ((Ascii (false, true, true, true, false, true, true,
         false)), (String ((Ascii (false, false, true, false, true, true,
         true, false)), (String ((Ascii (true, false, true, false, false,
         true, true, false)), (String ((Ascii (false, true, false, false,
         true, true, true, false)), EmptyString))))))))))))))))))))))))))))

(** val show_unop : unop -> coq_N list **)

let show_unop op =
  s2l
    (match op with
     | Negative ->
       String ((Ascii (false, true, true, true, false, false, true, false)),
         (String ((Ascii (true, false, true, false, false, true, true,
         false)), (String ((Ascii (true, true, true, false, false, true,
         true, false)), (String ((Ascii (true, false, false, false, false,
         true, true, false)), (String ((Ascii (false, false, true, false,
         true, true, true, false)), (String ((Ascii (true, false, false,
         true, false, true, true, false)), (String ((Ascii (false, true,
         true, false, true, true, true, false)), (String ((Ascii (true,
         false, true, false, false, true, true, false)),
         EmptyString)))))))))))))))
     | BitwiseComplement ->
       String ((Ascii (false, true, false, false, false, false, true,
         false)), (String ((Ascii (true, false, false, true, false, true,
         true, false)), (String ((Ascii (false, false, true, false, true,
         true, true, false)), (String ((Ascii (true, true, true, false, true,
         true, true, false)), (String ((Ascii (true, false, false, true,
         false, true, true, false)), (String ((Ascii (true, true, false,
         false, true, true, true, false)), (String ((Ascii (true, false,
         true, false, false, true, true, false)), (String ((Ascii (true,
         true, false, false, false, false, true, false)), (String ((Ascii
         (true, true, true, true, false, true, true, false)), (String ((Ascii
         (true, false, true, true, false, true, true, false)), (String
         ((Ascii (false, false, false, false, true, true, true, false)),
         (String ((Ascii (false, false, true, true, false, true, true,
         false)), (String ((Ascii (true, false, true, false, false, true,
         true, false)), (String ((Ascii (true, false, true, true, false,
         true, true, false)), (String ((Ascii (true, false, true, false,
         false, true, true, false)), (String ((Ascii (false, true, true,
         true, false, true, true, false)), (String ((Ascii (false, false,
         true, false, true, true, true, false)),
         EmptyString))))))))))))))))))))))))))))))))))

(** val show_cmpop : cmpop -> coq_N list **)

let show_cmpop op =
  s2l
    (match op with
     | Equals ->
       String ((Ascii (true, false, true, false, false, false, true, false)),
         (String ((Ascii (true, false, false, false, true, true, true,
         false)), (String ((Ascii (true, false, true, false, true, true,
         true, false)), (String ((Ascii (true, false, false, false, false,
         true, true, false)), (String ((Ascii (false, false, true, true,
         false, true, true, false)), (String ((Ascii (true, true, false,
         false, true, true, true, false)), EmptyString)))))))))))
     | DoesNotEqual ->
       String ((Ascii (false, false, true, false, false, false, true,
         false)), (String ((Ascii (true, true, true, true, false, true, true,
         false)), (String ((Ascii (true, false, true, false, false, true,
         true, false)), (String ((Ascii (true, true, false, false, true,
         true, true, false)), (String ((Ascii (false, true, true, true,
         false, false, true, false)), (String ((Ascii (true, true, true,
         true, false, true, true, false)), (String ((Ascii (false, false,
         true, false, true, true, true, false)), (String ((Ascii (true,
         false, true, false, false, false, true, false)), (String ((Ascii
         (true, false, false, false, true, true, true, false)), (String
         ((Ascii (true, false, true, false, true, true, true, false)),
         (String ((Ascii (true, false, false, false, false, true, true,
         false)), (String ((Ascii (false, false, true, true, false, true,
         true, false)), EmptyString)))))))))))))))))))))))
     | IsGreater ->
       String ((Ascii (true, false, false, true, false, false, true, false)),
         (String ((Ascii (true, true, false, false, true, true, true,
         false)), (String ((Ascii (true, true, true, false, false, false,
         true, false)), (String ((Ascii (false, true, false, false, true,
         true, true, false)), (String ((Ascii (true, false, true, false,
         false, true, true, false)), (String ((Ascii (true, false, false,
         false, false, true, true, false)), (String ((Ascii (false, false,
         true, false, true, true, true, false)), (String ((Ascii (true,
         false, true, false, false, true, true, false)), (String ((Ascii
         (false, true, false, false, true, true, true, false)),
         EmptyString)))))))))))))))))
     | IsGE ->
       String ((Ascii (true, false, false, true, false, false, true, false)),
         (String ((Ascii (true, true, false, false, true, true, true,
         false)), (String ((Ascii (true, true, true, false, false, false,
         true, false)), (String ((Ascii (true, false, true, false, false,
         false, true, false)), EmptyString)))))))
     | IsLess ->
       String ((Ascii (true, false, false, true, false, false, true, false)),
         (String ((Ascii (true, true, false, false, true, true, true,
         false)), (String ((Ascii (false, false, true, true, false, false,
         true, false)), (String ((Ascii (true, false, true, false, false,
         true, true, false)), (String ((Ascii (true, true, false, false,
         true, true, true, false)), (String ((Ascii (true, true, false,
         false, true, true, true, false)), EmptyString)))))))))))
     | IsLE ->
       String ((Ascii (true, false, false, true, false, false, true, false)),
         (String ((Ascii (true, true, false, false, true, true, true,
         false)), (String ((Ascii (false, false, true, true, false, false,
         true, false)), (String ((Ascii (true, false, true, false, false,
         false, true, false)), EmptyString))))))))

(** val show_expr : expr -> coq_N list **)

let rec show_expr = function
| EBinary (op, l, r) ->
  sx (String ((Ascii (false, true, false, false, false, true, true, false)),
    (String ((Ascii (true, false, false, true, false, true, true, false)),
    (String ((Ascii (false, true, true, true, false, true, true, false)),
    EmptyString))))))
    ((show_binop op) :: ((show_expr l) :: ((show_expr r) :: [])))
| EUnary (op, e0) ->
  sx (String ((Ascii (true, false, true, false, true, true, true, false)),
    (String ((Ascii (false, true, true, true, false, true, true, false)),
    EmptyString)))) ((show_unop op) :: ((show_expr e0) :: []))
| EBool b ->
  sx (String ((Ascii (false, true, false, false, false, true, true, false)),
    (String ((Ascii (true, true, true, true, false, true, true, false)),
    (String ((Ascii (true, true, true, true, false, true, true, false)),
    (String ((Ascii (false, false, true, true, false, true, true, false)),
    EmptyString))))))))
    ((s2l
       (if b
        then String ((Ascii (false, false, true, false, true, true, true,
               false)), (String ((Ascii (false, true, false, false, true,
               true, true, false)), (String ((Ascii (true, false, true,
               false, true, true, true, false)), (String ((Ascii (true,
               false, true, false, false, true, true, false)),
               EmptyString)))))))
        else String ((Ascii (false, true, true, false, false, true, true,
               false)), (String ((Ascii (true, false, false, false, false,
               true, true, false)), (String ((Ascii (false, false, true,
               true, false, true, true, false)), (String ((Ascii (true, true,
               false, false, true, true, true, false)), (String ((Ascii
               (true, false, true, false, false, true, true, false)),
               EmptyString))))))))))) :: [])
| ESigned (v, t) ->
  sx (String ((Ascii (true, true, false, false, true, true, true, false)),
    (String ((Ascii (true, false, false, true, false, true, true, false)),
    (String ((Ascii (false, true, true, true, false, true, true, false)),
    (String ((Ascii (false, false, true, false, true, true, true, false)),
    EmptyString)))))))) ((show_Z v) :: ((show_opt show_prim t) :: []))
| EBits (v, t) ->
  sx (String ((Ascii (false, true, false, false, false, true, true, false)),
    (String ((Ascii (true, false, false, true, false, true, true, false)),
    (String ((Ascii (false, false, true, false, true, true, true, false)),
    (String ((Ascii (true, true, false, false, true, true, true, false)),
    EmptyString)))))))) ((show_Z v) :: ((show_opt show_prim t) :: []))
| EString bs ->
  sx (String ((Ascii (true, true, false, false, true, true, true, false)),
    (String ((Ascii (false, false, true, false, true, true, true, false)),
    (String ((Ascii (false, true, false, false, true, true, true, false)),
    EmptyString)))))) (map show_N bs)
| EArray es ->
  sx (String ((Ascii (true, false, false, false, false, true, true, false)),
    (String ((Ascii (false, true, false, false, true, true, true, false)),
    (String ((Ascii (false, true, false, false, true, true, true, false)),
    EmptyString)))))) (map show_expr es)
| EStructural (n, ms) ->
  sx (String ((Ascii (true, true, false, false, true, true, true, false)),
    (String ((Ascii (false, false, true, false, true, true, true, false)),
    (String ((Ascii (false, true, false, false, true, true, true, false)),
    (String ((Ascii (true, false, true, false, true, true, true, false)),
    (String ((Ascii (true, true, false, false, false, true, true, false)),
    (String ((Ascii (false, false, true, false, true, true, true, false)),
    (String ((Ascii (false, false, true, true, false, true, true, false)),
    (String ((Ascii (true, false, false, true, false, true, true, false)),
    (String ((Ascii (false, false, true, false, true, true, true, false)),
    EmptyString))))))))))))))))))
    ((show_name n) :: (map (fun me ->
                        let (m, e0) = me in
                        (Npos (Coq_xO (Coq_xO (Coq_xO (Coq_xI (Coq_xO
                        Coq_xH)))))) :: (app (show_name m) ((Npos (Coq_xO
                                          (Coq_xO (Coq_xO (Coq_xO (Coq_xO
                                          Coq_xH)))))) :: (app (show_expr e0)
                                                            ((Npos (Coq_xI
                                                            (Coq_xO (Coq_xO
                                                            (Coq_xI (Coq_xO
                                                            Coq_xH)))))) :: [])))))
                        ms))
| EParen e0 ->
  sx (String ((Ascii (false, false, false, false, true, true, true, false)),
    (String ((Ascii (true, false, false, false, false, true, true, false)),
    (String ((Ascii (false, true, false, false, true, true, true, false)),
    (String ((Ascii (true, false, true, false, false, true, true, false)),
    (String ((Ascii (false, true, true, true, false, true, true, false)),
    EmptyString)))))))))) ((show_expr e0) :: [])
| EDeref r ->
  sx (String ((Ascii (false, false, true, false, false, true, true, false)),
    (String ((Ascii (true, false, true, false, false, true, true, false)),
    (String ((Ascii (false, true, false, false, true, true, true, false)),
    (String ((Ascii (true, false, true, false, false, true, true, false)),
    (String ((Ascii (false, true, true, false, false, true, true, false)),
    EmptyString)))))))))) ((show_ref r) :: [])
| EBitCast e0 ->
  sx (String ((Ascii (false, true, false, false, false, true, true, false)),
    (String ((Ascii (true, false, false, true, false, true, true, false)),
    (String ((Ascii (false, false, true, false, true, true, true, false)),
    (String ((Ascii (true, true, false, false, false, true, true, false)),
    (String ((Ascii (true, false, false, false, false, true, true, false)),
    (String ((Ascii (true, true, false, false, true, true, true, false)),
    (String ((Ascii (false, false, true, false, true, true, true, false)),
    EmptyString)))))))))))))) ((show_expr e0) :: [])
| ETypeCast (e0, t) ->
  sx (String ((Ascii (true, true, false, false, false, true, true, false)),
    (String ((Ascii (true, false, false, false, false, true, true, false)),
    (String ((Ascii (true, true, false, false, true, true, true, false)),
    (String ((Ascii (false, false, true, false, true, true, true, false)),
    EmptyString)))))))) ((show_expr e0) :: ((show_type t) :: []))
| ELength r ->
  sx (String ((Ascii (false, false, true, true, false, true, true, false)),
    (String ((Ascii (true, false, true, false, false, true, true, false)),
    (String ((Ascii (false, true, true, true, false, true, true, false)),
    EmptyString)))))) ((show_ref r) :: [])
| ESizeOf t ->
  sx (String ((Ascii (true, true, false, false, true, true, true, false)),
    (String ((Ascii (true, false, false, true, false, true, true, false)),
    (String ((Ascii (false, true, false, true, true, true, true, false)),
    (String ((Ascii (true, false, true, false, false, true, true, false)),
    (String ((Ascii (true, true, true, true, false, true, true, false)),
    (String ((Ascii (false, true, true, false, false, true, true, false)),
    EmptyString)))))))))))) ((show_type t) :: [])
| ECall (b, n, args) ->
  sx
    (if b
     then String ((Ascii (false, true, false, false, false, true, true,
            false)), (String ((Ascii (true, true, false, false, false, true,
            true, false)), (String ((Ascii (true, false, false, false, false,
            true, true, false)), (String ((Ascii (false, false, true, true,
            false, true, true, false)), (String ((Ascii (false, false, true,
            true, false, true, true, false)), EmptyString)))))))))
     else String ((Ascii (true, true, false, false, false, true, true,
            false)), (String ((Ascii (true, false, false, false, false, true,
            true, false)), (String ((Ascii (false, false, true, true, false,
            true, true, false)), (String ((Ascii (false, false, true, true,
            false, true, true, false)), EmptyString))))))))
    ((show_name n) :: (map show_expr args))

(** val show_ref : reference -> coq_N list **)

and show_ref = function
| Ref (d, b, steps) ->
  sx (String ((Ascii (false, true, false, false, true, true, true, false)),
    (String ((Ascii (true, false, true, false, false, true, true, false)),
    (String ((Ascii (false, true, true, false, false, true, true, false)),
    EmptyString)))))) ((show_N d) :: ((show_name b) :: (map show_step steps)))

(** val show_step : step -> coq_N list **)

and show_step = function
| RsElement e ->
  sx (String ((Ascii (true, false, true, false, false, true, true, false)),
    (String ((Ascii (false, false, true, true, false, true, true, false)),
    (String ((Ascii (true, false, true, false, false, true, true, false)),
    (String ((Ascii (true, false, true, true, false, true, true, false)),
    EmptyString)))))))) ((show_expr e) :: [])
| RsMember m ->
  sx (String ((Ascii (true, false, true, true, false, true, true, false)),
    (String ((Ascii (true, false, true, false, false, true, true, false)),
    (String ((Ascii (true, false, true, true, false, true, true, false)),
    EmptyString)))))) ((show_name m) :: [])

(** val show_stmt : stmt -> coq_N list **)

let rec show_stmt = function
| StVar (n, t, v) ->
  sx (String ((Ascii (false, true, true, false, true, true, true, false)),
    (String ((Ascii (true, false, false, false, false, true, true, false)),
    (String ((Ascii (false, true, false, false, true, true, true, false)),
    EmptyString))))))
    ((show_name n) :: ((show_opt show_type t) :: ((show_opt show_expr v) :: [])))
| StAssign (r, v) ->
  sx (String ((Ascii (true, false, false, false, false, true, true, false)),
    (String ((Ascii (true, true, false, false, true, true, true, false)),
    (String ((Ascii (true, true, false, false, true, true, true, false)),
    (String ((Ascii (true, false, false, true, false, true, true, false)),
    (String ((Ascii (true, true, true, false, false, true, true, false)),
    (String ((Ascii (false, true, true, true, false, true, true, false)),
    EmptyString)))))))))))) ((show_ref r) :: ((show_expr v) :: []))
| StCall (b, n, args) ->
  sx
    (if b
     then String ((Ascii (true, true, false, false, true, true, true,
            false)), (String ((Ascii (false, true, false, false, false, true,
            true, false)), (String ((Ascii (true, true, false, false, false,
            true, true, false)), (String ((Ascii (true, false, false, false,
            false, true, true, false)), (String ((Ascii (false, false, true,
            true, false, true, true, false)), (String ((Ascii (false, false,
            true, true, false, true, true, false)), EmptyString)))))))))))
     else String ((Ascii (true, true, false, false, true, true, true,
            false)), (String ((Ascii (true, true, false, false, false, true,
            true, false)), (String ((Ascii (true, false, false, false, false,
            true, true, false)), (String ((Ascii (false, false, true, true,
            false, true, true, false)), (String ((Ascii (false, false, true,
            true, false, true, true, false)), EmptyString))))))))))
    ((show_name n) :: (map show_expr args))
| StLoop ->
  sx (String ((Ascii (false, false, true, true, false, true, true, false)),
    (String ((Ascii (true, true, true, true, false, true, true, false)),
    (String ((Ascii (true, true, true, true, false, true, true, false)),
    (String ((Ascii (false, false, false, false, true, true, true, false)),
    EmptyString)))))))) []
| StGoto l ->
  sx (String ((Ascii (true, true, true, false, false, true, true, false)),
    (String ((Ascii (true, true, true, true, false, true, true, false)),
    (String ((Ascii (false, false, true, false, true, true, true, false)),
    (String ((Ascii (true, true, true, true, false, true, true, false)),
    EmptyString)))))))) ((show_name l) :: [])
| StLabel l ->
  sx (String ((Ascii (false, false, true, true, false, true, true, false)),
    (String ((Ascii (true, false, false, false, false, true, true, false)),
    (String ((Ascii (false, true, false, false, false, true, true, false)),
    (String ((Ascii (true, false, true, false, false, true, true, false)),
    (String ((Ascii (false, false, true, true, false, true, true, false)),
    EmptyString)))))))))) ((show_name l) :: [])
| StIf (op, l, r, th, el) ->
  sx (String ((Ascii (true, false, false, true, false, true, true, false)),
    (String ((Ascii (false, true, true, false, false, true, true, false)),
    EmptyString))))
    ((show_cmpop op) :: ((show_expr l) :: ((show_expr r) :: ((show_stmt th) :: ((
    match el with
    | Some e -> show_stmt e
    | None -> none_atom) :: [])))))
| StBlock ss ->
  sx (String ((Ascii (false, true, false, false, false, true, true, false)),
    (String ((Ascii (false, false, true, true, false, true, true, false)),
    (String ((Ascii (true, true, true, true, false, true, true, false)),
    (String ((Ascii (true, true, false, false, false, true, true, false)),
    (String ((Ascii (true, true, false, true, false, true, true, false)),
    EmptyString)))))))))) (map show_stmt ss)

(** val show_flags : bool -> bool -> coq_N list **)

let show_flags pub ext =
  sx (String ((Ascii (false, true, true, false, false, true, true, false)),
    (String ((Ascii (false, false, true, true, false, true, true, false)),
    (String ((Ascii (true, false, false, false, false, true, true, false)),
    (String ((Ascii (true, true, true, false, false, true, true, false)),
    (String ((Ascii (true, true, false, false, true, true, true, false)),
    EmptyString))))))))))
    (app
      (if pub
       then (s2l (String ((Ascii (false, false, false, false, true, true,
              true, false)), (String ((Ascii (true, false, true, false, true,
              true, true, false)), (String ((Ascii (false, true, false,
              false, false, true, true, false)), EmptyString))))))) :: []
       else [])
      (if ext
       then (s2l (String ((Ascii (true, false, true, false, false, true,
              true, false)), (String ((Ascii (false, false, false, true,
              true, true, true, false)), (String ((Ascii (false, false, true,
              false, true, true, true, false)), (String ((Ascii (true, false,
              true, false, false, true, true, false)), (String ((Ascii
              (false, true, false, false, true, true, true, false)), (String
              ((Ascii (false, true, true, true, false, true, true, false)),
              EmptyString))))))))))))) :: []
       else []))

(** val show_typed_name : (name * ty) -> coq_N list **)

let show_typed_name = function
| (n, t) ->
  (Npos (Coq_xO (Coq_xO (Coq_xO (Coq_xI (Coq_xO
    Coq_xH)))))) :: (app (show_name n) ((Npos (Coq_xO (Coq_xO (Coq_xO (Coq_xO
                      (Coq_xO
                      Coq_xH)))))) :: (app (show_type t) ((Npos (Coq_xI
                                        (Coq_xO (Coq_xO (Coq_xI (Coq_xO
                                        Coq_xH)))))) :: []))))

(** val show_skind : skind -> string **)

let show_skind = function
| SkStruct ->
  String ((Ascii (true, true, false, false, true, true, true, false)),
    (String ((Ascii (false, false, true, false, true, true, true, false)),
    (String ((Ascii (false, true, false, false, true, true, true, false)),
    (String ((Ascii (true, false, true, false, true, true, true, false)),
    (String ((Ascii (true, true, false, false, false, true, true, false)),
    (String ((Ascii (false, false, true, false, true, true, true, false)),
    EmptyString)))))))))))
| SkOpaque ->
  String ((Ascii (true, true, true, true, false, true, true, false)), (String
    ((Ascii (false, false, false, false, true, true, true, false)), (String
    ((Ascii (true, false, false, false, false, true, true, false)), (String
    ((Ascii (true, false, false, false, true, true, true, false)), (String
    ((Ascii (true, false, true, false, true, true, true, false)), (String
    ((Ascii (true, false, true, false, false, true, true, false)),
    EmptyString)))))))))))
| SkWord8 ->
  String ((Ascii (true, true, true, false, true, true, true, false)), (String
    ((Ascii (true, true, true, true, false, true, true, false)), (String
    ((Ascii (false, true, false, false, true, true, true, false)), (String
    ((Ascii (false, false, true, false, false, true, true, false)), (String
    ((Ascii (false, false, false, true, true, true, false, false)),
    EmptyString)))))))))
| SkWord16 ->
  String ((Ascii (true, true, true, false, true, true, true, false)), (String
    ((Ascii (true, true, true, true, false, true, true, false)), (String
    ((Ascii (false, true, false, false, true, true, true, false)), (String
    ((Ascii (false, false, true, false, false, true, true, false)), (String
    ((Ascii (true, false, false, false, true, true, false, false)), (String
    ((Ascii (false, true, true, false, true, true, false, false)),
    EmptyString)))))))))))
| SkWord32 ->
  String ((Ascii (true, true, true, false, true, true, true, false)), (String
    ((Ascii (true, true, true, true, false, true, true, false)), (String
    ((Ascii (false, true, false, false, true, true, true, false)), (String
    ((Ascii (false, false, true, false, false, true, true, false)), (String
    ((Ascii (true, true, false, false, true, true, false, false)), (String
    ((Ascii (false, true, false, false, true, true, false, false)),
    EmptyString)))))))))))
| SkWord64 ->
  String ((Ascii (true, true, true, false, true, true, true, false)), (String
    ((Ascii (true, true, true, true, false, true, true, false)), (String
    ((Ascii (false, true, false, false, true, true, true, false)), (String
    ((Ascii (false, false, true, false, false, true, true, false)), (String
    ((Ascii (false, true, true, false, true, true, false, false)), (String
    ((Ascii (false, false, true, false, true, true, false, false)),
    EmptyString)))))))))))
| SkWord128 ->
  String ((Ascii (true, true, true, false, true, true, true, false)), (String
    ((Ascii (true, true, true, true, false, true, true, false)), (String
    ((Ascii (false, true, false, false, true, true, true, false)), (String
    ((Ascii (false, false, true, false, false, true, true, false)), (String
    ((Ascii (true, false, false, false, true, true, false, false)), (String
    ((Ascii (false, true, false, false, true, true, false, false)), (String
    ((Ascii (false, false, false, true, true, true, false, false)),
    EmptyString)))))))))))))

(** val show_decl : decl -> coq_N list **)

let show_decl = function
| DImport bs ->
  sx (String ((Ascii (true, false, false, true, false, true, true, false)),
    (String ((Ascii (true, false, true, true, false, true, true, false)),
    (String ((Ascii (false, false, false, false, true, true, true, false)),
    (String ((Ascii (true, true, true, true, false, true, true, false)),
    (String ((Ascii (false, true, false, false, true, true, true, false)),
    (String ((Ascii (false, false, true, false, true, true, true, false)),
    EmptyString)))))))))))) (map show_N bs)
| DConst (pub, ext, n, t, v) ->
  sx (String ((Ascii (true, true, false, false, false, true, true, false)),
    (String ((Ascii (true, true, true, true, false, true, true, false)),
    (String ((Ascii (false, true, true, true, false, true, true, false)),
    (String ((Ascii (true, true, false, false, true, true, true, false)),
    (String ((Ascii (false, false, true, false, true, true, true, false)),
    EmptyString))))))))))
    ((show_flags pub ext) :: ((show_name n) :: ((show_type t) :: ((show_expr
                                                                    v) :: []))))
| DFn (pub, ext, n, ps, ret, body) ->
  (match body with
   | Some f ->
     let (ss, rv) = f in
     sx (String ((Ascii (false, true, true, false, false, true, true,
       false)), (String ((Ascii (false, true, true, true, false, true, true,
       false)), EmptyString))))
       ((show_flags pub ext) :: ((show_name n) :: ((sx (String ((Ascii
                                                     (false, false, false,
                                                     false, true, true, true,
                                                     false)), (String ((Ascii
                                                     (true, false, false,
                                                     false, false, true,
                                                     true, false)), (String
                                                     ((Ascii (false, true,
                                                     false, false, true,
                                                     true, true, false)),
                                                     (String ((Ascii (true,
                                                     false, false, false,
                                                     false, true, true,
                                                     false)), (String ((Ascii
                                                     (true, false, true,
                                                     true, false, true, true,
                                                     false)), (String ((Ascii
                                                     (true, true, false,
                                                     false, true, true, true,
                                                     false)),
                                                     EmptyString))))))))))))
                                                     (map show_typed_name ps)) :: (
       (show_type ret) :: ((sx (String ((Ascii (false, true, false, false,
                             false, true, true, false)), (String ((Ascii
                             (true, true, true, true, false, true, true,
                             false)), (String ((Ascii (false, false, true,
                             false, false, true, true, false)), (String
                             ((Ascii (true, false, false, true, true, true,
                             true, false)), EmptyString))))))))
                             (map show_stmt ss)) :: ((sx (String ((Ascii
                                                       (false, true, false,
                                                       false, true, true,
                                                       true, false)), (String
                                                       ((Ascii (true, false,
                                                       true, false, false,
                                                       true, true, false)),
                                                       (String ((Ascii
                                                       (false, false, true,
                                                       false, true, true,
                                                       true, false)),
                                                       EmptyString))))))
                                                       ((show_opt show_expr
                                                          rv) :: [])) :: []))))))
   | None ->
     sx (String ((Ascii (false, true, true, false, false, true, true,
       false)), (String ((Ascii (false, true, true, true, false, true, true,
       false)), (String ((Ascii (false, false, false, true, false, true,
       true, false)), (String ((Ascii (true, false, true, false, false, true,
       true, false)), (String ((Ascii (true, false, false, false, false,
       true, true, false)), (String ((Ascii (false, false, true, false,
       false, true, true, false)), EmptyString))))))))))))
       ((show_flags pub ext) :: ((show_name n) :: ((sx (String ((Ascii
                                                     (false, false, false,
                                                     false, true, true, true,
                                                     false)), (String ((Ascii
                                                     (true, false, false,
                                                     false, false, true,
                                                     true, false)), (String
                                                     ((Ascii (false, true,
                                                     false, false, true,
                                                     true, true, false)),
                                                     (String ((Ascii (true,
                                                     false, false, false,
                                                     false, true, true,
                                                     false)), (String ((Ascii
                                                     (true, false, true,
                                                     true, false, true, true,
                                                     false)), (String ((Ascii
                                                     (true, true, false,
                                                     false, true, true, true,
                                                     false)),
                                                     EmptyString))))))))))))
                                                     (map show_typed_name ps)) :: (
       (show_type ret) :: [])))))
| DStruct (pub, ext, k, n, ms) ->
  sx (show_skind k)
    ((show_flags pub ext) :: ((show_name n) :: ((sx (String ((Ascii (true,
                                                  false, true, true, false,
                                                  true, true, false)),
                                                  (String ((Ascii (true,
                                                  false, true, false, false,
                                                  true, true, false)),
                                                  (String ((Ascii (true,
                                                  false, true, true, false,
                                                  true, true, false)),
                                                  (String ((Ascii (false,
                                                  true, false, false, false,
                                                  true, true, false)),
                                                  (String ((Ascii (true,
                                                  false, true, false, false,
                                                  true, true, false)),
                                                  (String ((Ascii (false,
                                                  true, false, false, true,
                                                  true, true, false)),
                                                  (String ((Ascii (true,
                                                  true, false, false, true,
                                                  true, true, false)),
                                                  EmptyString))))))))))))))
                                                  (map show_typed_name ms)) :: [])))

(** val show_module : decl list -> coq_N list **)

let show_module ds =
  flat_map (fun d ->
    app (show_decl d) ((Npos (Coq_xO (Coq_xI (Coq_xO Coq_xH)))) :: [])) ds
