open BinNums

module Pos :
 sig
  type mask =
  | IsNul
  | IsPos of positive
  | IsNeg
 end
