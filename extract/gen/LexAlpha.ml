open BinInt
open BinNat
open BinNums
open Datatypes
open IR
open Tok

(** val in_range : coq_N -> coq_N -> coq_N -> bool **)

let in_range lo hi c =
  (&&) (N.leb lo c) (N.leb c hi)

(** val is_lower : coq_N -> bool **)

let is_lower c =
  in_range (Npos (Coq_xI (Coq_xO (Coq_xO (Coq_xO (Coq_xO (Coq_xI
    Coq_xH))))))) (Npos (Coq_xO (Coq_xI (Coq_xO (Coq_xI (Coq_xI (Coq_xI
    Coq_xH))))))) c

(** val is_upper : coq_N -> bool **)

let is_upper c =
  in_range (Npos (Coq_xI (Coq_xO (Coq_xO (Coq_xO (Coq_xO (Coq_xO
    Coq_xH))))))) (Npos (Coq_xO (Coq_xI (Coq_xO (Coq_xI (Coq_xI (Coq_xO
    Coq_xH))))))) c

(** val is_dec : coq_N -> bool **)

let is_dec c =
  in_range (Npos (Coq_xO (Coq_xO (Coq_xO (Coq_xO (Coq_xI Coq_xH)))))) (Npos
    (Coq_xI (Coq_xO (Coq_xO (Coq_xI (Coq_xI Coq_xH)))))) c

(** val is_nonzero_dec : coq_N -> bool **)

let is_nonzero_dec c =
  in_range (Npos (Coq_xI (Coq_xO (Coq_xO (Coq_xO (Coq_xI Coq_xH)))))) (Npos
    (Coq_xI (Coq_xO (Coq_xO (Coq_xI (Coq_xI Coq_xH)))))) c

(** val is_hex : coq_N -> bool **)

let is_hex c =
  (||)
    ((||) (is_dec c)
      (in_range (Npos (Coq_xI (Coq_xO (Coq_xO (Coq_xO (Coq_xO (Coq_xI
        Coq_xH))))))) (Npos (Coq_xO (Coq_xI (Coq_xI (Coq_xO (Coq_xO (Coq_xI
        Coq_xH))))))) c))
    (in_range (Npos (Coq_xI (Coq_xO (Coq_xO (Coq_xO (Coq_xO (Coq_xO
      Coq_xH))))))) (Npos (Coq_xO (Coq_xI (Coq_xI (Coq_xO (Coq_xO (Coq_xO
      Coq_xH))))))) c)

(** val is_bin : coq_N -> bool **)

let is_bin c =
  (||) (N.eqb c (Npos (Coq_xO (Coq_xO (Coq_xO (Coq_xO (Coq_xI Coq_xH)))))))
    (N.eqb c (Npos (Coq_xI (Coq_xO (Coq_xO (Coq_xO (Coq_xI Coq_xH)))))))

(** val is_ident_start : coq_N -> bool **)

let is_ident_start c =
  (||) ((||) (is_lower c) (is_upper c))
    (N.eqb c (Npos (Coq_xI (Coq_xI (Coq_xI (Coq_xI (Coq_xI (Coq_xO
      Coq_xH))))))))

(** val is_ident_cont : coq_N -> bool **)

let is_ident_cont c =
  (||) ((||) ((||) (is_lower c) (is_upper c)) (is_dec c))
    (N.eqb c (Npos (Coq_xI (Coq_xI (Coq_xI (Coq_xI (Coq_xI (Coq_xO
      Coq_xH))))))))

(** val is_ascii_graphic : coq_N -> bool **)

let is_ascii_graphic c =
  in_range (Npos (Coq_xI (Coq_xO (Coq_xO (Coq_xO (Coq_xO Coq_xH)))))) (Npos
    (Coq_xO (Coq_xI (Coq_xI (Coq_xI (Coq_xI (Coq_xI Coq_xH))))))) c

(** val is_ascii : coq_N -> bool **)

let is_ascii c =
  N.leb c (Npos (Coq_xI (Coq_xI (Coq_xI (Coq_xI (Coq_xI (Coq_xI Coq_xH)))))))

(** val digit_val : coq_N -> coq_Z **)

let digit_val c =
  Z.of_N
    (if is_dec c
     then N.sub c (Npos (Coq_xO (Coq_xO (Coq_xO (Coq_xO (Coq_xI Coq_xH))))))
     else if in_range (Npos (Coq_xI (Coq_xO (Coq_xO (Coq_xO (Coq_xO (Coq_xI
               Coq_xH))))))) (Npos (Coq_xO (Coq_xI (Coq_xI (Coq_xO (Coq_xO
               (Coq_xI Coq_xH))))))) c
          then N.sub c (Npos (Coq_xI (Coq_xI (Coq_xI (Coq_xO (Coq_xI (Coq_xO
                 Coq_xH)))))))
          else N.sub c (Npos (Coq_xI (Coq_xI (Coq_xI (Coq_xO (Coq_xI
                 Coq_xH)))))))

(** val keyword_table : (coq_N list * tkind) list **)

let keyword_table =
  (((Npos (Coq_xO (Coq_xI (Coq_xI (Coq_xO (Coq_xO (Coq_xI
    Coq_xH))))))) :: ((Npos (Coq_xO (Coq_xI (Coq_xI (Coq_xI (Coq_xO (Coq_xI
    Coq_xH))))))) :: [])), KFn) :: ((((Npos (Coq_xO (Coq_xI (Coq_xI (Coq_xO
    (Coq_xI (Coq_xI Coq_xH))))))) :: ((Npos (Coq_xI (Coq_xO (Coq_xO (Coq_xO
    (Coq_xO (Coq_xI Coq_xH))))))) :: ((Npos (Coq_xO (Coq_xI (Coq_xO (Coq_xO
    (Coq_xI (Coq_xI Coq_xH))))))) :: []))), KVar) :: ((((Npos (Coq_xI (Coq_xI
    (Coq_xO (Coq_xO (Coq_xO (Coq_xI Coq_xH))))))) :: ((Npos (Coq_xI (Coq_xI
    (Coq_xI (Coq_xI (Coq_xO (Coq_xI Coq_xH))))))) :: ((Npos (Coq_xO (Coq_xI
    (Coq_xI (Coq_xI (Coq_xO (Coq_xI Coq_xH))))))) :: ((Npos (Coq_xI (Coq_xI
    (Coq_xO (Coq_xO (Coq_xI (Coq_xI Coq_xH))))))) :: ((Npos (Coq_xO (Coq_xO
    (Coq_xI (Coq_xO (Coq_xI (Coq_xI Coq_xH))))))) :: []))))),
    KConst) :: ((((Npos (Coq_xI (Coq_xO (Coq_xO (Coq_xI (Coq_xO (Coq_xI
    Coq_xH))))))) :: ((Npos (Coq_xO (Coq_xI (Coq_xI (Coq_xO (Coq_xO (Coq_xI
    Coq_xH))))))) :: [])), KIf) :: ((((Npos (Coq_xI (Coq_xI (Coq_xI (Coq_xO
    (Coq_xO (Coq_xI Coq_xH))))))) :: ((Npos (Coq_xI (Coq_xI (Coq_xI (Coq_xI
    (Coq_xO (Coq_xI Coq_xH))))))) :: ((Npos (Coq_xO (Coq_xO (Coq_xI (Coq_xO
    (Coq_xI (Coq_xI Coq_xH))))))) :: ((Npos (Coq_xI (Coq_xI (Coq_xI (Coq_xI
    (Coq_xO (Coq_xI Coq_xH))))))) :: [])))), KGoto) :: ((((Npos (Coq_xO
    (Coq_xO (Coq_xI (Coq_xI (Coq_xO (Coq_xI Coq_xH))))))) :: ((Npos (Coq_xI
    (Coq_xI (Coq_xI (Coq_xI (Coq_xO (Coq_xI Coq_xH))))))) :: ((Npos (Coq_xI
    (Coq_xI (Coq_xI (Coq_xI (Coq_xO (Coq_xI Coq_xH))))))) :: ((Npos (Coq_xO
    (Coq_xO (Coq_xO (Coq_xO (Coq_xI (Coq_xI Coq_xH))))))) :: [])))),
    KLoop) :: ((((Npos (Coq_xI (Coq_xO (Coq_xI (Coq_xO (Coq_xO (Coq_xI
    Coq_xH))))))) :: ((Npos (Coq_xO (Coq_xO (Coq_xI (Coq_xI (Coq_xO (Coq_xI
    Coq_xH))))))) :: ((Npos (Coq_xI (Coq_xI (Coq_xO (Coq_xO (Coq_xI (Coq_xI
    Coq_xH))))))) :: ((Npos (Coq_xI (Coq_xO (Coq_xI (Coq_xO (Coq_xO (Coq_xI
    Coq_xH))))))) :: [])))), KElse) :: ((((Npos (Coq_xI (Coq_xI (Coq_xO
    (Coq_xO (Coq_xO (Coq_xI Coq_xH))))))) :: ((Npos (Coq_xI (Coq_xO (Coq_xO
    (Coq_xO (Coq_xO (Coq_xI Coq_xH))))))) :: ((Npos (Coq_xI (Coq_xI (Coq_xO
    (Coq_xO (Coq_xI (Coq_xI Coq_xH))))))) :: ((Npos (Coq_xO (Coq_xO (Coq_xI
    (Coq_xO (Coq_xI (Coq_xI Coq_xH))))))) :: [])))), KCast) :: ((((Npos
    (Coq_xI (Coq_xO (Coq_xO (Coq_xO (Coq_xO (Coq_xI Coq_xH))))))) :: ((Npos
    (Coq_xI (Coq_xI (Coq_xO (Coq_xO (Coq_xI (Coq_xI Coq_xH))))))) :: [])),
    KAs) :: ((((Npos (Coq_xI (Coq_xO (Coq_xO (Coq_xI (Coq_xO (Coq_xI
    Coq_xH))))))) :: ((Npos (Coq_xI (Coq_xO (Coq_xI (Coq_xI (Coq_xO (Coq_xI
    Coq_xH))))))) :: ((Npos (Coq_xO (Coq_xO (Coq_xO (Coq_xO (Coq_xI (Coq_xI
    Coq_xH))))))) :: ((Npos (Coq_xI (Coq_xI (Coq_xI (Coq_xI (Coq_xO (Coq_xI
    Coq_xH))))))) :: ((Npos (Coq_xO (Coq_xI (Coq_xO (Coq_xO (Coq_xI (Coq_xI
    Coq_xH))))))) :: ((Npos (Coq_xO (Coq_xO (Coq_xI (Coq_xO (Coq_xI (Coq_xI
    Coq_xH))))))) :: [])))))), KImport) :: ((((Npos (Coq_xO (Coq_xO (Coq_xO
    (Coq_xO (Coq_xI (Coq_xI Coq_xH))))))) :: ((Npos (Coq_xI (Coq_xO (Coq_xI
    (Coq_xO (Coq_xI (Coq_xI Coq_xH))))))) :: ((Npos (Coq_xO (Coq_xI (Coq_xO
    (Coq_xO (Coq_xO (Coq_xI Coq_xH))))))) :: []))), KPub) :: ((((Npos (Coq_xI
    (Coq_xO (Coq_xI (Coq_xO (Coq_xO (Coq_xI Coq_xH))))))) :: ((Npos (Coq_xO
    (Coq_xO (Coq_xO (Coq_xI (Coq_xI (Coq_xI Coq_xH))))))) :: ((Npos (Coq_xO
    (Coq_xO (Coq_xI (Coq_xO (Coq_xI (Coq_xI Coq_xH))))))) :: ((Npos (Coq_xI
    (Coq_xO (Coq_xI (Coq_xO (Coq_xO (Coq_xI Coq_xH))))))) :: ((Npos (Coq_xO
    (Coq_xI (Coq_xO (Coq_xO (Coq_xI (Coq_xI Coq_xH))))))) :: ((Npos (Coq_xO
    (Coq_xI (Coq_xI (Coq_xI (Coq_xO (Coq_xI Coq_xH))))))) :: [])))))),
    KExtern) :: ((((Npos (Coq_xI (Coq_xI (Coq_xO (Coq_xO (Coq_xI (Coq_xI
    Coq_xH))))))) :: ((Npos (Coq_xO (Coq_xO (Coq_xI (Coq_xO (Coq_xI (Coq_xI
    Coq_xH))))))) :: ((Npos (Coq_xO (Coq_xI (Coq_xO (Coq_xO (Coq_xI (Coq_xI
    Coq_xH))))))) :: ((Npos (Coq_xI (Coq_xO (Coq_xI (Coq_xO (Coq_xI (Coq_xI
    Coq_xH))))))) :: ((Npos (Coq_xI (Coq_xI (Coq_xO (Coq_xO (Coq_xO (Coq_xI
    Coq_xH))))))) :: ((Npos (Coq_xO (Coq_xO (Coq_xI (Coq_xO (Coq_xI (Coq_xI
    Coq_xH))))))) :: [])))))), KStruct) :: ((((Npos (Coq_xI (Coq_xI (Coq_xI
    (Coq_xO (Coq_xI (Coq_xI Coq_xH))))))) :: ((Npos (Coq_xI (Coq_xI (Coq_xI
    (Coq_xI (Coq_xO (Coq_xI Coq_xH))))))) :: ((Npos (Coq_xO (Coq_xI (Coq_xO
    (Coq_xO (Coq_xI (Coq_xI Coq_xH))))))) :: ((Npos (Coq_xO (Coq_xO (Coq_xI
    (Coq_xO (Coq_xO (Coq_xI Coq_xH))))))) :: ((Npos (Coq_xO (Coq_xO (Coq_xO
    (Coq_xI (Coq_xI Coq_xH)))))) :: []))))), KWord8) :: ((((Npos (Coq_xI
    (Coq_xI (Coq_xI (Coq_xO (Coq_xI (Coq_xI Coq_xH))))))) :: ((Npos (Coq_xI
    (Coq_xI (Coq_xI (Coq_xI (Coq_xO (Coq_xI Coq_xH))))))) :: ((Npos (Coq_xO
    (Coq_xI (Coq_xO (Coq_xO (Coq_xI (Coq_xI Coq_xH))))))) :: ((Npos (Coq_xO
    (Coq_xO (Coq_xI (Coq_xO (Coq_xO (Coq_xI Coq_xH))))))) :: ((Npos (Coq_xI
    (Coq_xO (Coq_xO (Coq_xO (Coq_xI Coq_xH)))))) :: ((Npos (Coq_xO (Coq_xI
    (Coq_xI (Coq_xO (Coq_xI Coq_xH)))))) :: [])))))), KWord16) :: ((((Npos
    (Coq_xI (Coq_xI (Coq_xI (Coq_xO (Coq_xI (Coq_xI Coq_xH))))))) :: ((Npos
    (Coq_xI (Coq_xI (Coq_xI (Coq_xI (Coq_xO (Coq_xI Coq_xH))))))) :: ((Npos
    (Coq_xO (Coq_xI (Coq_xO (Coq_xO (Coq_xI (Coq_xI Coq_xH))))))) :: ((Npos
    (Coq_xO (Coq_xO (Coq_xI (Coq_xO (Coq_xO (Coq_xI Coq_xH))))))) :: ((Npos
    (Coq_xI (Coq_xI (Coq_xO (Coq_xO (Coq_xI Coq_xH)))))) :: ((Npos (Coq_xO
    (Coq_xI (Coq_xO (Coq_xO (Coq_xI Coq_xH)))))) :: [])))))),
    KWord32) :: ((((Npos (Coq_xI (Coq_xI (Coq_xI (Coq_xO (Coq_xI (Coq_xI
    Coq_xH))))))) :: ((Npos (Coq_xI (Coq_xI (Coq_xI (Coq_xI (Coq_xO (Coq_xI
    Coq_xH))))))) :: ((Npos (Coq_xO (Coq_xI (Coq_xO (Coq_xO (Coq_xI (Coq_xI
    Coq_xH))))))) :: ((Npos (Coq_xO (Coq_xO (Coq_xI (Coq_xO (Coq_xO (Coq_xI
    Coq_xH))))))) :: ((Npos (Coq_xO (Coq_xI (Coq_xI (Coq_xO (Coq_xI
    Coq_xH)))))) :: ((Npos (Coq_xO (Coq_xO (Coq_xI (Coq_xO (Coq_xI
    Coq_xH)))))) :: [])))))), KWord64) :: ((((Npos (Coq_xI (Coq_xI (Coq_xI
    (Coq_xO (Coq_xI (Coq_xI Coq_xH))))))) :: ((Npos (Coq_xI (Coq_xI (Coq_xI
    (Coq_xI (Coq_xO (Coq_xI Coq_xH))))))) :: ((Npos (Coq_xO (Coq_xI (Coq_xO
    (Coq_xO (Coq_xI (Coq_xI Coq_xH))))))) :: ((Npos (Coq_xO (Coq_xO (Coq_xI
    (Coq_xO (Coq_xO (Coq_xI Coq_xH))))))) :: ((Npos (Coq_xI (Coq_xO (Coq_xO
    (Coq_xO (Coq_xI Coq_xH)))))) :: ((Npos (Coq_xO (Coq_xI (Coq_xO (Coq_xO
    (Coq_xI Coq_xH)))))) :: ((Npos (Coq_xO (Coq_xO (Coq_xO (Coq_xI (Coq_xI
    Coq_xH)))))) :: []))))))), KWord128) :: ((((Npos (Coq_xI (Coq_xI (Coq_xI
    (Coq_xI (Coq_xI (Coq_xO Coq_xH))))))) :: []),
    KPlaceholder) :: []))))))))))))))))))

(** val bool_table : (coq_N list * coq_Z) list **)

let bool_table =
  (((Npos (Coq_xO (Coq_xO (Coq_xI (Coq_xO (Coq_xI (Coq_xI
    Coq_xH))))))) :: ((Npos (Coq_xO (Coq_xI (Coq_xO (Coq_xO (Coq_xI (Coq_xI
    Coq_xH))))))) :: ((Npos (Coq_xI (Coq_xO (Coq_xI (Coq_xO (Coq_xI (Coq_xI
    Coq_xH))))))) :: ((Npos (Coq_xI (Coq_xO (Coq_xI (Coq_xO (Coq_xO (Coq_xI
    Coq_xH))))))) :: [])))), (Zpos Coq_xH)) :: ((((Npos (Coq_xO (Coq_xI
    (Coq_xI (Coq_xO (Coq_xO (Coq_xI Coq_xH))))))) :: ((Npos (Coq_xI (Coq_xO
    (Coq_xO (Coq_xO (Coq_xO (Coq_xI Coq_xH))))))) :: ((Npos (Coq_xO (Coq_xO
    (Coq_xI (Coq_xI (Coq_xO (Coq_xI Coq_xH))))))) :: ((Npos (Coq_xI (Coq_xI
    (Coq_xO (Coq_xO (Coq_xI (Coq_xI Coq_xH))))))) :: ((Npos (Coq_xI (Coq_xO
    (Coq_xI (Coq_xO (Coq_xO (Coq_xI Coq_xH))))))) :: []))))), Z0) :: [])

(** val type_table : (coq_N list * tykw) list **)

let type_table =
  (((Npos (Coq_xO (Coq_xI (Coq_xI (Coq_xO (Coq_xI (Coq_xI
    Coq_xH))))))) :: ((Npos (Coq_xI (Coq_xI (Coq_xI (Coq_xI (Coq_xO (Coq_xI
    Coq_xH))))))) :: ((Npos (Coq_xI (Coq_xO (Coq_xO (Coq_xI (Coq_xO (Coq_xI
    Coq_xH))))))) :: ((Npos (Coq_xO (Coq_xO (Coq_xI (Coq_xO (Coq_xO (Coq_xI
    Coq_xH))))))) :: [])))), TyVoid) :: ((((Npos (Coq_xI (Coq_xO (Coq_xO
    (Coq_xI (Coq_xO (Coq_xI Coq_xH))))))) :: ((Npos (Coq_xO (Coq_xO (Coq_xO
    (Coq_xI (Coq_xI Coq_xH)))))) :: [])), (TyPrim Int8)) :: ((((Npos (Coq_xI
    (Coq_xO (Coq_xO (Coq_xI (Coq_xO (Coq_xI Coq_xH))))))) :: ((Npos (Coq_xI
    (Coq_xO (Coq_xO (Coq_xO (Coq_xI Coq_xH)))))) :: ((Npos (Coq_xO (Coq_xI
    (Coq_xI (Coq_xO (Coq_xI Coq_xH)))))) :: []))), (TyPrim
    Int16)) :: ((((Npos (Coq_xI (Coq_xO (Coq_xO (Coq_xI (Coq_xO (Coq_xI
    Coq_xH))))))) :: ((Npos (Coq_xI (Coq_xI (Coq_xO (Coq_xO (Coq_xI
    Coq_xH)))))) :: ((Npos (Coq_xO (Coq_xI (Coq_xO (Coq_xO (Coq_xI
    Coq_xH)))))) :: []))), (TyPrim Int32)) :: ((((Npos (Coq_xI (Coq_xO
    (Coq_xO (Coq_xI (Coq_xO (Coq_xI Coq_xH))))))) :: ((Npos (Coq_xO (Coq_xI
    (Coq_xI (Coq_xO (Coq_xI Coq_xH)))))) :: ((Npos (Coq_xO (Coq_xO (Coq_xI
    (Coq_xO (Coq_xI Coq_xH)))))) :: []))), (TyPrim Int64)) :: ((((Npos
    (Coq_xI (Coq_xO (Coq_xO (Coq_xI (Coq_xO (Coq_xI Coq_xH))))))) :: ((Npos
    (Coq_xI (Coq_xO (Coq_xO (Coq_xO (Coq_xI Coq_xH)))))) :: ((Npos (Coq_xO
    (Coq_xI (Coq_xO (Coq_xO (Coq_xI Coq_xH)))))) :: ((Npos (Coq_xO (Coq_xO
    (Coq_xO (Coq_xI (Coq_xI Coq_xH)))))) :: [])))), (TyPrim
    Int128)) :: ((((Npos (Coq_xI (Coq_xO (Coq_xI (Coq_xO (Coq_xI (Coq_xI
    Coq_xH))))))) :: ((Npos (Coq_xO (Coq_xO (Coq_xO (Coq_xI (Coq_xI
    Coq_xH)))))) :: [])), (TyPrim Uint8)) :: ((((Npos (Coq_xI (Coq_xO (Coq_xI
    (Coq_xO (Coq_xI (Coq_xI Coq_xH))))))) :: ((Npos (Coq_xI (Coq_xO (Coq_xO
    (Coq_xO (Coq_xI Coq_xH)))))) :: ((Npos (Coq_xO (Coq_xI (Coq_xI (Coq_xO
    (Coq_xI Coq_xH)))))) :: []))), (TyPrim Uint16)) :: ((((Npos (Coq_xI
    (Coq_xO (Coq_xI (Coq_xO (Coq_xI (Coq_xI Coq_xH))))))) :: ((Npos (Coq_xI
    (Coq_xI (Coq_xO (Coq_xO (Coq_xI Coq_xH)))))) :: ((Npos (Coq_xO (Coq_xI
    (Coq_xO (Coq_xO (Coq_xI Coq_xH)))))) :: []))), (TyPrim
    Uint32)) :: ((((Npos (Coq_xI (Coq_xO (Coq_xI (Coq_xO (Coq_xI (Coq_xI
    Coq_xH))))))) :: ((Npos (Coq_xO (Coq_xI (Coq_xI (Coq_xO (Coq_xI
    Coq_xH)))))) :: ((Npos (Coq_xO (Coq_xO (Coq_xI (Coq_xO (Coq_xI
    Coq_xH)))))) :: []))), (TyPrim Uint64)) :: ((((Npos (Coq_xI (Coq_xO
    (Coq_xI (Coq_xO (Coq_xI (Coq_xI Coq_xH))))))) :: ((Npos (Coq_xI (Coq_xO
    (Coq_xO (Coq_xO (Coq_xI Coq_xH)))))) :: ((Npos (Coq_xO (Coq_xI (Coq_xO
    (Coq_xO (Coq_xI Coq_xH)))))) :: ((Npos (Coq_xO (Coq_xO (Coq_xO (Coq_xI
    (Coq_xI Coq_xH)))))) :: [])))), (TyPrim Uint128)) :: ((((Npos (Coq_xI
    (Coq_xO (Coq_xI (Coq_xO (Coq_xI (Coq_xI Coq_xH))))))) :: ((Npos (Coq_xI
    (Coq_xI (Coq_xO (Coq_xO (Coq_xI (Coq_xI Coq_xH))))))) :: ((Npos (Coq_xI
    (Coq_xO (Coq_xO (Coq_xI (Coq_xO (Coq_xI Coq_xH))))))) :: ((Npos (Coq_xO
    (Coq_xI (Coq_xO (Coq_xI (Coq_xI (Coq_xI Coq_xH))))))) :: ((Npos (Coq_xI
    (Coq_xO (Coq_xI (Coq_xO (Coq_xO (Coq_xI Coq_xH))))))) :: []))))), (TyPrim
    Usize)) :: ((((Npos (Coq_xI (Coq_xI (Coq_xO (Coq_xO (Coq_xO (Coq_xI
    Coq_xH))))))) :: ((Npos (Coq_xO (Coq_xO (Coq_xO (Coq_xI (Coq_xO (Coq_xI
    Coq_xH))))))) :: ((Npos (Coq_xI (Coq_xO (Coq_xO (Coq_xO (Coq_xO (Coq_xI
    Coq_xH))))))) :: ((Npos (Coq_xO (Coq_xI (Coq_xO (Coq_xO (Coq_xI (Coq_xI
    Coq_xH))))))) :: ((Npos (Coq_xO (Coq_xO (Coq_xO (Coq_xI (Coq_xI
    Coq_xH)))))) :: []))))), (TyPrim Char8)) :: ((((Npos (Coq_xO (Coq_xI
    (Coq_xO (Coq_xO (Coq_xO (Coq_xI Coq_xH))))))) :: ((Npos (Coq_xI (Coq_xI
    (Coq_xI (Coq_xI (Coq_xO (Coq_xI Coq_xH))))))) :: ((Npos (Coq_xI (Coq_xI
    (Coq_xI (Coq_xI (Coq_xO (Coq_xI Coq_xH))))))) :: ((Npos (Coq_xO (Coq_xO
    (Coq_xI (Coq_xI (Coq_xO (Coq_xI Coq_xH))))))) :: [])))), (TyPrim
    Bool)) :: [])))))))))))))

(** val suffix_table : (coq_N list * prim) list **)

let suffix_table =
  (((Npos (Coq_xI (Coq_xO (Coq_xO (Coq_xI (Coq_xO (Coq_xI
    Coq_xH))))))) :: ((Npos (Coq_xO (Coq_xO (Coq_xO (Coq_xI (Coq_xI
    Coq_xH)))))) :: [])), Int8) :: ((((Npos (Coq_xI (Coq_xO (Coq_xO (Coq_xI
    (Coq_xO (Coq_xI Coq_xH))))))) :: ((Npos (Coq_xI (Coq_xO (Coq_xO (Coq_xO
    (Coq_xI Coq_xH)))))) :: ((Npos (Coq_xO (Coq_xI (Coq_xI (Coq_xO (Coq_xI
    Coq_xH)))))) :: []))), Int16) :: ((((Npos (Coq_xI (Coq_xO (Coq_xO (Coq_xI
    (Coq_xO (Coq_xI Coq_xH))))))) :: ((Npos (Coq_xI (Coq_xI (Coq_xO (Coq_xO
    (Coq_xI Coq_xH)))))) :: ((Npos (Coq_xO (Coq_xI (Coq_xO (Coq_xO (Coq_xI
    Coq_xH)))))) :: []))), Int32) :: ((((Npos (Coq_xI (Coq_xO (Coq_xO (Coq_xI
    (Coq_xO (Coq_xI Coq_xH))))))) :: ((Npos (Coq_xO (Coq_xI (Coq_xI (Coq_xO
    (Coq_xI Coq_xH)))))) :: ((Npos (Coq_xO (Coq_xO (Coq_xI (Coq_xO (Coq_xI
    Coq_xH)))))) :: []))), Int64) :: ((((Npos (Coq_xI (Coq_xO (Coq_xO (Coq_xI
    (Coq_xO (Coq_xI Coq_xH))))))) :: ((Npos (Coq_xI (Coq_xO (Coq_xO (Coq_xO
    (Coq_xI Coq_xH)))))) :: ((Npos (Coq_xO (Coq_xI (Coq_xO (Coq_xO (Coq_xI
    Coq_xH)))))) :: ((Npos (Coq_xO (Coq_xO (Coq_xO (Coq_xI (Coq_xI
    Coq_xH)))))) :: [])))), Int128) :: ((((Npos (Coq_xI (Coq_xO (Coq_xI
    (Coq_xO (Coq_xI (Coq_xI Coq_xH))))))) :: ((Npos (Coq_xO (Coq_xO (Coq_xO
    (Coq_xI (Coq_xI Coq_xH)))))) :: [])), Uint8) :: ((((Npos (Coq_xI (Coq_xO
    (Coq_xI (Coq_xO (Coq_xI (Coq_xI Coq_xH))))))) :: ((Npos (Coq_xI (Coq_xO
    (Coq_xO (Coq_xO (Coq_xI Coq_xH)))))) :: ((Npos (Coq_xO (Coq_xI (Coq_xI
    (Coq_xO (Coq_xI Coq_xH)))))) :: []))), Uint16) :: ((((Npos (Coq_xI
    (Coq_xO (Coq_xI (Coq_xO (Coq_xI (Coq_xI Coq_xH))))))) :: ((Npos (Coq_xI
    (Coq_xI (Coq_xO (Coq_xO (Coq_xI Coq_xH)))))) :: ((Npos (Coq_xO (Coq_xI
    (Coq_xO (Coq_xO (Coq_xI Coq_xH)))))) :: []))), Uint32) :: ((((Npos
    (Coq_xI (Coq_xO (Coq_xI (Coq_xO (Coq_xI (Coq_xI Coq_xH))))))) :: ((Npos
    (Coq_xO (Coq_xI (Coq_xI (Coq_xO (Coq_xI Coq_xH)))))) :: ((Npos (Coq_xO
    (Coq_xO (Coq_xI (Coq_xO (Coq_xI Coq_xH)))))) :: []))),
    Uint64) :: ((((Npos (Coq_xI (Coq_xO (Coq_xI (Coq_xO (Coq_xI (Coq_xI
    Coq_xH))))))) :: ((Npos (Coq_xI (Coq_xO (Coq_xO (Coq_xO (Coq_xI
    Coq_xH)))))) :: ((Npos (Coq_xO (Coq_xI (Coq_xO (Coq_xO (Coq_xI
    Coq_xH)))))) :: ((Npos (Coq_xO (Coq_xO (Coq_xO (Coq_xI (Coq_xI
    Coq_xH)))))) :: [])))), Uint128) :: ((((Npos (Coq_xI (Coq_xO (Coq_xI
    (Coq_xO (Coq_xI (Coq_xI Coq_xH))))))) :: ((Npos (Coq_xI (Coq_xI (Coq_xO
    (Coq_xO (Coq_xI (Coq_xI Coq_xH))))))) :: ((Npos (Coq_xI (Coq_xO (Coq_xO
    (Coq_xI (Coq_xO (Coq_xI Coq_xH))))))) :: ((Npos (Coq_xO (Coq_xI (Coq_xO
    (Coq_xI (Coq_xI (Coq_xI Coq_xH))))))) :: ((Npos (Coq_xI (Coq_xO (Coq_xI
    (Coq_xO (Coq_xO (Coq_xI Coq_xH))))))) :: []))))), Usize) :: []))))))))))

(** val escape_table : (coq_N * coq_N) list **)

let escape_table =
  ((Npos (Coq_xO (Coq_xI (Coq_xI (Coq_xI (Coq_xO (Coq_xI Coq_xH))))))), (Npos
    (Coq_xO (Coq_xI (Coq_xO Coq_xH))))) :: (((Npos (Coq_xO (Coq_xI (Coq_xO
    (Coq_xO (Coq_xI (Coq_xI Coq_xH))))))), (Npos (Coq_xI (Coq_xO (Coq_xI
    Coq_xH))))) :: (((Npos (Coq_xO (Coq_xO (Coq_xI (Coq_xO (Coq_xI (Coq_xI
    Coq_xH))))))), (Npos (Coq_xI (Coq_xO (Coq_xO Coq_xH))))) :: (((Npos
    (Coq_xO (Coq_xO (Coq_xI (Coq_xI (Coq_xI (Coq_xO Coq_xH))))))), (Npos
    (Coq_xO (Coq_xO (Coq_xI (Coq_xI (Coq_xI (Coq_xO Coq_xH)))))))) :: (((Npos
    (Coq_xI (Coq_xI (Coq_xI (Coq_xO (Coq_xO Coq_xH)))))), (Npos (Coq_xI
    (Coq_xI (Coq_xI (Coq_xO (Coq_xO Coq_xH))))))) :: (((Npos (Coq_xO (Coq_xI
    (Coq_xO (Coq_xO (Coq_xO Coq_xH)))))), (Npos (Coq_xO (Coq_xI (Coq_xO
    (Coq_xO (Coq_xO Coq_xH))))))) :: (((Npos (Coq_xO (Coq_xO (Coq_xO (Coq_xO
    (Coq_xI Coq_xH)))))), N0) :: []))))))

(** val str_eqb : coq_N list -> coq_N list -> bool **)

let rec str_eqb a b =
  match a with
  | [] -> (match b with
           | [] -> true
           | _ :: _ -> false)
  | x :: a' ->
    (match b with
     | [] -> false
     | y :: b' -> (&&) (N.eqb x y) (str_eqb a' b'))

(** val assoc : coq_N list -> (coq_N list * 'a1) list -> 'a1 option **)

let rec assoc k = function
| [] -> None
| p :: t' -> let (k', v) = p in if str_eqb k k' then Some v else assoc k t'

(** val assoc_char : coq_N -> (coq_N * coq_N) list -> coq_N option **)

let rec assoc_char k = function
| [] -> None
| p :: t' -> let (k', v) = p in if N.eqb k k' then Some v else assoc_char k t'

(** val len : coq_N list -> coq_N **)

let len cs =
  N.of_nat (length cs)

(** val coq_U128_LIMIT : coq_Z **)

let coq_U128_LIMIT =
  Z.pow (Zpos (Coq_xO Coq_xH)) (Zpos (Coq_xO (Coq_xO (Coq_xO (Coq_xO (Coq_xO
    (Coq_xO (Coq_xO Coq_xH))))))))

(** val coq_U32_LIMIT : coq_Z **)

let coq_U32_LIMIT =
  Z.pow (Zpos (Coq_xO Coq_xH)) (Zpos (Coq_xO (Coq_xO (Coq_xO (Coq_xO (Coq_xO
    Coq_xH))))))

(** val parse_acc : coq_Z -> coq_Z -> coq_Z -> coq_N list -> coq_Z option **)

let rec parse_acc limit radix acc = function
| [] -> Some acc
| d :: r ->
  let m = Z.mul acc radix in
  if Z.leb limit m
  then None
  else let a = Z.add m (digit_val d) in
       if Z.leb limit a then None else parse_acc limit radix a r

(** val from_str_radix : coq_Z -> coq_Z -> coq_N list -> coq_Z option **)

let from_str_radix limit radix ds = match ds with
| [] -> None
| _ :: _ -> parse_acc limit radix Z0 ds

(** val parse_integer_suffix : coq_N list -> prim option **)

let parse_integer_suffix suffix =
  assoc suffix suffix_table

(** val take_ident : coq_N list -> coq_N list * coq_N list **)

let rec take_ident cs = match cs with
| [] -> ([], [])
| y :: r ->
  if is_ident_cont y
  then let (t, r') = take_ident r in ((y :: t), r')
  else ([], cs)

(** val take_digits :
    (coq_N -> bool) -> coq_N list -> (coq_N list * coq_N) * coq_N list **)

let rec take_digits isd cs = match cs with
| [] -> (([], N0), [])
| y :: r ->
  if isd y
  then let (p, r') = take_digits isd r in
       let (l, k) = p in (((y :: l), (N.add (Npos Coq_xH) k)), r')
  else if N.eqb y (Npos (Coq_xI (Coq_xI (Coq_xI (Coq_xI (Coq_xI (Coq_xO
            Coq_xH)))))))
       then let (p, r') = take_digits isd r in
            let (l, k) = p in ((l, (N.add (Npos Coq_xH) k)), r')
       else (([], N0), cs)

(** val take_uhex :
    coq_N list -> ((coq_N list * bool) * coq_N) * coq_N list **)

let rec take_uhex cs = match cs with
| [] -> ((([], false), N0), [])
| y :: r ->
  if is_hex y
  then let (p, r') = take_uhex r in
       let (p0, k) = p in
       let (l, c) = p0 in ((((y :: l), c), (N.add (Npos Coq_xH) k)), r')
  else if N.eqb y (Npos (Coq_xI (Coq_xO (Coq_xI (Coq_xI (Coq_xI (Coq_xI
            Coq_xH)))))))
       then ((([], true), (Npos Coq_xH)), r)
       else ((([], false), N0), cs)

type step =
| StEnd
| StSkip
| StTok of tkind * coq_Z * tykw option * coq_N list * coq_N * coq_N list
| StStrErr of coq_Z * coq_N * coq_N * coq_N * coq_N * coq_N * coq_N list

type payload = (tkind * coq_Z) * tykw option

(** val classify_word : coq_N list -> payload option **)

let classify_word w =
  match assoc w keyword_table with
  | Some k -> Some ((k, Z0), None)
  | None ->
    (match assoc w bool_table with
     | Some b -> Some ((KBool, b), None)
     | None ->
       (match assoc w type_table with
        | Some t -> Some ((KType, Z0), (Some t))
        | None -> None))

(** val lex_word : coq_N -> coq_N list -> step **)

let lex_word x rest =
  let (t, r) = take_ident rest in
  let n = N.add (Npos Coq_xH) (len t) in
  (match classify_word (x :: t) with
   | Some p ->
     let (p0, ty) = p in let (k, v) = p0 in StTok (k, v, ty, [], n, r)
   | None ->
     (match r with
      | [] -> StTok (KIdentifier, Z0, None, [], n, r)
      | y :: r' ->
        if N.eqb y (Npos (Coq_xI (Coq_xO (Coq_xO (Coq_xO (Coq_xO Coq_xH))))))
        then StTok (KBuiltin, Z0, None, [], (N.add n (Npos Coq_xH)), r')
        else StTok (KIdentifier, Z0, None, [], n, r)))

(** val is_nil : coq_N list -> bool **)

let is_nil = function
| [] -> true
| _ :: _ -> false

(** val finish_number :
    bool -> coq_Z option -> coq_N list -> coq_N list -> payload **)

let finish_number zero_arm value0 literal suffix =
  match value0 with
  | Some v ->
    if (&&) ((&&) ((&&) zero_arm (Z.eqb v Z0)) (is_nil literal))
         (is_nil suffix)
    then ((KNakedDecimal, Z0), None)
    else if is_nil suffix
         then (((if zero_arm then KBitInteger else KNakedDecimal), v), None)
         else (match parse_integer_suffix suffix with
               | Some p -> ((KSuffixedInteger, v), (Some (TyPrim p)))
               | None -> ((KError, coq_E141), None))
  | None -> ((KError, coq_E140), None)

(** val lex_radix :
    (coq_N -> bool) -> coq_Z -> coq_N -> coq_N list -> step **)

let lex_radix isd radix pc cs =
  let (p, r2) = take_digits isd cs in
  let (lit, k) = p in
  let (suf, r3) = take_ident r2 in
  (match from_str_radix coq_U128_LIMIT radix lit with
   | Some v ->
     let value0 = Some v in
     let (p0, ty) = finish_number true value0 lit suf in
     let (kd, v0) = p0 in
     StTok (kd, v0, ty, [],
     (N.add (N.add (Npos (Coq_xO Coq_xH)) k) (len suf)), r3)
   | None ->
     if is_nil lit
     then let value0 = Some Z0 in
          let suffix = pc :: suf in
          let (p0, ty) = finish_number true value0 lit suffix in
          let (kd, v) = p0 in
          StTok (kd, v, ty, [],
          (N.add (N.add (Npos (Coq_xO Coq_xH)) k) (len suf)), r3)
     else let value0 = None in
          let (p0, ty) = finish_number true value0 lit suf in
          let (kd, v) = p0 in
          StTok (kd, v, ty, [],
          (N.add (N.add (Npos (Coq_xO Coq_xH)) k) (len suf)), r3))

(** val lex_zero : coq_N list -> step **)

let lex_zero rest =
  let plain =
    let (suf, r) = take_ident rest in
    let (p, ty) = finish_number true (Some Z0) [] suf in
    let (kd, v) = p in
    StTok (kd, v, ty, [], (N.add (Npos Coq_xH) (len suf)), r)
  in
  (match rest with
   | [] -> plain
   | y :: r1 ->
     if N.eqb y (Npos (Coq_xO (Coq_xO (Coq_xO (Coq_xI (Coq_xI (Coq_xI
          Coq_xH)))))))
     then lex_radix is_hex (Zpos (Coq_xO (Coq_xO (Coq_xO (Coq_xO Coq_xH)))))
            (Npos (Coq_xO (Coq_xO (Coq_xO (Coq_xI (Coq_xI (Coq_xI
            Coq_xH))))))) r1
     else if N.eqb y (Npos (Coq_xO (Coq_xI (Coq_xO (Coq_xO (Coq_xO (Coq_xI
               Coq_xH)))))))
          then lex_radix is_bin (Zpos (Coq_xO Coq_xH)) (Npos (Coq_xO (Coq_xI
                 (Coq_xO (Coq_xO (Coq_xO (Coq_xI Coq_xH))))))) r1
          else plain)

(** val lex_decimal : coq_N -> coq_N list -> step **)

let lex_decimal x rest =
  let (p, r2) = take_digits is_dec rest in
  let (lit, k) = p in
  let (suf, r3) = take_ident r2 in
  let (p0, ty) =
    finish_number false
      (from_str_radix coq_U128_LIMIT (Zpos (Coq_xO (Coq_xI (Coq_xO Coq_xH))))
        (x :: lit)) (x :: lit) suf
  in
  let (kd, v) = p0 in
  StTok (kd, v, ty, [], (N.add (N.add (Npos Coq_xH) k) (len suf)), r3)

(** val utf8 : coq_N -> coq_N list **)

let utf8 c =
  if N.ltb c (Npos (Coq_xO (Coq_xO (Coq_xO (Coq_xO (Coq_xO (Coq_xO (Coq_xO
       Coq_xH))))))))
  then c :: []
  else if N.ltb c (Npos (Coq_xO (Coq_xO (Coq_xO (Coq_xO (Coq_xO (Coq_xO
            (Coq_xO (Coq_xO (Coq_xO (Coq_xO (Coq_xO Coq_xH))))))))))))
       then (N.add (Npos (Coq_xO (Coq_xO (Coq_xO (Coq_xO (Coq_xO (Coq_xO
              (Coq_xI Coq_xH))))))))
              (N.div c (Npos (Coq_xO (Coq_xO (Coq_xO (Coq_xO (Coq_xO (Coq_xO
                Coq_xH))))))))) :: ((N.add (Npos (Coq_xO (Coq_xO (Coq_xO
                                      (Coq_xO (Coq_xO (Coq_xO (Coq_xO
                                      Coq_xH))))))))
                                      (N.modulo c (Npos (Coq_xO (Coq_xO
                                        (Coq_xO (Coq_xO (Coq_xO (Coq_xO
                                        Coq_xH))))))))) :: [])
       else if N.ltb c (Npos (Coq_xO (Coq_xO (Coq_xO (Coq_xO (Coq_xO (Coq_xO
                 (Coq_xO (Coq_xO (Coq_xO (Coq_xO (Coq_xO (Coq_xO (Coq_xO
                 (Coq_xO (Coq_xO (Coq_xO Coq_xH)))))))))))))))))
            then (N.add (Npos (Coq_xO (Coq_xO (Coq_xO (Coq_xO (Coq_xO (Coq_xI
                   (Coq_xI Coq_xH))))))))
                   (N.div c (Npos (Coq_xO (Coq_xO (Coq_xO (Coq_xO (Coq_xO
                     (Coq_xO (Coq_xO (Coq_xO (Coq_xO (Coq_xO (Coq_xO (Coq_xO
                     Coq_xH))))))))))))))) :: ((N.add (Npos (Coq_xO (Coq_xO
                                                 (Coq_xO (Coq_xO (Coq_xO
                                                 (Coq_xO (Coq_xO
                                                 Coq_xH))))))))
                                                 (N.modulo
                                                   (N.div c (Npos (Coq_xO
                                                     (Coq_xO (Coq_xO (Coq_xO
                                                     (Coq_xO (Coq_xO
                                                     Coq_xH)))))))) (Npos
                                                   (Coq_xO (Coq_xO (Coq_xO
                                                   (Coq_xO (Coq_xO (Coq_xO
                                                   Coq_xH))))))))) :: (
                   (N.add (Npos (Coq_xO (Coq_xO (Coq_xO (Coq_xO (Coq_xO
                     (Coq_xO (Coq_xO Coq_xH))))))))
                     (N.modulo c (Npos (Coq_xO (Coq_xO (Coq_xO (Coq_xO
                       (Coq_xO (Coq_xO Coq_xH))))))))) :: []))
            else (N.add (Npos (Coq_xO (Coq_xO (Coq_xO (Coq_xO (Coq_xI (Coq_xI
                   (Coq_xI Coq_xH))))))))
                   (N.div c (Npos (Coq_xO (Coq_xO (Coq_xO (Coq_xO (Coq_xO
                     (Coq_xO (Coq_xO (Coq_xO (Coq_xO (Coq_xO (Coq_xO (Coq_xO
                     (Coq_xO (Coq_xO (Coq_xO (Coq_xO (Coq_xO (Coq_xO
                     Coq_xH))))))))))))))))))))) :: ((N.add (Npos (Coq_xO
                                                       (Coq_xO (Coq_xO
                                                       (Coq_xO (Coq_xO
                                                       (Coq_xO (Coq_xO
                                                       Coq_xH))))))))
                                                       (N.modulo
                                                         (N.div c (Npos
                                                           (Coq_xO (Coq_xO
                                                           (Coq_xO (Coq_xO
                                                           (Coq_xO (Coq_xO
                                                           (Coq_xO (Coq_xO
                                                           (Coq_xO (Coq_xO
                                                           (Coq_xO (Coq_xO
                                                           Coq_xH))))))))))))))
                                                         (Npos (Coq_xO
                                                         (Coq_xO (Coq_xO
                                                         (Coq_xO (Coq_xO
                                                         (Coq_xO
                                                         Coq_xH))))))))) :: (
                   (N.add (Npos (Coq_xO (Coq_xO (Coq_xO (Coq_xO (Coq_xO
                     (Coq_xO (Coq_xO Coq_xH))))))))
                     (N.modulo
                       (N.div c (Npos (Coq_xO (Coq_xO (Coq_xO (Coq_xO (Coq_xO
                         (Coq_xO Coq_xH)))))))) (Npos (Coq_xO (Coq_xO (Coq_xO
                       (Coq_xO (Coq_xO (Coq_xO Coq_xH))))))))) :: ((N.add
                                                                    (Npos
                                                                    (Coq_xO
                                                                    (Coq_xO
                                                                    (Coq_xO
                                                                    (Coq_xO
                                                                    (Coq_xO
                                                                    (Coq_xO
                                                                    (Coq_xO
                                                                    Coq_xH))))))))
                                                                    (N.modulo
                                                                    c (Npos
                                                                    (Coq_xO
                                                                    (Coq_xO
                                                                    (Coq_xO
                                                                    (Coq_xO
                                                                    (Coq_xO
                                                                    (Coq_xO
                                                                    Coq_xH))))))))) :: [])))

(** val is_scalar : coq_Z -> bool **)

let is_scalar v =
  (||)
    (Z.ltb v (Zpos (Coq_xO (Coq_xO (Coq_xO (Coq_xO (Coq_xO (Coq_xO (Coq_xO
      (Coq_xO (Coq_xO (Coq_xO (Coq_xO (Coq_xI (Coq_xI (Coq_xO (Coq_xI
      Coq_xH)))))))))))))))))
    ((&&)
      (Z.leb (Zpos (Coq_xO (Coq_xO (Coq_xO (Coq_xO (Coq_xO (Coq_xO (Coq_xO
        (Coq_xO (Coq_xO (Coq_xO (Coq_xO (Coq_xO (Coq_xO (Coq_xI (Coq_xI
        Coq_xH)))))))))))))))) v)
      (Z.ltb v (Zpos (Coq_xO (Coq_xO (Coq_xO (Coq_xO (Coq_xO (Coq_xO (Coq_xO
        (Coq_xO (Coq_xO (Coq_xO (Coq_xO (Coq_xO (Coq_xO (Coq_xO (Coq_xO
        (Coq_xO (Coq_xI (Coq_xO (Coq_xO (Coq_xO Coq_xH)))))))))))))))))))))))

(** val parse_unicode : coq_N list -> coq_N option **)

let parse_unicode lit =
  match from_str_radix coq_U32_LIMIT (Zpos (Coq_xO (Coq_xO (Coq_xO (Coq_xO
          Coq_xH))))) lit with
  | Some v -> if is_scalar v then Some (Z.to_N v) else None
  | None -> None

(** val esc_step :
    coq_N list -> (((coq_N list * coq_Z option) * coq_N) * coq_N) * coq_N list **)

let esc_step = function
| [] -> (((([], (Some coq_E161)), (Npos (Coq_xO Coq_xH))), N0), [])
| c :: r ->
  (match assoc_char c escape_table with
   | Some b ->
     (((((b :: []), None), (Npos (Coq_xO Coq_xH))), (Npos Coq_xH)), r)
   | None ->
     if N.eqb c (Npos (Coq_xO (Coq_xO (Coq_xO (Coq_xI (Coq_xI (Coq_xI
          Coq_xH)))))))
     then (match r with
           | [] ->
             (((([], (Some coq_E162)), (Npos (Coq_xO Coq_xH))), (Npos
               Coq_xH)), r)
           | d1 :: r1 ->
             if is_hex d1
             then (match r1 with
                   | [] ->
                     (((([], (Some coq_E162)), (Npos (Coq_xI Coq_xH))), (Npos
                       (Coq_xO Coq_xH))), r1)
                   | d2 :: r2 ->
                     if is_hex d2
                     then ((((((Z.to_N
                                 (Z.add
                                   (Z.mul (digit_val d1) (Zpos (Coq_xO
                                     (Coq_xO (Coq_xO (Coq_xO Coq_xH))))))
                                   (digit_val d2))) :: []), None), (Npos
                            (Coq_xO (Coq_xO Coq_xH)))), (Npos (Coq_xI
                            Coq_xH))), r2)
                     else (((([], (Some coq_E162)), (Npos (Coq_xI Coq_xH))),
                            (Npos (Coq_xO Coq_xH))), r1))
             else (((([], (Some coq_E162)), (Npos (Coq_xO Coq_xH))), (Npos
                    Coq_xH)), r))
     else if N.eqb c (Npos (Coq_xI (Coq_xO (Coq_xI (Coq_xO (Coq_xI (Coq_xI
               Coq_xH)))))))
          then (match r with
                | [] ->
                  (((([], (Some coq_E162)), (Npos (Coq_xO Coq_xH))), (Npos
                    Coq_xH)), r)
                | o :: r1 ->
                  if N.eqb o (Npos (Coq_xI (Coq_xI (Coq_xO (Coq_xI (Coq_xI
                       (Coq_xI Coq_xH)))))))
                  then let (p, r2) = take_uhex r1 in
                       let (p0, k) = p in
                       let (lit, closed) = p0 in
                       (match parse_unicode (if closed then lit else []) with
                        | Some u ->
                          (((((utf8 u), None),
                            (N.add (Npos (Coq_xI Coq_xH)) k)),
                            (N.add (Npos (Coq_xO Coq_xH)) k)), r2)
                        | None ->
                          (((([], (Some coq_E162)),
                            (N.add (Npos (Coq_xI Coq_xH)) k)),
                            (N.add (Npos (Coq_xO Coq_xH)) k)), r2))
                  else (((([], (Some coq_E162)), (Npos (Coq_xO Coq_xH))),
                         (Npos Coq_xH)), r))
          else (((([], (Some coq_E162)), (Npos (Coq_xO Coq_xH))), (Npos
                 Coq_xH)), r))

type strerr = ((coq_Z * coq_N) * coq_N) * coq_N

type strres = { sr_bytes : coq_N list; sr_closed : bool;
                sr_err : strerr option; sr_soe : coq_N; sr_eolo : coq_N;
                sr_chars : coq_N; sr_rest : coq_N list }

(** val coq_OOF : coq_Z **)

let coq_OOF =
  Zneg Coq_xH

(** val sr_cons : coq_N list -> strerr option -> coq_N -> strres -> strres **)

let sr_cons bs er k res =
  { sr_bytes = (app bs res.sr_bytes); sr_closed = res.sr_closed; sr_err =
    (match er with
     | Some e -> Some e
     | None -> res.sr_err); sr_soe = res.sr_soe; sr_eolo = res.sr_eolo;
    sr_chars = (N.add k res.sr_chars); sr_rest = res.sr_rest }

(** val str_loop : nat -> coq_N -> coq_N -> coq_N -> coq_N list -> strres **)

let rec str_loop fuel q p e cs = match cs with
| [] ->
  { sr_bytes = []; sr_closed = false; sr_err = None; sr_soe = p; sr_eolo = e;
    sr_chars = N0; sr_rest = [] }
| x :: r ->
  (match fuel with
   | O ->
     { sr_bytes = []; sr_closed = false; sr_err = (Some (((coq_OOF, p), p),
       e)); sr_soe = p; sr_eolo = e; sr_chars = N0; sr_rest = cs }
   | S f ->
     if N.eqb x (Npos (Coq_xO (Coq_xO (Coq_xI (Coq_xI (Coq_xI (Coq_xO
          Coq_xH)))))))
     then let (p0, r') = esc_step r in
          let (p1, m) = p0 in
          let (p2, adv) = p1 in
          let (bs, er) = p2 in
          sr_cons bs
            (match er with
             | Some c ->
               Some (((c, p), (N.add p adv)), (N.add p (Npos Coq_xH)))
             | None -> None) (N.add (Npos Coq_xH) m)
            (str_loop f q (N.add p adv) (N.add p (Npos Coq_xH)) r')
     else if N.eqb x q
          then { sr_bytes = []; sr_closed = true; sr_err = None; sr_soe =
                 (N.add p (Npos Coq_xH)); sr_eolo = (N.add p (Npos Coq_xH));
                 sr_chars = (Npos Coq_xH); sr_rest = r }
          else if N.eqb x (Npos (Coq_xO (Coq_xO (Coq_xO (Coq_xO (Coq_xO
                    Coq_xH))))))
               then sr_cons ((Npos (Coq_xO (Coq_xO (Coq_xO (Coq_xO (Coq_xO
                      Coq_xH)))))) :: []) None (Npos Coq_xH)
                      (str_loop f q (N.add p (Npos Coq_xH))
                        (N.add p (Npos Coq_xH)) r)
               else if is_ascii_graphic x
                    then sr_cons (x :: []) None (Npos Coq_xH)
                           (str_loop f q (N.add p (Npos Coq_xH))
                             (N.add p (Npos Coq_xH)) r)
                    else if is_ascii x
                         then sr_cons [] (Some (((coq_E110, p),
                                (N.add p (Npos Coq_xH))),
                                (N.add p (Npos Coq_xH)))) (Npos Coq_xH)
                                (str_loop f q (N.add p (Npos Coq_xH))
                                  (N.add p (Npos Coq_xH)) r)
                         else sr_cons (utf8 x) None (Npos Coq_xH)
                                (str_loop f q (N.add p (Npos Coq_xH))
                                  (N.add p (Npos Coq_xH)) r))

(** val lex_quote : coq_N -> coq_N list -> step **)

let lex_quote q rest =
  let res = str_loop (length rest) q (Npos Coq_xH) (Npos Coq_xH) rest in
  let first_error =
    match res.sr_err with
    | Some e -> Some e
    | None ->
      if res.sr_closed
      then None
      else Some (((coq_E160, N0), res.sr_soe), res.sr_eolo)
  in
  (match first_error with
   | Some s ->
     let (p, eo) = s in
     let (p0, ee) = p in
     let (c, es) = p0 in
     StStrErr (c, es, ee, eo, res.sr_soe, (N.add (Npos Coq_xH) res.sr_chars),
     res.sr_rest)
   | None ->
     if N.eqb q (Npos (Coq_xO (Coq_xI (Coq_xO (Coq_xO (Coq_xO Coq_xH))))))
     then StTok (KStringLiteral, Z0, None, res.sr_bytes, res.sr_soe,
            res.sr_rest)
     else (match res.sr_bytes with
           | [] -> StTok (KError, coq_E163, None, [], res.sr_soe, res.sr_rest)
           | b :: l ->
             (match l with
              | [] ->
                StTok (KCharLiteral, (Z.of_N b), None, [], res.sr_soe,
                  res.sr_rest)
              | _ :: _ ->
                StTok (KError, coq_E163, None, [], res.sr_soe, res.sr_rest))))

(** val single : tkind -> coq_N list -> step **)

let single k rest =
  StTok (k, Z0, None, [], (Npos Coq_xH), rest)

(** val double : coq_N -> tkind -> tkind -> coq_N list -> step **)

let double y k2 k1 rest = match rest with
| [] -> single k1 rest
| z :: r ->
  if N.eqb z y
  then StTok (k2, Z0, None, [], (Npos (Coq_xO Coq_xH)), r)
  else single k1 rest

(** val lex_step : coq_N -> coq_N list -> step **)

let lex_step x rest =
  if N.eqb x (Npos (Coq_xO (Coq_xO (Coq_xO (Coq_xI (Coq_xO Coq_xH))))))
  then single KParenLeft rest
  else if N.eqb x (Npos (Coq_xI (Coq_xO (Coq_xO (Coq_xI (Coq_xO Coq_xH))))))
       then single KParenRight rest
       else if N.eqb x (Npos (Coq_xI (Coq_xI (Coq_xO (Coq_xI (Coq_xI (Coq_xI
                 Coq_xH)))))))
            then single KBraceLeft rest
            else if N.eqb x (Npos (Coq_xI (Coq_xO (Coq_xI (Coq_xI (Coq_xI
                      (Coq_xI Coq_xH)))))))
                 then single KBraceRight rest
                 else if N.eqb x (Npos (Coq_xI (Coq_xI (Coq_xO (Coq_xI
                           (Coq_xI (Coq_xO Coq_xH)))))))
                      then single KBracketLeft rest
                      else if N.eqb x (Npos (Coq_xI (Coq_xO (Coq_xI (Coq_xI
                                (Coq_xI (Coq_xO Coq_xH)))))))
                           then single KBracketRight rest
                           else if N.eqb x (Npos (Coq_xO (Coq_xO (Coq_xI
                                     (Coq_xI (Coq_xI Coq_xH))))))
                                then (match rest with
                                      | [] -> single KAngleLeft rest
                                      | z :: r ->
                                        if N.eqb z (Npos (Coq_xO (Coq_xO
                                             (Coq_xI (Coq_xI (Coq_xI
                                             Coq_xH))))))
                                        then StTok (KShiftLeft, Z0, None, [],
                                               (Npos (Coq_xO Coq_xH)), r)
                                        else if N.eqb z (Npos (Coq_xI (Coq_xO
                                                  (Coq_xI (Coq_xI (Coq_xI
                                                  Coq_xH))))))
                                             then StTok (KIsLE, Z0, None, [],
                                                    (Npos (Coq_xO Coq_xH)), r)
                                             else single KAngleLeft rest)
                                else if N.eqb x (Npos (Coq_xO (Coq_xI (Coq_xI
                                          (Coq_xI (Coq_xI Coq_xH))))))
                                     then (match rest with
                                           | [] -> single KAngleRight rest
                                           | z :: r ->
                                             if N.eqb z (Npos (Coq_xO (Coq_xI
                                                  (Coq_xI (Coq_xI (Coq_xI
                                                  Coq_xH))))))
                                             then StTok (KShiftRight, Z0,
                                                    None, [], (Npos (Coq_xO
                                                    Coq_xH)), r)
                                             else if N.eqb z (Npos (Coq_xI
                                                       (Coq_xO (Coq_xI
                                                       (Coq_xI (Coq_xI
                                                       Coq_xH))))))
                                                  then StTok (KIsGE, Z0,
                                                         None, [], (Npos
                                                         (Coq_xO Coq_xH)), r)
                                                  else single KAngleRight rest)
                                     else if N.eqb x (Npos (Coq_xO (Coq_xO
                                               (Coq_xI (Coq_xI (Coq_xI
                                               (Coq_xI Coq_xH)))))))
                                          then double (Npos (Coq_xO (Coq_xI
                                                 (Coq_xO (Coq_xI (Coq_xI
                                                 Coq_xH)))))) KPipeForType
                                                 KPipe rest
                                          else if N.eqb x (Npos (Coq_xO
                                                    (Coq_xI (Coq_xI (Coq_xO
                                                    (Coq_xO Coq_xH))))))
                                               then single KAmpersand rest
                                               else if N.eqb x (Npos (Coq_xO
                                                         (Coq_xI (Coq_xI
                                                         (Coq_xI (Coq_xI
                                                         (Coq_xO Coq_xH)))))))
                                                    then single KCaret rest
                                                    else if N.eqb x (Npos
                                                              (Coq_xI (Coq_xO
                                                              (Coq_xO (Coq_xO
                                                              (Coq_xO
                                                              Coq_xH))))))
                                                         then double (Npos
                                                                (Coq_xI
                                                                (Coq_xO
                                                                (Coq_xI
                                                                (Coq_xI
                                                                (Coq_xI
                                                                Coq_xH))))))
                                                                KDoesNotEqual
                                                                KExclamation
                                                                rest
                                                         else if N.eqb x
                                                                   (Npos
                                                                   (Coq_xI
                                                                   (Coq_xI
                                                                   (Coq_xO
                                                                   (Coq_xI
                                                                   (Coq_xO
                                                                   Coq_xH))))))
                                                              then single
                                                                    KPlus rest
                                                              else if 
                                                                    N.eqb x
                                                                    (Npos
                                                                    (Coq_xO
                                                                    (Coq_xI
                                                                    (Coq_xO
                                                                    (Coq_xI
                                                                    (Coq_xO
                                                                    Coq_xH))))))
                                                                   then 
                                                                    single
                                                                    KTimes
                                                                    rest
                                                                   else 
                                                                    if 
                                                                    N.eqb x
                                                                    (Npos
                                                                    (Coq_xI
                                                                    (Coq_xO
                                                                    (Coq_xI
                                                                    (Coq_xO
                                                                    (Coq_xO
                                                                    Coq_xH))))))
                                                                    then 
                                                                    single
                                                                    KModulo
                                                                    rest
                                                                    else 
                                                                    if 
                                                                    N.eqb x
                                                                    (Npos
                                                                    (Coq_xO
                                                                    (Coq_xI
                                                                    (Coq_xO
                                                                    (Coq_xI
                                                                    (Coq_xI
                                                                    Coq_xH))))))
                                                                    then 
                                                                    single
                                                                    KColon
                                                                    rest
                                                                    else 
                                                                    if 
                                                                    N.eqb x
                                                                    (Npos
                                                                    (Coq_xI
                                                                    (Coq_xI
                                                                    (Coq_xO
                                                                    (Coq_xI
                                                                    (Coq_xI
                                                                    Coq_xH))))))
                                                                    then 
                                                                    single
                                                                    KSemicolon
                                                                    rest
                                                                    else 
                                                                    if 
                                                                    N.eqb x
                                                                    (Npos
                                                                    (Coq_xO
                                                                    (Coq_xI
                                                                    (Coq_xI
                                                                    (Coq_xI
                                                                    (Coq_xO
                                                                    Coq_xH))))))
                                                                    then 
                                                                    double
                                                                    (Npos
                                                                    (Coq_xO
                                                                    (Coq_xI
                                                                    (Coq_xI
                                                                    (Coq_xI
                                                                    (Coq_xO
                                                                    Coq_xH))))))
                                                                    KDots
                                                                    KDot rest
                                                                    else 
                                                                    if 
                                                                    N.eqb x
                                                                    (Npos
                                                                    (Coq_xO
                                                                    (Coq_xO
                                                                    (Coq_xI
                                                                    (Coq_xI
                                                                    (Coq_xO
                                                                    Coq_xH))))))
                                                                    then 
                                                                    single
                                                                    KComma
                                                                    rest
                                                                    else 
                                                                    if 
                                                                    N.eqb x
                                                                    (Npos
                                                                    (Coq_xI
                                                                    (Coq_xO
                                                                    (Coq_xI
                                                                    (Coq_xI
                                                                    (Coq_xI
                                                                    Coq_xH))))))
                                                                    then 
                                                                    double
                                                                    (Npos
                                                                    (Coq_xI
                                                                    (Coq_xO
                                                                    (Coq_xI
                                                                    (Coq_xI
                                                                    (Coq_xI
                                                                    Coq_xH))))))
                                                                    KEquals
                                                                    KAssignment
                                                                    rest
                                                                    else 
                                                                    if 
                                                                    N.eqb x
                                                                    (Npos
                                                                    (Coq_xI
                                                                    (Coq_xO
                                                                    (Coq_xI
                                                                    (Coq_xI
                                                                    (Coq_xO
                                                                    Coq_xH))))))
                                                                    then 
                                                                    double
                                                                    (Npos
                                                                    (Coq_xO
                                                                    (Coq_xI
                                                                    (Coq_xI
                                                                    (Coq_xI
                                                                    (Coq_xI
                                                                    Coq_xH))))))
                                                                    KArrow
                                                                    KMinus
                                                                    rest
                                                                    else 
                                                                    if 
                                                                    N.eqb x
                                                                    (Npos
                                                                    (Coq_xI
                                                                    (Coq_xI
                                                                    (Coq_xI
                                                                    (Coq_xI
                                                                    (Coq_xO
                                                                    Coq_xH))))))
                                                                    then 
                                                                    (match rest with
                                                                    | [] ->
                                                                    single
                                                                    KDivide
                                                                    rest
                                                                    | z :: _ ->
                                                                    if 
                                                                    N.eqb z
                                                                    (Npos
                                                                    (Coq_xI
                                                                    (Coq_xI
                                                                    (Coq_xI
                                                                    (Coq_xI
                                                                    (Coq_xO
                                                                    Coq_xH))))))
                                                                    then StEnd
                                                                    else 
                                                                    single
                                                                    KDivide
                                                                    rest)
                                                                    else 
                                                                    if 
                                                                    is_ident_start
                                                                    x
                                                                    then 
                                                                    lex_word
                                                                    x rest
                                                                    else 
                                                                    if 
                                                                    N.eqb x
                                                                    (Npos
                                                                    (Coq_xO
                                                                    (Coq_xO
                                                                    (Coq_xO
                                                                    (Coq_xO
                                                                    (Coq_xI
                                                                    Coq_xH))))))
                                                                    then 
                                                                    lex_zero
                                                                    rest
                                                                    else 
                                                                    if 
                                                                    is_nonzero_dec
                                                                    x
                                                                    then 
                                                                    lex_decimal
                                                                    x rest
                                                                    else 
                                                                    if 
                                                                    (||)
                                                                    (N.eqb x
                                                                    (Npos
                                                                    (Coq_xO
                                                                    (Coq_xI
                                                                    (Coq_xO
                                                                    (Coq_xO
                                                                    (Coq_xO
                                                                    Coq_xH)))))))
                                                                    (N.eqb x
                                                                    (Npos
                                                                    (Coq_xI
                                                                    (Coq_xI
                                                                    (Coq_xI
                                                                    (Coq_xO
                                                                    (Coq_xO
                                                                    Coq_xH)))))))
                                                                    then 
                                                                    lex_quote
                                                                    x rest
                                                                    else 
                                                                    if 
                                                                    (||)
                                                                    (N.eqb x
                                                                    (Npos
                                                                    (Coq_xO
                                                                    (Coq_xO
                                                                    (Coq_xO
                                                                    (Coq_xO
                                                                    (Coq_xO
                                                                    Coq_xH)))))))
                                                                    (N.eqb x
                                                                    (Npos
                                                                    (Coq_xI
                                                                    (Coq_xO
                                                                    (Coq_xO
                                                                    Coq_xH)))))
                                                                    then 
                                                                    StSkip
                                                                    else 
                                                                    StTok
                                                                    (KError,
                                                                    coq_E110,
                                                                    None, [],
                                                                    (Npos
                                                                    Coq_xH),
                                                                    rest)

(** val mk :
    tkind -> coq_Z -> tykw option -> coq_N list -> coq_N -> coq_N -> coq_N ->
    coq_N -> tok **)

let mk k v ty bs s e ln lo =
  { kind = k; value = v; vtype = ty; bytes = bs; tstart = s; tend = e; line =
    ln; lstart = lo }

(** val lex_line_fuel :
    nat -> coq_N -> coq_N -> coq_N -> coq_N list -> tok list **)

let rec lex_line_fuel fuel ln sos lo = function
| [] -> []
| x :: rest ->
  (match fuel with
   | O -> (mk KError coq_OOF None [] sos sos ln lo) :: []
   | S f ->
     (match lex_step x rest with
      | StEnd -> []
      | StSkip ->
        lex_line_fuel f ln (N.add sos (Npos Coq_xH)) (N.add lo (Npos Coq_xH))
          rest
      | StTok (k, v, ty, bs, n, rest') ->
        (mk k v ty bs sos (N.add sos n) ln lo) :: (lex_line_fuel f ln
                                                    (N.add sos n)
                                                    (N.add lo n) rest')
      | StStrErr (c, es, ee, eo, n, m, rest') ->
        (mk KError c None [] (N.add sos es) (N.add sos ee) ln (N.add lo eo)) :: 
          (lex_line_fuel f ln (N.add sos n) (N.add lo m) rest')))

(** val lex_line : coq_N list -> coq_N -> coq_N -> tok list **)

let lex_line cs offset ln =
  lex_line_fuel (length cs) ln offset N0 cs

(** val lines_of : coq_N list -> coq_N list list **)

let rec lines_of = function
| [] -> []
| c :: r ->
  if N.eqb c (Npos (Coq_xO (Coq_xI (Coq_xO Coq_xH))))
  then [] :: (lines_of r)
  else if (&&) (N.eqb c (Npos (Coq_xI (Coq_xO (Coq_xI Coq_xH)))))
            (match r with
             | [] -> false
             | n :: _ -> N.eqb n (Npos (Coq_xO (Coq_xI (Coq_xO Coq_xH)))))
       then lines_of r
       else (match lines_of r with
             | [] -> (c :: []) :: []
             | l :: ls -> (c :: l) :: ls)

(** val lex_lines : coq_N list list -> coq_N -> coq_N -> tok list **)

let rec lex_lines ls offset i =
  match ls with
  | [] -> []
  | l :: r ->
    app (lex_line l offset (N.add (Npos Coq_xH) i))
      (lex_lines r (N.add offset (N.add (len l) (Npos Coq_xH)))
        (N.add i (Npos Coq_xH)))

(** val zero_byte_tok : tok **)

let zero_byte_tok =
  mk KError coq_E101 None [] N0 N0 (Npos Coq_xH) (Npos Coq_xH)

(** val lex_alpha : coq_N list -> tok list **)

let lex_alpha src =
  app (lex_lines (lines_of src) N0 N0)
    (if is_nil src then zero_byte_tok :: [] else [])

(** val lines_term : coq_N list -> (coq_N list * coq_N) list **)

let rec lines_term = function
| [] -> []
| c :: r ->
  if N.eqb c (Npos (Coq_xO (Coq_xI (Coq_xO Coq_xH))))
  then ([], (Npos Coq_xH)) :: (lines_term r)
  else if (&&) (N.eqb c (Npos (Coq_xI (Coq_xO (Coq_xI Coq_xH)))))
            (match r with
             | [] -> false
             | n :: _ -> N.eqb n (Npos (Coq_xO (Coq_xI (Coq_xO Coq_xH)))))
       then (match lines_term r with
             | [] -> []
             | p :: ls -> let (l, t) = p in (l, (N.add (Npos Coq_xH) t)) :: ls)
       else (match lines_term r with
             | [] -> ((c :: []), N0) :: []
             | p :: ls -> let (l, t) = p in ((c :: l), t) :: ls)

(** val lex_lines_fixed :
    (coq_N list * coq_N) list -> coq_N -> coq_N -> tok list **)

let rec lex_lines_fixed ls offset i =
  match ls with
  | [] -> []
  | p :: r ->
    let (l, term) = p in
    app (lex_line l offset (N.add (Npos Coq_xH) i))
      (lex_lines_fixed r (N.add (N.add offset (len l)) term)
        (N.add i (Npos Coq_xH)))

(** val lex_alpha_fixed : coq_N list -> tok list **)

let lex_alpha_fixed src =
  app (lex_lines_fixed (lines_term src) N0 N0)
    (if is_nil src then zero_byte_tok :: [] else [])
