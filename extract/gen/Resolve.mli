open BinNat
open BinNums
open Common
open Datatypes
open IR
open List
open PeanoNat
open ResolverTables
open TypeTables

val coq_E510 : code

val coq_E511 : code

val coq_E512 : code

val coq_E513 : code

val coq_E550 : code

val coq_E551 : code

val coq_E552 : code

val coq_E553 : code

val coq_E580 : code

val coq_E582 : code

val coq_E583 : code

type vtype =
| VPrim of prim
| VPointer of coq_N
| VOther of coq_N

val vtype_eqb : vtype -> vtype -> bool

val is_pointer : vtype -> bool

type poison =
| Poisoned
| PError of code

val poison_codes : poison -> code list

type 'a result =
| ROk of 'a
| RPoison of poison

type ann = vtype result option

type leafkind =
| LInteger
| LArrayLit
| LDeref
| LOther

val ambiguity_code : leafkind -> code

type texpr =
| TLeaf of leafkind * ann
| TPoison of poison
| TBinary of binop * texpr * texpr
| TUnary of unop * texpr
| TParen of texpr
| TAutocoerce of texpr * vtype
| TTypeCast of texpr * vtype
| TBitCast of texpr * ann
| TCall of coq_N * texpr list * ann

type tcmp =
| TCmp of cmpop * texpr * texpr

val value_type : texpr -> ann

type 'a res =
| Ok of 'a
| Err of code list

val bind : 'a1 res -> ('a1 -> 'a2 res) -> 'a2 res

val combine2 : 'a1 res -> 'a2 res -> ('a1 * 'a2) res

val of_ann : code -> ann -> vtype res

val get_type_of_operand : texpr -> vtype res

val match_type_of_operands : texpr -> texpr -> vtype res

val valid_operand : vtype -> operand_type list -> bool

val analyze_operand_type : vtype -> operand_type list -> vtype res

val is_advance : binop -> bool

val resolve_binary_op_type : binop -> texpr -> texpr -> vtype res

val resolve_unary_op_type : unop -> texpr -> vtype res

val resolve_compared_type : cmpop -> texpr -> texpr -> vtype res

val is_valid_bit_cast : vtype -> vtype -> bool

val prim_conversion : vtype -> vtype -> bool

val analyze_bit_cast : texpr -> ann -> vtype res

val analyze_primitive_cast : texpr -> vtype -> vtype option res

type rexpr =
| RLeaf of vtype
| RBinary of binop * rexpr * rexpr * vtype
| RUnary of unop * rexpr * vtype
| RParen of rexpr
| RAutocoerce of rexpr * vtype
| RPrimCast of rexpr * vtype * vtype
| RBitCast of rexpr * vtype
| RCall of coq_N * rexpr list * vtype

type rcmp =
| RCmp of cmpop * rexpr * rexpr * vtype

val resolve_list : (texpr -> rexpr res) -> texpr list -> rexpr list res

val resolve_expr : texpr -> rexpr res

val resolve_cmp : tcmp -> rcmp res

type param = { p_named : bool; p_type : vtype result }

type arg = { a_deref : bool; a_type : ann }

val check_args :
  (vtype -> vtype -> bool) -> param list -> arg list -> code list

val check_call_gen :
  (vtype -> vtype -> bool) -> param list -> arg list -> code list

val check_call : vtype list -> vtype list -> code list
