open BinInt
open BinNat
open BinNums
open Common
open Datatypes
open Limits
open List
open Nat
open TypeLegal

type vt = vty

val coq_E538 : code

val prim_tag : prim -> coq_N

val prim_eqb : prim -> prim -> bool

val oname_eqb : name option -> name option -> bool

val vt_eqb : vt -> vt -> bool

val is_alias_of : vt -> vt -> bool

val equals : vt -> vt -> bool

val is_like : vt -> vt -> bool

val can_be_declared_as : vt -> vt -> bool

val can_be_concretization_of : vt -> vt -> bool

val can_coerce_into : vt -> vt -> bool

val can_coerce_address_into : vt -> vt -> bool

val get_element_type : vt -> vt option

val get_pointee_type : vt -> vt option

val get_viewee_type : vt -> vt option

val fully_dereferenced : vt -> vt

val add_pointer_depth : vt -> coq_N -> coq_N

val pointer_depth : vt -> coq_N

val is_slice_pointer : vt -> bool

val map_or_false : vt option -> (vt -> bool) -> bool

val can_subautoderef_into : vt -> vt -> bool

val can_autoderef_into : vt -> vt -> bool

type astep =
| AElement of bool option
| AMember of coq_N

type tstep =
| TElement of bool option
| TMember of coq_N
| TAutoderef
| TAutoview
| TAutodesliceByView
| TAutodesliceByPointer

val max_num_autoderef_steps : nat

type loop_result =
| LoopDone of tstep list * vt * astep list
| LoopPanic of coq_N

val loop_cons : tstep list -> loop_result -> loop_result

val autoderef_loop :
  (coq_N -> vt option) -> nat -> vt -> astep list -> loop_result

type ad_result =
| ADOk of tstep list * bool * vt * vt option
| ADError of code
| ADPanic of coq_N

val opt_vt_eqb : vt option -> vt -> bool

val wrap_pointers : nat -> vt -> vt

val address_arm_cond : bool -> coq_N -> vt -> bool

val autoderef_finish_gen :
  bool -> tstep list -> vt -> vt -> coq_N -> ad_result

val autoderef_finish : tstep list -> vt -> vt -> coq_N -> ad_result

val autoderef :
  (coq_N -> vt option) -> vt -> vt -> astep list -> coq_N -> ad_result

val ref_final : (coq_N -> vt option) -> vt -> astep list -> vt option

val add_addresses : vt -> coq_N -> vt

val view_endless : vt -> vt

val type_of_reference :
  (coq_N -> vt option) -> vt -> astep list -> coq_N -> vt option

val deref_target : vt -> vt option -> vt

val analyze_deref :
  (coq_N -> vt option) -> vt -> astep list -> coq_N -> vt option -> ad_result
  option

val argument_coercion : vt -> vt -> vt option

val pred_table : vt -> vt -> bool list

val pred_table_private : vt -> vt -> bool list
