open BinNat
open BinNums
open Datatypes
open List

type name = coq_N list

type path = { absolute : bool; comps : name list }

val coq_DOT : coq_N

val push : path -> path -> path

val has_dot : name -> bool

val stem_tail : name -> name

val file_stem : name -> name

val coq_PN_LL : name

val coq_PN : name

val set_ext_name : name -> name

val set_ext_comps : name list -> name list

val ll_path : path -> path -> path

val list_eqb : name -> name -> bool

val ends_with : name -> name -> bool

val is_pn_name : name -> bool

val is_pn_module : path -> bool
