open Ascii

type string =
| EmptyString
| String of ascii * string

val list_ascii_of_string : string -> ascii list
