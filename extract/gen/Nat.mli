open Datatypes

val add : nat -> nat -> nat

val mul : nat -> nat -> nat

val sub : nat -> nat -> nat
