open Datatypes

val add : nat -> nat -> nat
