open BinInt
open BinNums
open Common
open Datatypes
open Layout

val coq_E350 : code

val coq_E351 : code

val coq_E352 : code

val coq_E353 : code

val coq_E354 : code

val coq_E356 : code

val coq_E358 : code

val coq_E359 : code

val coq_E_PANIC : code

type prim =
| KVoid
| KInt8
| KInt16
| KInt32
| KInt64
| KInt128
| KUint8
| KUint16
| KUint32
| KUint64
| KUint128
| KUsize
| KChar8
| KBool

type sty =
| SPrim of prim
| SStruct of name
| SWord of name * coq_N
| SPtr of sty
| SView of sty
| SSlice of sty
| SEndless of sty
| SArraylike of sty
| SArray of coq_N * sty
| SArrayNamed of name * coq_N * sty

type vty =
| VPrim of prim
| VArray of vty * coq_N
| VArrayNamed of vty * name
| VSlice of vty
| VSlicePointer of vty
| VEndless of vty
| VArraylike of vty
| VStruct of name
| VWord of name * coq_N
| VUnresolved of name option
| VPointer of vty
| VView of vty

val known_size_in_bytes_as_word_member : vty -> coq_N option

val can_be_element : vty -> bool

val is_wellformed_inner : vty -> bool

val is_wellformed_element : vty -> bool

val is_wellformed : vty -> bool

val can_be_sized : vty -> bool

val can_be_struct_member : vty -> bool

val can_be_word_member : vty -> bool

val can_be_constant : vty -> bool

val can_be_variable : vty -> bool

val can_be_parameter : vty -> bool

val can_be_returned : vty -> bool

val parse_type : sty -> vty

val parse_wellformed_type : sty -> vty option

val typed_type : sty -> vty

type fixctx =
| FixConst
| FixMember
| FixParameter
| FixReturned

type fixres =
| FOk of vty
| FErr of code
| FPanic of coq_N

val fix_map : (vty -> vty) -> fixres -> fixres

val prim_abi : prim -> bool

val externalize_type_pinned : vty -> fixres

val fix_plain : vty -> fixctx -> fixres

val fix_type_for_flags_pinned : vty -> fixctx -> bool -> fixres

val externalize_type : vty -> fixres

val fix_type_for_flags : vty -> fixctx -> bool -> fixres

type dflags = { f_pub : bool; f_extern : bool }

type position =
| PVariable
| PSizeOf
| PConstant of dflags
| PParameter of dflags
| PReturn of dflags
| PStructMember of dflags
| PWordMember of coq_N * dflags

type outcome =
| OCodes of code list
| OPanic of coq_N

val judge : bool -> vty -> code -> coq_N -> outcome

val analyze_variable : vty -> outcome

val analyze_sizeof : vty -> outcome

val constant_fixed : fixres -> outcome

val parameter_fixed : fixres -> outcome

val returned_fixed : fixres -> outcome

val declare_constant : dflags -> vty -> outcome

val analyze_parameter : dflags -> vty -> outcome

val fix_return_type_for_flags : dflags -> vty -> outcome

val to_pvt : vty -> pvt

val align_single_member : coq_N -> vty -> code list

val member_fixed : coq_N option -> fixres -> outcome

val analyze_member : coq_N option -> dflags -> vty -> outcome

val legal_outcome : position -> sty -> outcome

val codes_of : outcome -> code list

val legal : position -> sty -> code list

val legal_outcome_pinned : position -> sty -> outcome

val legal_pinned : position -> sty -> code list
