open BinNat
open BinNums

type ascii =
| Ascii of bool * bool * bool * bool * bool * bool * bool * bool

val coq_N_of_digits : bool list -> coq_N

val coq_N_of_ascii : ascii -> coq_N
