open BinNums
open BinPos

module Z :
 sig
  val double : coq_Z -> coq_Z

  val succ_double : coq_Z -> coq_Z

  val pred_double : coq_Z -> coq_Z

  val pos_sub : positive -> positive -> coq_Z

  val add : coq_Z -> coq_Z -> coq_Z

  val mul : coq_Z -> coq_Z -> coq_Z

  val eqb : coq_Z -> coq_Z -> bool

  val to_N : coq_Z -> coq_N

  val of_N : coq_N -> coq_Z
 end
