open BinNat
open BinNums
open BinPos
open Datatypes

module Z :
 sig
  val double : coq_Z -> coq_Z

  val succ_double : coq_Z -> coq_Z

  val pred_double : coq_Z -> coq_Z

  val pos_sub : positive -> positive -> coq_Z

  val add : coq_Z -> coq_Z -> coq_Z

  val opp : coq_Z -> coq_Z

  val succ : coq_Z -> coq_Z

  val pred : coq_Z -> coq_Z

  val sub : coq_Z -> coq_Z -> coq_Z

  val mul : coq_Z -> coq_Z -> coq_Z

  val pow_pos : coq_Z -> positive -> coq_Z

  val pow : coq_Z -> coq_Z -> coq_Z

  val compare : coq_Z -> coq_Z -> comparison

  val leb : coq_Z -> coq_Z -> bool

  val ltb : coq_Z -> coq_Z -> bool

  val geb : coq_Z -> coq_Z -> bool

  val gtb : coq_Z -> coq_Z -> bool

  val eqb : coq_Z -> coq_Z -> bool

  val max : coq_Z -> coq_Z -> coq_Z

  val min : coq_Z -> coq_Z -> coq_Z

  val abs_N : coq_Z -> coq_N

  val to_nat : coq_Z -> nat

  val to_N : coq_Z -> coq_N

  val of_nat : nat -> coq_Z

  val of_N : coq_N -> coq_Z

  val pos_div_eucl : positive -> coq_Z -> coq_Z * coq_Z

  val div_eucl : coq_Z -> coq_Z -> coq_Z * coq_Z

  val div : coq_Z -> coq_Z -> coq_Z

  val modulo : coq_Z -> coq_Z -> coq_Z

  val quotrem : coq_Z -> coq_Z -> coq_Z * coq_Z

  val quot : coq_Z -> coq_Z -> coq_Z

  val rem : coq_Z -> coq_Z -> coq_Z

  val log2 : coq_Z -> coq_Z

  val coq_lor : coq_Z -> coq_Z -> coq_Z

  val coq_land : coq_Z -> coq_Z -> coq_Z

  val coq_lxor : coq_Z -> coq_Z -> coq_Z

  val log2_up : coq_Z -> coq_Z
 end
