open BinInt
open BinNums
open IR

(** val vt_is_integral : prim -> bool **)

let vt_is_integral = function
| Char8 -> false
| Bool -> false
| _ -> true

(** val vt_is_signed : prim -> bool **)

let vt_is_signed = function
| Int8 -> true
| Int16 -> true
| Int32 -> true
| Int64 -> true
| Int128 -> true
| _ -> false

(** val vt_is_bitfield : prim -> bool **)

let vt_is_bitfield = function
| Uint8 -> true
| Uint16 -> true
| Uint32 -> true
| Uint64 -> true
| Uint128 -> true
| _ -> false

(** val vt_word_member_size : prim -> coq_Z option **)

let vt_word_member_size = function
| Int16 -> Some (Zpos (Coq_xO Coq_xH))
| Int32 -> Some (Zpos (Coq_xO (Coq_xO Coq_xH)))
| Int64 -> Some (Zpos (Coq_xO (Coq_xO (Coq_xO Coq_xH))))
| Int128 -> Some (Zpos (Coq_xO (Coq_xO (Coq_xO (Coq_xO Coq_xH)))))
| Uint16 -> Some (Zpos (Coq_xO Coq_xH))
| Uint32 -> Some (Zpos (Coq_xO (Coq_xO Coq_xH)))
| Uint64 -> Some (Zpos (Coq_xO (Coq_xO (Coq_xO Coq_xH))))
| Uint128 -> Some (Zpos (Coq_xO (Coq_xO (Coq_xO (Coq_xO Coq_xH)))))
| Usize -> None
| _ -> Some (Zpos Coq_xH)

(** val vt_min : prim -> coq_Z **)

let vt_min = function
| Int8 -> Z.opp (Z.pow (Zpos (Coq_xO Coq_xH)) (Zpos (Coq_xI (Coq_xI Coq_xH))))
| Int16 ->
  Z.opp
    (Z.pow (Zpos (Coq_xO Coq_xH)) (Zpos (Coq_xI (Coq_xI (Coq_xI Coq_xH)))))
| Int32 ->
  Z.opp
    (Z.pow (Zpos (Coq_xO Coq_xH)) (Zpos (Coq_xI (Coq_xI (Coq_xI (Coq_xI
      Coq_xH))))))
| Int64 ->
  Z.opp
    (Z.pow (Zpos (Coq_xO Coq_xH)) (Zpos (Coq_xI (Coq_xI (Coq_xI (Coq_xI
      (Coq_xI Coq_xH)))))))
| Int128 ->
  Z.opp
    (Z.pow (Zpos (Coq_xO Coq_xH)) (Zpos (Coq_xI (Coq_xI (Coq_xI (Coq_xI
      (Coq_xI (Coq_xI Coq_xH))))))))
| _ -> Z0

(** val vt_max : prim -> coq_Z **)

let vt_max = function
| Int8 ->
  Z.sub (Z.pow (Zpos (Coq_xO Coq_xH)) (Zpos (Coq_xI (Coq_xI Coq_xH)))) (Zpos
    Coq_xH)
| Int16 ->
  Z.sub
    (Z.pow (Zpos (Coq_xO Coq_xH)) (Zpos (Coq_xI (Coq_xI (Coq_xI Coq_xH)))))
    (Zpos Coq_xH)
| Int32 ->
  Z.sub
    (Z.pow (Zpos (Coq_xO Coq_xH)) (Zpos (Coq_xI (Coq_xI (Coq_xI (Coq_xI
      Coq_xH)))))) (Zpos Coq_xH)
| Int64 ->
  Z.sub
    (Z.pow (Zpos (Coq_xO Coq_xH)) (Zpos (Coq_xI (Coq_xI (Coq_xI (Coq_xI
      (Coq_xI Coq_xH))))))) (Zpos Coq_xH)
| Int128 ->
  Z.sub
    (Z.pow (Zpos (Coq_xO Coq_xH)) (Zpos (Coq_xI (Coq_xI (Coq_xI (Coq_xI
      (Coq_xI (Coq_xI Coq_xH)))))))) (Zpos Coq_xH)
| Uint8 ->
  Z.sub
    (Z.pow (Zpos (Coq_xO Coq_xH)) (Zpos (Coq_xO (Coq_xO (Coq_xO Coq_xH)))))
    (Zpos Coq_xH)
| Uint16 ->
  Z.sub
    (Z.pow (Zpos (Coq_xO Coq_xH)) (Zpos (Coq_xO (Coq_xO (Coq_xO (Coq_xO
      Coq_xH)))))) (Zpos Coq_xH)
| Uint32 ->
  Z.sub
    (Z.pow (Zpos (Coq_xO Coq_xH)) (Zpos (Coq_xO (Coq_xO (Coq_xO (Coq_xO
      (Coq_xO Coq_xH))))))) (Zpos Coq_xH)
| Uint128 ->
  Z.sub
    (Z.pow (Zpos (Coq_xO Coq_xH)) (Zpos (Coq_xO (Coq_xO (Coq_xO (Coq_xO
      (Coq_xO (Coq_xO (Coq_xO Coq_xH))))))))) (Zpos Coq_xH)
| Char8 ->
  Z.sub
    (Z.pow (Zpos (Coq_xO Coq_xH)) (Zpos (Coq_xO (Coq_xO (Coq_xO Coq_xH)))))
    (Zpos Coq_xH)
| Bool -> Z0
| _ ->
  Z.sub
    (Z.pow (Zpos (Coq_xO Coq_xH)) (Zpos (Coq_xO (Coq_xO (Coq_xO (Coq_xO
      (Coq_xO (Coq_xO Coq_xH)))))))) (Zpos Coq_xH)

(** val vt_bits : coq_Z -> prim -> coq_Z **)

let vt_bits usize_bits = function
| Int16 -> Zpos (Coq_xO (Coq_xO (Coq_xO (Coq_xO Coq_xH))))
| Int32 -> Zpos (Coq_xO (Coq_xO (Coq_xO (Coq_xO (Coq_xO Coq_xH)))))
| Int64 -> Zpos (Coq_xO (Coq_xO (Coq_xO (Coq_xO (Coq_xO (Coq_xO Coq_xH))))))
| Int128 ->
  Zpos (Coq_xO (Coq_xO (Coq_xO (Coq_xO (Coq_xO (Coq_xO (Coq_xO Coq_xH)))))))
| Uint16 -> Zpos (Coq_xO (Coq_xO (Coq_xO (Coq_xO Coq_xH))))
| Uint32 -> Zpos (Coq_xO (Coq_xO (Coq_xO (Coq_xO (Coq_xO Coq_xH)))))
| Uint64 -> Zpos (Coq_xO (Coq_xO (Coq_xO (Coq_xO (Coq_xO (Coq_xO Coq_xH))))))
| Uint128 ->
  Zpos (Coq_xO (Coq_xO (Coq_xO (Coq_xO (Coq_xO (Coq_xO (Coq_xO Coq_xH)))))))
| Usize -> usize_bits
| Bool -> Zpos Coq_xH
| _ -> Zpos (Coq_xO (Coq_xO (Coq_xO Coq_xH)))
