open BinInt
open BinNums
open Common

val coq_E380 : code

val coq_MAXIMUM_ALIGNMENT : coq_Z

val align_up : coq_Z -> coq_Z -> coq_Z

val next_pow2 : coq_Z -> coq_Z

val member_alignment : coq_Z -> coq_Z

type pvt =
| PInt8
| PInt16
| PInt32
| PInt64
| PInt128
| PUint8
| PUint16
| PUint32
| PUint64
| PUint128
| PChar8
| PBool
| PWord of coq_Z
| POther

val known_size_in_bytes_as_word_member : pvt -> coq_Z option

val typer_loop : coq_Z list -> coq_Z -> coq_Z -> coq_Z * coq_Z

val typer_aligned_size : coq_Z list -> coq_Z

val word_accepted : coq_Z -> coq_Z list -> bool

val known_sizes : pvt list -> coq_Z list

val align_struct_word : coq_Z -> pvt list -> code list

type ty =
| TInt of coq_Z
| TBool
| TPtr
| TArr of coq_Z * ty
| TStruct of ty list

val int_abi_align : coq_Z -> coq_Z

val layout_loop :
  (coq_Z * coq_Z) list -> coq_Z -> coq_Z -> (coq_Z list * coq_Z) * coq_Z

val layout_offsets : (coq_Z * coq_Z) list -> coq_Z list

val layout_size : (coq_Z * coq_Z) list -> coq_Z

val llvm_align : ty -> coq_Z

val alloc_of : coq_Z -> coq_Z -> coq_Z

val llvm_size_bits : ty -> coq_Z

val llvm_alloc_size : ty -> coq_Z

val member_layouts : ty list -> (coq_Z * coq_Z) list

val struct_offsets : ty list -> coq_Z list

val llvm_size_bytes : ty -> coq_Z

val penne_sizeof : ty -> coq_Z

val valid_size : coq_Z -> bool

val wf_ty : ty -> bool
