open BinInt
open BinNums

val coq_MAXIMUM_ALIGNMENT : coq_Z

val align_up : coq_Z -> coq_Z -> coq_Z

val next_pow2 : coq_Z -> coq_Z

val member_alignment : coq_Z -> coq_Z

val typer_loop : coq_Z list -> coq_Z -> coq_Z -> coq_Z * coq_Z

val typer_aligned_size : coq_Z list -> coq_Z

val word_accepted : coq_Z -> coq_Z list -> bool

type ty =
| TInt of coq_Z
| TBool
| TPtr
| TArr of coq_Z * ty
| TStruct of ty list

val int_abi_align : coq_Z -> coq_Z

val layout_loop :
  (coq_Z * coq_Z) list -> coq_Z -> coq_Z -> (coq_Z list * coq_Z) * coq_Z

val layout_offsets : (coq_Z * coq_Z) list -> coq_Z list

val layout_size : (coq_Z * coq_Z) list -> coq_Z

val llvm_align : ty -> coq_Z

val alloc_of : coq_Z -> coq_Z -> coq_Z

val llvm_size_bits : ty -> coq_Z

val llvm_alloc_size : ty -> coq_Z

val member_layouts : ty list -> (coq_Z * coq_Z) list

val struct_offsets : ty list -> coq_Z list

val llvm_size_bytes : ty -> coq_Z

val penne_sizeof : ty -> coq_Z

val valid_size : coq_Z -> bool

val wf_ty : ty -> bool
