open BinNums
open BinPos
open Datatypes

module N :
 sig
  val succ_double : coq_N -> coq_N

  val double : coq_N -> coq_N

  val succ : coq_N -> coq_N

  val succ_pos : coq_N -> positive

  val add : coq_N -> coq_N -> coq_N

  val sub : coq_N -> coq_N -> coq_N

  val mul : coq_N -> coq_N -> coq_N

  val compare : coq_N -> coq_N -> comparison

  val eqb : coq_N -> coq_N -> bool

  val leb : coq_N -> coq_N -> bool

  val ltb : coq_N -> coq_N -> bool

  val min : coq_N -> coq_N -> coq_N

  val max : coq_N -> coq_N -> coq_N

  val size : coq_N -> coq_N

  val pos_div_eucl : positive -> coq_N -> coq_N * coq_N

  val div_eucl : coq_N -> coq_N -> coq_N * coq_N

  val div : coq_N -> coq_N -> coq_N

  val modulo : coq_N -> coq_N -> coq_N

  val coq_lor : coq_N -> coq_N -> coq_N

  val coq_land : coq_N -> coq_N -> coq_N

  val ldiff : coq_N -> coq_N -> coq_N

  val coq_lxor : coq_N -> coq_N -> coq_N

  val shiftl : coq_N -> coq_N -> coq_N

  val to_nat : coq_N -> nat

  val of_nat : nat -> coq_N
 end
