open BinNums
open IR

type tkind =
| KParenLeft
| KParenRight
| KBraceLeft
| KBraceRight
| KBracketLeft
| KBracketRight
| KAngleLeft
| KAngleRight
| KPipe
| KAmpersand
| KCaret
| KExclamation
| KPlaceholder
| KPlus
| KMinus
| KTimes
| KDivide
| KModulo
| KColon
| KSemicolon
| KDot
| KComma
| KAssignment
| KEquals
| KDoesNotEqual
| KIsGE
| KIsLE
| KShiftLeft
| KShiftRight
| KArrow
| KPipeForType
| KDots
| KFn
| KVar
| KConst
| KIf
| KGoto
| KLoop
| KReturn
| KElse
| KCast
| KAs
| KImport
| KPub
| KExtern
| KStruct
| KWord8
| KWord16
| KWord32
| KWord64
| KWord128
| KType
| KIdentifier
| KBuiltin
| KNakedDecimal
| KBitInteger
| KSuffixedInteger
| KCharLiteral
| KBool
| KStringLiteral
| KError

type tykw =
| TyVoid
| TyPrim of prim

type tok = { kind : tkind; value : coq_Z; vtype : tykw option;
             bytes : coq_N list; tstart : coq_N; tend : coq_N; line : 
             coq_N; lstart : coq_N }

(** val coq_E102 : coq_Z **)

let coq_E102 =
  Zpos (Coq_xO (Coq_xI (Coq_xI (Coq_xO (Coq_xO (Coq_xI Coq_xH))))))

(** val coq_E103 : coq_Z **)

let coq_E103 =
  Zpos (Coq_xI (Coq_xI (Coq_xI (Coq_xO (Coq_xO (Coq_xI Coq_xH))))))

(** val coq_E101 : coq_Z **)

let coq_E101 =
  Zpos (Coq_xI (Coq_xO (Coq_xI (Coq_xO (Coq_xO (Coq_xI Coq_xH))))))

(** val coq_E110 : coq_Z **)

let coq_E110 =
  Zpos (Coq_xO (Coq_xI (Coq_xI (Coq_xI (Coq_xO (Coq_xI Coq_xH))))))

(** val coq_E140 : coq_Z **)

let coq_E140 =
  Zpos (Coq_xO (Coq_xO (Coq_xI (Coq_xI (Coq_xO (Coq_xO (Coq_xO Coq_xH)))))))

(** val coq_E141 : coq_Z **)

let coq_E141 =
  Zpos (Coq_xI (Coq_xO (Coq_xI (Coq_xI (Coq_xO (Coq_xO (Coq_xO Coq_xH)))))))

(** val coq_E160 : coq_Z **)

let coq_E160 =
  Zpos (Coq_xO (Coq_xO (Coq_xO (Coq_xO (Coq_xO (Coq_xI (Coq_xO Coq_xH)))))))

(** val coq_E161 : coq_Z **)

let coq_E161 =
  Zpos (Coq_xI (Coq_xO (Coq_xO (Coq_xO (Coq_xO (Coq_xI (Coq_xO Coq_xH)))))))

(** val coq_E162 : coq_Z **)

let coq_E162 =
  Zpos (Coq_xO (Coq_xI (Coq_xO (Coq_xO (Coq_xO (Coq_xI (Coq_xO Coq_xH)))))))

(** val coq_E163 : coq_Z **)

let coq_E163 =
  Zpos (Coq_xI (Coq_xI (Coq_xO (Coq_xO (Coq_xO (Coq_xI (Coq_xO Coq_xH)))))))
