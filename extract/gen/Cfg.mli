open BinNat
open BinNums
open Common
open Datatypes
open List
open PeanoNat

type stmt =
| SAct of coq_N
| SGoto of coq_N
| SLabel of coq_N
| SIf of coq_N * stmt * stmt option
| SBlock of stmt list
| SLoop

val is_loop : stmt -> bool

val is_nil : 'a1 list -> bool

val ends_in_loop : stmt list -> bool

type tag =
| Entry
| Looped
| AfterLooped
| Unreachable
| Lbl of coq_N
| Then_
| Else_
| After

type instr =
| IAct of coq_N
| ICmp of coq_N
| IBr of coq_N
| ICondBr of coq_N * coq_N * coq_N
| IRet

type block = { btag : tag; binstrs : instr list }

type bstate = { blocks : block list; cur : coq_N; lmap : (coq_N * coq_N) list }

val next_id : block list -> coq_N

val emit_nth : nat -> instr -> block list -> block list

val emit_at : coq_N -> instr -> bstate -> bstate

val emit : instr -> bstate -> bstate

val set_cur : coq_N -> bstate -> bstate

val append_block : tag -> bstate -> coq_N * bstate

val lookup_label : coq_N -> (coq_N * coq_N) list -> coq_N option

val find_or_append : coq_N -> bstate -> coq_N * bstate

val lower_stmt : stmt -> bstate -> bstate option

val lower_list : stmt list -> bstate -> bstate option

val init_state : bstate

val lower_body_state : stmt list -> bstate option

type cfg = block list

val lower_body : stmt list -> cfg option

type term =
| TBr of coq_N
| TCondBr of coq_N * coq_N * coq_N
| TRet
| TNone

val is_term : instr -> bool

val acts_of : instr list -> coq_N list

val term_of : instr list -> term

val view_block : block -> (tag * coq_N list) * term

val cfg_view : cfg -> ((tag * coq_N list) * term) list

val target_ok : coq_N -> instr -> bool

val instrs_wfb : coq_N -> instr list -> bool

val tag_eqb : tag -> tag -> bool

val count_tag : tag -> cfg -> nat

val cfg_wfb : cfg -> bool

val labels_of : stmt -> coq_N list

val labels_list : stmt list -> coq_N list

val loops_ok : stmt -> bool

val loops_ok_list : stmt list -> bool

val nodupb : coq_N list -> bool

val direct_labels : stmt list -> coq_N list

val legal_stmt : stmt -> coq_N list -> bool

val legal_list : stmt list -> coq_N list -> bool

val accepted : stmt list -> bool
