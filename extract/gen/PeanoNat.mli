open Datatypes

module Nat :
 sig
  val eqb : nat -> nat -> bool
 end
