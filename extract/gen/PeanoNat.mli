open Datatypes

module Nat :
 sig
  val eqb : nat -> nat -> bool

  val leb : nat -> nat -> bool

  val ltb : nat -> nat -> bool
 end
