open BinInt
open BinNat
open BinNums
open Common
open Datatypes
open IR
open List
open Lower
open PeanoNat
open TypeTables

(** val usize_bits : coq_Z **)

let usize_bits =
  Zpos (Coq_xO (Coq_xO (Coq_xO (Coq_xO (Coq_xO (Coq_xO Coq_xH))))))

type ty =
| TPrim of prim
| TArr of coq_Z * ty
| TPtr of ty
| TView of ty
| TStruct of name

type value =
| VInt of prim * coq_Z
| VArr of value list
| VStruct of (name * value) list
| VPtr of coq_N * coq_N list
| VUninit

type expr =
| ELit of prim * coq_Z
| EVar of name
| EIndex of expr * expr
| EMember of expr * name
| EBin of binop * expr * expr
| EUn of unop * expr
| ECast of prim * expr
| ELen of expr
| EAddr of coq_N * expr
| ECall of name * expr list
| EArrLit of expr list
| EStructLit of name * (name * expr) list
| ESizeOf of ty
| EParen of expr

type cmp =
| Cmp of cmpop * expr * expr

type pitem =
| PStr of coq_N list
| PExpr of expr

type stmt =
| SDecl of name * ty * expr option
| SAssign of expr * expr
| SAssignAddr of coq_N * name * expr
| SIf of cmp * stmt * stmt option
| SGoto of name
| SLabel of name
| SBlock of stmt list
| SLoop
| SCall of name * expr list
| SPrint of pitem list

type func = { fname : name; fparams : (name * ty) list; fret : ty option;
              fbody : stmt list; fresult : expr option }

type sdecl = { sname : name; smembers : (name * ty) list }

type program = { structs : sdecl list; consts : ((name * ty) * expr) list;
                 funcs : func list }

type state = { store : (coq_N * value) list; nexta : coq_N; out : coq_N list }

type env = (name * coq_N) list

(** val lookup : coq_N -> (coq_N * 'a1) list -> 'a1 option **)

let rec lookup x = function
| [] -> None
| p :: r -> let (y, v) = p in if N.eqb x y then Some v else lookup x r

(** val update : coq_N -> 'a1 -> (coq_N * 'a1) list -> (coq_N * 'a1) list **)

let rec update x v = function
| [] -> []
| p :: r ->
  let (y, w) = p in
  if N.eqb x y then (y, v) :: r else (y, w) :: (update x v r)

(** val alloc : value -> state -> coq_N * state **)

let alloc v st =
  (st.nexta, { store = ((st.nexta, v) :: st.store); nexta =
    (N.succ st.nexta); out = st.out })

(** val get_path : value -> coq_N list -> value option **)

let rec get_path v = function
| [] -> Some v
| i :: r ->
  (match v with
   | VArr vs ->
     (match nth_error vs (N.to_nat i) with
      | Some w -> get_path w r
      | None -> None)
   | VStruct fs ->
     (match lookup i fs with
      | Some w -> get_path w r
      | None -> None)
   | _ -> None)

(** val set_nth : nat -> 'a1 -> 'a1 list -> 'a1 list option **)

let rec set_nth n x l =
  match n with
  | O -> (match l with
          | [] -> None
          | _ :: r -> Some (x :: r))
  | S n' ->
    (match l with
     | [] -> None
     | y :: r ->
       (match set_nth n' x r with
        | Some r' -> Some (y :: r')
        | None -> None))

(** val set_path : value -> coq_N list -> value -> value option **)

let rec set_path v p nv =
  match p with
  | [] -> Some nv
  | i :: r ->
    (match v with
     | VArr vs ->
       (match nth_error vs (N.to_nat i) with
        | Some w ->
          (match set_path w r nv with
           | Some w' ->
             (match set_nth (N.to_nat i) w' vs with
              | Some vs' -> Some (VArr vs')
              | None -> None)
           | None -> None)
        | None -> None)
     | VStruct fs ->
       (match lookup i fs with
        | Some w ->
          (match set_path w r nv with
           | Some w' -> Some (VStruct (update i w' fs))
           | None -> None)
        | None -> None)
     | _ -> None)

(** val load : coq_N -> coq_N list -> state -> value option **)

let load a p st =
  match lookup a st.store with
  | Some v -> get_path v p
  | None -> None

(** val storev : coq_N -> coq_N list -> value -> state -> state option **)

let storev a p nv st =
  match lookup a st.store with
  | Some v ->
    (match set_path v p nv with
     | Some v' ->
       Some { store = (update a v' st.store); nexta = st.nexta; out = st.out }
     | None -> None)
  | None -> None

type 'a res =
| Ok of 'a
| UB
| Stuck
| OutOfFuel

(** val bind : 'a1 res -> ('a1 -> 'a2 res) -> 'a2 res **)

let bind r f =
  match r with
  | Ok a -> f a
  | UB -> UB
  | Stuck -> Stuck
  | OutOfFuel -> OutOfFuel

(** val of_opt : 'a1 option -> 'a1 res **)

let of_opt = function
| Some a -> Ok a
| None -> Stuck

(** val pbits : prim -> coq_Z **)

let pbits p =
  vt_bits usize_bits p

(** val psigned : prim -> bool **)

let psigned =
  vt_is_signed

(** val zero_value : sdecl list -> nat -> ty -> value **)

let rec zero_value structs0 fuel t =
  match fuel with
  | O -> VUninit
  | S f ->
    (match t with
     | TArr (n, t') -> VArr (repeat (zero_value structs0 f t') (Z.to_nat n))
     | TStruct s ->
       (match find (fun d -> N.eqb d.sname s) structs0 with
        | Some d ->
          VStruct
            (map (fun m -> ((fst m), (zero_value structs0 f (snd m))))
              d.smembers)
        | None -> VUninit)
     | _ -> VUninit)

(** val deref_addr :
    nat -> coq_N -> coq_N list -> state -> (coq_N * coq_N list) res **)

let rec deref_addr fuel a p st =
  match fuel with
  | O -> OutOfFuel
  | S f ->
    (match load a p st with
     | Some v ->
       (match v with
        | VPtr (a', p') -> deref_addr f a' p' st
        | VUninit -> UB
        | _ -> Ok (a, p))
     | None -> Stuck)

(** val decimal_digits : nat -> coq_Z -> coq_N list **)

let decimal_digits fuel v =
  let rec go fuel0 v0 acc =
    match fuel0 with
    | O -> acc
    | S f ->
      if Z.ltb v0 (Zpos (Coq_xO (Coq_xI (Coq_xO Coq_xH))))
      then (Z.to_N
             (Z.add (Zpos (Coq_xO (Coq_xO (Coq_xO (Coq_xO (Coq_xI
               Coq_xH)))))) v0)) :: acc
      else go f (Z.div v0 (Zpos (Coq_xO (Coq_xI (Coq_xO Coq_xH)))))
             ((Z.to_N
                (Z.add (Zpos (Coq_xO (Coq_xO (Coq_xO (Coq_xO (Coq_xI
                  Coq_xH))))))
                  (Z.modulo v0 (Zpos (Coq_xO (Coq_xI (Coq_xO Coq_xH))))))) :: acc)
  in go fuel v []

(** val show_int : coq_Z -> coq_N list **)

let show_int v =
  if Z.ltb v Z0
  then (Npos (Coq_xI (Coq_xO (Coq_xI (Coq_xI (Coq_xO
         Coq_xH)))))) :: (decimal_digits (S (S (S (S (S (S (S (S (S (S (S (S
                           (S (S (S (S (S (S (S (S (S (S (S (S (S (S (S (S (S
                           (S (S (S (S (S (S (S (S (S (S (S (S (S (S (S (S (S
                           (S (S (S (S
                           O))))))))))))))))))))))))))))))))))))))))))))))))))
                           (Z.opp v))
  else decimal_digits (S (S (S (S (S (S (S (S (S (S (S (S (S (S (S (S (S (S
         (S (S (S (S (S (S (S (S (S (S (S (S (S (S (S (S (S (S (S (S (S (S (S
         (S (S (S (S (S (S (S (S (S
         O)))))))))))))))))))))))))))))))))))))))))))))))))) v

(** val str_true : coq_N list **)

let str_true =
  (Npos (Coq_xO (Coq_xO (Coq_xI (Coq_xO (Coq_xI (Coq_xI
    Coq_xH))))))) :: ((Npos (Coq_xO (Coq_xI (Coq_xO (Coq_xO (Coq_xI (Coq_xI
    Coq_xH))))))) :: ((Npos (Coq_xI (Coq_xO (Coq_xI (Coq_xO (Coq_xI (Coq_xI
    Coq_xH))))))) :: ((Npos (Coq_xI (Coq_xO (Coq_xI (Coq_xO (Coq_xO (Coq_xI
    Coq_xH))))))) :: [])))

(** val str_false : coq_N list **)

let str_false =
  (Npos (Coq_xO (Coq_xI (Coq_xI (Coq_xO (Coq_xO (Coq_xI
    Coq_xH))))))) :: ((Npos (Coq_xI (Coq_xO (Coq_xO (Coq_xO (Coq_xO (Coq_xI
    Coq_xH))))))) :: ((Npos (Coq_xO (Coq_xO (Coq_xI (Coq_xI (Coq_xO (Coq_xI
    Coq_xH))))))) :: ((Npos (Coq_xI (Coq_xI (Coq_xO (Coq_xO (Coq_xI (Coq_xI
    Coq_xH))))))) :: ((Npos (Coq_xI (Coq_xO (Coq_xI (Coq_xO (Coq_xO (Coq_xI
    Coq_xH))))))) :: []))))

(** val show_value : value -> coq_N list res **)

let show_value = function
| VInt (p, x) ->
  (match p with
   | Char8 -> Ok ((Z.to_N x) :: [])
   | Bool -> Ok (if Z.eqb x Z0 then str_false else str_true)
   | _ -> Ok (show_int x))
| VUninit -> UB
| _ -> Stuck

(** val find_func : program -> name -> func option **)

let find_func prog f =
  find (fun d -> N.eqb d.fname f) prog.funcs

type outcome =
| Normal
| Jump of name

(** val jump_target : name -> stmt list -> stmt list option **)

let rec jump_target l = function
| [] -> None
| s :: r ->
  (match s with
   | SLabel l' -> if N.eqb l l' then Some r else jump_target l r
   | _ -> jump_target l r)

(** val array_len : value -> coq_Z res **)

let array_len = function
| VArr vs -> Ok (Z.of_nat (length vs))
| VUninit -> UB
| _ -> Stuck

(** val eval :
    program -> env -> nat -> expr -> env -> state -> (value * state) res **)

let eval prog genv =
  let rec eval0 fuel e en st =
    match fuel with
    | O -> OutOfFuel
    | S f ->
      (match e with
       | ELit (p, v) -> Ok ((VInt (p, v)), st)
       | EVar _ ->
         bind (eval_place f e en st) (fun pat ->
           let (p0, st0) = pat in
           let (a, p) = p0 in
           (match load a p st0 with
            | Some v -> (match v with
                         | VUninit -> UB
                         | _ -> Ok (v, st0))
            | None -> Stuck))
       | EIndex (_, _) ->
         bind (eval_place f e en st) (fun pat ->
           let (p0, st0) = pat in
           let (a, p) = p0 in
           (match load a p st0 with
            | Some v -> (match v with
                         | VUninit -> UB
                         | _ -> Ok (v, st0))
            | None -> Stuck))
       | EMember (_, _) ->
         bind (eval_place f e en st) (fun pat ->
           let (p0, st0) = pat in
           let (a, p) = p0 in
           (match load a p st0 with
            | Some v -> (match v with
                         | VUninit -> UB
                         | _ -> Ok (v, st0))
            | None -> Stuck))
       | EBin (op, l, r) ->
         bind (eval0 f l en st) (fun pat ->
           let (vl, st0) = pat in
           bind (eval0 f r en st0) (fun pat0 ->
             let (vr, st1) = pat0 in
             (match vl with
              | VInt (p, x) ->
                (match vr with
                 | VInt (q, y) ->
                   if prim_eqb p q
                   then (match src_binop op (psigned p) (pbits p) x y with
                         | Some v -> Ok ((VInt (p, v)), st1)
                         | None -> UB)
                   else Stuck
                 | _ -> Stuck)
              | _ -> Stuck)))
       | EUn (op, e') ->
         bind (eval0 f e' en st) (fun pat ->
           let (v, st0) = pat in
           (match v with
            | VInt (p, x) ->
              (match p with
               | Bool ->
                 (match op with
                  | Negative -> Stuck
                  | BitwiseComplement ->
                    Ok ((VInt (Bool, (Z.sub (Zpos Coq_xH) x))), st0))
               | _ ->
                 (match src_unop op (psigned p) (pbits p) x with
                  | Some r -> Ok ((VInt (p, r)), st0)
                  | None -> UB))
            | _ -> Stuck))
       | ECast (d, e') ->
         bind (eval0 f e' en st) (fun pat ->
           let (v, st0) = pat in
           (match v with
            | VInt (_, x) ->
              Ok ((VInt (d, (src_cast (psigned d) (pbits d) x))), st0)
            | _ -> Stuck))
       | ELen e' ->
         bind (eval_place f e' en st) (fun pat ->
           let (p0, st0) = pat in
           let (a, p) = p0 in
           bind (of_opt (load a p st0)) (fun v ->
             bind (array_len v) (fun n -> Ok ((VInt (Usize, n)), st0))))
       | EAddr (_, e') ->
         bind (eval_place f e' en st) (fun pat ->
           let (p0, st0) = pat in let (a, p) = p0 in Ok ((VPtr (a, p)), st0))
       | ECall (g, args) ->
         bind (eval_args f args en st) (fun pat ->
           let (vs, st0) = pat in
           bind (call0 f g vs st0) (fun pat0 ->
             let (r, st1) = pat0 in
             (match r with
              | Some v -> Ok (v, st1)
              | None -> Stuck)))
       | EArrLit es ->
         bind (eval_args f es en st) (fun pat ->
           let (vs, st0) = pat in Ok ((VArr vs), st0))
       | EStructLit (_, fields) ->
         bind (eval_args f (map snd fields) en st) (fun pat ->
           let (vs, st0) = pat in
           Ok ((VStruct (combine (map fst fields) vs)), st0))
       | ESizeOf _ -> Stuck
       | EParen e' -> eval0 f e' en st)
  and eval_args fuel es en st =
    match fuel with
    | O -> OutOfFuel
    | S f ->
      (match es with
       | [] -> Ok ([], st)
       | e :: r ->
         bind (eval0 f e en st) (fun pat ->
           let (v, st0) = pat in
           bind (eval_args f r en st0) (fun pat0 ->
             let (vs, st1) = pat0 in Ok ((v :: vs), st1))))
  and eval_place fuel e en st =
    match fuel with
    | O -> OutOfFuel
    | S f ->
      (match e with
       | EVar x ->
         bind (of_opt (lookup x en)) (fun a ->
           bind
             (deref_addr (S (S (S (S (S (S (S (S (S (S (S (S (S (S (S (S (S
               (S (S (S (S (S (S (S (S (S (S (S (S (S (S (S (S (S (S (S (S (S
               (S (S (S (S (S (S (S (S (S (S (S (S (S (S (S (S (S (S (S (S (S
               (S (S (S (S (S
               O))))))))))))))))))))))))))))))))))))))))))))))))))))))))))))))))
               a [] st) (fun pat -> let (a', p') = pat in Ok ((a', p'), st)))
       | EIndex (e', i) ->
         bind (eval_place f e' en st) (fun pat ->
           let (p0, st0) = pat in
           let (a, p) = p0 in
           bind (eval0 f i en st0) (fun pat0 ->
             let (vi, st1) = pat0 in
             (match vi with
              | VInt (_, n) ->
                bind (of_opt (load a p st1)) (fun v ->
                  bind (array_len v) (fun len ->
                    if (&&) (Z.leb Z0 n) (Z.ltb n len)
                    then bind
                           (deref_addr (S (S (S (S (S (S (S (S (S (S (S (S (S
                             (S (S (S (S (S (S (S (S (S (S (S (S (S (S (S (S
                             (S (S (S (S (S (S (S (S (S (S (S (S (S (S (S (S
                             (S (S (S (S (S (S (S (S (S (S (S (S (S (S (S (S
                             (S (S (S
                             O))))))))))))))))))))))))))))))))))))))))))))))))))))))))))))))))
                             a (app p ((Z.to_N n) :: [])) st1) (fun pat1 ->
                           let (a', p') = pat1 in Ok ((a', p'), st1))
                    else UB))
              | _ -> Stuck)))
       | EMember (e', m) ->
         bind (eval_place f e' en st) (fun pat ->
           let (p0, st0) = pat in
           let (a, p) = p0 in
           bind
             (deref_addr (S (S (S (S (S (S (S (S (S (S (S (S (S (S (S (S (S
               (S (S (S (S (S (S (S (S (S (S (S (S (S (S (S (S (S (S (S (S (S
               (S (S (S (S (S (S (S (S (S (S (S (S (S (S (S (S (S (S (S (S (S
               (S (S (S (S (S
               O))))))))))))))))))))))))))))))))))))))))))))))))))))))))))))))))
               a (app p (m :: [])) st0) (fun pat0 ->
             let (a', p') = pat0 in Ok ((a', p'), st0)))
       | EParen e' -> eval_place f e' en st
       | _ -> Stuck)
  and call0 fuel g vs st =
    match fuel with
    | O -> OutOfFuel
    | S f ->
      bind (of_opt (find_func prog g)) (fun fn ->
        if negb (Nat.eqb (length vs) (length fn.fparams))
        then Stuck
        else let (en, st0) =
               fold_left (fun pat pat0 ->
                 let (en, st0) = pat in
                 let (x, v) = pat0 in
                 let (a, st1) = alloc v st0 in (((x, a) :: en), st1))
                 (combine (map fst fn.fparams) vs) (genv, st)
             in
             bind (exec_list f fn.fbody en st0) (fun pat ->
               let (p, st1) = pat in
               let (o, en0) = p in
               (match o with
                | Normal ->
                  (match fn.fresult with
                   | Some e ->
                     bind (eval0 f e en0 st1) (fun pat0 ->
                       let (v, st2) = pat0 in Ok ((Some v), st2))
                   | None -> Ok (None, st1))
                | Jump _ -> Stuck)))
  and exec fuel s en st =
    match fuel with
    | O -> OutOfFuel
    | S f ->
      (match s with
       | SDecl (x, t, init) ->
         (match init with
          | Some e ->
            bind (eval0 f e en st) (fun pat ->
              let (v, st0) = pat in
              let (a, st1) = alloc v st0 in Ok ((Normal, ((x, a) :: en)), st1))
          | None ->
            let (a, st0) =
              alloc
                (zero_value prog.structs (S (S (S (S (S (S (S (S O)))))))) t)
                st
            in
            Ok ((Normal, ((x, a) :: en)), st0))
       | SAssign (lhs, rhs) ->
         bind (eval0 f rhs en st) (fun pat ->
           let (v, st0) = pat in
           bind (eval_place f lhs en st0) (fun pat0 ->
             let (p0, st1) = pat0 in
             let (a, p) = p0 in
             bind (of_opt (storev a p v st1)) (fun st2 -> Ok ((Normal, en),
               st2))))
       | SAssignAddr (_, x, rhs) ->
         bind (eval0 f rhs en st) (fun pat ->
           let (v, st0) = pat in
           bind (of_opt (lookup x en)) (fun a ->
             bind (of_opt (storev a [] v st0)) (fun st1 -> Ok ((Normal, en),
               st1))))
       | SIf (c, t, e) ->
         let Cmp (op, l, r) = c in
         bind (eval0 f l en st) (fun pat ->
           let (vl, st0) = pat in
           bind (eval0 f r en st0) (fun pat0 ->
             let (vr, st1) = pat0 in
             (match vl with
              | VInt (_, x) ->
                (match vr with
                 | VInt (_, y) ->
                   if src_cmp op x y
                   then exec f t en st1
                   else (match e with
                         | Some e' -> exec f e' en st1
                         | None -> Ok ((Normal, en), st1))
                 | _ -> Stuck)
              | _ -> Stuck)))
       | SGoto l -> Ok (((Jump l), en), st)
       | SLabel _ -> Ok ((Normal, en), st)
       | SBlock b ->
         bind (exec_block f b b en en st) (fun pat ->
           let (p, st0) = pat in let (o, _) = p in Ok ((o, en), st0))
       | SLoop -> Stuck
       | SCall (g, args) ->
         bind (eval_args f args en st) (fun pat ->
           let (vs, st0) = pat in
           bind (call0 f g vs st0) (fun pat0 ->
             let (_, st1) = pat0 in Ok ((Normal, en), st1)))
       | SPrint items ->
         bind (print f items [] en st) (fun st0 -> Ok ((Normal, en), st0)))
  and exec_block fuel whole rest en0 en st =
    match fuel with
    | O -> OutOfFuel
    | S f ->
      (match rest with
       | [] -> Ok ((Normal, en), st)
       | s :: r ->
         (match s with
          | SDecl (_, _, _) ->
            bind (exec f s en st) (fun pat ->
              let (p, st0) = pat in
              let (o, en') = p in
              (match o with
               | Normal -> exec_block f whole r en0 en' st0
               | Jump l ->
                 (match jump_target l r with
                  | Some r' -> exec_block f whole r' en0 en' st0
                  | None -> Ok (((Jump l), en'), st0))))
          | SAssign (_, _) ->
            bind (exec f s en st) (fun pat ->
              let (p, st0) = pat in
              let (o, en') = p in
              (match o with
               | Normal -> exec_block f whole r en0 en' st0
               | Jump l ->
                 (match jump_target l r with
                  | Some r' -> exec_block f whole r' en0 en' st0
                  | None -> Ok (((Jump l), en'), st0))))
          | SAssignAddr (_, _, _) ->
            bind (exec f s en st) (fun pat ->
              let (p, st0) = pat in
              let (o, en') = p in
              (match o with
               | Normal -> exec_block f whole r en0 en' st0
               | Jump l ->
                 (match jump_target l r with
                  | Some r' -> exec_block f whole r' en0 en' st0
                  | None -> Ok (((Jump l), en'), st0))))
          | SIf (_, _, _) ->
            bind (exec f s en st) (fun pat ->
              let (p, st0) = pat in
              let (o, en') = p in
              (match o with
               | Normal -> exec_block f whole r en0 en' st0
               | Jump l ->
                 (match jump_target l r with
                  | Some r' -> exec_block f whole r' en0 en' st0
                  | None -> Ok (((Jump l), en'), st0))))
          | SGoto _ ->
            bind (exec f s en st) (fun pat ->
              let (p, st0) = pat in
              let (o, en') = p in
              (match o with
               | Normal -> exec_block f whole r en0 en' st0
               | Jump l ->
                 (match jump_target l r with
                  | Some r' -> exec_block f whole r' en0 en' st0
                  | None -> Ok (((Jump l), en'), st0))))
          | SLabel _ ->
            bind (exec f s en st) (fun pat ->
              let (p, st0) = pat in
              let (o, en') = p in
              (match o with
               | Normal -> exec_block f whole r en0 en' st0
               | Jump l ->
                 (match jump_target l r with
                  | Some r' -> exec_block f whole r' en0 en' st0
                  | None -> Ok (((Jump l), en'), st0))))
          | SBlock _ ->
            bind (exec f s en st) (fun pat ->
              let (p, st0) = pat in
              let (o, en') = p in
              (match o with
               | Normal -> exec_block f whole r en0 en' st0
               | Jump l ->
                 (match jump_target l r with
                  | Some r' -> exec_block f whole r' en0 en' st0
                  | None -> Ok (((Jump l), en'), st0))))
          | SLoop ->
            (match r with
             | [] -> exec_block f whole whole en0 en0 st
             | _ :: _ ->
               bind (exec f s en st) (fun pat ->
                 let (p, st0) = pat in
                 let (o, en') = p in
                 (match o with
                  | Normal -> exec_block f whole r en0 en' st0
                  | Jump l ->
                    (match jump_target l r with
                     | Some r' -> exec_block f whole r' en0 en' st0
                     | None -> Ok (((Jump l), en'), st0)))))
          | SCall (_, _) ->
            bind (exec f s en st) (fun pat ->
              let (p, st0) = pat in
              let (o, en') = p in
              (match o with
               | Normal -> exec_block f whole r en0 en' st0
               | Jump l ->
                 (match jump_target l r with
                  | Some r' -> exec_block f whole r' en0 en' st0
                  | None -> Ok (((Jump l), en'), st0))))
          | SPrint _ ->
            bind (exec f s en st) (fun pat ->
              let (p, st0) = pat in
              let (o, en') = p in
              (match o with
               | Normal -> exec_block f whole r en0 en' st0
               | Jump l ->
                 (match jump_target l r with
                  | Some r' -> exec_block f whole r' en0 en' st0
                  | None -> Ok (((Jump l), en'), st0))))))
  and exec_list fuel ss en st =
    match fuel with
    | O -> OutOfFuel
    | S f ->
      (match ss with
       | [] -> Ok ((Normal, en), st)
       | s :: r ->
         bind (exec f s en st) (fun pat ->
           let (p, st0) = pat in
           let (o, en') = p in
           (match o with
            | Normal -> exec_list f r en' st0
            | Jump l ->
              (match jump_target l r with
               | Some r' -> exec_list f r' en' st0
               | None -> Ok (((Jump l), en'), st0)))))
  and print fuel items acc en st =
    match fuel with
    | O -> OutOfFuel
    | S f ->
      (match items with
       | [] ->
         Ok { store = st.store; nexta = st.nexta; out = (app st.out acc) }
       | p :: r ->
         (match p with
          | PStr bs -> print f r (app acc bs) en st
          | PExpr e ->
            bind (eval0 f e en st) (fun pat ->
              let (v, st0) = pat in
              bind (show_value v) (fun bs -> print f r (app acc bs) en st0))))
  in eval0

(** val call :
    program -> env -> nat -> name -> value list -> state -> (value
    option * state) res **)

let call prog genv =
  let rec eval0 fuel e en st =
    match fuel with
    | O -> OutOfFuel
    | S f ->
      (match e with
       | ELit (p, v) -> Ok ((VInt (p, v)), st)
       | EVar _ ->
         bind (eval_place f e en st) (fun pat ->
           let (p0, st0) = pat in
           let (a, p) = p0 in
           (match load a p st0 with
            | Some v -> (match v with
                         | VUninit -> UB
                         | _ -> Ok (v, st0))
            | None -> Stuck))
       | EIndex (_, _) ->
         bind (eval_place f e en st) (fun pat ->
           let (p0, st0) = pat in
           let (a, p) = p0 in
           (match load a p st0 with
            | Some v -> (match v with
                         | VUninit -> UB
                         | _ -> Ok (v, st0))
            | None -> Stuck))
       | EMember (_, _) ->
         bind (eval_place f e en st) (fun pat ->
           let (p0, st0) = pat in
           let (a, p) = p0 in
           (match load a p st0 with
            | Some v -> (match v with
                         | VUninit -> UB
                         | _ -> Ok (v, st0))
            | None -> Stuck))
       | EBin (op, l, r) ->
         bind (eval0 f l en st) (fun pat ->
           let (vl, st0) = pat in
           bind (eval0 f r en st0) (fun pat0 ->
             let (vr, st1) = pat0 in
             (match vl with
              | VInt (p, x) ->
                (match vr with
                 | VInt (q, y) ->
                   if prim_eqb p q
                   then (match src_binop op (psigned p) (pbits p) x y with
                         | Some v -> Ok ((VInt (p, v)), st1)
                         | None -> UB)
                   else Stuck
                 | _ -> Stuck)
              | _ -> Stuck)))
       | EUn (op, e') ->
         bind (eval0 f e' en st) (fun pat ->
           let (v, st0) = pat in
           (match v with
            | VInt (p, x) ->
              (match p with
               | Bool ->
                 (match op with
                  | Negative -> Stuck
                  | BitwiseComplement ->
                    Ok ((VInt (Bool, (Z.sub (Zpos Coq_xH) x))), st0))
               | _ ->
                 (match src_unop op (psigned p) (pbits p) x with
                  | Some r -> Ok ((VInt (p, r)), st0)
                  | None -> UB))
            | _ -> Stuck))
       | ECast (d, e') ->
         bind (eval0 f e' en st) (fun pat ->
           let (v, st0) = pat in
           (match v with
            | VInt (_, x) ->
              Ok ((VInt (d, (src_cast (psigned d) (pbits d) x))), st0)
            | _ -> Stuck))
       | ELen e' ->
         bind (eval_place f e' en st) (fun pat ->
           let (p0, st0) = pat in
           let (a, p) = p0 in
           bind (of_opt (load a p st0)) (fun v ->
             bind (array_len v) (fun n -> Ok ((VInt (Usize, n)), st0))))
       | EAddr (_, e') ->
         bind (eval_place f e' en st) (fun pat ->
           let (p0, st0) = pat in let (a, p) = p0 in Ok ((VPtr (a, p)), st0))
       | ECall (g, args) ->
         bind (eval_args f args en st) (fun pat ->
           let (vs, st0) = pat in
           bind (call0 f g vs st0) (fun pat0 ->
             let (r, st1) = pat0 in
             (match r with
              | Some v -> Ok (v, st1)
              | None -> Stuck)))
       | EArrLit es ->
         bind (eval_args f es en st) (fun pat ->
           let (vs, st0) = pat in Ok ((VArr vs), st0))
       | EStructLit (_, fields) ->
         bind (eval_args f (map snd fields) en st) (fun pat ->
           let (vs, st0) = pat in
           Ok ((VStruct (combine (map fst fields) vs)), st0))
       | ESizeOf _ -> Stuck
       | EParen e' -> eval0 f e' en st)
  and eval_args fuel es en st =
    match fuel with
    | O -> OutOfFuel
    | S f ->
      (match es with
       | [] -> Ok ([], st)
       | e :: r ->
         bind (eval0 f e en st) (fun pat ->
           let (v, st0) = pat in
           bind (eval_args f r en st0) (fun pat0 ->
             let (vs, st1) = pat0 in Ok ((v :: vs), st1))))
  and eval_place fuel e en st =
    match fuel with
    | O -> OutOfFuel
    | S f ->
      (match e with
       | EVar x ->
         bind (of_opt (lookup x en)) (fun a ->
           bind
             (deref_addr (S (S (S (S (S (S (S (S (S (S (S (S (S (S (S (S (S
               (S (S (S (S (S (S (S (S (S (S (S (S (S (S (S (S (S (S (S (S (S
               (S (S (S (S (S (S (S (S (S (S (S (S (S (S (S (S (S (S (S (S (S
               (S (S (S (S (S
               O))))))))))))))))))))))))))))))))))))))))))))))))))))))))))))))))
               a [] st) (fun pat -> let (a', p') = pat in Ok ((a', p'), st)))
       | EIndex (e', i) ->
         bind (eval_place f e' en st) (fun pat ->
           let (p0, st0) = pat in
           let (a, p) = p0 in
           bind (eval0 f i en st0) (fun pat0 ->
             let (vi, st1) = pat0 in
             (match vi with
              | VInt (_, n) ->
                bind (of_opt (load a p st1)) (fun v ->
                  bind (array_len v) (fun len ->
                    if (&&) (Z.leb Z0 n) (Z.ltb n len)
                    then bind
                           (deref_addr (S (S (S (S (S (S (S (S (S (S (S (S (S
                             (S (S (S (S (S (S (S (S (S (S (S (S (S (S (S (S
                             (S (S (S (S (S (S (S (S (S (S (S (S (S (S (S (S
                             (S (S (S (S (S (S (S (S (S (S (S (S (S (S (S (S
                             (S (S (S
                             O))))))))))))))))))))))))))))))))))))))))))))))))))))))))))))))))
                             a (app p ((Z.to_N n) :: [])) st1) (fun pat1 ->
                           let (a', p') = pat1 in Ok ((a', p'), st1))
                    else UB))
              | _ -> Stuck)))
       | EMember (e', m) ->
         bind (eval_place f e' en st) (fun pat ->
           let (p0, st0) = pat in
           let (a, p) = p0 in
           bind
             (deref_addr (S (S (S (S (S (S (S (S (S (S (S (S (S (S (S (S (S
               (S (S (S (S (S (S (S (S (S (S (S (S (S (S (S (S (S (S (S (S (S
               (S (S (S (S (S (S (S (S (S (S (S (S (S (S (S (S (S (S (S (S (S
               (S (S (S (S (S
               O))))))))))))))))))))))))))))))))))))))))))))))))))))))))))))))))
               a (app p (m :: [])) st0) (fun pat0 ->
             let (a', p') = pat0 in Ok ((a', p'), st0)))
       | EParen e' -> eval_place f e' en st
       | _ -> Stuck)
  and call0 fuel g vs st =
    match fuel with
    | O -> OutOfFuel
    | S f ->
      bind (of_opt (find_func prog g)) (fun fn ->
        if negb (Nat.eqb (length vs) (length fn.fparams))
        then Stuck
        else let (en, st0) =
               fold_left (fun pat pat0 ->
                 let (en, st0) = pat in
                 let (x, v) = pat0 in
                 let (a, st1) = alloc v st0 in (((x, a) :: en), st1))
                 (combine (map fst fn.fparams) vs) (genv, st)
             in
             bind (exec_list f fn.fbody en st0) (fun pat ->
               let (p, st1) = pat in
               let (o, en0) = p in
               (match o with
                | Normal ->
                  (match fn.fresult with
                   | Some e ->
                     bind (eval0 f e en0 st1) (fun pat0 ->
                       let (v, st2) = pat0 in Ok ((Some v), st2))
                   | None -> Ok (None, st1))
                | Jump _ -> Stuck)))
  and exec fuel s en st =
    match fuel with
    | O -> OutOfFuel
    | S f ->
      (match s with
       | SDecl (x, t, init) ->
         (match init with
          | Some e ->
            bind (eval0 f e en st) (fun pat ->
              let (v, st0) = pat in
              let (a, st1) = alloc v st0 in Ok ((Normal, ((x, a) :: en)), st1))
          | None ->
            let (a, st0) =
              alloc
                (zero_value prog.structs (S (S (S (S (S (S (S (S O)))))))) t)
                st
            in
            Ok ((Normal, ((x, a) :: en)), st0))
       | SAssign (lhs, rhs) ->
         bind (eval0 f rhs en st) (fun pat ->
           let (v, st0) = pat in
           bind (eval_place f lhs en st0) (fun pat0 ->
             let (p0, st1) = pat0 in
             let (a, p) = p0 in
             bind (of_opt (storev a p v st1)) (fun st2 -> Ok ((Normal, en),
               st2))))
       | SAssignAddr (_, x, rhs) ->
         bind (eval0 f rhs en st) (fun pat ->
           let (v, st0) = pat in
           bind (of_opt (lookup x en)) (fun a ->
             bind (of_opt (storev a [] v st0)) (fun st1 -> Ok ((Normal, en),
               st1))))
       | SIf (c, t, e) ->
         let Cmp (op, l, r) = c in
         bind (eval0 f l en st) (fun pat ->
           let (vl, st0) = pat in
           bind (eval0 f r en st0) (fun pat0 ->
             let (vr, st1) = pat0 in
             (match vl with
              | VInt (_, x) ->
                (match vr with
                 | VInt (_, y) ->
                   if src_cmp op x y
                   then exec f t en st1
                   else (match e with
                         | Some e' -> exec f e' en st1
                         | None -> Ok ((Normal, en), st1))
                 | _ -> Stuck)
              | _ -> Stuck)))
       | SGoto l -> Ok (((Jump l), en), st)
       | SLabel _ -> Ok ((Normal, en), st)
       | SBlock b ->
         bind (exec_block f b b en en st) (fun pat ->
           let (p, st0) = pat in let (o, _) = p in Ok ((o, en), st0))
       | SLoop -> Stuck
       | SCall (g, args) ->
         bind (eval_args f args en st) (fun pat ->
           let (vs, st0) = pat in
           bind (call0 f g vs st0) (fun pat0 ->
             let (_, st1) = pat0 in Ok ((Normal, en), st1)))
       | SPrint items ->
         bind (print f items [] en st) (fun st0 -> Ok ((Normal, en), st0)))
  and exec_block fuel whole rest en0 en st =
    match fuel with
    | O -> OutOfFuel
    | S f ->
      (match rest with
       | [] -> Ok ((Normal, en), st)
       | s :: r ->
         (match s with
          | SDecl (_, _, _) ->
            bind (exec f s en st) (fun pat ->
              let (p, st0) = pat in
              let (o, en') = p in
              (match o with
               | Normal -> exec_block f whole r en0 en' st0
               | Jump l ->
                 (match jump_target l r with
                  | Some r' -> exec_block f whole r' en0 en' st0
                  | None -> Ok (((Jump l), en'), st0))))
          | SAssign (_, _) ->
            bind (exec f s en st) (fun pat ->
              let (p, st0) = pat in
              let (o, en') = p in
              (match o with
               | Normal -> exec_block f whole r en0 en' st0
               | Jump l ->
                 (match jump_target l r with
                  | Some r' -> exec_block f whole r' en0 en' st0
                  | None -> Ok (((Jump l), en'), st0))))
          | SAssignAddr (_, _, _) ->
            bind (exec f s en st) (fun pat ->
              let (p, st0) = pat in
              let (o, en') = p in
              (match o with
               | Normal -> exec_block f whole r en0 en' st0
               | Jump l ->
                 (match jump_target l r with
                  | Some r' -> exec_block f whole r' en0 en' st0
                  | None -> Ok (((Jump l), en'), st0))))
          | SIf (_, _, _) ->
            bind (exec f s en st) (fun pat ->
              let (p, st0) = pat in
              let (o, en') = p in
              (match o with
               | Normal -> exec_block f whole r en0 en' st0
               | Jump l ->
                 (match jump_target l r with
                  | Some r' -> exec_block f whole r' en0 en' st0
                  | None -> Ok (((Jump l), en'), st0))))
          | SGoto _ ->
            bind (exec f s en st) (fun pat ->
              let (p, st0) = pat in
              let (o, en') = p in
              (match o with
               | Normal -> exec_block f whole r en0 en' st0
               | Jump l ->
                 (match jump_target l r with
                  | Some r' -> exec_block f whole r' en0 en' st0
                  | None -> Ok (((Jump l), en'), st0))))
          | SLabel _ ->
            bind (exec f s en st) (fun pat ->
              let (p, st0) = pat in
              let (o, en') = p in
              (match o with
               | Normal -> exec_block f whole r en0 en' st0
               | Jump l ->
                 (match jump_target l r with
                  | Some r' -> exec_block f whole r' en0 en' st0
                  | None -> Ok (((Jump l), en'), st0))))
          | SBlock _ ->
            bind (exec f s en st) (fun pat ->
              let (p, st0) = pat in
              let (o, en') = p in
              (match o with
               | Normal -> exec_block f whole r en0 en' st0
               | Jump l ->
                 (match jump_target l r with
                  | Some r' -> exec_block f whole r' en0 en' st0
                  | None -> Ok (((Jump l), en'), st0))))
          | SLoop ->
            (match r with
             | [] -> exec_block f whole whole en0 en0 st
             | _ :: _ ->
               bind (exec f s en st) (fun pat ->
                 let (p, st0) = pat in
                 let (o, en') = p in
                 (match o with
                  | Normal -> exec_block f whole r en0 en' st0
                  | Jump l ->
                    (match jump_target l r with
                     | Some r' -> exec_block f whole r' en0 en' st0
                     | None -> Ok (((Jump l), en'), st0)))))
          | SCall (_, _) ->
            bind (exec f s en st) (fun pat ->
              let (p, st0) = pat in
              let (o, en') = p in
              (match o with
               | Normal -> exec_block f whole r en0 en' st0
               | Jump l ->
                 (match jump_target l r with
                  | Some r' -> exec_block f whole r' en0 en' st0
                  | None -> Ok (((Jump l), en'), st0))))
          | SPrint _ ->
            bind (exec f s en st) (fun pat ->
              let (p, st0) = pat in
              let (o, en') = p in
              (match o with
               | Normal -> exec_block f whole r en0 en' st0
               | Jump l ->
                 (match jump_target l r with
                  | Some r' -> exec_block f whole r' en0 en' st0
                  | None -> Ok (((Jump l), en'), st0))))))
  and exec_list fuel ss en st =
    match fuel with
    | O -> OutOfFuel
    | S f ->
      (match ss with
       | [] -> Ok ((Normal, en), st)
       | s :: r ->
         bind (exec f s en st) (fun pat ->
           let (p, st0) = pat in
           let (o, en') = p in
           (match o with
            | Normal -> exec_list f r en' st0
            | Jump l ->
              (match jump_target l r with
               | Some r' -> exec_list f r' en' st0
               | None -> Ok (((Jump l), en'), st0)))))
  and print fuel items acc en st =
    match fuel with
    | O -> OutOfFuel
    | S f ->
      (match items with
       | [] ->
         Ok { store = st.store; nexta = st.nexta; out = (app st.out acc) }
       | p :: r ->
         (match p with
          | PStr bs -> print f r (app acc bs) en st
          | PExpr e ->
            bind (eval0 f e en st) (fun pat ->
              let (v, st0) = pat in
              bind (show_value v) (fun bs -> print f r (app acc bs) en st0))))
  in call0

(** val alloc_consts :
    nat -> program -> ((name * ty) * expr) list -> env -> state ->
    (env * state) res **)

let rec alloc_consts fuel prog cs genv st =
  match cs with
  | [] -> Ok (genv, st)
  | p :: r ->
    let (p0, e) = p in
    let (x, _) = p0 in
    bind (eval prog genv fuel e genv st) (fun pat ->
      let (v, st0) = pat in
      let (a, st1) = alloc v st0 in
      alloc_consts fuel prog r ((x, a) :: genv) st1)

(** val init_state : state **)

let init_state =
  { store = []; nexta = (Npos Coq_xH); out = [] }

(** val run_main : nat -> program -> name -> (coq_Z * coq_N list) res **)

let run_main fuel prog main =
  bind (alloc_consts fuel prog prog.consts [] init_state) (fun pat ->
    let (genv, st) = pat in
    bind (call prog genv fuel main [] st) (fun pat0 ->
      let (r, st0) = pat0 in
      (match r with
       | Some v0 ->
         (match v0 with
          | VInt (_, v) ->
            Ok
              ((Z.modulo v (Zpos (Coq_xO (Coq_xO (Coq_xO (Coq_xO (Coq_xO
                 (Coq_xO (Coq_xO (Coq_xO Coq_xH)))))))))), st0.out)
          | _ -> Stuck)
       | None -> Ok (Z0, st0.out))))
