open Ascii
open BinInt
open BinNat
open BinNums
open Datatypes
open IR
open List
open String
open Tok

(** val lenN : coq_N list -> coq_N **)

let lenN l =
  N.of_nat (length l)

(** val coq_MAX_SOURCE_LEN : coq_N **)

let coq_MAX_SOURCE_LEN =
  Npos (Coq_xO (Coq_xO (Coq_xO (Coq_xO (Coq_xO (Coq_xO (Coq_xO (Coq_xO
    (Coq_xO (Coq_xO (Coq_xO (Coq_xO (Coq_xO (Coq_xO (Coq_xO (Coq_xO (Coq_xO
    (Coq_xO (Coq_xO (Coq_xO (Coq_xO (Coq_xO (Coq_xO (Coq_xO (Coq_xO (Coq_xO
    (Coq_xO (Coq_xO (Coq_xO (Coq_xO (Coq_xO
    Coq_xH)))))))))))))))))))))))))))))))

(** val coq_MAX_NUM_TOKENS : coq_N **)

let coq_MAX_NUM_TOKENS =
  Npos (Coq_xO (Coq_xO (Coq_xO (Coq_xO (Coq_xO (Coq_xO (Coq_xO (Coq_xO
    (Coq_xO (Coq_xO (Coq_xO (Coq_xO (Coq_xO (Coq_xO (Coq_xO (Coq_xO (Coq_xO
    (Coq_xO (Coq_xO (Coq_xO (Coq_xO (Coq_xO (Coq_xO (Coq_xO
    Coq_xH))))))))))))))))))))))))

(** val coq_MAX_NUM_PAYLOADS : coq_N **)

let coq_MAX_NUM_PAYLOADS =
  Npos (Coq_xO (Coq_xO (Coq_xO (Coq_xO (Coq_xO (Coq_xO (Coq_xO (Coq_xO
    (Coq_xO (Coq_xO (Coq_xO (Coq_xO (Coq_xO (Coq_xO (Coq_xO (Coq_xO (Coq_xO
    (Coq_xO (Coq_xO (Coq_xO (Coq_xO (Coq_xO (Coq_xO (Coq_xO
    Coq_xH))))))))))))))))))))))))

(** val coq_MAX_NUM_LEXING_ERRORS : coq_N **)

let coq_MAX_NUM_LEXING_ERRORS =
  Npos (Coq_xO (Coq_xO (Coq_xI (Coq_xO (Coq_xO (Coq_xI Coq_xH))))))

(** val two128 : coq_N **)

let two128 =
  Npos (Coq_xO (Coq_xO (Coq_xO (Coq_xO (Coq_xO (Coq_xO (Coq_xO (Coq_xO
    (Coq_xO (Coq_xO (Coq_xO (Coq_xO (Coq_xO (Coq_xO (Coq_xO (Coq_xO (Coq_xO
    (Coq_xO (Coq_xO (Coq_xO (Coq_xO (Coq_xO (Coq_xO (Coq_xO (Coq_xO (Coq_xO
    (Coq_xO (Coq_xO (Coq_xO (Coq_xO (Coq_xO (Coq_xO (Coq_xO (Coq_xO (Coq_xO
    (Coq_xO (Coq_xO (Coq_xO (Coq_xO (Coq_xO (Coq_xO (Coq_xO (Coq_xO (Coq_xO
    (Coq_xO (Coq_xO (Coq_xO (Coq_xO (Coq_xO (Coq_xO (Coq_xO (Coq_xO (Coq_xO
    (Coq_xO (Coq_xO (Coq_xO (Coq_xO (Coq_xO (Coq_xO (Coq_xO (Coq_xO (Coq_xO
    (Coq_xO (Coq_xO (Coq_xO (Coq_xO (Coq_xO (Coq_xO (Coq_xO (Coq_xO (Coq_xO
    (Coq_xO (Coq_xO (Coq_xO (Coq_xO (Coq_xO (Coq_xO (Coq_xO (Coq_xO (Coq_xO
    (Coq_xO (Coq_xO (Coq_xO (Coq_xO (Coq_xO (Coq_xO (Coq_xO (Coq_xO (Coq_xO
    (Coq_xO (Coq_xO (Coq_xO (Coq_xO (Coq_xO (Coq_xO (Coq_xO (Coq_xO (Coq_xO
    (Coq_xO (Coq_xO (Coq_xO (Coq_xO (Coq_xO (Coq_xO (Coq_xO (Coq_xO (Coq_xO
    (Coq_xO (Coq_xO (Coq_xO (Coq_xO (Coq_xO (Coq_xO (Coq_xO (Coq_xO (Coq_xO
    (Coq_xO (Coq_xO (Coq_xO (Coq_xO (Coq_xO (Coq_xO (Coq_xO (Coq_xO (Coq_xO
    (Coq_xO (Coq_xO (Coq_xO
    Coq_xH))))))))))))))))))))))))))))))))))))))))))))))))))))))))))))))))))))))))))))))))))))))))))))))))))))))))))))))))))))))))))))))))

(** val two32 : coq_N **)

let two32 =
  Npos (Coq_xO (Coq_xO (Coq_xO (Coq_xO (Coq_xO (Coq_xO (Coq_xO (Coq_xO
    (Coq_xO (Coq_xO (Coq_xO (Coq_xO (Coq_xO (Coq_xO (Coq_xO (Coq_xO (Coq_xO
    (Coq_xO (Coq_xO (Coq_xO (Coq_xO (Coq_xO (Coq_xO (Coq_xO (Coq_xO (Coq_xO
    (Coq_xO (Coq_xO (Coq_xO (Coq_xO (Coq_xO (Coq_xO
    Coq_xH))))))))))))))))))))))))))))))))

(** val token_capacity : coq_N -> coq_N **)

let token_capacity source_len =
  N.min
    (N.max (N.div source_len (Npos (Coq_xO Coq_xH))) (Npos (Coq_xO (Coq_xO
      (Coq_xO (Coq_xO (Coq_xO (Coq_xO (Coq_xO (Coq_xO (Coq_xO (Coq_xO (Coq_xO
      (Coq_xO (Coq_xO (Coq_xO (Coq_xO (Coq_xO Coq_xH))))))))))))))))))
    coq_MAX_NUM_TOKENS

(** val error_capacity : coq_N -> coq_N **)

let error_capacity source_len =
  N.min source_len coq_MAX_NUM_LEXING_ERRORS

(** val bs : string -> coq_N list **)

let bs s =
  map coq_N_of_ascii (list_ascii_of_string s)

(** val ch : ascii -> coq_N **)

let ch =
  coq_N_of_ascii

(** val kw_table : (coq_N list * ((tkind * coq_Z) * tykw option)) list **)

let kw_table =
  ((bs (String ((Ascii (false, true, true, false, false, true, true, false)),
     (String ((Ascii (false, true, true, true, false, true, true, false)),
     EmptyString))))), ((KFn, Z0),
    None)) :: (((bs (String ((Ascii (false, true, true, false, true, true,
                  true, false)), (String ((Ascii (true, false, false, false,
                  false, true, true, false)), (String ((Ascii (false, true,
                  false, false, true, true, true, false)), EmptyString))))))),
    ((KVar, Z0),
    None)) :: (((bs (String ((Ascii (true, true, false, false, false, true,
                  true, false)), (String ((Ascii (true, true, true, true,
                  false, true, true, false)), (String ((Ascii (false, true,
                  true, true, false, true, true, false)), (String ((Ascii
                  (true, true, false, false, true, true, true, false)),
                  (String ((Ascii (false, false, true, false, true, true,
                  true, false)), EmptyString))))))))))), ((KConst, Z0),
    None)) :: (((bs (String ((Ascii (true, false, false, true, false, true,
                  true, false)), (String ((Ascii (false, true, true, false,
                  false, true, true, false)), EmptyString))))), ((KIf, Z0),
    None)) :: (((bs (String ((Ascii (true, true, true, false, false, true,
                  true, false)), (String ((Ascii (true, true, true, true,
                  false, true, true, false)), (String ((Ascii (false, false,
                  true, false, true, true, true, false)), (String ((Ascii
                  (true, true, true, true, false, true, true, false)),
                  EmptyString))))))))), ((KGoto, Z0),
    None)) :: (((bs (String ((Ascii (false, false, true, true, false, true,
                  true, false)), (String ((Ascii (true, true, true, true,
                  false, true, true, false)), (String ((Ascii (true, true,
                  true, true, false, true, true, false)), (String ((Ascii
                  (false, false, false, false, true, true, true, false)),
                  EmptyString))))))))), ((KLoop, Z0),
    None)) :: (((bs (String ((Ascii (false, true, false, false, true, true,
                  true, false)), (String ((Ascii (true, false, true, false,
                  false, true, true, false)), (String ((Ascii (false, false,
                  true, false, true, true, true, false)), (String ((Ascii
                  (true, false, true, false, true, true, true, false)),
                  (String ((Ascii (false, true, false, false, true, true,
                  true, false)), (String ((Ascii (false, true, true, true,
                  false, true, true, false)), EmptyString))))))))))))),
    ((KReturn, Z0),
    None)) :: (((bs (String ((Ascii (true, false, true, false, false, true,
                  true, false)), (String ((Ascii (false, false, true, true,
                  false, true, true, false)), (String ((Ascii (true, true,
                  false, false, true, true, true, false)), (String ((Ascii
                  (true, false, true, false, false, true, true, false)),
                  EmptyString))))))))), ((KElse, Z0),
    None)) :: (((bs (String ((Ascii (true, true, false, false, false, true,
                  true, false)), (String ((Ascii (true, false, false, false,
                  false, true, true, false)), (String ((Ascii (true, true,
                  false, false, true, true, true, false)), (String ((Ascii
                  (false, false, true, false, true, true, true, false)),
                  EmptyString))))))))), ((KCast, Z0),
    None)) :: (((bs (String ((Ascii (true, false, false, false, false, true,
                  true, false)), (String ((Ascii (true, true, false, false,
                  true, true, true, false)), EmptyString))))), ((KAs, Z0),
    None)) :: (((bs (String ((Ascii (false, false, true, false, true, true,
                  true, false)), (String ((Ascii (false, true, false, false,
                  true, true, true, false)), (String ((Ascii (true, false,
                  true, false, true, true, true, false)), (String ((Ascii
                  (true, false, true, false, false, true, true, false)),
                  EmptyString))))))))), ((KBool, (Zpos Coq_xH)),
    None)) :: (((bs (String ((Ascii (false, true, true, false, false, true,
                  true, false)), (String ((Ascii (true, false, false, false,
                  false, true, true, false)), (String ((Ascii (false, false,
                  true, true, false, true, true, false)), (String ((Ascii
                  (true, true, false, false, true, true, true, false)),
                  (String ((Ascii (true, false, true, false, false, true,
                  true, false)), EmptyString))))))))))), ((KBool, Z0),
    None)) :: (((bs (String ((Ascii (false, true, false, false, false, true,
                  true, false)), (String ((Ascii (true, true, true, true,
                  false, true, true, false)), (String ((Ascii (true, true,
                  true, true, false, true, true, false)), (String ((Ascii
                  (false, false, true, true, false, true, true, false)),
                  EmptyString))))))))), ((KType, Z0), (Some (TyPrim
    Bool)))) :: (((bs (String ((Ascii (false, true, true, false, true, true,
                    true, false)), (String ((Ascii (true, true, true, true,
                    false, true, true, false)), (String ((Ascii (true, false,
                    false, true, false, true, true, false)), (String ((Ascii
                    (false, false, true, false, false, true, true, false)),
                    EmptyString))))))))), ((KType, Z0), (Some
    TyVoid))) :: (((bs (String ((Ascii (true, true, false, false, false,
                     true, true, false)), (String ((Ascii (false, false,
                     false, true, false, true, true, false)), (String ((Ascii
                     (true, false, false, false, false, true, true, false)),
                     (String ((Ascii (false, true, false, false, true, true,
                     true, false)), (String ((Ascii (false, false, false,
                     true, true, true, false, false)), EmptyString))))))))))),
    ((KType, Z0), (Some (TyPrim
    Char8)))) :: (((bs (String ((Ascii (true, false, false, true, false,
                     true, true, false)), (String ((Ascii (true, false, true,
                     true, false, true, true, false)), (String ((Ascii
                     (false, false, false, false, true, true, true, false)),
                     (String ((Ascii (true, true, true, true, false, true,
                     true, false)), (String ((Ascii (false, true, false,
                     false, true, true, true, false)), (String ((Ascii
                     (false, false, true, false, true, true, true, false)),
                     EmptyString))))))))))))), ((KImport, Z0),
    None)) :: (((bs (String ((Ascii (false, false, false, false, true, true,
                  true, false)), (String ((Ascii (true, false, true, false,
                  true, true, true, false)), (String ((Ascii (false, true,
                  false, false, false, true, true, false)), EmptyString))))))),
    ((KPub, Z0),
    None)) :: (((bs (String ((Ascii (true, false, true, false, false, true,
                  true, false)), (String ((Ascii (false, false, false, true,
                  true, true, true, false)), (String ((Ascii (false, false,
                  true, false, true, true, true, false)), (String ((Ascii
                  (true, false, true, false, false, true, true, false)),
                  (String ((Ascii (false, true, false, false, true, true,
                  true, false)), (String ((Ascii (false, true, true, true,
                  false, true, true, false)), EmptyString))))))))))))),
    ((KExtern, Z0),
    None)) :: (((bs (String ((Ascii (true, true, false, false, true, true,
                  true, false)), (String ((Ascii (false, false, true, false,
                  true, true, true, false)), (String ((Ascii (false, true,
                  false, false, true, true, true, false)), (String ((Ascii
                  (true, false, true, false, true, true, true, false)),
                  (String ((Ascii (true, true, false, false, false, true,
                  true, false)), (String ((Ascii (false, false, true, false,
                  true, true, true, false)), EmptyString))))))))))))),
    ((KStruct, Z0),
    None)) :: (((bs (String ((Ascii (true, true, true, false, true, true,
                  true, false)), (String ((Ascii (true, true, true, true,
                  false, true, true, false)), (String ((Ascii (false, true,
                  false, false, true, true, true, false)), (String ((Ascii
                  (false, false, true, false, false, true, true, false)),
                  (String ((Ascii (false, false, false, true, true, true,
                  false, false)), EmptyString))))))))))), ((KWord8, Z0),
    None)) :: (((bs (String ((Ascii (true, true, true, false, true, true,
                  true, false)), (String ((Ascii (true, true, true, true,
                  false, true, true, false)), (String ((Ascii (false, true,
                  false, false, true, true, true, false)), (String ((Ascii
                  (false, false, true, false, false, true, true, false)),
                  (String ((Ascii (true, false, false, false, true, true,
                  false, false)), (String ((Ascii (false, true, true, false,
                  true, true, false, false)), EmptyString))))))))))))),
    ((KWord16, Z0),
    None)) :: (((bs (String ((Ascii (true, true, true, false, true, true,
                  true, false)), (String ((Ascii (true, true, true, true,
                  false, true, true, false)), (String ((Ascii (false, true,
                  false, false, true, true, true, false)), (String ((Ascii
                  (false, false, true, false, false, true, true, false)),
                  (String ((Ascii (true, true, false, false, true, true,
                  false, false)), (String ((Ascii (false, true, false, false,
                  true, true, false, false)), EmptyString))))))))))))),
    ((KWord32, Z0),
    None)) :: (((bs (String ((Ascii (true, true, true, false, true, true,
                  true, false)), (String ((Ascii (true, true, true, true,
                  false, true, true, false)), (String ((Ascii (false, true,
                  false, false, true, true, true, false)), (String ((Ascii
                  (false, false, true, false, false, true, true, false)),
                  (String ((Ascii (false, true, true, false, true, true,
                  false, false)), (String ((Ascii (false, false, true, false,
                  true, true, false, false)), EmptyString))))))))))))),
    ((KWord64, Z0),
    None)) :: (((bs (String ((Ascii (true, true, true, false, true, true,
                  true, false)), (String ((Ascii (true, true, true, true,
                  false, true, true, false)), (String ((Ascii (false, true,
                  false, false, true, true, true, false)), (String ((Ascii
                  (false, false, true, false, false, true, true, false)),
                  (String ((Ascii (true, false, false, false, true, true,
                  false, false)), (String ((Ascii (false, true, false, false,
                  true, true, false, false)), (String ((Ascii (false, false,
                  false, true, true, true, false, false)),
                  EmptyString))))))))))))))), ((KWord128, Z0),
    None)) :: (((bs (String ((Ascii (true, true, true, true, true, false,
                  true, false)), EmptyString))), ((KPlaceholder, Z0),
    None)) :: []))))))))))))))))))))))))

(** val suffix_table : (coq_N list * prim) list **)

let suffix_table =
  ((bs (String ((Ascii (true, false, false, true, false, true, true, false)),
     (String ((Ascii (false, false, false, true, true, true, false, false)),
     EmptyString))))),
    Int8) :: (((bs (String ((Ascii (true, false, false, true, false, true,
                 true, false)), (String ((Ascii (true, false, false, false,
                 true, true, false, false)), (String ((Ascii (false, true,
                 true, false, true, true, false, false)), EmptyString))))))),
    Int16) :: (((bs (String ((Ascii (true, false, false, true, false, true,
                  true, false)), (String ((Ascii (true, true, false, false,
                  true, true, false, false)), (String ((Ascii (false, true,
                  false, false, true, true, false, false)), EmptyString))))))),
    Int32) :: (((bs (String ((Ascii (true, false, false, true, false, true,
                  true, false)), (String ((Ascii (false, true, true, false,
                  true, true, false, false)), (String ((Ascii (false, false,
                  true, false, true, true, false, false)), EmptyString))))))),
    Int64) :: (((bs (String ((Ascii (true, false, false, true, false, true,
                  true, false)), (String ((Ascii (true, false, false, false,
                  true, true, false, false)), (String ((Ascii (false, true,
                  false, false, true, true, false, false)), (String ((Ascii
                  (false, false, false, true, true, true, false, false)),
                  EmptyString))))))))),
    Int128) :: (((bs (String ((Ascii (true, false, true, false, true, true,
                   true, false)), (String ((Ascii (false, false, false, true,
                   true, true, false, false)), EmptyString))))),
    Uint8) :: (((bs (String ((Ascii (true, false, true, false, true, true,
                  true, false)), (String ((Ascii (true, false, false, false,
                  true, true, false, false)), (String ((Ascii (false, true,
                  true, false, true, true, false, false)), EmptyString))))))),
    Uint16) :: (((bs (String ((Ascii (true, false, true, false, true, true,
                   true, false)), (String ((Ascii (true, true, false, false,
                   true, true, false, false)), (String ((Ascii (false, true,
                   false, false, true, true, false, false)),
                   EmptyString))))))),
    Uint32) :: (((bs (String ((Ascii (true, false, true, false, true, true,
                   true, false)), (String ((Ascii (false, true, true, false,
                   true, true, false, false)), (String ((Ascii (false, false,
                   true, false, true, true, false, false)), EmptyString))))))),
    Uint64) :: (((bs (String ((Ascii (true, false, true, false, true, true,
                   true, false)), (String ((Ascii (true, false, false, false,
                   true, true, false, false)), (String ((Ascii (false, true,
                   false, false, true, true, false, false)), (String ((Ascii
                   (false, false, false, true, true, true, false, false)),
                   EmptyString))))))))),
    Uint128) :: (((bs (String ((Ascii (true, false, true, false, true, true,
                    true, false)), (String ((Ascii (true, true, false, false,
                    true, true, true, false)), (String ((Ascii (true, false,
                    false, true, false, true, true, false)), (String ((Ascii
                    (false, true, false, true, true, true, true, false)),
                    (String ((Ascii (true, false, true, false, false, true,
                    true, false)), EmptyString))))))))))),
    Usize) :: []))))))))))

(** val punct_table : (coq_N * ((coq_N * tkind) list * tkind)) list **)

let punct_table =
  ((ch (Ascii (false, false, false, true, false, true, false, false))), ([],
    KParenLeft)) :: (((ch (Ascii (true, false, false, true, false, true,
                        false, false))), ([],
    KParenRight)) :: (((ch (Ascii (true, true, false, true, true, true, true,
                         false))), ([],
    KBraceLeft)) :: (((ch (Ascii (true, false, true, true, true, true, true,
                        false))), ([],
    KBraceRight)) :: (((ch (Ascii (true, true, false, true, true, false,
                         true, false))), ([],
    KBracketLeft)) :: (((ch (Ascii (true, false, true, true, true, false,
                          true, false))), ([],
    KBracketRight)) :: (((ch (Ascii (false, false, true, true, true, true,
                           false, false))),
    ((((ch (Ascii (false, false, true, true, true, true, false, false))),
    KShiftLeft) :: (((ch (Ascii (true, false, true, true, true, true, false,
                       false))), KIsLE) :: [])),
    KAngleLeft)) :: (((ch (Ascii (false, true, true, true, true, true, false,
                        false))),
    ((((ch (Ascii (false, true, true, true, true, true, false, false))),
    KShiftRight) :: (((ch (Ascii (true, false, true, true, true, true, false,
                        false))), KIsGE) :: [])),
    KAngleRight)) :: (((ch (Ascii (false, false, true, true, true, true,
                         true, false))),
    ((((ch (Ascii (false, true, false, true, true, true, false, false))),
    KPipeForType) :: []),
    KPipe)) :: (((ch (Ascii (false, true, true, false, false, true, false,
                   false))), ([],
    KAmpersand)) :: (((ch (Ascii (false, true, true, true, true, false, true,
                        false))), ([],
    KCaret)) :: (((ch (Ascii (true, false, false, false, false, true, false,
                    false))),
    ((((ch (Ascii (true, false, true, true, true, true, false, false))),
    KDoesNotEqual) :: []),
    KExclamation)) :: (((ch (Ascii (true, true, false, true, false, true,
                          false, false))), ([],
    KPlus)) :: (((ch (Ascii (false, true, false, true, false, true, false,
                   false))), ([],
    KTimes)) :: (((ch (Ascii (true, false, true, false, false, true, false,
                    false))), ([],
    KModulo)) :: (((ch (Ascii (false, true, false, true, true, true, false,
                     false))), ([],
    KColon)) :: (((ch (Ascii (true, true, false, true, true, true, false,
                    false))), ([],
    KSemicolon)) :: (((ch (Ascii (false, true, true, true, false, true,
                        false, false))),
    ((((ch (Ascii (false, true, true, true, false, true, false, false))),
    KDots) :: []),
    KDot)) :: (((ch (Ascii (false, false, true, true, false, true, false,
                  false))), ([],
    KComma)) :: (((ch (Ascii (true, false, true, true, true, true, false,
                    false))),
    ((((ch (Ascii (true, false, true, true, true, true, false, false))),
    KEquals) :: []),
    KAssignment)) :: (((ch (Ascii (true, false, true, true, false, true,
                         false, false))),
    ((((ch (Ascii (false, true, true, true, true, true, false, false))),
    KArrow) :: []), KMinus)) :: []))))))))))))))))))))

(** val simple_escape_table : (coq_N * coq_N) list **)

let simple_escape_table =
  ((ch (Ascii (false, true, true, true, false, true, true, false))), (Npos
    (Coq_xO (Coq_xI (Coq_xO
    Coq_xH))))) :: (((ch (Ascii (false, true, false, false, true, true, true,
                       false))), (Npos (Coq_xI (Coq_xO (Coq_xI
    Coq_xH))))) :: (((ch (Ascii (false, false, true, false, true, true, true,
                       false))), (Npos (Coq_xI (Coq_xO (Coq_xO
    Coq_xH))))) :: (((ch (Ascii (false, false, true, true, true, false, true,
                       false))), (Npos (Coq_xO (Coq_xO (Coq_xI (Coq_xI
    (Coq_xI (Coq_xO
    Coq_xH)))))))) :: (((ch (Ascii (true, true, true, false, false, true,
                          false, false))), (Npos (Coq_xI (Coq_xI (Coq_xI
    (Coq_xO (Coq_xO
    Coq_xH))))))) :: (((ch (Ascii (false, true, false, false, false, true,
                         false, false))), (Npos (Coq_xO (Coq_xI (Coq_xO
    (Coq_xO (Coq_xO
    Coq_xH))))))) :: (((ch (Ascii (false, false, false, false, true, true,
                         false, false))), N0) :: []))))))

(** val bytes_eqb : coq_N list -> coq_N list -> bool **)

let rec bytes_eqb x y =
  match x with
  | [] -> (match y with
           | [] -> true
           | _ :: _ -> false)
  | a :: x' ->
    (match y with
     | [] -> false
     | c :: y' -> (&&) (N.eqb a c) (bytes_eqb x' y'))

(** val assoc_bytes : coq_N list -> (coq_N list * 'a1) list -> 'a1 option **)

let rec assoc_bytes k = function
| [] -> None
| p :: t' ->
  let (k', v) = p in if bytes_eqb k k' then Some v else assoc_bytes k t'

(** val assoc_N : coq_N -> (coq_N * 'a1) list -> 'a1 option **)

let rec assoc_N k = function
| [] -> None
| p :: t' -> let (k', v) = p in if N.eqb k k' then Some v else assoc_N k t'

(** val parse_integer_suffix : coq_N list -> prim option **)

let parse_integer_suffix s =
  assoc_bytes s suffix_table

(** val in_range : coq_N -> coq_N -> coq_N -> bool **)

let in_range lo hi x =
  (&&) (N.leb lo x) (N.leb x hi)

(** val is_alpha : coq_N -> bool **)

let is_alpha x =
  (||)
    (in_range (Npos (Coq_xI (Coq_xO (Coq_xO (Coq_xO (Coq_xO (Coq_xI
      Coq_xH))))))) (Npos (Coq_xO (Coq_xI (Coq_xO (Coq_xI (Coq_xI (Coq_xI
      Coq_xH))))))) x)
    (in_range (Npos (Coq_xI (Coq_xO (Coq_xO (Coq_xO (Coq_xO (Coq_xO
      Coq_xH))))))) (Npos (Coq_xO (Coq_xI (Coq_xO (Coq_xI (Coq_xI (Coq_xO
      Coq_xH))))))) x)

(** val is_ident_start : coq_N -> bool **)

let is_ident_start x =
  (||) (is_alpha x)
    (N.eqb x (Npos (Coq_xI (Coq_xI (Coq_xI (Coq_xI (Coq_xI (Coq_xO
      Coq_xH))))))))

(** val is_ident_cont : coq_N -> bool **)

let is_ident_cont x =
  (||)
    ((||) (is_alpha x)
      (in_range (Npos (Coq_xO (Coq_xO (Coq_xO (Coq_xO (Coq_xI Coq_xH))))))
        (Npos (Coq_xI (Coq_xO (Coq_xO (Coq_xI (Coq_xI Coq_xH)))))) x))
    (N.eqb x (Npos (Coq_xI (Coq_xI (Coq_xI (Coq_xI (Coq_xI (Coq_xO
      Coq_xH))))))))

(** val is_ascii_graphic : coq_N -> bool **)

let is_ascii_graphic x =
  in_range (Npos (Coq_xI (Coq_xO (Coq_xO (Coq_xO (Coq_xO Coq_xH)))))) (Npos
    (Coq_xO (Coq_xI (Coq_xI (Coq_xI (Coq_xI (Coq_xI Coq_xH))))))) x

(** val dec_digit : coq_N -> coq_N option **)

let dec_digit a =
  if in_range (Npos (Coq_xO (Coq_xO (Coq_xO (Coq_xO (Coq_xI Coq_xH))))))
       (Npos (Coq_xI (Coq_xO (Coq_xO (Coq_xI (Coq_xI Coq_xH)))))) a
  then Some (N.coq_land a (Npos (Coq_xI (Coq_xI (Coq_xI Coq_xH)))))
  else None

(** val hex_digit : coq_N -> coq_N option **)

let hex_digit a =
  if in_range (Npos (Coq_xI (Coq_xO (Coq_xO (Coq_xO (Coq_xO (Coq_xO
       Coq_xH))))))) (Npos (Coq_xO (Coq_xI (Coq_xI (Coq_xO (Coq_xO (Coq_xO
       Coq_xH))))))) a
  then Some
         (N.add (N.coq_land a (Npos (Coq_xI (Coq_xI (Coq_xI Coq_xH))))) (Npos
           (Coq_xI (Coq_xO (Coq_xO Coq_xH)))))
  else if in_range (Npos (Coq_xI (Coq_xO (Coq_xO (Coq_xO (Coq_xO (Coq_xI
            Coq_xH))))))) (Npos (Coq_xO (Coq_xI (Coq_xI (Coq_xO (Coq_xO
            (Coq_xI Coq_xH))))))) a
       then Some
              (N.add (N.coq_land a (Npos (Coq_xI (Coq_xI (Coq_xI Coq_xH)))))
                (Npos (Coq_xI (Coq_xO (Coq_xO Coq_xH)))))
       else if in_range (Npos (Coq_xO (Coq_xO (Coq_xO (Coq_xO (Coq_xI
                 Coq_xH)))))) (Npos (Coq_xI (Coq_xO (Coq_xO (Coq_xI (Coq_xI
                 Coq_xH)))))) a
            then Some (N.coq_land a (Npos (Coq_xI (Coq_xI (Coq_xI Coq_xH)))))
            else None

(** val span_while :
    (coq_N -> bool) -> coq_N list -> coq_N list * coq_N list **)

let rec span_while p l = match l with
| [] -> ([], [])
| y :: r ->
  if p y then let (t, r') = span_while p r in ((y :: t), r') else ([], l)

(** val slice : coq_N list -> coq_N -> coq_N -> coq_N list **)

let slice l from to0 =
  firstn (N.to_nat (N.sub to0 from)) (skipn (N.to_nat from) l)

type action =
| ASkip
| ANewline
| ATok of tkind * coq_Z * tykw option * coq_N
| AErr of coq_Z * coq_N * coq_N
| AFuel

type step = { act : action; srest : coq_N list; send : coq_N; spanic : bool }

(** val mk_step : action -> coq_N list -> coq_N -> step **)

let mk_step a r e =
  { act = a; srest = r; send = e; spanic = false }

(** val lookup_keyword :
    coq_N list -> ((tkind * coq_Z) * tykw option) option **)

let lookup_keyword ident =
  match assoc_bytes ident kw_table with
  | Some r -> Some r
  | None ->
    (match parse_integer_suffix ident with
     | Some p -> Some ((KType, Z0), (Some (TyPrim p)))
     | None -> None)

(** val lex_ident : coq_N -> coq_N list -> coq_N -> step **)

let lex_ident x r i =
  let (t, r1) = span_while is_ident_cont r in
  let e1 = N.add (N.add i (Npos Coq_xH)) (lenN t) in
  (match lookup_keyword (x :: t) with
   | Some p ->
     let (p0, ty) = p in
     let (k, v) = p0 in mk_step (ATok (k, v, ty, e1)) r1 e1
   | None ->
     (match r1 with
      | [] -> mk_step (ATok (KIdentifier, Z0, None, e1)) r1 e1
      | y :: r2 ->
        if N.eqb y (Npos (Coq_xI (Coq_xO (Coq_xO (Coq_xO (Coq_xO Coq_xH))))))
        then mk_step (ATok (KBuiltin, Z0, None, (N.add e1 (Npos Coq_xH)))) r2
               (N.add e1 (Npos Coq_xH))
        else mk_step (ATok (KIdentifier, Z0, None, e1)) r1 e1))

type dacc = { dval : coq_N; dov : bool; dpanic : bool }

(** val dec_push : dacc -> coq_N -> dacc **)

let dec_push a d =
  let m = N.mul a.dval (Npos (Coq_xO (Coq_xI (Coq_xO Coq_xH)))) in
  let ov1 = N.leb two128 m in
  let v1 = if ov1 then N0 else m in
  let s = N.add v1 d in
  let ov2 = N.leb two128 s in
  { dval = (if ov2 then N0 else s); dov = ((||) ((||) a.dov ov1) ov2);
  dpanic = a.dpanic }

(** val scan_dec_with :
    (dacc -> coq_N -> dacc) -> dacc -> coq_N -> coq_N list ->
    (dacc * coq_N) * coq_N list **)

let rec scan_dec_with push a e l = match l with
| [] -> ((a, e), [])
| y :: r ->
  (match dec_digit y with
   | Some d -> scan_dec_with push (push a d) (N.add e (Npos Coq_xH)) r
   | None ->
     if N.eqb y (Npos (Coq_xI (Coq_xI (Coq_xI (Coq_xI (Coq_xI (Coq_xO
          Coq_xH)))))))
     then scan_dec_with push a (N.add e (Npos Coq_xH)) r
     else ((a, e), l))

(** val suffixed : coq_N -> coq_N list -> coq_N -> coq_N -> action **)

let suffixed v sfx i e2 =
  match parse_integer_suffix sfx with
  | Some p -> ATok (KSuffixedInteger, (Z.of_N v), (Some (TyPrim p)), e2)
  | None -> AErr (coq_E141, i, e2)

(** val lex_decimal_with :
    (dacc -> coq_N -> dacc) -> coq_N -> coq_N list -> coq_N -> step **)

let lex_decimal_with push x r i =
  let a0 = { dval = (N.coq_land x (Npos (Coq_xI (Coq_xI (Coq_xI Coq_xH)))));
    dov = false; dpanic = false }
  in
  let (p, r1) = scan_dec_with push a0 (N.add i (Npos Coq_xH)) r in
  let (a, e1) = p in
  let (sfx, r2) = span_while is_ident_cont r1 in
  let e2 = N.add e1 (lenN sfx) in
  let a' =
    if a.dov
    then AErr (coq_E140, i, e2)
    else (match sfx with
          | [] -> ATok (KNakedDecimal, (Z.of_N a.dval), None, e2)
          | _ :: _ -> suffixed a.dval sfx i e2)
  in
  { act = a'; srest = r2; send = e2; spanic = a.dpanic }

type hacc = { hval : coq_N; hdigits : bool; hov : bool }

(** val hex_push : hacc -> coq_N -> hacc **)

let hex_push a h =
  let m = N.mul a.hval (Npos (Coq_xO (Coq_xO (Coq_xO (Coq_xO Coq_xH))))) in
  let ov = N.leb two128 m in
  { hval = (N.coq_lor (if ov then N0 else m) h); hdigits = true; hov =
  ((||) a.hov ov) }

(** val scan_hex :
    hacc -> coq_N -> coq_N list -> (hacc * coq_N) * coq_N list **)

let rec scan_hex a e l = match l with
| [] -> ((a, e), [])
| y :: r ->
  (match hex_digit y with
   | Some h -> scan_hex (hex_push a h) (N.add e (Npos Coq_xH)) r
   | None ->
     if N.eqb y (Npos (Coq_xI (Coq_xI (Coq_xI (Coq_xI (Coq_xI (Coq_xO
          Coq_xH)))))))
     then scan_hex a (N.add e (Npos Coq_xH)) r
     else ((a, e), l))

(** val scan_bin :
    coq_N -> coq_N -> coq_N -> coq_N list ->
    ((coq_N * coq_N) * coq_N) * coq_N list **)

let rec scan_bin nd v e l = match l with
| [] -> (((nd, v), e), [])
| y :: r ->
  if N.ltb (Npos (Coq_xO (Coq_xO (Coq_xO (Coq_xO (Coq_xO (Coq_xO (Coq_xO
       Coq_xH)))))))) nd
  then (((nd, v), e), l)
  else if N.eqb y (Npos (Coq_xO (Coq_xO (Coq_xO (Coq_xO (Coq_xI Coq_xH))))))
       then scan_bin (N.add nd (Npos Coq_xH))
              (N.modulo (N.shiftl v (Npos Coq_xH)) two128)
              (N.add e (Npos Coq_xH)) r
       else if N.eqb y (Npos (Coq_xI (Coq_xO (Coq_xO (Coq_xO (Coq_xI
                 Coq_xH))))))
            then scan_bin (N.add nd (Npos Coq_xH))
                   (N.coq_lor (N.modulo (N.shiftl v (Npos Coq_xH)) two128)
                     (Npos Coq_xH)) (N.add e (Npos Coq_xH)) r
            else if N.eqb y (Npos (Coq_xI (Coq_xI (Coq_xI (Coq_xI (Coq_xI
                      (Coq_xO Coq_xH)))))))
                 then scan_bin nd v (N.add e (Npos Coq_xH)) r
                 else (((nd, v), e), l)

(** val zero_prefix :
    coq_N list -> coq_N -> ((coq_N option * coq_N) * coq_N) * coq_N list **)

let zero_prefix r e =
  match r with
  | [] -> ((((Some N0), e), e), r)
  | y :: r' ->
    if N.eqb y (Npos (Coq_xO (Coq_xO (Coq_xO (Coq_xI (Coq_xI (Coq_xI
         Coq_xH)))))))
    then let (p, r1) =
           scan_hex { hval = N0; hdigits = false; hov = false }
             (N.add e (Npos Coq_xH)) r'
         in
         let (a, e1) = p in
         if a.hdigits
         then ((((if a.hov then None else Some a.hval), e1), e1), r1)
         else ((((Some N0), e), e1), r1)
    else if N.eqb y (Npos (Coq_xO (Coq_xI (Coq_xO (Coq_xO (Coq_xO (Coq_xI
              Coq_xH)))))))
         then let (p, r1) = scan_bin N0 N0 (N.add e (Npos Coq_xH)) r' in
              let (p0, e1) = p in
              let (nd, v) = p0 in
              if N.ltb (Npos (Coq_xO (Coq_xO (Coq_xO (Coq_xO (Coq_xO (Coq_xO
                   (Coq_xO Coq_xH)))))))) nd
              then (((None, e), e1), r1)
              else if N.ltb N0 nd
                   then ((((Some v), e1), e1), r1)
                   else ((((Some N0), e), e1), r1)
         else ((((Some N0), e), e), r)

(** val lex_zero : coq_N list -> coq_N -> step **)

let lex_zero r i =
  let e = N.add i (Npos Coq_xH) in
  let (p, r1) = zero_prefix r e in
  let (p0, e1) = p in
  let (val0, eol) = p0 in
  let (t, r2) = span_while is_ident_cont r1 in
  let e2 = N.add e1 (lenN t) in
  let sfx = slice r (N.sub eol e) (N.sub e2 e) in
  let a =
    match val0 with
    | Some v ->
      if (&&) (N.eqb v N0) (N.eqb e2 e)
      then ATok (KNakedDecimal, Z0, None, e2)
      else if N.eqb e2 eol
           then ATok (KBitInteger, (Z.of_N v), None, e2)
           else suffixed v sfx i e2
    | None -> AErr (coq_E140, i, e2)
  in
  mk_step a r2 e2

type esc =
| EPush of coq_N
| ENone
| EErr of coq_Z * coq_N * coq_N

(** val is_scalar_value : coq_N -> bool **)

let is_scalar_value c =
  (||)
    (N.ltb c (Npos (Coq_xO (Coq_xO (Coq_xO (Coq_xO (Coq_xO (Coq_xO (Coq_xO
      (Coq_xO (Coq_xO (Coq_xO (Coq_xO (Coq_xI (Coq_xI (Coq_xO (Coq_xI
      Coq_xH)))))))))))))))))
    ((&&)
      (N.leb (Npos (Coq_xO (Coq_xO (Coq_xO (Coq_xO (Coq_xO (Coq_xO (Coq_xO
        (Coq_xO (Coq_xO (Coq_xO (Coq_xO (Coq_xO (Coq_xO (Coq_xI (Coq_xI
        Coq_xH)))))))))))))))) c)
      (N.leb c (Npos (Coq_xI (Coq_xI (Coq_xI (Coq_xI (Coq_xI (Coq_xI (Coq_xI
        (Coq_xI (Coq_xI (Coq_xI (Coq_xI (Coq_xI (Coq_xI (Coq_xI (Coq_xI
        (Coq_xI (Coq_xO (Coq_xO (Coq_xO (Coq_xO Coq_xH)))))))))))))))))))))))

(** val scan_udigits :
    coq_N -> coq_N -> coq_N -> coq_N list ->
    ((coq_N * coq_N) * coq_N) * coq_N list **)

let rec scan_udigits sod cu e l = match l with
| [] -> (((N0, cu), e), [])
| y :: l' ->
  (match hex_digit y with
   | Some h ->
     scan_udigits sod
       (N.coq_lor
         (N.modulo (N.shiftl cu (Npos (Coq_xO (Coq_xO Coq_xH)))) two32) h)
       (N.add e (Npos Coq_xH)) l'
   | None ->
     if N.eqb y (Npos (Coq_xI (Coq_xO (Coq_xI (Coq_xI (Coq_xI (Coq_xI
          Coq_xH)))))))
     then ((((if N.ltb sod e then N.sub e sod else N0), cu),
            (N.add e (Npos Coq_xH))), l')
     else (((N0, cu), e), l))

(** val scan_escape :
    bool -> coq_N -> coq_N list -> (esc * coq_N) * coq_N list **)

let scan_escape allow_u soe r =
  let e2 = N.add soe (Npos (Coq_xO Coq_xH)) in
  (match r with
   | [] ->
     (((EErr (coq_E161, soe, (N.add soe (Npos Coq_xH)))),
       (N.add soe (Npos Coq_xH))), [])
   | y :: r' ->
     (match assoc_N y simple_escape_table with
      | Some v -> (((EPush v), e2), r')
      | None ->
        if N.eqb y (Npos (Coq_xO (Coq_xO (Coq_xO (Coq_xI (Coq_xI (Coq_xI
             Coq_xH)))))))
        then (match r' with
              | [] -> (((EErr (coq_E162, soe, e2)), e2), r')
              | h1 :: r2 ->
                (match hex_digit h1 with
                 | Some d1 ->
                   (match r2 with
                    | [] ->
                      (((EErr (coq_E162, soe, (N.add e2 (Npos Coq_xH)))),
                        (N.add e2 (Npos Coq_xH))), r2)
                    | h2 :: r3 ->
                      (match hex_digit h2 with
                       | Some d2 ->
                         (((EPush
                           (N.coq_lor
                             (N.modulo
                               (N.shiftl d1 (Npos (Coq_xO (Coq_xO Coq_xH))))
                               (Npos (Coq_xO (Coq_xO (Coq_xO (Coq_xO (Coq_xO
                               (Coq_xO (Coq_xO (Coq_xO Coq_xH)))))))))) d2)),
                           (N.add e2 (Npos (Coq_xO Coq_xH)))), r3)
                       | None ->
                         (((EErr (coq_E162, soe, (N.add e2 (Npos Coq_xH)))),
                           (N.add e2 (Npos Coq_xH))), r2)))
                 | None -> (((EErr (coq_E162, soe, e2)), e2), r')))
        else if (&&) allow_u
                  (N.eqb y (Npos (Coq_xI (Coq_xO (Coq_xI (Coq_xO (Coq_xI
                    (Coq_xI Coq_xH))))))))
             then let (p, r3) =
                    match r' with
                    | [] -> (((N0, N0), e2), r')
                    | z :: r2 ->
                      if N.eqb z (Npos (Coq_xI (Coq_xI (Coq_xO (Coq_xI
                           (Coq_xI (Coq_xI Coq_xH)))))))
                      then scan_udigits (N.add e2 (Npos Coq_xH)) N0
                             (N.add e2 (Npos Coq_xH)) r2
                      else (((N0, N0), e2), r')
                  in
                  let (p0, e3) = p in
                  let (nd, cu) = p0 in
                  if (&&)
                       ((&&) (N.leb (Npos Coq_xH) nd)
                         (N.leb nd (Npos (Coq_xO (Coq_xI Coq_xH)))))
                       (is_scalar_value cu)
                  then ((ENone, e3), r3)
                  else (((EErr (coq_E162, soe, e3)), e3), r3)
             else (((EErr (coq_E162, soe, e2)), e2), r')))

type lit = { nb : coq_N; lastb : coq_N; lclosed : bool;
             ferr : ((coq_Z * coq_N) * coq_N) option }

(** val lit0 : lit **)

let lit0 =
  { nb = N0; lastb = N0; lclosed = false; ferr = None }

(** val lit_push : coq_N -> lit -> lit **)

let lit_push v s =
  { nb = (N.add s.nb (Npos Coq_xH)); lastb = v; lclosed = s.lclosed; ferr =
    s.ferr }

(** val lit_err : coq_Z -> coq_N -> coq_N -> lit -> lit **)

let lit_err c st en s =
  match s.ferr with
  | Some _ -> s
  | None ->
    { nb = s.nb; lastb = s.lastb; lclosed = s.lclosed; ferr = (Some ((c, st),
      en)) }

(** val lit_close : lit -> lit **)

let lit_close s =
  { nb = s.nb; lastb = s.lastb; lclosed = true; ferr = s.ferr }

(** val lit_esc : esc -> lit -> lit **)

let lit_esc o s =
  match o with
  | EPush v -> lit_push v s
  | ENone -> s
  | EErr (c, st, en) -> lit_err c st en s

(** val scan_lit :
    nat -> coq_N -> bool -> lit -> coq_N -> coq_N list ->
    ((lit * coq_N) * coq_N list) option **)

let rec scan_lit fuel q allow_u s e l =
  match fuel with
  | O -> None
  | S f ->
    (match l with
     | [] -> Some ((s, e), [])
     | x :: r ->
       if N.eqb x (Npos (Coq_xO (Coq_xI (Coq_xO Coq_xH))))
       then Some ((s, e), l)
       else if N.eqb x (Npos (Coq_xO (Coq_xO (Coq_xI (Coq_xI (Coq_xI (Coq_xO
                 Coq_xH)))))))
            then let (p, r') = scan_escape allow_u e r in
                 let (o, e') = p in scan_lit f q allow_u (lit_esc o s) e' r'
            else if N.eqb x q
                 then Some (((lit_close s), (N.add e (Npos Coq_xH))), r)
                 else if N.eqb x (Npos (Coq_xO (Coq_xO (Coq_xO (Coq_xO
                           (Coq_xO Coq_xH))))))
                      then scan_lit f q allow_u
                             (lit_push (Npos (Coq_xO (Coq_xO (Coq_xO (Coq_xO
                               (Coq_xO Coq_xH)))))) s)
                             (N.add e (Npos Coq_xH)) r
                      else if is_ascii_graphic x
                           then scan_lit f q allow_u (lit_push x s)
                                  (N.add e (Npos Coq_xH)) r
                           else if N.ltb x (Npos (Coq_xO (Coq_xO (Coq_xO
                                     (Coq_xO (Coq_xO (Coq_xO (Coq_xO
                                     Coq_xH))))))))
                                then scan_lit f q allow_u
                                       (lit_err coq_E110 e
                                         (N.add e (Npos Coq_xH)) s)
                                       (N.add e (Npos Coq_xH)) r
                                else scan_lit f q allow_u (lit_push x s)
                                       (N.add e (Npos Coq_xH)) r)

(** val finish_lit : bool -> coq_N -> lit -> coq_N -> action **)

let finish_lit is_char i s e =
  let s' = if s.lclosed then s else lit_err coq_E160 e e s in
  (match s'.ferr with
   | Some p -> let (p0, en) = p in let (c, st) = p0 in AErr (c, st, en)
   | None ->
     if is_char
     then if N.eqb s'.nb (Npos Coq_xH)
          then ATok (KCharLiteral, (Z.of_N s'.lastb), None, e)
          else AErr (coq_E163, i, e)
     else ATok (KStringLiteral, Z0, None, e))

(** val lex_literal : nat -> bool -> coq_N -> coq_N list -> coq_N -> step **)

let lex_literal fuel is_char q r i =
  match scan_lit fuel q (negb is_char) lit0 (N.add i (Npos Coq_xH)) r with
  | Some p ->
    let (p0, r') = p in
    let (s, e) = p0 in mk_step (finish_lit is_char i s e) r' e
  | None -> mk_step AFuel r (N.add i (Npos Coq_xH))

(** val lex_step_with :
    (dacc -> coq_N -> dacc) -> nat -> coq_N -> coq_N list -> coq_N -> step **)

let lex_step_with push fuel x r i =
  let e = N.add i (Npos Coq_xH) in
  if (||)
       ((||)
         (N.eqb x (Npos (Coq_xO (Coq_xO (Coq_xO (Coq_xO (Coq_xO Coq_xH)))))))
         (N.eqb x (Npos (Coq_xI (Coq_xO (Coq_xO Coq_xH))))))
       (N.eqb x (Npos (Coq_xI (Coq_xO (Coq_xI Coq_xH)))))
  then mk_step ASkip r e
  else if N.eqb x (Npos (Coq_xO (Coq_xI (Coq_xO Coq_xH))))
       then mk_step ANewline r e
       else if N.eqb x (Npos (Coq_xI (Coq_xI (Coq_xI (Coq_xI (Coq_xO
                 Coq_xH))))))
            then (match r with
                  | [] -> mk_step (ATok (KDivide, Z0, None, e)) r e
                  | y :: r' ->
                    if N.eqb y (Npos (Coq_xI (Coq_xI (Coq_xI (Coq_xI (Coq_xO
                         Coq_xH))))))
                    then let (t, r'') =
                           span_while (fun z ->
                             negb
                               (N.eqb z (Npos (Coq_xO (Coq_xI (Coq_xO
                                 Coq_xH)))))) r'
                         in
                         mk_step ASkip r''
                           (N.add (N.add e (Npos Coq_xH)) (lenN t))
                    else mk_step (ATok (KDivide, Z0, None, e)) r e)
            else (match assoc_N x punct_table with
                  | Some p ->
                    let (seconds, k1) = p in
                    (match r with
                     | [] -> mk_step (ATok (k1, Z0, None, e)) r e
                     | y :: r' ->
                       (match assoc_N y seconds with
                        | Some k2 ->
                          mk_step (ATok (k2, Z0, None,
                            (N.add e (Npos Coq_xH)))) r'
                            (N.add e (Npos Coq_xH))
                        | None -> mk_step (ATok (k1, Z0, None, e)) r e))
                  | None ->
                    if is_ident_start x
                    then lex_ident x r i
                    else if N.eqb x (Npos (Coq_xO (Coq_xO (Coq_xO (Coq_xO
                              (Coq_xI Coq_xH))))))
                         then lex_zero r i
                         else if in_range (Npos (Coq_xI (Coq_xO (Coq_xO
                                   (Coq_xO (Coq_xI Coq_xH)))))) (Npos (Coq_xI
                                   (Coq_xO (Coq_xO (Coq_xI (Coq_xI
                                   Coq_xH)))))) x
                              then lex_decimal_with push x r i
                              else if N.eqb x (Npos (Coq_xI (Coq_xI (Coq_xI
                                        (Coq_xO (Coq_xO Coq_xH))))))
                                   then lex_literal fuel true (Npos (Coq_xI
                                          (Coq_xI (Coq_xI (Coq_xO (Coq_xO
                                          Coq_xH)))))) r i
                                   else if N.eqb x (Npos (Coq_xO (Coq_xI
                                             (Coq_xO (Coq_xO (Coq_xO
                                             Coq_xH))))))
                                        then lex_literal fuel false (Npos
                                               (Coq_xO (Coq_xI (Coq_xO
                                               (Coq_xO (Coq_xO Coq_xH)))))) r
                                               i
                                        else mk_step (AErr (coq_E110, i, e))
                                               r e)

(** val has_payload : tkind -> bool **)

let has_payload = function
| KNakedDecimal -> true
| KBitInteger -> true
| KSuffixedInteger -> true
| KCharLiteral -> true
| KBool -> true
| _ -> false

(** val mk_tok :
    tkind -> coq_Z -> tykw option -> coq_N -> coq_N -> coq_N -> coq_N -> tok **)

let mk_tok k v ty st en ln sol =
  { kind = k; value = v; vtype = ty; bytes = []; tstart = st; tend = en;
    line = ln; lstart = (N.sub st sol) }

type loop_result =
| OutOfFuel
| AllocFail of bool
| Done of tok list * coq_N * coq_N * bool

(** val lr_cons : tok -> loop_result -> loop_result **)

let lr_cons t r = match r with
| Done (l, a, c, p) -> Done ((t :: l), a, c, p)
| _ -> r

(** val lr_panic : bool -> loop_result -> loop_result **)

let lr_panic p0 = function
| OutOfFuel -> OutOfFuel
| AllocFail p -> AllocFail ((||) p0 p)
| Done (l, a, c, p) -> Done (l, a, c, ((||) p0 p))

(** val lex_loop_with :
    (dacc -> coq_N -> dacc) -> nat -> coq_N list -> coq_N -> coq_N -> coq_N
    -> coq_N -> coq_N -> coq_N -> coq_N -> coq_N -> loop_result **)

let rec lex_loop_with push fuel rest pos ln sol ntok npay nerr cap errcap =
  match fuel with
  | O -> OutOfFuel
  | S f ->
    (match rest with
     | [] ->
       if N.leb cap (N.add ntok (Npos Coq_xH))
       then AllocFail false
       else Done ([], ln, sol, false)
     | x :: r ->
       let s = lex_step_with push f x r pos in
       lr_panic s.spanic
         (match s.act with
          | ASkip ->
            lex_loop_with push f s.srest s.send ln sol ntok npay nerr cap
              errcap
          | ANewline ->
            lex_loop_with push f s.srest s.send (N.add ln (Npos Coq_xH))
              (N.add pos (Npos Coq_xH)) ntok npay nerr cap errcap
          | ATok (k, v, ty, en) ->
            if (||) ((&&) (has_payload k) (N.leb coq_MAX_NUM_PAYLOADS npay))
                 (N.leb cap ntok)
            then AllocFail false
            else lr_cons (mk_tok k v ty pos en ln sol)
                   (lex_loop_with push f s.srest s.send ln sol
                     (N.add ntok (Npos Coq_xH))
                     (if has_payload k then N.add npay (Npos Coq_xH) else npay)
                     nerr cap errcap)
          | AErr (c, st, en) ->
            if N.leb errcap nerr
            then lex_loop_with push f s.srest s.send ln sol ntok npay nerr
                   cap errcap
            else if N.leb cap ntok
                 then AllocFail false
                 else lr_cons (mk_tok KError c None st en ln sol)
                        (lex_loop_with push f s.srest s.send ln sol
                          (N.add ntok (Npos Coq_xH)) npay
                          (N.add nerr (Npos Coq_xH)) cap errcap)
          | AFuel -> OutOfFuel))

(** val err_tok0 : coq_Z -> tok **)

let err_tok0 c =
  mk_tok KError c None N0 N0 N0 N0

(** val out_of_fuel_tok : tok **)

let out_of_fuel_tok =
  mk_tok KError Z0 None N0 N0 N0 N0

type lex_outcome =
| LexEmpty
| LexTooLong
| LexRun of loop_result

(** val lex_result_with :
    (dacc -> coq_N -> dacc) -> coq_N list -> lex_outcome **)

let lex_result_with push src =
  let len = lenN src in
  if N.eqb len N0
  then LexEmpty
  else if N.ltb coq_MAX_SOURCE_LEN len
       then LexTooLong
       else LexRun
              (lex_loop_with push (S (length src)) src N0 (Npos Coq_xH) N0 N0
                (Npos Coq_xH) N0 (token_capacity len) (error_capacity len))

(** val lex_delta_with : (dacc -> coq_N -> dacc) -> coq_N list -> tok list **)

let lex_delta_with push src =
  match lex_result_with push src with
  | LexEmpty -> (err_tok0 coq_E101) :: []
  | LexTooLong -> (err_tok0 coq_E102) :: []
  | LexRun r ->
    (match r with
     | OutOfFuel -> out_of_fuel_tok :: []
     | AllocFail _ -> (err_tok0 coq_E103) :: []
     | Done (toks, _, _, _) -> toks)

(** val num_end_tokens_with :
    (dacc -> coq_N -> dacc) -> coq_N list -> coq_N **)

let num_end_tokens_with push src =
  match lex_result_with push src with
  | LexRun r ->
    (match r with
     | Done (_, _, _, _) -> Npos (Coq_xO Coq_xH)
     | _ -> N0)
  | _ -> N0

(** val lex_delta : coq_N list -> tok list **)

let lex_delta =
  lex_delta_with dec_push

(** val num_end_tokens : coq_N list -> coq_N **)

let num_end_tokens =
  num_end_tokens_with dec_push
