open BinInt
open BinNat
open BinNums
open Common
open Datatypes
open IR
open List
open PeanoNat
open RefParser
open Tok

type perr =
| UnexpectedToken
| DepthExceeded

type 'a res =
| Ok of 'a
| Err of perr
| Fuel

(** val bind : 'a1 res -> ('a1 -> 'a2 res) -> 'a2 res **)

let bind r k =
  match r with
  | Ok a -> k a
  | Err e -> Err e
  | Fuel -> Fuel

(** val of_opt : perr -> 'a1 option -> 'a1 res **)

let of_opt e = function
| Some a -> Ok a
| None -> Err e

(** val to_opt : 'a1 res -> 'a1 option **)

let to_opt = function
| Ok a -> Some a
| _ -> None

(** val expect_r : (tkind -> bool) -> tok list -> tok list res **)

let expect_r p ts =
  of_opt UnexpectedToken (expect p ts)

(** val expect_id_r : tok list -> (name * tok list) res **)

let expect_id_r ts =
  of_opt UnexpectedToken (expect_id ts)

(** val parse_inner_type : nat -> tok list -> (ty * tok list) res **)

let rec parse_inner_type f ts =
  match f with
  | O -> Fuel
  | S f0 ->
    (match ts with
     | [] -> Err UnexpectedToken
     | t :: ts1 ->
       (match t.kind with
        | KParenLeft ->
          bind (parse_inner_type f0 ts1) (fun pat ->
            let (d, ts2) = pat in
            bind (expect_r isParenRight ts2) (fun ts3 -> Ok ((TView d), ts3)))
        | KBracketLeft ->
          (match ts1 with
           | [] -> Err UnexpectedToken
           | t1 :: ts2 ->
             (match t1.kind with
              | KBracketRight ->
                bind (parse_inner_type f0 ts2) (fun pat ->
                  let (e, ts3) = pat in Ok ((TArraylike e), ts3))
              | KColon ->
                bind (expect_r isBracketRight ts2) (fun ts3 ->
                  bind (parse_inner_type f0 ts3) (fun pat ->
                    let (e, ts4) = pat in Ok ((TSlice e), ts4)))
              | KDots ->
                bind (expect_r isBracketRight ts2) (fun ts3 ->
                  bind (parse_inner_type f0 ts3) (fun pat ->
                    let (e, ts4) = pat in Ok ((TEndless e), ts4)))
              | KIdentifier ->
                bind (expect_r isBracketRight ts2) (fun ts3 ->
                  bind (parse_inner_type f0 ts3) (fun pat ->
                    let (e, ts4) = pat in
                    Ok ((TArrayNamed ((tok_name t1), e)), ts4)))
              | KNakedDecimal ->
                bind (expect_r isBracketRight ts2) (fun ts3 ->
                  bind (parse_inner_type f0 ts3) (fun pat ->
                    let (e, ts4) = pat in
                    Ok ((TArray ((Z.modulo t1.value usize_lim), e)), ts4)))
              | _ -> Err UnexpectedToken))
        | KAmpersand ->
          bind (parse_inner_type f0 ts1) (fun pat ->
            let (d, ts2) = pat in Ok ((TPointer d), ts2))
        | KType ->
          (match t.vtype with
           | Some t0 ->
             (match t0 with
              | TyVoid -> Ok (TVoid, ts1)
              | TyPrim p -> Ok ((TPrim p), ts1))
           | None -> Err UnexpectedToken)
        | KIdentifier -> Ok ((TNamed (tok_name t)), ts1)
        | _ -> Err UnexpectedToken))

(** val parse_type : nat -> tok list -> (ty * tok list) res **)

let parse_type =
  parse_inner_type

(** val as_loop : nat -> expr -> tok list -> (expr * tok list) res **)

let rec as_loop f acc ts =
  match f with
  | O -> Fuel
  | S f0 ->
    if isAs (hdk ts)
    then bind (parse_type f0 (tl ts)) (fun pat ->
           let (t, ts1) = pat in as_loop f0 (ETypeCast (acc, t)) ts1)
    else Ok (acc, ts)

(** val amp_loop : coq_N -> tok list -> (coq_N * tok list) option **)

let rec amp_loop d ts = match ts with
| [] -> Some (d, ts)
| t :: r ->
  if isAmpersand t.kind
  then if N.ltb coq_MAX_ADDRESS_DEPTH (N.add d (Npos Coq_xH))
       then None
       else amp_loop (N.add d (Npos Coq_xH)) r
  else Some (d, ts)

(** val parse_addition_g : nat -> nat -> tok list -> (expr * tok list) res **)

let rec parse_addition_g lim f ts =
  match f with
  | O -> Fuel
  | S f0 ->
    bind (parse_multiplication_g lim f0 ts) (fun pat ->
      let (e, ts1) = pat in add_loop_g lim f0 e ts1)

(** val add_loop_g :
    nat -> nat -> expr -> tok list -> (expr * tok list) res **)

and add_loop_g lim f acc ts =
  match f with
  | O -> Fuel
  | S f0 ->
    (match bitop_of (hdk ts) with
     | Some op -> bit_loop_g lim f0 op acc (tl ts)
     | None ->
       (match shiftop_of (hdk ts) with
        | Some op ->
          bind (parse_unary_g lim f0 (tl ts)) (fun pat ->
            let (r, ts1) = pat in Ok ((EBinary (op, acc, r)), ts1))
        | None ->
          (match addop_of (hdk ts) with
           | Some op ->
             bind (parse_multiplication_g lim f0 (tl ts)) (fun pat ->
               let (r, ts1) = pat in
               add_loop_g lim f0 (EBinary (op, acc, r)) ts1)
           | None -> Ok (acc, ts))))

(** val bit_loop_g :
    nat -> nat -> binop -> expr -> tok list -> (expr * tok list) res **)

and bit_loop_g lim f op acc ts =
  match f with
  | O -> Fuel
  | S f0 ->
    bind (parse_unary_g lim f0 ts) (fun pat ->
      let (r, ts1) = pat in
      if same_bitop op (hdk ts1)
      then bit_loop_g lim f0 op (EBinary (op, acc, r)) (tl ts1)
      else Ok ((EBinary (op, acc, r)), ts1))

(** val parse_multiplication_g :
    nat -> nat -> tok list -> (expr * tok list) res **)

and parse_multiplication_g lim f ts =
  match f with
  | O -> Fuel
  | S f0 ->
    bind (parse_singular_g lim f0 ts) (fun pat ->
      let (e, ts1) = pat in mul_loop_g lim f0 e ts1)

(** val mul_loop_g :
    nat -> nat -> expr -> tok list -> (expr * tok list) res **)

and mul_loop_g lim f acc ts =
  match f with
  | O -> Fuel
  | S f0 ->
    (match mulop_of (hdk ts) with
     | Some op ->
       bind (parse_singular_g lim f0 (tl ts)) (fun pat ->
         let (r, ts1) = pat in mul_loop_g lim f0 (EBinary (op, acc, r)) ts1)
     | None -> Ok (acc, ts))

(** val parse_singular_g : nat -> nat -> tok list -> (expr * tok list) res **)

and parse_singular_g lim f ts =
  match f with
  | O -> Fuel
  | S f0 ->
    if isCast (hdk ts)
    then bind (parse_unary_g lim f0 (tl ts)) (fun pat ->
           let (e, ts1) = pat in as_loop f0 (EBitCast e) ts1)
    else bind (parse_unary_g lim f0 ts) (fun pat ->
           let (e, ts1) = pat in as_loop f0 e ts1)

(** val parse_unary_g : nat -> nat -> tok list -> (expr * tok list) res **)

and parse_unary_g lim f ts =
  match f with
  | O -> Fuel
  | S f0 ->
    (match hdk ts with
     | KPipe ->
       bind (parse_reference_g lim f0 (tl ts)) (fun pat ->
         let (r, ts1) = pat in
         bind (expect_r isPipe ts1) (fun ts2 -> Ok ((ELength r), ts2)))
     | KExclamation ->
       bind (parse_primary_g lim f0 (tl ts)) (fun pat ->
         let (e, ts1) = pat in Ok ((EUnary (BitwiseComplement, e)), ts1))
     | KMinus ->
       bind (parse_primary_g lim f0 (tl ts)) (fun pat ->
         let (e, ts1) = pat in Ok ((EUnary (Negative, e)), ts1))
     | KPipeForType ->
       bind (parse_type f0 (tl ts)) (fun pat ->
         let (t, ts1) = pat in
         bind (expect_r isPipe ts1) (fun ts2 -> Ok ((ESizeOf t), ts2)))
     | _ -> parse_primary_g lim f0 ts)

(** val parse_primary_g : nat -> nat -> tok list -> (expr * tok list) res **)

and parse_primary_g lim f ts =
  match f with
  | O -> Fuel
  | S f0 ->
    (match ts with
     | [] -> Err UnexpectedToken
     | t :: ts1 ->
       (match t.kind with
        | KParenLeft ->
          bind (parse_addition_g lim f0 ts1) (fun pat ->
            let (e, ts2) = pat in
            bind (expect_r isParenRight ts2) (fun ts3 -> Ok ((EParen e), ts3)))
        | KBracketLeft ->
          bind (expr_list_g lim f0 true ts1) (fun pat ->
            let (es, ts2) = pat in Ok ((EArray es), ts2))
        | KAmpersand ->
          bind (parse_addressed_g lim f0 ts1) (fun pat ->
            let (r, ts2) = pat in
            if isDots (hdk ts2)
            then bind (parse_addition_g lim f0 (tl ts2)) (fun pat0 ->
                   let (off, ts3) = pat0 in
                   Ok ((EBinary (AdvancePointer, (EDeref r), off)), ts3))
            else Ok ((EDeref r), ts2))
        | KIdentifier ->
          if isParenLeft (hdk ts1)
          then bind (expr_list_g lim f0 false (tl ts1)) (fun pat ->
                 let (args, ts2) = pat in
                 Ok ((ECall (false, (tok_name t), args)), ts2))
          else if isBraceLeft (hdk ts1)
               then bind (members_loop_g lim f0 (tl ts1)) (fun pat ->
                      let (ms, ts2) = pat in
                      Ok ((EStructural ((tok_name t), ms)), ts2))
               else bind (steps_loop_g lim f0 O ts1) (fun pat ->
                      let (steps, ts2) = pat in
                      Ok ((EDeref (Ref (N0, (tok_name t), steps))), ts2))
        | KBuiltin ->
          bind (expect_r isParenLeft ts1) (fun ts2 ->
            bind (expr_list_g lim f0 false ts2) (fun pat ->
              let (args, ts3) = pat in
              Ok ((ECall (true, (tok_name t), args)), ts3)))
        | KNakedDecimal ->
          (match literal_of t with
           | Some e -> Ok (e, ts1)
           | None -> Err UnexpectedToken)
        | KBitInteger ->
          (match literal_of t with
           | Some e -> Ok (e, ts1)
           | None -> Err UnexpectedToken)
        | KSuffixedInteger ->
          (match literal_of t with
           | Some e -> Ok (e, ts1)
           | None -> Err UnexpectedToken)
        | KCharLiteral ->
          (match literal_of t with
           | Some e -> Ok (e, ts1)
           | None -> Err UnexpectedToken)
        | KBool ->
          (match literal_of t with
           | Some e -> Ok (e, ts1)
           | None -> Err UnexpectedToken)
        | KStringLiteral ->
          let (bs, ts2) = take_strings ts1 in
          Ok ((EString (app t.bytes bs)), ts2)
        | _ -> Err UnexpectedToken))

(** val expr_list_g :
    nat -> nat -> bool -> tok list -> (expr list * tok list) res **)

and expr_list_g lim f br ts =
  match f with
  | O -> Fuel
  | S f0 ->
    if is_close br (hdk ts)
    then Ok ([], (tl ts))
    else bind (parse_addition_g lim f0 ts) (fun pat ->
           let (e, ts1) = pat in
           if isComma (hdk ts1)
           then bind (expr_list_g lim f0 br (tl ts1)) (fun pat0 ->
                  let (es, ts2) = pat0 in Ok ((e :: es), ts2))
           else bind (expect_r (is_close br) ts1) (fun ts2 -> Ok ((e :: []),
                  ts2)))

(** val members_loop_g :
    nat -> nat -> tok list -> ((name * expr) list * tok list) res **)

and members_loop_g lim f ts =
  match f with
  | O -> Fuel
  | S f0 ->
    if isBraceRight (hdk ts)
    then Ok ([], (tl ts))
    else bind (expect_id_r ts) (fun pat ->
           let (n, ts1) = pat in
           bind
             (if isColon (hdk ts1)
              then parse_addition_g lim f0 (tl ts1)
              else Ok ((EDeref (Ref (N0, n, []))), ts1)) (fun pat0 ->
             let (e, ts2) = pat0 in
             if isComma (hdk ts2)
             then bind (members_loop_g lim f0 (tl ts2)) (fun pat1 ->
                    let (ms, ts3) = pat1 in Ok (((n, e) :: ms), ts3))
             else bind (expect_r isBraceRight ts2) (fun ts3 -> Ok (((n,
                    e) :: []), ts3))))

(** val parse_addressed_g :
    nat -> nat -> tok list -> (reference * tok list) res **)

and parse_addressed_g lim f ts =
  match f with
  | O -> Fuel
  | S f0 ->
    (match amp_loop (Npos Coq_xH) ts with
     | Some p ->
       let (d, ts1) = p in
       bind (expect_id_r ts1) (fun pat ->
         let (b, ts2) = pat in
         bind (steps_loop_g lim f0 O ts2) (fun pat0 ->
           let (steps, ts3) = pat0 in Ok ((Ref (d, b, steps)), ts3)))
     | None -> Err DepthExceeded)

(** val parse_reference_g :
    nat -> nat -> tok list -> (reference * tok list) res **)

and parse_reference_g lim f ts =
  match f with
  | O -> Fuel
  | S f0 ->
    (match amp_loop N0 ts with
     | Some p ->
       let (d, ts1) = p in
       bind (expect_id_r ts1) (fun pat ->
         let (b, ts2) = pat in
         bind (steps_loop_g lim f0 O ts2) (fun pat0 ->
           let (steps, ts3) = pat0 in Ok ((Ref (d, b, steps)), ts3)))
     | None -> Err DepthExceeded)

(** val steps_loop_g :
    nat -> nat -> nat -> tok list -> (step list * tok list) res **)

and steps_loop_g lim f k ts =
  match f with
  | O -> Fuel
  | S f0 ->
    if Nat.leb lim k
    then Err DepthExceeded
    else if isBracketLeft (hdk ts)
         then bind (parse_addition_g lim f0 (tl ts)) (fun pat ->
                let (e, ts1) = pat in
                bind (expect_r isBracketRight ts1) (fun ts2 ->
                  bind (steps_loop_g lim f0 (S k) ts2) (fun pat0 ->
                    let (ss, ts3) = pat0 in Ok (((RsElement e) :: ss), ts3))))
         else if isDot (hdk ts)
              then bind (expect_id_r (tl ts)) (fun pat ->
                     let (m, ts1) = pat in
                     bind (steps_loop_g lim f0 (S k) ts1) (fun pat0 ->
                       let (ss, ts2) = pat0 in Ok (((RsMember m) :: ss), ts2)))
              else Ok ([], ts)

(** val coq_REPAIRED_ITERATIONS : nat **)

let coq_REPAIRED_ITERATIONS =
  S coq_MAX_REFERENCE_DEPTH

(** val parse_addition : nat -> tok list -> (expr * tok list) res **)

let parse_addition =
  parse_addition_g coq_REPAIRED_ITERATIONS

(** val parse_expression_res : nat -> tok list -> (expr * tok list) res **)

let parse_expression_res =
  parse_addition

(** val parse_expression : nat -> tok list -> (expr * tok list) option **)

let parse_expression f ts =
  to_opt (parse_expression_res f ts)

(** val fold_neg : expr -> expr **)

let fold_neg e = match e with
| ESigned (v, t) ->
  if Z.ltb Z0 v
  then ESigned ((Z.opp v), t)
  else EUnary (Negative, (ESigned (v, t)))
| EBits (v, t) ->
  if Z.eqb v i128_min_abs
  then ESigned ((Z.opp i128_min_abs), t)
  else EUnary (Negative, (EBits (v, t)))
| _ -> EUnary (Negative, e)

(** val fold_negative_literals : expr -> expr **)

let rec fold_negative_literals e = match e with
| EBinary (op, l, r) ->
  EBinary (op, (fold_negative_literals l), (fold_negative_literals r))
| EUnary (op, e1) ->
  (match op with
   | Negative -> fold_neg (fold_negative_literals e1)
   | BitwiseComplement ->
     EUnary (BitwiseComplement, (fold_negative_literals e1)))
| EArray es -> EArray (map fold_negative_literals es)
| EStructural (n, ms) ->
  EStructural (n,
    (map (fun me -> ((fst me), (fold_negative_literals (snd me)))) ms))
| EParen e1 -> EParen (fold_negative_literals e1)
| EDeref r -> EDeref (fold_ref r)
| EBitCast e1 -> EBitCast (fold_negative_literals e1)
| ETypeCast (e1, t) -> ETypeCast ((fold_negative_literals e1), t)
| ELength r -> ELength (fold_ref r)
| ECall (b, n, args) -> ECall (b, n, (map fold_negative_literals args))
| _ -> e

(** val fold_ref : reference -> reference **)

and fold_ref = function
| Ref (d, b, steps) -> Ref (d, b, (map fold_step steps))

(** val fold_step : step -> step **)

and fold_step = function
| RsElement e -> RsElement (fold_negative_literals e)
| RsMember m -> RsMember m

(** val is_bitop : binop -> bool **)

let is_bitop = function
| BitwiseAnd -> true
| BitwiseOr -> true
| BitwiseXor -> true
| _ -> false

(** val is_shiftop : binop -> bool **)

let is_shiftop = function
| ShiftLeft -> true
| ShiftRight -> true
| _ -> false

(** val head_is : binop -> expr -> bool **)

let head_is op = function
| EBinary (op', _, _) -> binop_eqb op op'
| _ -> false

(** val left_ok : binop -> expr -> bool **)

let left_ok op l =
  if is_bitop op
  then (||) (negb (is_binary l)) (head_is op l)
  else if is_shiftop op then negb (is_binary l) else true

(** val admissible : expr -> bool **)

let rec admissible = function
| EBinary (op, l, r) ->
  (&&) ((&&) (admissible l) (admissible r)) (left_ok op l)
| EUnary (_, e1) -> admissible e1
| EArray es -> forallb admissible es
| EStructural (_, ms) -> forallb (fun me -> admissible (snd me)) ms
| EParen e1 -> admissible e1
| EDeref r -> adm_ref r
| EBitCast e1 -> admissible e1
| ETypeCast (e1, t) -> (&&) (admissible e1) (ty_wellformed t)
| ELength r -> adm_ref r
| ESizeOf t -> ty_wellformed t
| ECall (_, _, args) -> forallb admissible args
| _ -> true

(** val adm_ref : reference -> bool **)

and adm_ref = function
| Ref (_, _, steps) -> forallb adm_step steps

(** val adm_step : step -> bool **)

and adm_step = function
| RsElement e -> admissible e
| RsMember _ -> true
