open List

type prim =
| Int8
| Int16
| Int32
| Int64
| Int128
| Uint8
| Uint16
| Uint32
| Uint64
| Uint128
| Usize
| Char8
| Bool

(** val prim_eqb : prim -> prim -> bool **)

let prim_eqb a b =
  match a with
  | Int8 -> (match b with
             | Int8 -> true
             | _ -> false)
  | Int16 -> (match b with
              | Int16 -> true
              | _ -> false)
  | Int32 -> (match b with
              | Int32 -> true
              | _ -> false)
  | Int64 -> (match b with
              | Int64 -> true
              | _ -> false)
  | Int128 -> (match b with
               | Int128 -> true
               | _ -> false)
  | Uint8 -> (match b with
              | Uint8 -> true
              | _ -> false)
  | Uint16 -> (match b with
               | Uint16 -> true
               | _ -> false)
  | Uint32 -> (match b with
               | Uint32 -> true
               | _ -> false)
  | Uint64 -> (match b with
               | Uint64 -> true
               | _ -> false)
  | Uint128 -> (match b with
                | Uint128 -> true
                | _ -> false)
  | Usize -> (match b with
              | Usize -> true
              | _ -> false)
  | Char8 -> (match b with
              | Char8 -> true
              | _ -> false)
  | Bool -> (match b with
             | Bool -> true
             | _ -> false)

type binop =
| Add
| Subtract
| Multiply
| Divide
| Modulo
| BitwiseAnd
| BitwiseOr
| BitwiseXor
| ShiftLeft
| ShiftRight
| AdvancePointer

type unop =
| Negative
| BitwiseComplement

type cmpop =
| Equals
| DoesNotEqual
| IsGreater
| IsGE
| IsLess
| IsLE

type instr =
| IAdd
| ISub
| IMul
| ISDiv
| IUDiv
| ISRem
| IURem
| IAnd
| IOr
| IXor
| IShl
| ILShr
| IAShr
| IGEP
| INeg
| INot
| IAddNSW
| IAddNUW
| ISubNSW
| ISubNUW
| IMulNSW
| IMulNUW
| ISDivExact
| INegNSW
| IOther

type pred =
| PEq
| PNe
| PSgt
| PUgt
| PSlt
| PUlt
| PSge
| PUge
| PSle
| PUle

type cast =
| CTrunc
| CSExt
| CZExt
| CNone

type operand_type =
| OPrim of prim
| OPointer

(** val operand_eqb : operand_type -> operand_type -> bool **)

let operand_eqb a b =
  match a with
  | OPrim x -> (match b with
                | OPrim y -> prim_eqb x y
                | OPointer -> false)
  | OPointer -> (match b with
                 | OPrim _ -> false
                 | OPointer -> true)

(** val mem_operand : operand_type -> operand_type list -> bool **)

let mem_operand a l =
  existsb (operand_eqb a) l
