
val app : 'a1 list -> 'a1 list -> 'a1 list

type comparison =
| Eq
| Lt
| Gt
