
val negb : bool -> bool

val fst : ('a1 * 'a2) -> 'a1

val snd : ('a1 * 'a2) -> 'a2

val app : 'a1 list -> 'a1 list -> 'a1 list

type comparison =
| Eq
| Lt
| Gt
