
val negb : bool -> bool

type nat =
| O
| S of nat

val fst : ('a1 * 'a2) -> 'a1

val snd : ('a1 * 'a2) -> 'a2

val length : 'a1 list -> nat

val app : 'a1 list -> 'a1 list -> 'a1 list

type comparison =
| Eq
| Lt
| Gt

val coq_CompOpp : comparison -> comparison
