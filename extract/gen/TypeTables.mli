open BinInt
open BinNums
open IR

val vt_is_integral : prim -> bool

val vt_is_signed : prim -> bool

val vt_is_bitfield : prim -> bool

val vt_word_member_size : prim -> coq_Z option

val vt_min : prim -> coq_Z

val vt_max : prim -> coq_Z

val vt_bits : coq_Z -> prim -> coq_Z
