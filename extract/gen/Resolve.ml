open BinNat
open BinNums
open Common
open Datatypes
open IR
open List
open PeanoNat
open ResolverTables
open TypeTables

(** val coq_E510 : code **)

let coq_E510 =
  Npos (Coq_xO (Coq_xI (Coq_xI (Coq_xI (Coq_xI (Coq_xI (Coq_xI (Coq_xI
    Coq_xH))))))))

(** val coq_E511 : code **)

let coq_E511 =
  Npos (Coq_xI (Coq_xI (Coq_xI (Coq_xI (Coq_xI (Coq_xI (Coq_xI (Coq_xI
    Coq_xH))))))))

(** val coq_E512 : code **)

let coq_E512 =
  Npos (Coq_xO (Coq_xO (Coq_xO (Coq_xO (Coq_xO (Coq_xO (Coq_xO (Coq_xO
    (Coq_xO Coq_xH)))))))))

(** val coq_E513 : code **)

let coq_E513 =
  Npos (Coq_xI (Coq_xO (Coq_xO (Coq_xO (Coq_xO (Coq_xO (Coq_xO (Coq_xO
    (Coq_xO Coq_xH)))))))))

(** val coq_E550 : code **)

let coq_E550 =
  Npos (Coq_xO (Coq_xI (Coq_xI (Coq_xO (Coq_xO (Coq_xI (Coq_xO (Coq_xO
    (Coq_xO Coq_xH)))))))))

(** val coq_E551 : code **)

let coq_E551 =
  Npos (Coq_xI (Coq_xI (Coq_xI (Coq_xO (Coq_xO (Coq_xI (Coq_xO (Coq_xO
    (Coq_xO Coq_xH)))))))))

(** val coq_E552 : code **)

let coq_E552 =
  Npos (Coq_xO (Coq_xO (Coq_xO (Coq_xI (Coq_xO (Coq_xI (Coq_xO (Coq_xO
    (Coq_xO Coq_xH)))))))))

(** val coq_E553 : code **)

let coq_E553 =
  Npos (Coq_xI (Coq_xO (Coq_xO (Coq_xI (Coq_xO (Coq_xI (Coq_xO (Coq_xO
    (Coq_xO Coq_xH)))))))))

(** val coq_E580 : code **)

let coq_E580 =
  Npos (Coq_xO (Coq_xO (Coq_xI (Coq_xO (Coq_xO (Coq_xO (Coq_xI (Coq_xO
    (Coq_xO Coq_xH)))))))))

(** val coq_E582 : code **)

let coq_E582 =
  Npos (Coq_xO (Coq_xI (Coq_xI (Coq_xO (Coq_xO (Coq_xO (Coq_xI (Coq_xO
    (Coq_xO Coq_xH)))))))))

(** val coq_E583 : code **)

let coq_E583 =
  Npos (Coq_xI (Coq_xI (Coq_xI (Coq_xO (Coq_xO (Coq_xO (Coq_xI (Coq_xO
    (Coq_xO Coq_xH)))))))))

type vtype =
| VPrim of prim
| VPointer of coq_N
| VOther of coq_N

(** val vtype_eqb : vtype -> vtype -> bool **)

let vtype_eqb a b =
  match a with
  | VPrim x -> (match b with
                | VPrim y -> prim_eqb x y
                | _ -> false)
  | VPointer x -> (match b with
                   | VPointer y -> N.eqb x y
                   | _ -> false)
  | VOther x -> (match b with
                 | VOther y -> N.eqb x y
                 | _ -> false)

(** val is_pointer : vtype -> bool **)

let is_pointer = function
| VPointer _ -> true
| _ -> false

type poison =
| Poisoned
| PError of code

(** val poison_codes : poison -> code list **)

let poison_codes = function
| Poisoned -> []
| PError c -> c :: []

type 'a result =
| ROk of 'a
| RPoison of poison

type ann = vtype result option

type leafkind =
| LInteger
| LArrayLit
| LDeref
| LOther

(** val ambiguity_code : leafkind -> code **)

let ambiguity_code = function
| LInteger -> coq_E582
| LArrayLit -> coq_E583
| _ -> coq_E580

type texpr =
| TLeaf of leafkind * ann
| TPoison of poison
| TBinary of binop * texpr * texpr
| TUnary of unop * texpr
| TParen of texpr
| TAutocoerce of texpr * vtype
| TTypeCast of texpr * vtype
| TBitCast of texpr * ann
| TCall of coq_N * texpr list * ann

type tcmp =
| TCmp of cmpop * texpr * texpr

(** val value_type : texpr -> ann **)

let rec value_type = function
| TLeaf (_, a) -> a
| TPoison _ -> Some (RPoison Poisoned)
| TBinary (_, l, _) -> value_type l
| TUnary (_, x) -> value_type x
| TParen x -> value_type x
| TAutocoerce (_, t) -> Some (ROk t)
| TTypeCast (_, t) -> Some (ROk t)
| TBitCast (_, a) -> a
| TCall (_, _, a) -> a

type 'a res =
| Ok of 'a
| Err of code list

(** val bind : 'a1 res -> ('a1 -> 'a2 res) -> 'a2 res **)

let bind r f =
  match r with
  | Ok a -> f a
  | Err es -> Err es

(** val combine2 : 'a1 res -> 'a2 res -> ('a1 * 'a2) res **)

let combine2 a b =
  match a with
  | Ok x -> (match b with
             | Ok y -> Ok (x, y)
             | Err es -> Err es)
  | Err es -> (match b with
               | Ok _ -> Err es
               | Err more -> Err (app es more))

(** val of_ann : code -> ann -> vtype res **)

let of_ann amb = function
| Some r -> (match r with
             | ROk t -> Ok t
             | RPoison p -> Err (poison_codes p))
| None -> Err (amb :: [])

(** val get_type_of_operand : texpr -> vtype res **)

let get_type_of_operand e =
  of_ann coq_E580 (value_type e)

(** val match_type_of_operands : texpr -> texpr -> vtype res **)

let match_type_of_operands l r =
  match value_type l with
  | Some r0 ->
    (match r0 with
     | ROk lvt ->
       (match value_type r with
        | Some r1 ->
          (match r1 with
           | ROk rvt ->
             if vtype_eqb rvt lvt then Ok lvt else Err (coq_E551 :: [])
           | RPoison q -> Err (poison_codes q))
        | None -> Err (coq_E580 :: []))
     | RPoison p ->
       (match value_type r with
        | Some r1 ->
          (match r1 with
           | ROk _ -> Err (poison_codes p)
           | RPoison q -> Err (app (poison_codes p) (poison_codes q)))
        | None -> Err (poison_codes p)))
  | None ->
    (match value_type r with
     | Some r0 ->
       (match r0 with
        | ROk _ -> Err (coq_E580 :: [])
        | RPoison q -> Err (poison_codes q))
     | None -> Err (coq_E580 :: []))

(** val valid_operand : vtype -> operand_type list -> bool **)

let valid_operand t valid =
  existsb (fun o ->
    match o with
    | OPrim p -> vtype_eqb (VPrim p) t
    | OPointer -> is_pointer t) valid

(** val analyze_operand_type : vtype -> operand_type list -> vtype res **)

let analyze_operand_type t valid =
  if valid_operand t valid then Ok t else Err (coq_E550 :: [])

(** val is_advance : binop -> bool **)

let is_advance = function
| AdvancePointer -> true
| _ -> false

(** val resolve_binary_op_type : binop -> texpr -> texpr -> vtype res **)

let resolve_binary_op_type op l r =
  bind
    (if is_advance op
     then bind (get_type_of_operand r) (fun offset_type ->
            bind (analyze_operand_type offset_type valid_types_for_offset)
              (fun _ -> get_type_of_operand l))
     else match_type_of_operands l r) (fun vt ->
    analyze_operand_type vt (binop_valid_types op))

(** val resolve_unary_op_type : unop -> texpr -> vtype res **)

let resolve_unary_op_type op e =
  bind (get_type_of_operand e) (fun vt ->
    analyze_operand_type vt (unop_valid_types op))

(** val resolve_compared_type : cmpop -> texpr -> texpr -> vtype res **)

let resolve_compared_type op l r =
  bind (match_type_of_operands l r) (fun vt ->
    analyze_operand_type vt (cmpop_valid_types op))

(** val is_valid_bit_cast : vtype -> vtype -> bool **)

let is_valid_bit_cast s d =
  (||) (vtype_eqb s d) ((&&) (is_pointer s) (is_pointer d))

(** val prim_conversion : vtype -> vtype -> bool **)

let prim_conversion s d =
  match s with
  | VPrim a ->
    (match d with
     | VPrim b ->
       is_valid_primitive_conversion a b (vt_is_integral a) (vt_is_integral b)
     | _ -> false)
  | _ -> false

(** val analyze_bit_cast : texpr -> ann -> vtype res **)

let analyze_bit_cast e coerced =
  bind (of_ann coq_E580 (value_type e)) (fun vt ->
    bind (of_ann coq_E580 coerced) (fun ct ->
      if is_valid_bit_cast vt ct then Ok ct else Err (coq_E553 :: [])))

(** val analyze_primitive_cast : texpr -> vtype -> vtype option res **)

let analyze_primitive_cast e coerced =
  bind (of_ann coq_E580 (value_type e)) (fun vt ->
    if vtype_eqb vt coerced
    then Ok None
    else if prim_conversion vt coerced
         then Ok (Some vt)
         else Err (coq_E552 :: []))

type rexpr =
| RLeaf of vtype
| RBinary of binop * rexpr * rexpr * vtype
| RUnary of unop * rexpr * vtype
| RParen of rexpr
| RAutocoerce of rexpr * vtype
| RPrimCast of rexpr * vtype * vtype
| RBitCast of rexpr * vtype
| RCall of coq_N * rexpr list * vtype

type rcmp =
| RCmp of cmpop * rexpr * rexpr * vtype

(** val resolve_list :
    (texpr -> rexpr res) -> texpr list -> rexpr list res **)

let rec resolve_list f = function
| [] -> Ok []
| x :: rest ->
  (match f x with
   | Ok y ->
     (match resolve_list f rest with
      | Ok ys -> Ok (y :: ys)
      | Err es -> Err es)
   | Err es ->
     (match resolve_list f rest with
      | Ok _ -> Err es
      | Err more -> Err (app es more)))

(** val resolve_expr : texpr -> rexpr res **)

let rec resolve_expr = function
| TLeaf (k, a) -> bind (of_ann (ambiguity_code k) a) (fun t -> Ok (RLeaf t))
| TPoison p -> Err (poison_codes p)
| TBinary (op, l, r) ->
  let op_type = resolve_binary_op_type op l r in
  bind (combine2 (resolve_expr l) (resolve_expr r)) (fun lr ->
    bind op_type (fun t -> Ok (RBinary (op, (fst lr), (snd lr), t))))
| TUnary (op, x) ->
  let op_type = resolve_unary_op_type op x in
  bind (resolve_expr x) (fun x' ->
    bind op_type (fun t -> Ok (RUnary (op, x', t))))
| TParen x -> bind (resolve_expr x) (fun x' -> Ok (RParen x'))
| TAutocoerce (x, t) ->
  bind (resolve_expr x) (fun x' -> Ok (RAutocoerce (x', t)))
| TTypeCast (x, target) ->
  let expression_type = analyze_primitive_cast x target in
  bind (resolve_expr x) (fun x' ->
    bind expression_type (fun et ->
      match et with
      | Some src -> Ok (RPrimCast (x', src, target))
      | None -> Ok x'))
| TBitCast (x, a) ->
  let coerced_type = analyze_bit_cast x a in
  bind (resolve_expr x) (fun x' ->
    bind coerced_type (fun ct -> Ok (RBitCast (x', ct))))
| TCall (f, args, a) ->
  bind (resolve_list resolve_expr args) (fun args' ->
    bind (of_ann coq_E580 a) (fun rt -> Ok (RCall (f, args', rt))))

(** val resolve_cmp : tcmp -> rcmp res **)

let resolve_cmp = function
| TCmp (op, l, r) ->
  let compared_type = resolve_compared_type op l r in
  bind (combine2 (resolve_expr l) (resolve_expr r)) (fun lr ->
    bind compared_type (fun t -> Ok (RCmp (op, (fst lr), (snd lr), t))))

type param = { p_named : bool; p_type : vtype result }

type arg = { a_deref : bool; a_type : ann }

(** val check_args :
    (vtype -> vtype -> bool) -> param list -> arg list -> code list **)

let rec check_args addr_hint ps xs =
  match ps with
  | [] -> []
  | p :: ps' ->
    (match xs with
     | [] -> []
     | x :: xs' ->
       (match p.p_type with
        | ROk pt ->
          (match x.a_type with
           | Some r ->
             (match r with
              | ROk at_ ->
                if (&&) (negb (vtype_eqb pt at_)) p.p_named
                then if (&&) x.a_deref (addr_hint at_ pt)
                     then coq_E513 :: []
                     else coq_E512 :: []
                else check_args addr_hint ps' xs'
              | RPoison _ -> check_args addr_hint ps' xs')
           | None -> check_args addr_hint ps' xs')
        | RPoison _ -> check_args addr_hint ps' xs'))

(** val check_call_gen :
    (vtype -> vtype -> bool) -> param list -> arg list -> code list **)

let check_call_gen addr_hint ps xs =
  if Nat.ltb (length xs) (length ps)
  then coq_E510 :: []
  else if Nat.ltb (length ps) (length xs)
       then coq_E511 :: []
       else check_args addr_hint ps xs

(** val check_call : vtype list -> vtype list -> code list **)

let check_call params args =
  check_call_gen (fun _ _ -> false)
    (map (fun t -> { p_named = true; p_type = (ROk t) }) params)
    (map (fun t -> { a_deref = false; a_type = (Some (ROk t)) }) args)
