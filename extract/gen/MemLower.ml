open BinInt
open BinNums
open Datatypes
open Layout
open List
open Nat

type value =
| VS of coq_Z
| VArr of value list
| VStruct of value list

type step =
| SElem of coq_Z
| SMember of nat

type path = step list

type cell =
| CPad
| CFrag of coq_Z * coq_Z * coq_Z

type mem = coq_Z -> cell

(** val scalar_size : ty -> coq_Z **)

let scalar_size = function
| TInt b -> b
| TBool -> Zpos Coq_xH
| TPtr -> Zpos (Coq_xO (Coq_xO (Coq_xO Coq_xH)))
| _ -> Z0

(** val enc : ty -> value -> coq_Z -> cell **)

let rec enc t v o =
  match v with
  | VS z ->
    (match t with
     | TInt b ->
       if (&&) (Z.leb Z0 o) (Z.ltb o b) then CFrag (z, b, o) else CPad
     | TBool ->
       if (&&) (Z.leb Z0 o) (Z.ltb o (Zpos Coq_xH))
       then CFrag (z, (Zpos Coq_xH), o)
       else CPad
     | TPtr ->
       if (&&) (Z.leb Z0 o) (Z.ltb o (Zpos (Coq_xO (Coq_xO (Coq_xO Coq_xH)))))
       then CFrag (z, (Zpos (Coq_xO (Coq_xO (Coq_xO Coq_xH)))), o)
       else CPad
     | _ -> CPad)
  | VArr vs ->
    (match t with
     | TArr (_, e) ->
       let rec go l o0 =
         match l with
         | [] -> CPad
         | x :: r ->
           if (&&) (Z.leb Z0 o0) (Z.ltb o0 (llvm_alloc_size e))
           then enc e x o0
           else go r (Z.sub o0 (llvm_alloc_size e))
       in go vs o
     | _ -> CPad)
  | VStruct vs ->
    (match t with
     | TStruct ms ->
       let rec go l ms0 offs =
         match l with
         | [] -> CPad
         | x :: r ->
           (match ms0 with
            | [] -> CPad
            | m :: ms' ->
              (match offs with
               | [] -> CPad
               | off :: offs' ->
                 if (&&) (Z.leb off o)
                      (Z.ltb o (Z.add off (llvm_alloc_size m)))
                 then enc m x (Z.sub o off)
                 else go r ms' offs'))
       in go vs ms (struct_offsets ms)
     | _ -> CPad)

(** val store : mem -> coq_Z -> ty -> value -> mem **)

let store m a t v x =
  if (&&) (Z.leb a x) (Z.ltb x (Z.add a (llvm_alloc_size t)))
  then enc t v (Z.sub x a)
  else m x

(** val check_frag :
    mem -> coq_Z -> coq_Z -> coq_Z -> coq_Z -> nat -> bool **)

let rec check_frag m a z n i = function
| O -> true
| S k' ->
  (match m (Z.add a i) with
   | CPad -> false
   | CFrag (z', n', i') ->
     (&&) ((&&) ((&&) (Z.eqb z' z) (Z.eqb n' n)) (Z.eqb i' i))
       (check_frag m a z n (Z.add i (Zpos Coq_xH)) k'))

(** val load_scalar : mem -> coq_Z -> coq_Z -> coq_Z option **)

let load_scalar m a n =
  match m a with
  | CPad -> None
  | CFrag (z, _, _) ->
    if check_frag m a z n Z0 (Z.to_nat n) then Some z else None

(** val gep_offset : ty -> path -> (coq_Z * ty) option **)

let rec gep_offset t = function
| [] -> Some (Z0, t)
| s :: p' ->
  (match s with
   | SElem i ->
     (match t with
      | TArr (_, e) ->
        (match gep_offset e p' with
         | Some p0 ->
           let (o, t') = p0 in
           Some ((Z.add (Z.mul i (llvm_alloc_size e)) o), t')
         | None -> None)
      | _ -> None)
   | SMember k ->
     (match t with
      | TStruct ms ->
        (match nth_error ms k with
         | Some m ->
           (match nth_error (struct_offsets ms) k with
            | Some off ->
              (match gep_offset m p' with
               | Some p0 -> let (o, t') = p0 in Some ((Z.add off o), t')
               | None -> None)
            | None -> None)
         | None -> None)
      | _ -> None))

type lt =
| LInt of coq_Z
| LBool
| LPtr of lt
| LArr of coq_Z * lt
| LStruct of lt list

(** val erase : lt -> ty **)

let rec erase = function
| LInt b -> TInt b
| LBool -> TBool
| LPtr _ -> TPtr
| LArr (n, e) -> TArr (n, (erase e))
| LStruct ms ->
  TStruct
    (let rec go = function
     | [] -> []
     | x :: r -> (erase x) :: (go r)
     in go ms)

(** val erase_list : lt list -> ty list **)

let rec erase_list = function
| [] -> []
| x :: r -> (erase x) :: (erase_list r)

(** val lsize : lt -> coq_Z **)

let lsize t =
  llvm_alloc_size (erase t)

(** val slice_lt : lt -> lt **)

let slice_lt e =
  LStruct ((LPtr (LArr (Z0, e))) :: ((LInt (Zpos (Coq_xO (Coq_xO (Coq_xO
    Coq_xH))))) :: []))

type pty =
| PInt of coq_Z
| PBool
| PArr of coq_Z * pty
| PStruct of pty list
| PPtr of pty
| PView of pty
| PSlice of pty
| PSlicePtr of pty
| PEndless of pty

(** val gen : pty -> lt **)

let rec gen = function
| PInt b -> LInt b
| PBool -> LBool
| PArr (n, e) -> LArr (n, (gen e))
| PStruct ms ->
  LStruct
    (let rec go = function
     | [] -> []
     | x :: r -> (gen x) :: (go r)
     in go ms)
| PPtr t' -> LPtr (gen t')
| PView t' -> LPtr (gen t')
| PSlice e -> slice_lt (gen e)
| PSlicePtr e -> slice_lt (gen e)
| PEndless e -> gen e

type rstep =
| RElem of coq_Z * bool
| RMember of nat
| RAutoderef
| RAutoview
| RDeslice0
| RDeslice1

(** val elaborate_fuel : nat -> pty -> path -> (rstep list * pty) option **)

let rec elaborate_fuel fuel t p = match p with
| [] -> Some ([], t)
| s :: p' ->
  (match fuel with
   | O -> None
   | S fuel' ->
     (match t with
      | PArr (_, e) ->
        (match s with
         | SElem i ->
           (match elaborate_fuel fuel' e p' with
            | Some p0 ->
              let (rs, t') = p0 in Some (((RElem (i, false)) :: rs), t')
            | None -> None)
         | SMember _ -> None)
      | PStruct ms ->
        (match s with
         | SElem _ -> None
         | SMember k ->
           (match nth_error ms k with
            | Some m ->
              (match elaborate_fuel fuel' m p' with
               | Some p0 ->
                 let (rs, t') = p0 in Some (((RMember k) :: rs), t')
               | None -> None)
            | None -> None))
      | PPtr u ->
        (match elaborate_fuel fuel' u p with
         | Some p0 -> let (rs, t') = p0 in Some ((RAutoderef :: rs), t')
         | None -> None)
      | PView u ->
        (match elaborate_fuel fuel' u p with
         | Some p0 -> let (rs, t') = p0 in Some ((RAutoview :: rs), t')
         | None -> None)
      | PSlice e ->
        (match s with
         | SElem i ->
           (match elaborate_fuel fuel' e p' with
            | Some p0 ->
              let (rs, t') = p0 in
              Some ((RDeslice0 :: ((RElem (i, false)) :: rs)), t')
            | None -> None)
         | SMember _ -> None)
      | PSlicePtr e ->
        (match s with
         | SElem i ->
           (match elaborate_fuel fuel' e p' with
            | Some p0 ->
              let (rs, t') = p0 in
              Some ((RDeslice0 :: ((RElem (i, false)) :: rs)), t')
            | None -> None)
         | SMember _ -> None)
      | PEndless e ->
        (match s with
         | SElem i ->
           (match elaborate_fuel fuel' e p' with
            | Some p0 ->
              let (rs, t') = p0 in Some (((RElem (i, true)) :: rs), t')
            | None -> None)
         | SMember _ -> None)
      | _ -> None))

(** val coq_MAX_NUM_AUTODEREF_STEPS : nat **)

let coq_MAX_NUM_AUTODEREF_STEPS =
  add
    (mul (S (S (S (S (S (S (S (S (S (S (S (S (S (S (S (S (S (S (S (S (S (S (S
      (S (S (S (S (S (S (S (S (S (S (S (S (S (S (S (S (S (S (S (S (S (S (S (S
      (S (S (S (S (S (S (S (S (S (S (S (S (S (S (S (S (S (S (S (S (S (S (S (S
      (S (S (S (S (S (S (S (S (S (S (S (S (S (S (S (S (S (S (S (S (S (S (S (S
      (S (S (S (S (S (S (S (S (S (S (S (S (S (S (S (S (S (S (S (S (S (S (S (S
      (S (S (S (S (S (S (S (S
      O)))))))))))))))))))))))))))))))))))))))))))))))))))))))))))))))))))))))))))))))))))))))))))))))))))))))))))))))))))))))))))))))
      (S (S (S (S (S (S (S (S (S (S (S (S (S (S (S (S (S (S (S (S (S (S (S (S
      (S (S (S (S (S (S (S (S (S (S (S (S (S (S (S (S (S (S (S (S (S (S (S (S
      (S (S (S (S (S (S (S (S (S (S (S (S (S (S (S (S (S (S (S (S (S (S (S (S
      (S (S (S (S (S (S (S (S (S (S (S (S (S (S (S (S (S (S (S (S (S (S (S (S
      (S (S (S (S (S (S (S (S (S (S (S (S (S (S (S (S (S (S (S (S (S (S (S (S
      (S (S (S (S (S (S (S (S
      O)))))))))))))))))))))))))))))))))))))))))))))))))))))))))))))))))))))))))))))))))))))))))))))))))))))))))))))))))))))))))))))))))
    (S (S (S (S (S (S (S (S (S (S (S (S (S (S (S (S (S (S (S (S (S (S (S (S
    (S (S (S (S (S (S (S (S (S (S (S (S (S (S (S (S (S (S (S (S (S (S (S (S
    (S (S (S (S (S (S (S (S (S (S (S (S (S (S (S (S (S (S (S (S (S (S (S (S
    (S (S (S (S (S (S (S (S (S (S (S (S (S (S (S (S (S (S (S (S (S (S (S (S
    (S (S (S (S (S (S (S (S (S (S (S (S (S (S (S (S (S (S (S (S (S (S (S (S
    (S (S (S (S (S (S (S
    O)))))))))))))))))))))))))))))))))))))))))))))))))))))))))))))))))))))))))))))))))))))))))))))))))))))))))))))))))))))))))))))))

(** val elaborate : pty -> path -> (rstep list * pty) option **)

let elaborate t p =
  elaborate_fuel coq_MAX_NUM_AUTODEREF_STEPS t p

type base_kind =
| BParam
| BLocal
| BGlobal

type gidx =
| GConst of coq_Z
| GDyn of coq_Z

type instr =
| IGep of gidx list
| ILoad
| IExtract of coq_Z

(** val is_nil : 'a1 list -> bool **)

let is_nil = function
| [] -> true
| _ :: _ -> false

(** val flush : gidx list -> instr list **)

let flush indices =
  if is_nil indices then [] else (IGep indices) :: []

(** val lower_steps : rstep list -> gidx list -> bool -> instr list **)

let rec lower_steps steps indices imm =
  match steps with
  | [] -> flush indices
  | r :: rest ->
    (match r with
     | RElem (i, _) -> lower_steps rest (app indices ((GDyn i) :: [])) imm
     | RMember k ->
       lower_steps rest (app indices ((GConst (Z.of_nat k)) :: [])) imm
     | RDeslice0 ->
       if is_nil indices
       then (IExtract Z0) :: (lower_steps rest ((GConst Z0) :: []) false)
       else (IGep
              (app indices ((GConst Z0) :: []))) :: (ILoad :: (lower_steps
                                                                rest ((GConst
                                                                Z0) :: [])
                                                                false))
     | RDeslice1 ->
       lower_steps rest (app indices ((GConst (Zpos Coq_xH)) :: [])) imm
     | _ ->
       (match rest with
        | [] ->
          let p = (indices, imm) in
          let followed = false in
          let (indices1, imm1) = p in
          if imm1
          then lower_steps rest indices1 false
          else app (flush indices1)
                 (ILoad :: (lower_steps rest
                             (if followed then (GConst Z0) :: [] else [])
                             false))
        | r0 :: _ ->
          (match r0 with
           | RElem (_, endless) ->
             let p =
               ((if (&&) imm (negb endless)
                 then app indices ((GConst Z0) :: [])
                 else indices), imm)
             in
             let followed = negb endless in
             let (indices1, imm1) = p in
             if imm1
             then lower_steps rest indices1 false
             else app (flush indices1)
                    (ILoad :: (lower_steps rest
                                (if followed then (GConst Z0) :: [] else [])
                                false))
           | RMember _ ->
             let p =
               ((if imm then app indices ((GConst Z0) :: []) else indices),
               imm)
             in
             let followed = true in
             let (indices1, imm1) = p in
             if imm1
             then lower_steps rest indices1 false
             else app (flush indices1)
                    (ILoad :: (lower_steps rest
                                (if followed then (GConst Z0) :: [] else [])
                                false))
           | RDeslice0 ->
             if imm
             then let p = (indices, false) in
                  let followed = false in
                  let (indices1, imm1) = p in
                  if imm1
                  then lower_steps rest indices1 false
                  else app (flush indices1)
                         (ILoad :: (lower_steps rest
                                     (if followed
                                      then (GConst Z0) :: []
                                      else []) false))
             else let p = (indices, false) in
                  let followed = true in
                  let (indices1, imm1) = p in
                  if imm1
                  then lower_steps rest indices1 false
                  else app (flush indices1)
                         (ILoad :: (lower_steps rest
                                     (if followed
                                      then (GConst Z0) :: []
                                      else []) false))
           | RDeslice1 ->
             let p = ((app indices ((GConst Z0) :: [])), imm) in
             let followed = false in
             let (indices1, imm1) = p in
             if imm1
             then lower_steps rest indices1 false
             else app (flush indices1)
                    (ILoad :: (lower_steps rest
                                (if followed then (GConst Z0) :: [] else [])
                                false))
           | _ ->
             let p = (indices, imm) in
             let followed = false in
             let (indices1, imm1) = p in
             if imm1
             then lower_steps rest indices1 false
             else app (flush indices1)
                    (ILoad :: (lower_steps rest
                                (if followed then (GConst Z0) :: [] else [])
                                false)))))

(** val lower_ref : base_kind -> rstep list -> instr list **)

let lower_ref b steps =
  match b with
  | BParam ->
    if is_nil steps then (IExtract Z0) :: [] else lower_steps steps [] true
  | _ ->
    if is_nil steps then [] else lower_steps steps ((GConst Z0) :: []) false

(** val lower_steps_pinned : rstep list -> gidx list -> bool -> instr list **)

let rec lower_steps_pinned steps indices imm =
  match steps with
  | [] -> flush indices
  | r :: rest ->
    (match r with
     | RElem (i, _) ->
       lower_steps_pinned rest (app indices ((GDyn i) :: [])) imm
     | RMember k ->
       lower_steps_pinned rest (app indices ((GConst (Z.of_nat k)) :: [])) imm
     | RDeslice0 ->
       if is_nil indices
       then (IExtract Z0) :: (lower_steps_pinned rest ((GConst Z0) :: []) imm)
       else (IGep
              (app indices ((GConst Z0) :: []))) :: (ILoad :: (lower_steps_pinned
                                                                rest ((GConst
                                                                Z0) :: [])
                                                                imm))
     | RDeslice1 ->
       lower_steps_pinned rest (app indices ((GConst (Zpos Coq_xH)) :: []))
         imm
     | _ ->
       (match rest with
        | [] ->
          let p = (indices, imm) in
          let followed = false in
          let (indices1, imm1) = p in
          if imm1
          then lower_steps_pinned rest indices1 false
          else app (flush indices1)
                 (ILoad :: (lower_steps_pinned rest
                             (if followed then (GConst Z0) :: [] else [])
                             false))
        | r0 :: _ ->
          (match r0 with
           | RElem (_, endless) ->
             let p =
               ((if (&&) imm (negb endless)
                 then app indices ((GConst Z0) :: [])
                 else indices), imm)
             in
             let followed = negb endless in
             let (indices1, imm1) = p in
             if imm1
             then lower_steps_pinned rest indices1 false
             else app (flush indices1)
                    (ILoad :: (lower_steps_pinned rest
                                (if followed then (GConst Z0) :: [] else [])
                                false))
           | RMember _ ->
             let p =
               ((if imm then app indices ((GConst Z0) :: []) else indices),
               imm)
             in
             let followed = true in
             let (indices1, imm1) = p in
             if imm1
             then lower_steps_pinned rest indices1 false
             else app (flush indices1)
                    (ILoad :: (lower_steps_pinned rest
                                (if followed then (GConst Z0) :: [] else [])
                                false))
           | RDeslice0 ->
             if imm
             then let p = (indices, false) in
                  let followed = false in
                  let (indices1, imm1) = p in
                  if imm1
                  then lower_steps_pinned rest indices1 false
                  else app (flush indices1)
                         (ILoad :: (lower_steps_pinned rest
                                     (if followed
                                      then (GConst Z0) :: []
                                      else []) false))
             else let p = (indices, false) in
                  let followed = true in
                  let (indices1, imm1) = p in
                  if imm1
                  then lower_steps_pinned rest indices1 false
                  else app (flush indices1)
                         (ILoad :: (lower_steps_pinned rest
                                     (if followed
                                      then (GConst Z0) :: []
                                      else []) false))
           | RDeslice1 ->
             let p = ((app indices ((GConst Z0) :: [])), imm) in
             let followed = false in
             let (indices1, imm1) = p in
             if imm1
             then lower_steps_pinned rest indices1 false
             else app (flush indices1)
                    (ILoad :: (lower_steps_pinned rest
                                (if followed then (GConst Z0) :: [] else [])
                                false))
           | _ ->
             let p = (indices, imm) in
             let followed = false in
             let (indices1, imm1) = p in
             if imm1
             then lower_steps_pinned rest indices1 false
             else app (flush indices1)
                    (ILoad :: (lower_steps_pinned rest
                                (if followed then (GConst Z0) :: [] else [])
                                false)))))

(** val lower_ref_pinned : base_kind -> rstep list -> instr list **)

let lower_ref_pinned b steps =
  match b with
  | BParam ->
    if is_nil steps
    then (IExtract Z0) :: []
    else lower_steps_pinned steps [] true
  | _ ->
    if is_nil steps
    then []
    else lower_steps_pinned steps ((GConst Z0) :: []) false

type loc =
| LocMem of coq_Z * lt
| LocPtr of coq_Z * lt
| LocSlice of coq_Z * coq_Z * lt

(** val sem_step : mem -> loc -> rstep -> loc option **)

let sem_step m l = function
| RElem (i, endless) ->
  if endless
  then (match l with
        | LocMem (a, t) -> Some (LocMem ((Z.add a (Z.mul i (lsize t))), t))
        | _ -> None)
  else (match l with
        | LocMem (a, t) ->
          (match t with
           | LArr (_, e) -> Some (LocMem ((Z.add a (Z.mul i (lsize e))), e))
           | _ -> None)
        | _ -> None)
| RMember k ->
  (match l with
   | LocMem (a, t) ->
     (match t with
      | LStruct ms ->
        (match nth_error ms k with
         | Some mk ->
           (match nth_error (struct_offsets (erase_list ms)) k with
            | Some off -> Some (LocMem ((Z.add a off), mk))
            | None -> None)
         | None -> None)
      | _ -> None)
   | _ -> None)
| RDeslice0 ->
  (match l with
   | LocSlice (p, _, e) -> Some (LocMem (p, (LArr (Z0, e))))
   | _ -> None)
| RDeslice1 -> None
| _ ->
  (match l with
   | LocMem (a, t) ->
     (match t with
      | LPtr u ->
        (match load_scalar m a (Zpos (Coq_xO (Coq_xO (Coq_xO Coq_xH)))) with
         | Some z -> Some (LocMem (z, u))
         | None -> None)
      | _ -> None)
   | LocPtr (z, u) -> Some (LocMem (z, u))
   | LocSlice (_, _, _) -> None)

(** val ref_instrs : base_kind -> pty -> path -> instr list option **)

let ref_instrs b t p =
  match elaborate t p with
  | Some p0 -> let (rs, _) = p0 in Some (lower_ref b rs)
  | None -> None

(** val ref_instrs_pinned : base_kind -> pty -> path -> instr list option **)

let ref_instrs_pinned b t p =
  match elaborate t p with
  | Some p0 -> let (rs, _) = p0 in Some (lower_ref_pinned b rs)
  | None -> None
