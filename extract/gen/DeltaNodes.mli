open BinNat
open BinNums
open Datatypes
open List
open Nat
open Tok

type btok =
| T of tkind
| EOS

val kcode : tkind -> coq_N

val all_kinds : tkind list

val btok_of_code : coq_N -> btok

val btok_eqb : btok -> btok -> bool

val is : tkind -> btok -> bool

val is_eos : btok -> bool

type cursor = { cur : nat; span : btok list }

val peek : cursor -> btok

val advance : cursor -> cursor

val consume_optional : tkind -> cursor -> bool * cursor

val coq_P_CONSUME : coq_N

val coq_P_SKIP_UNTIL : coq_N

val coq_P_SLICE : coq_N

val coq_P_ASSERT_EOS : coq_N

val coq_P_FINISH_DECL : coq_N

val coq_P_FIRST_TOKEN : coq_N

type status =
| Ok
| Err
| Oof
| Panic of coq_N

type res = { rc : cursor; rn : coq_N; rs : status }

type coq_parser = cursor -> res

val ok : cursor -> coq_N -> res

val err : cursor -> res

val oof : cursor -> res

val bind : res -> (cursor -> res) -> res

val push : coq_N -> res -> res

val in_expectation_table : tkind -> bool

val consume : tkind -> cursor -> res

val find_idx : (btok -> bool) -> btok list -> nat option

val find_next : (btok -> bool) -> btok list -> nat -> nat option

val with_reservation :
  btok list -> (btok -> bool) -> coq_parser -> cursor -> res

val parse_inner_type : nat -> cursor -> res

val parse_type : nat -> cursor -> res

val amp_loop : nat -> cursor -> res

val deref_steps_loop : coq_parser -> nat -> cursor -> res

val parse_deref_steps_list : coq_parser -> cursor -> res

val args_loop : coq_parser -> nat -> cursor -> res

val structural_loop : coq_parser -> nat -> cursor -> res

val array_loop : coq_parser -> nat -> cursor -> res

val take_while : tkind -> nat -> btok list -> cursor

val parse_reference : coq_parser -> cursor -> res

val parse_primary_expression : coq_parser -> nat -> cursor -> res

val parse_unary_expression : coq_parser -> nat -> cursor -> res

val as_loop : nat -> nat -> cursor -> res

val parse_singular_expression : coq_parser -> nat -> cursor -> res

val mul_loop : coq_parser -> nat -> cursor -> res

val parse_multiplication : coq_parser -> nat -> cursor -> res

val bitwise_loop : coq_parser -> btok -> nat -> cursor -> res

val add_loop : coq_parser -> coq_parser -> nat -> cursor -> res

val parse_addition : coq_parser -> nat -> cursor -> res

val parse_expression : nat -> cursor -> res

val parse_comparison : coq_parser -> cursor -> res

val block_loop : coq_parser -> nat -> cursor -> res

val parse_then : coq_parser -> cursor -> res

val assignment_tail : coq_parser -> cursor -> res

val reserved_in_if : btok -> bool

val parse_statement : btok list -> coq_parser -> nat -> cursor -> res

val parse_stmt : btok list -> nat -> cursor -> res

val body_loop : btok list -> nat -> nat -> cursor -> res

val parse_function_body : btok list -> nat -> cursor -> res

val parse_identifier_and_type : nat -> cursor -> res

val params_loop : nat -> nat -> cursor -> res

val parse_rest_of_function_signature : nat -> cursor -> res

val members_loop : nat -> nat -> cursor -> res

val parse_struct_members : nat -> cursor -> res

val parse_import_declaration : cursor -> res

val parse_constant_declaration : nat -> cursor -> res

val parse_word_declaration : nat -> cursor -> res

val parse_struct_declaration : nat -> cursor -> res

val set_private : bool -> coq_N * bool

val set_public : bool -> coq_N * bool

val parse_function_declaration :
  btok list -> nat -> bool -> bool -> cursor -> res * bool

val starts_declaration : btok -> bool

val parse_declaration : btok list -> nat -> bool -> cursor -> res * bool

type decl_info = { d_start : nat; d_end : nat; d_nodes : coq_N;
                   d_status : status }

type loop_out = { l_nodes : coq_N; l_errs : coq_N; l_decls : coq_N;
                  l_final : nat; l_status : status; l_log : decl_info list }

val add_iter : decl_info -> loop_out -> loop_out

val stop_iter : decl_info -> status -> loop_out

val decl_loop :
  btok list -> nat -> coq_N -> nat -> nat -> bool -> coq_N -> loop_out

val num_possible_declarations : btok list -> nat

val fuel_for : btok list -> nat

val coq_MAX_PARSE_NODE_CONTEXT : coq_N

val coq_MAX_NUM_PARSING_ERRORS : coq_N

val node_capacity : coq_N -> coq_N -> coq_N -> coq_N

val capacity : btok list -> coq_N

type outcome = { o_nodes : coq_N; o_errors_raw : coq_N; o_errors : coq_N;
                 o_decls : coq_N; o_final : nat; o_status : status;
                 o_log : decl_info list }

val parse_full : btok list -> outcome
