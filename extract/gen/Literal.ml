open BinInt
open BinNums
open Bits
open IR
open LowerTables
open TypeTables

(** val i128_max : coq_Z **)

let i128_max =
  Z.sub
    (Z.pow (Zpos (Coq_xO Coq_xH)) (Zpos (Coq_xI (Coq_xI (Coq_xI (Coq_xI
      (Coq_xI (Coq_xI Coq_xH)))))))) (Zpos Coq_xH)

(** val i128_min : coq_Z **)

let i128_min =
  Z.opp
    (Z.pow (Zpos (Coq_xO Coq_xH)) (Zpos (Coq_xI (Coq_xI (Coq_xI (Coq_xI
      (Coq_xI (Coq_xI Coq_xH))))))))

type itok =
| TNaked of coq_Z
| TBits of coq_Z
| TSuffixed of coq_Z * prim

type lit =
| LSigned of coq_Z
| LBit of coq_Z
| LNeg of lit

(** val parse_primary : itok -> lit * prim option **)

let parse_primary = function
| TNaked v -> ((if Z.leb v i128_max then LSigned v else LBit v), None)
| TBits v -> ((LBit v), None)
| TSuffixed (v, ty) ->
  ((if (&&) (vt_is_signed ty) (Z.leb v i128_max) then LSigned v else LBit v),
    (Some ty))

(** val fold_minus : bool -> lit -> lit **)

let fold_minus fold_min l = match l with
| LSigned v -> if Z.ltb Z0 v then LSigned (Z.opp v) else LNeg l
| LBit v ->
  if (&&) fold_min (Z.eqb v (Z.add i128_max (Zpos Coq_xH)))
  then LSigned i128_min
  else LNeg l
| LNeg _ -> LNeg l

(** val lint_max : coq_Z -> prim -> coq_Z **)

let lint_max usize_bits t = match t with
| Usize ->
  if Z.eqb usize_bits (Zpos (Coq_xO (Coq_xO (Coq_xO (Coq_xO (Coq_xO
       Coq_xH))))))
  then Z.sub
         (Z.pow (Zpos (Coq_xO Coq_xH)) (Zpos (Coq_xO (Coq_xO (Coq_xO (Coq_xO
           (Coq_xO Coq_xH))))))) (Zpos Coq_xH)
  else vt_max t
| _ -> vt_max t

(** val lint_on : coq_Z -> lit -> prim -> bool **)

let rec lint_on usize_bits l t =
  match l with
  | LSigned v ->
    if Z.ltb v Z0 then Z.ltb v (vt_min t) else Z.ltb (lint_max usize_bits t) v
  | LBit v -> Z.ltb (lint_max usize_bits t) v
  | LNeg l' ->
    (match l' with
     | LBit v ->
       if vt_is_signed t
       then Z.ltb (Z.add (lint_max usize_bits t) (Zpos Coq_xH)) v
       else Z.ltb (lint_max usize_bits t) v
     | _ -> lint_on usize_bits l' t)

(** val lint : lit -> prim -> bool **)

let lint l t =
  lint_on (Zpos (Coq_xO (Coq_xO (Coq_xO (Coq_xO (Coq_xO (Coq_xO Coq_xH)))))))
    l t

(** val const_int : coq_Z -> coq_Z -> bool -> coq_Z **)

let const_int w bits64 sign_extend =
  repr w
    (if sign_extend
     then sgn (Zpos (Coq_xO (Coq_xO (Coq_xO (Coq_xO (Coq_xO (Coq_xO
            Coq_xH))))))) bits64
     else bits64)

(** val materialise_signed : coq_Z -> coq_Z -> coq_Z **)

let materialise_signed w v =
  if (&&) (Z.leb signed_lit_small_min v) (Z.leb v (Zneg Coq_xH))
  then const_int w
         (repr (Zpos (Coq_xO (Coq_xO (Coq_xO (Coq_xO (Coq_xO (Coq_xO
           Coq_xH))))))) v) true
  else if (&&) (Z.leb Z0 v) (Z.leb v signed_lit_small_max)
       then const_int w
              (repr (Zpos (Coq_xO (Coq_xO (Coq_xO (Coq_xO (Coq_xO (Coq_xO
                Coq_xH))))))) v) false
       else repr w
              (repr (Zpos (Coq_xO (Coq_xO (Coq_xO (Coq_xO (Coq_xO (Coq_xO
                (Coq_xO Coq_xH)))))))) v)

(** val masked : coq_Z option -> coq_Z -> coq_Z **)

let masked m v =
  match m with
  | Some k -> Z.coq_land v k
  | None -> v

(** val materialise_bit : prim -> coq_Z -> coq_Z -> coq_Z **)

let materialise_bit t w v =
  match t with
  | Usize ->
    repr w
      (repr (Zpos (Coq_xO (Coq_xO (Coq_xO (Coq_xO (Coq_xO (Coq_xO
        Coq_xH))))))) (masked bit_lit_usize_mask v))
  | _ ->
    if Z.leb v
         (Z.sub
           (Z.pow (Zpos (Coq_xO Coq_xH)) (Zpos (Coq_xO (Coq_xO (Coq_xO
             (Coq_xO (Coq_xO (Coq_xO Coq_xH)))))))) (Zpos Coq_xH))
    then const_int w v false
    else repr w
           (repr (Zpos (Coq_xO (Coq_xO (Coq_xO (Coq_xO (Coq_xO (Coq_xO
             (Coq_xO Coq_xH)))))))) v)

(** val bits_of : coq_Z -> lit -> prim -> coq_Z **)

let rec bits_of usize_bits l t =
  let w = vt_bits usize_bits t in
  (match l with
   | LSigned v -> materialise_signed w v
   | LBit v -> materialise_bit t w v
   | LNeg l' -> repr w (Z.opp (bits_of usize_bits l' t)))

(** val source_literal : bool -> bool -> itok -> lit * prim option **)

let source_literal fold_min neg tok =
  let (l, s) = parse_primary tok in
  ((if neg then fold_minus fold_min l else l), s)
