open BinInt
open BinNums
open Datatypes
open List

type tytag = coq_N

type unop =
| UNegative
| UBitwiseComplement

type expr =
| EBinary of expr * expr
| EUnary of unop * expr
| EBool
| ESigned of coq_Z * tytag option * coq_N
| EBit of coq_Z * tytag option * coq_N
| EString
| EArray of expr list
| EStructural of member list
| EParen of expr
| EDeref of refstep list
| EAutocoerce of expr
| EBitCast of expr
| ETypeCast of expr
| ELengthOfArray of refstep list
| ESizeOf
| ECall of expr list
| EPoison
and member =
| MkMember of expr
and refstep =
| RElement of expr
| RMember
| RAutodeslice
| RAutoderef
| RAutoview

type reference = refstep list

type comparison = { cmp_left : expr; cmp_right : expr; cmp_loc : coq_N }

type stmt =
| SDeclaration of expr option
| SAssignment of reference * expr
| SMethodCall of expr list
| SLoop of coq_N
| SGoto
| SLabel
| SIf of comparison * stmt * els option
| SBlock of block
| SPoison
and els =
| MkElse of stmt * coq_N
and block =
| MkBlock of stmt list * coq_N

type fbody = { fb_statements : stmt list; fb_return_value : expr option }

type decl =
| DConstant of expr
| DFunction of fbody option
| DFunctionHead
| DStructure
| DImport
| DPoison

type litkind =
| KSigned
| KBit
| KNegBit

type lintev =
| EvLiteral of coq_N * litkind * coq_Z * tytag option
| EvLoopFirst of coq_N * coq_N * coq_N

type lstate = { st_naked : coq_N option; st_first : (coq_N * coq_N) option }

val st_default : lstate

val lint_expr : expr -> lintev list

val lint_member : member -> lintev list

val lint_refstep : refstep -> lintev list

val lint_reference : reference -> lintev list

val lint_option : expr option -> lintev list

val lint_stmt : stmt -> lstate -> lstate * lintev list

val lint_block : block -> lstate -> lstate * lintev list

val lint_stmts : stmt list -> lstate -> lstate * lintev list

val lint_fbody : fbody -> lstate -> lstate * lintev list

val lint_decl_in : decl -> lstate -> lstate * lintev list

val lint_decl : decl -> lintev list

type litocc = { oc_pos : coq_N; oc_kind : litkind; oc_val : coq_Z;
                oc_ty : tytag option }

val occ_key : litocc -> coq_N * tytag option

val ev_occ : lintev -> litocc list

val visits_of : lintev list -> litocc list

val lint_visits : decl -> litocc list

val lint_events : decl -> (coq_N * tytag option) list

val typed_literals : (coq_N * tytag option) list -> (coq_N * tytag) list

val lint_checked : decl -> (coq_N * tytag) list

val lint_positions : decl -> coq_N list

val range_test :
  (tytag -> ((bool * coq_Z) * coq_Z) option) -> litkind -> coq_Z -> tytag ->
  bool

val lint_decls_in : decl list -> lstate -> lstate * lintev list

val lint_module : decl list -> lintev list

val occs_expr : expr -> litocc list

val occs_member : member -> litocc list

val occs_refstep : refstep -> litocc list

val occs_option : expr option -> litocc list

val occs_stmt : stmt -> litocc list

val occs_decl : decl -> litocc list
