open BinNat
open BinNums
open Common
open Datatypes
open List

type id = coq_N

type stmt =
| SDecl of name * name list
| SUse of name list
| SGoto of id
| SLabel of id
| SIf of name list * stmt * stmt option
| SBlock of stmt list
| SNop

val coq_E402 : code

val coq_E422 : code

val coq_E424 : code

val coq_E482 : code

val mem_id : id -> id list -> bool

val remove_id : id -> id list -> id list

type state = { stack : (name * id) list list; next : id;
               unres : (id * id list) list; pruned : id list;
               poisoned : id list }

val with_stack : state -> (name * id) list list -> state

val find_name : name -> (name * id) list list -> id option

val push_last : 'a1 -> 'a1 list list -> 'a1 list list

val declare : name -> state -> state * bool

val use : name -> state -> state * code list

val uses : name list -> state -> state * code list

val in_scope : state -> id list

val update_unres : id -> id list -> (id * id list) list -> (id * id list) list

val at_goto : id -> state -> state

val lookup_unres : id -> (id * id list) list -> id list option

val remove_unres : id -> (id * id list) list -> (coq_N * id list) list

val add_pruned : id list -> id list -> id list

val at_label : id -> state -> state

val push_scope : state -> state

val pop_scope : state -> state

val an_stmt : stmt -> state -> state * code list

val an_list : stmt list -> state -> state * code list

val declare_params : name list -> state -> state * code list

type func = { params : name list; body : stmt list; ret : name list }

val an_func : func -> state -> state * code list

val an_funcs : func list -> state -> code list

val declare_consts : name list -> state -> state

val init_state : state

val an_program : name list -> func list -> code list

type binding = { bname : name; bid : id; skippers : id list }

type sstate = { env : binding list list; snext : id; seen : id list;
                skipped : id list }

val sfind : name -> binding list list -> binding option

val sdeclare : name -> sstate -> sstate * bool

val suse : name -> sstate -> sstate * code list

val suses : name list -> sstate -> sstate * code list

val s_goto : id -> sstate -> sstate

val s_label : id -> sstate -> sstate

val s_push : sstate -> sstate

val s_pop : sstate -> sstate

val sp_stmt : stmt -> sstate -> sstate * code list

val sp_list : stmt list -> sstate -> sstate * code list

val sdeclare_params : name list -> sstate -> sstate * code list

val sp_func : func -> sstate -> sstate * code list

val sp_funcs : func list -> sstate -> code list

val sdeclare_consts : name list -> sstate -> sstate

val spec_program : name list -> func list -> code list
