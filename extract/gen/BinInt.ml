open BinNums
open BinPos

module Z =
 struct
  (** val double : coq_Z -> coq_Z **)

  let double = function
  | Z0 -> Z0
  | Zpos p -> Zpos (Coq_xO p)
  | Zneg p -> Zneg (Coq_xO p)

  (** val succ_double : coq_Z -> coq_Z **)

  let succ_double = function
  | Z0 -> Zpos Coq_xH
  | Zpos p -> Zpos (Coq_xI p)
  | Zneg p -> Zneg (Pos.pred_double p)

  (** val pred_double : coq_Z -> coq_Z **)

  let pred_double = function
  | Z0 -> Zneg Coq_xH
  | Zpos p -> Zpos (Pos.pred_double p)
  | Zneg p -> Zneg (Coq_xI p)

  (** val pos_sub : positive -> positive -> coq_Z **)

  let rec pos_sub x y =
    match x with
    | Coq_xI p ->
      (match y with
       | Coq_xI q -> double (pos_sub p q)
       | Coq_xO q -> succ_double (pos_sub p q)
       | Coq_xH -> Zpos (Coq_xO p))
    | Coq_xO p ->
      (match y with
       | Coq_xI q -> pred_double (pos_sub p q)
       | Coq_xO q -> double (pos_sub p q)
       | Coq_xH -> Zpos (Pos.pred_double p))
    | Coq_xH ->
      (match y with
       | Coq_xI q -> Zneg (Coq_xO q)
       | Coq_xO q -> Zneg (Pos.pred_double q)
       | Coq_xH -> Z0)

  (** val add : coq_Z -> coq_Z -> coq_Z **)

  let add x y =
    match x with
    | Z0 -> y
    | Zpos x' ->
      (match y with
       | Z0 -> x
       | Zpos y' -> Zpos (Pos.add x' y')
       | Zneg y' -> pos_sub x' y')
    | Zneg x' ->
      (match y with
       | Z0 -> x
       | Zpos y' -> pos_sub y' x'
       | Zneg y' -> Zneg (Pos.add x' y'))

  (** val mul : coq_Z -> coq_Z -> coq_Z **)

  let mul x y =
    match x with
    | Z0 -> Z0
    | Zpos x' ->
      (match y with
       | Z0 -> Z0
       | Zpos y' -> Zpos (Pos.mul x' y')
       | Zneg y' -> Zneg (Pos.mul x' y'))
    | Zneg x' ->
      (match y with
       | Z0 -> Z0
       | Zpos y' -> Zneg (Pos.mul x' y')
       | Zneg y' -> Zpos (Pos.mul x' y'))

  (** val eqb : coq_Z -> coq_Z -> bool **)

  let eqb x y =
    match x with
    | Z0 -> (match y with
             | Z0 -> true
             | _ -> false)
    | Zpos p -> (match y with
                 | Zpos q -> Pos.eqb p q
                 | _ -> false)
    | Zneg p -> (match y with
                 | Zneg q -> Pos.eqb p q
                 | _ -> false)

  (** val to_N : coq_Z -> coq_N **)

  let to_N = function
  | Zpos p -> Npos p
  | _ -> N0

  (** val of_N : coq_N -> coq_Z **)

  let of_N = function
  | N0 -> Z0
  | Npos p -> Zpos p
 end
