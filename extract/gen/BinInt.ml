open BinNat
open BinNums
open BinPos
open Datatypes

module Z =
 struct
  (** val double : coq_Z -> coq_Z **)

  let double = function
  | Z0 -> Z0
  | Zpos p -> Zpos (Coq_xO p)
  | Zneg p -> Zneg (Coq_xO p)

  (** val succ_double : coq_Z -> coq_Z **)

  let succ_double = function
  | Z0 -> Zpos Coq_xH
  | Zpos p -> Zpos (Coq_xI p)
  | Zneg p -> Zneg (Pos.pred_double p)

  (** val pred_double : coq_Z -> coq_Z **)

  let pred_double = function
  | Z0 -> Zneg Coq_xH
  | Zpos p -> Zpos (Pos.pred_double p)
  | Zneg p -> Zneg (Coq_xI p)

  (** val pos_sub : positive -> positive -> coq_Z **)

  let rec pos_sub x y =
    match x with
    | Coq_xI p ->
      (match y with
       | Coq_xI q -> double (pos_sub p q)
       | Coq_xO q -> succ_double (pos_sub p q)
       | Coq_xH -> Zpos (Coq_xO p))
    | Coq_xO p ->
      (match y with
       | Coq_xI q -> pred_double (pos_sub p q)
       | Coq_xO q -> double (pos_sub p q)
       | Coq_xH -> Zpos (Pos.pred_double p))
    | Coq_xH ->
      (match y with
       | Coq_xI q -> Zneg (Coq_xO q)
       | Coq_xO q -> Zneg (Pos.pred_double q)
       | Coq_xH -> Z0)

  (** val add : coq_Z -> coq_Z -> coq_Z **)

  let add x y =
    match x with
    | Z0 -> y
    | Zpos x' ->
      (match y with
       | Z0 -> x
       | Zpos y' -> Zpos (Pos.add x' y')
       | Zneg y' -> pos_sub x' y')
    | Zneg x' ->
      (match y with
       | Z0 -> x
       | Zpos y' -> pos_sub y' x'
       | Zneg y' -> Zneg (Pos.add x' y'))

  (** val opp : coq_Z -> coq_Z **)

  let opp = function
  | Z0 -> Z0
  | Zpos x0 -> Zneg x0
  | Zneg x0 -> Zpos x0

  (** val succ : coq_Z -> coq_Z **)

  let succ x =
    add x (Zpos Coq_xH)

  (** val pred : coq_Z -> coq_Z **)

  let pred x =
    add x (Zneg Coq_xH)

  (** val sub : coq_Z -> coq_Z -> coq_Z **)

  let sub m n =
    add m (opp n)

  (** val mul : coq_Z -> coq_Z -> coq_Z **)

  let mul x y =
    match x with
    | Z0 -> Z0
    | Zpos x' ->
      (match y with
       | Z0 -> Z0
       | Zpos y' -> Zpos (Pos.mul x' y')
       | Zneg y' -> Zneg (Pos.mul x' y'))
    | Zneg x' ->
      (match y with
       | Z0 -> Z0
       | Zpos y' -> Zneg (Pos.mul x' y')
       | Zneg y' -> Zpos (Pos.mul x' y'))

  (** val pow_pos : coq_Z -> positive -> coq_Z **)

  let pow_pos z =
    Pos.iter (mul z) (Zpos Coq_xH)

  (** val pow : coq_Z -> coq_Z -> coq_Z **)

  let pow x = function
  | Z0 -> Zpos Coq_xH
  | Zpos p -> pow_pos x p
  | Zneg _ -> Z0

  (** val compare : coq_Z -> coq_Z -> comparison **)

  let compare x y =
    match x with
    | Z0 -> (match y with
             | Z0 -> Eq
             | Zpos _ -> Lt
             | Zneg _ -> Gt)
    | Zpos x' -> (match y with
                  | Zpos y' -> Pos.compare x' y'
                  | _ -> Gt)
    | Zneg x' ->
      (match y with
       | Zneg y' -> coq_CompOpp (Pos.compare x' y')
       | _ -> Lt)

  (** val leb : coq_Z -> coq_Z -> bool **)

  let leb x y =
    match compare x y with
    | Gt -> false
    | _ -> true

  (** val ltb : coq_Z -> coq_Z -> bool **)

  let ltb x y =
    match compare x y with
    | Lt -> true
    | _ -> false

  (** val geb : coq_Z -> coq_Z -> bool **)

  let geb x y =
    match compare x y with
    | Lt -> false
    | _ -> true

  (** val gtb : coq_Z -> coq_Z -> bool **)

  let gtb x y =
    match compare x y with
    | Gt -> true
    | _ -> false

  (** val eqb : coq_Z -> coq_Z -> bool **)

  let eqb x y =
    match x with
    | Z0 -> (match y with
             | Z0 -> true
             | _ -> false)
    | Zpos p -> (match y with
                 | Zpos q -> Pos.eqb p q
                 | _ -> false)
    | Zneg p -> (match y with
                 | Zneg q -> Pos.eqb p q
                 | _ -> false)

  (** val max : coq_Z -> coq_Z -> coq_Z **)

  let max n m =
    match compare n m with
    | Lt -> m
    | _ -> n

  (** val min : coq_Z -> coq_Z -> coq_Z **)

  let min n m =
    match compare n m with
    | Gt -> m
    | _ -> n

  (** val abs_N : coq_Z -> coq_N **)

  let abs_N = function
  | Z0 -> N0
  | Zpos p -> Npos p
  | Zneg p -> Npos p

  (** val to_nat : coq_Z -> nat **)

  let to_nat = function
  | Zpos p -> Pos.to_nat p
  | _ -> O

  (** val to_N : coq_Z -> coq_N **)

  let to_N = function
  | Zpos p -> Npos p
  | _ -> N0

  (** val of_nat : nat -> coq_Z **)

  let of_nat = function
  | O -> Z0
  | S n0 -> Zpos (Pos.of_succ_nat n0)

  (** val of_N : coq_N -> coq_Z **)

  let of_N = function
  | N0 -> Z0
  | Npos p -> Zpos p

  (** val pos_div_eucl : positive -> coq_Z -> coq_Z * coq_Z **)

  let rec pos_div_eucl a b =
    match a with
    | Coq_xI a' ->
      let (q, r) = pos_div_eucl a' b in
      let r' = add (mul (Zpos (Coq_xO Coq_xH)) r) (Zpos Coq_xH) in
      if ltb r' b
      then ((mul (Zpos (Coq_xO Coq_xH)) q), r')
      else ((add (mul (Zpos (Coq_xO Coq_xH)) q) (Zpos Coq_xH)), (sub r' b))
    | Coq_xO a' ->
      let (q, r) = pos_div_eucl a' b in
      let r' = mul (Zpos (Coq_xO Coq_xH)) r in
      if ltb r' b
      then ((mul (Zpos (Coq_xO Coq_xH)) q), r')
      else ((add (mul (Zpos (Coq_xO Coq_xH)) q) (Zpos Coq_xH)), (sub r' b))
    | Coq_xH ->
      if leb (Zpos (Coq_xO Coq_xH)) b
      then (Z0, (Zpos Coq_xH))
      else ((Zpos Coq_xH), Z0)

  (** val div_eucl : coq_Z -> coq_Z -> coq_Z * coq_Z **)

  let div_eucl a b =
    match a with
    | Z0 -> (Z0, Z0)
    | Zpos a' ->
      (match b with
       | Z0 -> (Z0, a)
       | Zpos _ -> pos_div_eucl a' b
       | Zneg b' ->
         let (q, r) = pos_div_eucl a' (Zpos b') in
         (match r with
          | Z0 -> ((opp q), Z0)
          | _ -> ((opp (add q (Zpos Coq_xH))), (add b r))))
    | Zneg a' ->
      (match b with
       | Z0 -> (Z0, a)
       | Zpos _ ->
         let (q, r) = pos_div_eucl a' b in
         (match r with
          | Z0 -> ((opp q), Z0)
          | _ -> ((opp (add q (Zpos Coq_xH))), (sub b r)))
       | Zneg b' -> let (q, r) = pos_div_eucl a' (Zpos b') in (q, (opp r)))

  (** val div : coq_Z -> coq_Z -> coq_Z **)

  let div a b =
    let (q, _) = div_eucl a b in q

  (** val modulo : coq_Z -> coq_Z -> coq_Z **)

  let modulo a b =
    let (_, r) = div_eucl a b in r

  (** val quotrem : coq_Z -> coq_Z -> coq_Z * coq_Z **)

  let quotrem a b =
    match a with
    | Z0 -> (Z0, Z0)
    | Zpos a0 ->
      (match b with
       | Z0 -> (Z0, a)
       | Zpos b0 ->
         let (q, r) = N.pos_div_eucl a0 (Npos b0) in ((of_N q), (of_N r))
       | Zneg b0 ->
         let (q, r) = N.pos_div_eucl a0 (Npos b0) in
         ((opp (of_N q)), (of_N r)))
    | Zneg a0 ->
      (match b with
       | Z0 -> (Z0, a)
       | Zpos b0 ->
         let (q, r) = N.pos_div_eucl a0 (Npos b0) in
         ((opp (of_N q)), (opp (of_N r)))
       | Zneg b0 ->
         let (q, r) = N.pos_div_eucl a0 (Npos b0) in
         ((of_N q), (opp (of_N r))))

  (** val quot : coq_Z -> coq_Z -> coq_Z **)

  let quot a b =
    fst (quotrem a b)

  (** val rem : coq_Z -> coq_Z -> coq_Z **)

  let rem a b =
    snd (quotrem a b)

  (** val log2 : coq_Z -> coq_Z **)

  let log2 = function
  | Zpos p0 ->
    (match p0 with
     | Coq_xI p -> Zpos (Pos.size p)
     | Coq_xO p -> Zpos (Pos.size p)
     | Coq_xH -> Z0)
  | _ -> Z0

  (** val coq_lor : coq_Z -> coq_Z -> coq_Z **)

  let coq_lor a b =
    match a with
    | Z0 -> b
    | Zpos a0 ->
      (match b with
       | Z0 -> a
       | Zpos b0 -> Zpos (Pos.coq_lor a0 b0)
       | Zneg b0 -> Zneg (N.succ_pos (N.ldiff (Pos.pred_N b0) (Npos a0))))
    | Zneg a0 ->
      (match b with
       | Z0 -> a
       | Zpos b0 -> Zneg (N.succ_pos (N.ldiff (Pos.pred_N a0) (Npos b0)))
       | Zneg b0 ->
         Zneg (N.succ_pos (N.coq_land (Pos.pred_N a0) (Pos.pred_N b0))))

  (** val coq_land : coq_Z -> coq_Z -> coq_Z **)

  let coq_land a b =
    match a with
    | Z0 -> Z0
    | Zpos a0 ->
      (match b with
       | Z0 -> Z0
       | Zpos b0 -> of_N (Pos.coq_land a0 b0)
       | Zneg b0 -> of_N (N.ldiff (Npos a0) (Pos.pred_N b0)))
    | Zneg a0 ->
      (match b with
       | Z0 -> Z0
       | Zpos b0 -> of_N (N.ldiff (Npos b0) (Pos.pred_N a0))
       | Zneg b0 ->
         Zneg (N.succ_pos (N.coq_lor (Pos.pred_N a0) (Pos.pred_N b0))))

  (** val coq_lxor : coq_Z -> coq_Z -> coq_Z **)

  let coq_lxor a b =
    match a with
    | Z0 -> b
    | Zpos a0 ->
      (match b with
       | Z0 -> a
       | Zpos b0 -> of_N (Pos.coq_lxor a0 b0)
       | Zneg b0 -> Zneg (N.succ_pos (N.coq_lxor (Npos a0) (Pos.pred_N b0))))
    | Zneg a0 ->
      (match b with
       | Z0 -> a
       | Zpos b0 -> Zneg (N.succ_pos (N.coq_lxor (Pos.pred_N a0) (Npos b0)))
       | Zneg b0 -> of_N (N.coq_lxor (Pos.pred_N a0) (Pos.pred_N b0)))

  (** val log2_up : coq_Z -> coq_Z **)

  let log2_up a =
    match compare (Zpos Coq_xH) a with
    | Lt -> succ (log2 (pred a))
    | _ -> Z0
 end
