open BinNums

module Pos =
 struct
  type mask =
  | IsNul
  | IsPos of positive
  | IsNeg
 end
