open Datatypes

module Nat =
 struct
  (** val eqb : nat -> nat -> bool **)

  let rec eqb n m =
    match n with
    | O -> (match m with
            | O -> true
            | S _ -> false)
    | S n' -> (match m with
               | O -> false
               | S m' -> eqb n' m')
 end
