open Datatypes

module Nat =
 struct
  (** val eqb : nat -> nat -> bool **)

  let rec eqb n m =
    match n with
    | O -> (match m with
            | O -> true
            | S _ -> false)
    | S n' -> (match m with
               | O -> false
               | S m' -> eqb n' m')

  (** val leb : nat -> nat -> bool **)

  let rec leb n m =
    match n with
    | O -> true
    | S n' -> (match m with
               | O -> false
               | S m' -> leb n' m')

  (** val ltb : nat -> nat -> bool **)

  let ltb n m =
    leb (S n) m
 end
