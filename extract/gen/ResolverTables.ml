open IR

(** val valid_types_for_arithmetic : operand_type list **)

let valid_types_for_arithmetic =
  (OPrim Int8) :: ((OPrim Int16) :: ((OPrim Int32) :: ((OPrim
    Int64) :: ((OPrim Int128) :: ((OPrim Uint8) :: ((OPrim Uint16) :: ((OPrim
    Uint32) :: ((OPrim Uint64) :: ((OPrim Uint128) :: ((OPrim
    Usize) :: ((OPrim Char8) :: [])))))))))))

(** val valid_types_for_bitshift : operand_type list **)

let valid_types_for_bitshift =
  (OPrim Uint8) :: ((OPrim Uint16) :: ((OPrim Uint32) :: ((OPrim
    Uint64) :: ((OPrim Uint128) :: []))))

(** val valid_types_for_bitwise : operand_type list **)

let valid_types_for_bitwise =
  (OPrim Uint8) :: ((OPrim Uint16) :: ((OPrim Uint32) :: ((OPrim
    Uint64) :: ((OPrim Uint128) :: []))))

(** val valid_types_for_complement : operand_type list **)

let valid_types_for_complement =
  (OPrim Bool) :: ((OPrim Uint8) :: ((OPrim Uint16) :: ((OPrim
    Uint32) :: ((OPrim Uint64) :: ((OPrim Uint128) :: [])))))

(** val valid_types_for_equality : operand_type list **)

let valid_types_for_equality =
  (OPrim Int8) :: ((OPrim Int16) :: ((OPrim Int32) :: ((OPrim
    Int64) :: ((OPrim Int128) :: ((OPrim Uint8) :: ((OPrim Uint16) :: ((OPrim
    Uint32) :: ((OPrim Uint64) :: ((OPrim Uint128) :: ((OPrim
    Usize) :: ((OPrim Char8) :: ((OPrim Bool) :: (OPointer :: [])))))))))))))

(** val valid_types_for_is_greater : operand_type list **)

let valid_types_for_is_greater =
  (OPrim Int8) :: ((OPrim Int16) :: ((OPrim Int32) :: ((OPrim
    Int64) :: ((OPrim Int128) :: ((OPrim Uint8) :: ((OPrim Uint16) :: ((OPrim
    Uint32) :: ((OPrim Uint64) :: ((OPrim Uint128) :: ((OPrim
    Usize) :: ((OPrim Char8) :: ((OPrim Bool) :: []))))))))))))

(** val valid_types_for_negative : operand_type list **)

let valid_types_for_negative =
  (OPrim Int8) :: ((OPrim Int16) :: ((OPrim Int32) :: ((OPrim
    Int64) :: ((OPrim Int128) :: []))))

(** val valid_types_for_offset : operand_type list **)

let valid_types_for_offset =
  (OPrim Usize) :: []

(** val valid_types_for_pointer : operand_type list **)

let valid_types_for_pointer =
  OPointer :: []

(** val binop_valid_types : binop -> operand_type list **)

let binop_valid_types = function
| BitwiseAnd -> valid_types_for_bitwise
| BitwiseOr -> valid_types_for_bitwise
| BitwiseXor -> valid_types_for_bitwise
| ShiftLeft -> valid_types_for_bitshift
| ShiftRight -> valid_types_for_bitshift
| AdvancePointer -> valid_types_for_pointer
| _ -> valid_types_for_arithmetic

(** val unop_valid_types : unop -> operand_type list **)

let unop_valid_types = function
| Negative -> valid_types_for_negative
| BitwiseComplement -> valid_types_for_complement

(** val cmpop_valid_types : cmpop -> operand_type list **)

let cmpop_valid_types = function
| Equals -> valid_types_for_equality
| DoesNotEqual -> valid_types_for_equality
| _ -> valid_types_for_is_greater

(** val is_valid_primitive_conversion :
    prim -> prim -> bool -> bool -> bool **)

let is_valid_primitive_conversion s d s_integral d_integral =
  if prim_eqb s d
  then false
  else if (&&) s_integral d_integral
       then true
       else if (&&) (prim_eqb s Uint8) (prim_eqb d Char8)
            then true
            else if (&&) (prim_eqb s Char8) (prim_eqb d Uint8)
                 then true
                 else (&&) (prim_eqb s Bool) d_integral
