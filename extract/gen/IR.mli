open List

type prim =
| Int8
| Int16
| Int32
| Int64
| Int128
| Uint8
| Uint16
| Uint32
| Uint64
| Uint128
| Usize
| Char8
| Bool

val prim_eqb : prim -> prim -> bool

type binop =
| Add
| Subtract
| Multiply
| Divide
| Modulo
| BitwiseAnd
| BitwiseOr
| BitwiseXor
| ShiftLeft
| ShiftRight
| AdvancePointer

type unop =
| Negative
| BitwiseComplement

type cmpop =
| Equals
| DoesNotEqual
| IsGreater
| IsGE
| IsLess
| IsLE

type instr =
| IAdd
| ISub
| IMul
| ISDiv
| IUDiv
| ISRem
| IURem
| IAnd
| IOr
| IXor
| IShl
| ILShr
| IAShr
| IGEP
| INeg
| INot
| IAddNSW
| IAddNUW
| ISubNSW
| ISubNUW
| IMulNSW
| IMulNUW
| ISDivExact
| INegNSW
| IOther

type pred =
| PEq
| PNe
| PSgt
| PUgt
| PSlt
| PUlt
| PSge
| PUge
| PSle
| PUle

type cast =
| CTrunc
| CSExt
| CZExt
| CNone

type operand_type =
| OPrim of prim
| OPointer

val operand_eqb : operand_type -> operand_type -> bool

val mem_operand : operand_type -> operand_type list -> bool
