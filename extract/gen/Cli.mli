open BinNat
open BinNums
open Datatypes

type subcommand =
| Build
| Run
| Emit

val get_backend :
  coq_N option -> coq_N option -> coq_N option -> coq_N -> coq_N

val backend_for :
  subcommand -> coq_N option -> coq_N option -> coq_N option -> coq_N option
  -> coq_N -> coq_N -> coq_N option

type backend_result =
| Spawned of coq_N option
| SpawnFailed

val tool_succeeds : subcommand -> bool -> backend_result -> bool

val invokes_backend : subcommand -> bool -> bool

val ll_files_written : bool -> nat -> nat
