open Datatypes

(** val removelast : 'a1 list -> 'a1 list **)

let rec removelast = function
| [] -> []
| a :: l0 -> (match l0 with
              | [] -> []
              | _ :: _ -> a :: (removelast l0))

(** val flat_map : ('a1 -> 'a2 list) -> 'a1 list -> 'a2 list **)

let rec flat_map f = function
| [] -> []
| x :: t -> app (f x) (flat_map f t)

(** val existsb : ('a1 -> bool) -> 'a1 list -> bool **)

let rec existsb f = function
| [] -> false
| a :: l0 -> (||) (f a) (existsb f l0)
