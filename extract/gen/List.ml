open Datatypes

(** val tl : 'a1 list -> 'a1 list **)

let tl = function
| [] -> []
| _ :: m -> m

(** val nth : nat -> 'a1 list -> 'a1 -> 'a1 **)

let rec nth n l default =
  match n with
  | O -> (match l with
          | [] -> default
          | x :: _ -> x)
  | S m -> (match l with
            | [] -> default
            | _ :: t -> nth m t default)

(** val nth_error : 'a1 list -> nat -> 'a1 option **)

let rec nth_error l = function
| O -> (match l with
        | [] -> None
        | x :: _ -> Some x)
| S n0 -> (match l with
           | [] -> None
           | _ :: l0 -> nth_error l0 n0)

(** val removelast : 'a1 list -> 'a1 list **)

let rec removelast = function
| [] -> []
| a :: l0 -> (match l0 with
              | [] -> []
              | _ :: _ -> a :: (removelast l0))

(** val rev : 'a1 list -> 'a1 list **)

let rec rev = function
| [] -> []
| x :: l' -> app (rev l') (x :: [])

(** val concat : 'a1 list list -> 'a1 list **)

let rec concat = function
| [] -> []
| x :: l0 -> app x (concat l0)

(** val map : ('a1 -> 'a2) -> 'a1 list -> 'a2 list **)

let rec map f = function
| [] -> []
| a :: t -> (f a) :: (map f t)

(** val flat_map : ('a1 -> 'a2 list) -> 'a1 list -> 'a2 list **)

let rec flat_map f = function
| [] -> []
| x :: t -> app (f x) (flat_map f t)

(** val fold_left : ('a1 -> 'a2 -> 'a1) -> 'a2 list -> 'a1 -> 'a1 **)

let rec fold_left f l a0 =
  match l with
  | [] -> a0
  | b :: t -> fold_left f t (f a0 b)

(** val fold_right : ('a2 -> 'a1 -> 'a1) -> 'a1 -> 'a2 list -> 'a1 **)

let rec fold_right f a0 = function
| [] -> a0
| b :: t -> f b (fold_right f a0 t)

(** val existsb : ('a1 -> bool) -> 'a1 list -> bool **)

let rec existsb f = function
| [] -> false
| a :: l0 -> (||) (f a) (existsb f l0)

(** val forallb : ('a1 -> bool) -> 'a1 list -> bool **)

let rec forallb f = function
| [] -> true
| a :: l0 -> (&&) (f a) (forallb f l0)

(** val filter : ('a1 -> bool) -> 'a1 list -> 'a1 list **)

let rec filter f = function
| [] -> []
| x :: l0 -> if f x then x :: (filter f l0) else filter f l0

(** val find : ('a1 -> bool) -> 'a1 list -> 'a1 option **)

let rec find f = function
| [] -> None
| x :: tl0 -> if f x then Some x else find f tl0

(** val combine : 'a1 list -> 'a2 list -> ('a1 * 'a2) list **)

let rec combine l l' =
  match l with
  | [] -> []
  | x :: tl0 ->
    (match l' with
     | [] -> []
     | y :: tl' -> (x, y) :: (combine tl0 tl'))

(** val firstn : nat -> 'a1 list -> 'a1 list **)

let rec firstn n l =
  match n with
  | O -> []
  | S n0 -> (match l with
             | [] -> []
             | a :: l0 -> a :: (firstn n0 l0))

(** val skipn : nat -> 'a1 list -> 'a1 list **)

let rec skipn n l =
  match n with
  | O -> l
  | S n0 -> (match l with
             | [] -> []
             | _ :: l0 -> skipn n0 l0)

(** val seq : nat -> nat -> nat list **)

let rec seq start = function
| O -> []
| S len0 -> start :: (seq (S start) len0)

(** val repeat : 'a1 -> nat -> 'a1 list **)

let rec repeat x = function
| O -> []
| S k -> x :: (repeat x k)
