open Datatypes

val removelast : 'a1 list -> 'a1 list

val flat_map : ('a1 -> 'a2 list) -> 'a1 list -> 'a2 list

val existsb : ('a1 -> bool) -> 'a1 list -> bool
