open Datatypes

val tl : 'a1 list -> 'a1 list

val nth : nat -> 'a1 list -> 'a1 -> 'a1

val nth_error : 'a1 list -> nat -> 'a1 option

val removelast : 'a1 list -> 'a1 list

val rev : 'a1 list -> 'a1 list

val concat : 'a1 list list -> 'a1 list

val map : ('a1 -> 'a2) -> 'a1 list -> 'a2 list

val flat_map : ('a1 -> 'a2 list) -> 'a1 list -> 'a2 list

val fold_left : ('a1 -> 'a2 -> 'a1) -> 'a2 list -> 'a1 -> 'a1

val fold_right : ('a2 -> 'a1 -> 'a1) -> 'a1 -> 'a2 list -> 'a1

val existsb : ('a1 -> bool) -> 'a1 list -> bool

val forallb : ('a1 -> bool) -> 'a1 list -> bool

val filter : ('a1 -> bool) -> 'a1 list -> 'a1 list

val find : ('a1 -> bool) -> 'a1 list -> 'a1 option

val combine : 'a1 list -> 'a2 list -> ('a1 * 'a2) list

val firstn : nat -> 'a1 list -> 'a1 list

val skipn : nat -> 'a1 list -> 'a1 list

val seq : nat -> nat -> nat list

val repeat : 'a1 -> nat -> 'a1 list
