open Ascii

type string =
| EmptyString
| String of ascii * string

(** val list_ascii_of_string : string -> ascii list **)

let rec list_ascii_of_string = function
| EmptyString -> []
| String (ch, s0) -> ch :: (list_ascii_of_string s0)
