open BinNat
open BinNums
open Datatypes
open List

type refkind =
| RThenElse
| RIf
| RBlock
| RItem
| RList
| RListItem

type node =
| NPlain of coq_N * coq_N list
| NFlags of bool * coq_N
| NRef of refkind * coq_N
| NImpl of coq_N
| NStart of coq_N
| NEnd of coq_N
| NEndless

val coq_T_NoMoreItems : coq_N

val coq_NoMoreItems : node

val is_marker : node -> bool

val coq_U24_MOD : coq_N

val adjust : coq_N -> coq_N -> coq_N

val convert : coq_N -> node -> node

val get : node list -> coq_N -> node option

val len : node list -> coq_N

type outcome =
| Done of node list
| OutOfFuel
| Wrapped

val build : node list -> nat -> coq_N -> coq_N -> node list -> outcome

val build_header : node list -> outcome

val indexed : coq_N -> node list -> (coq_N * node) list

val covers : coq_N -> (coq_N * node) -> bool

val privateb : node list -> coq_N -> bool

val count_private : node list -> coq_N -> node list -> coq_N

val skipped_before : node list -> coq_N -> coq_N

val public_part : node list -> coq_N -> node list -> node list

val header_spec : node list -> node list

val slice : node list -> coq_N -> coq_N -> node list

val zone_ok : node list -> (coq_N * node) -> bool

val zones_wfb : node list -> bool

val ref_ok : node list -> (coq_N * node) -> bool

val refs_localb : node list -> bool
