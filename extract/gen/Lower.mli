open BinInt
open BinNums
open Bits
open Datatypes
open IR

val div_ub : bool -> coq_Z -> coq_Z -> coq_Z -> bool

val src_binop : binop -> bool -> coq_Z -> coq_Z -> coq_Z -> coq_Z option

val src_unop : unop -> bool -> coq_Z -> coq_Z -> coq_Z option

val src_cmp : cmpop -> coq_Z -> coq_Z -> bool

val src_cast : bool -> coq_Z -> coq_Z -> coq_Z
