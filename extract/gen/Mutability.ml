open BinNat
open BinNums
open Common
open Datatypes
open PeanoNat

(** val coq_E_SILENT : code **)

let coq_E_SILENT =
  N0

(** val coq_E352 : code **)

let coq_E352 =
  Npos (Coq_xO (Coq_xO (Coq_xO (Coq_xO (Coq_xO (Coq_xI (Coq_xI (Coq_xO
    Coq_xH))))))))

(** val coq_E510 : code **)

let coq_E510 =
  Npos (Coq_xO (Coq_xI (Coq_xI (Coq_xI (Coq_xI (Coq_xI (Coq_xI (Coq_xI
    Coq_xH))))))))

(** val coq_E511 : code **)

let coq_E511 =
  Npos (Coq_xI (Coq_xI (Coq_xI (Coq_xI (Coq_xI (Coq_xI (Coq_xI (Coq_xI
    Coq_xH))))))))

(** val coq_E512 : code **)

let coq_E512 =
  Npos (Coq_xO (Coq_xO (Coq_xO (Coq_xO (Coq_xO (Coq_xO (Coq_xO (Coq_xO
    (Coq_xO Coq_xH)))))))))

(** val coq_E513 : code **)

let coq_E513 =
  Npos (Coq_xI (Coq_xO (Coq_xO (Coq_xO (Coq_xO (Coq_xO (Coq_xO (Coq_xO
    (Coq_xO Coq_xH)))))))))

(** val coq_E530 : code **)

let coq_E530 =
  Npos (Coq_xO (Coq_xI (Coq_xO (Coq_xO (Coq_xI (Coq_xO (Coq_xO (Coq_xO
    (Coq_xO Coq_xH)))))))))

(** val coq_E531 : code **)

let coq_E531 =
  Npos (Coq_xI (Coq_xI (Coq_xO (Coq_xO (Coq_xI (Coq_xO (Coq_xO (Coq_xO
    (Coq_xO Coq_xH)))))))))

(** val coq_E532 : code **)

let coq_E532 =
  Npos (Coq_xO (Coq_xO (Coq_xI (Coq_xO (Coq_xI (Coq_xO (Coq_xO (Coq_xO
    (Coq_xO Coq_xH)))))))))

(** val coq_E533 : code **)

let coq_E533 =
  Npos (Coq_xI (Coq_xO (Coq_xI (Coq_xO (Coq_xI (Coq_xO (Coq_xO (Coq_xO
    (Coq_xO Coq_xH)))))))))

(** val prim_void : coq_N **)

let prim_void =
  N0

(** val prim_i32 : coq_N **)

let prim_i32 =
  Npos (Coq_xI Coq_xH)

(** val prim_u8 : coq_N **)

let prim_u8 =
  Npos (Coq_xO (Coq_xI Coq_xH))

(** val prim_char8 : coq_N **)

let prim_char8 =
  Npos (Coq_xO (Coq_xO (Coq_xI Coq_xH)))

(** val prim_bool : coq_N **)

let prim_bool =
  Npos (Coq_xI (Coq_xO (Coq_xI Coq_xH)))

type mty =
| MPrim of coq_N
| MArray of mty * coq_N
| MArrayNamed of mty * name
| MSlice of mty
| MSlicePointer of mty
| MEndless of mty
| MArraylike of mty
| MStruct of name
| MWord of name
| MUnresolved
| MPointer of mty
| MView of mty

type pty =
| PNone
| PErr
| POk of mty

(** val mty_eqb : mty -> mty -> bool **)

let rec mty_eqb a b =
  match a with
  | MPrim x -> (match b with
                | MPrim y -> N.eqb x y
                | _ -> false)
  | MArray (x, n) ->
    (match b with
     | MArray (y, m) -> (&&) (N.eqb n m) (mty_eqb x y)
     | _ -> false)
  | MArrayNamed (x, n) ->
    (match b with
     | MArrayNamed (y, m) -> (&&) (N.eqb n m) (mty_eqb x y)
     | _ -> false)
  | MSlice x -> (match b with
                 | MSlice y -> mty_eqb x y
                 | _ -> false)
  | MSlicePointer x ->
    (match b with
     | MSlicePointer y -> mty_eqb x y
     | _ -> false)
  | MEndless x -> (match b with
                   | MEndless y -> mty_eqb x y
                   | _ -> false)
  | MArraylike x -> (match b with
                     | MArraylike y -> mty_eqb x y
                     | _ -> false)
  | MStruct x -> (match b with
                  | MStruct y -> N.eqb x y
                  | _ -> false)
  | MWord x -> (match b with
                | MWord y -> N.eqb x y
                | _ -> false)
  | MUnresolved -> (match b with
                    | MUnresolved -> true
                    | _ -> false)
  | MPointer x -> (match b with
                   | MPointer y -> mty_eqb x y
                   | _ -> false)
  | MView x -> (match b with
                | MView y -> mty_eqb x y
                | _ -> false)

(** val prim_alias : coq_N -> coq_N -> bool **)

let prim_alias x y =
  (||) ((&&) (N.eqb x prim_char8) (N.eqb y prim_u8))
    ((&&) (N.eqb x prim_u8) (N.eqb y prim_char8))

(** val ty_equals : mty -> mty -> bool **)

let rec ty_equals a b =
  match a with
  | MPrim x ->
    (match b with
     | MPrim y -> (||) (N.eqb x y) (prim_alias x y)
     | _ -> false)
  | MArray (x, n) ->
    (match b with
     | MArray (y, m) -> (&&) (N.eqb n m) (ty_equals x y)
     | _ -> false)
  | MArrayNamed (x, n) ->
    (match b with
     | MArrayNamed (y, m) -> (&&) (N.eqb n m) (ty_equals x y)
     | _ -> false)
  | MSlice x -> (match b with
                 | MSlice y -> ty_equals x y
                 | _ -> false)
  | MSlicePointer x ->
    (match b with
     | MSlicePointer y -> ty_equals x y
     | _ -> false)
  | MEndless x -> (match b with
                   | MEndless y -> ty_equals x y
                   | _ -> false)
  | MArraylike x -> (match b with
                     | MArraylike y -> ty_equals x y
                     | _ -> false)
  | MStruct x -> (match b with
                  | MStruct y -> N.eqb x y
                  | _ -> false)
  | MWord x -> (match b with
                | MWord y -> N.eqb x y
                | _ -> false)
  | MUnresolved -> (match b with
                    | MUnresolved -> true
                    | _ -> false)
  | MPointer x -> (match b with
                   | MPointer y -> ty_equals x y
                   | _ -> false)
  | MView x -> (match b with
                | MView y -> ty_equals x y
                | _ -> false)

(** val is_void : mty -> bool **)

let is_void = function
| MPrim k -> N.eqb k prim_void
| _ -> false

(** val can_be_element : mty -> bool **)

let can_be_element = function
| MPrim k -> negb (N.eqb k prim_void)
| MSlice _ -> false
| MSlicePointer _ -> false
| MEndless _ -> false
| MView _ -> false
| _ -> true

(** val is_wellformed_inner : mty -> bool **)

let rec is_wellformed_inner = function
| MPrim k -> negb (N.eqb k prim_void)
| MArray (e, _) -> (&&) (can_be_element e) (is_wellformed_inner e)
| MArrayNamed (e, _) -> (&&) (can_be_element e) (is_wellformed_inner e)
| MSlice _ -> false
| MSlicePointer _ -> false
| MEndless e -> (&&) (can_be_element e) (is_wellformed_inner e)
| MArraylike e -> (&&) (can_be_element e) (is_wellformed_inner e)
| MPointer d -> is_wellformed_inner d
| MView _ -> false
| _ -> true

(** val is_wellformed : mty -> bool **)

let is_wellformed = function
| MArray (e, _) -> (&&) (can_be_element e) (is_wellformed_inner e)
| MArrayNamed (e, _) -> (&&) (can_be_element e) (is_wellformed_inner e)
| MSlice e -> (&&) (can_be_element e) (is_wellformed_inner e)
| MSlicePointer e -> (&&) (can_be_element e) (is_wellformed_inner e)
| MEndless e -> (&&) (can_be_element e) (is_wellformed_inner e)
| MArraylike e -> (&&) (can_be_element e) (is_wellformed_inner e)
| MPointer d -> is_wellformed_inner d
| MView d -> is_wellformed_inner d
| _ -> true

(** val can_be_variable : mty -> bool **)

let can_be_variable t = match t with
| MSlicePointer _ -> false
| MEndless _ -> false
| MArraylike _ -> false
| MView _ -> false
| _ -> (&&) (negb (is_void t)) (is_wellformed t)

(** val can_coerce_address_into : mty -> mty -> bool **)

let can_coerce_address_into a p =
  match a with
  | MArray (x, _) ->
    (match p with
     | MSlicePointer y -> ty_equals x y
     | MPointer t -> (match t with
                      | MEndless y -> ty_equals x y
                      | _ -> false)
     | _ -> false)
  | MArrayNamed (x, _) ->
    (match p with
     | MSlicePointer y -> ty_equals x y
     | MPointer t -> (match t with
                      | MEndless y -> ty_equals x y
                      | _ -> false)
     | _ -> false)
  | _ -> false

type expr =
| ELeaf
| EBinary of expr * expr
| EUnary of expr
| EArrayLit of expr list
| EStructural of expr list
| EParen of expr
| EAutocoerce of expr
| ECast of expr
| EDeref of reference * pty
| ELengthOf of reference
| ECall of name * expr list
| EPoison
and reference =
| Ref of name option * rstep list * coq_N
and rstep =
| Element of expr
| Member of name
| Autoderef
| Autoview
| AutodesliceByView
| AutodesliceByPointer
| AutodesliceLength

(** val r_base : reference -> name option **)

let r_base = function
| Ref (b, _, _) -> b

(** val r_steps : reference -> rstep list **)

let r_steps = function
| Ref (_, s, _) -> s

(** val r_ad : reference -> coq_N **)

let r_ad = function
| Ref (_, _, a) -> a

type stmt =
| SDeclaration of name * expr option * pty
| SAssignment of reference * expr
| SMethodCall of name * expr list
| SIf of expr * expr * stmt * stmt option
| SBlock of stmt list
| SOther

type param = { p_name : name option; p_type : mty option }

type fbody = { fb_statements : stmt list; fb_return : expr option }

type decl =
| DConstant of name * mty option
| DFunction of param list * fbody option
| DFunctionHead of param list
| DStructure of name option list
| DOther

type menv = (name * bool) list

(** val lookup : menv -> name -> bool option **)

let rec lookup v x =
  match v with
  | [] -> None
  | p :: rest -> let (y, m) = p in if N.eqb x y then Some m else lookup rest x

(** val declare_variable : menv -> name -> bool -> menv **)

let declare_variable v x is_mutable =
  (x, is_mutable) :: v

type uv_result =
| UvOk
| UvError of code
| UvPoisoned

(** val use_variable : menv -> name option -> bool -> uv_result **)

let use_variable v base is_mutated =
  match base with
  | Some x ->
    (match lookup v x with
     | Some is_mutable ->
       if (&&) is_mutated (negb is_mutable) then UvError coq_E530 else UvOk
     | None -> UvPoisoned)
  | None -> UvOk

(** val uv_codes : uv_result -> code list **)

let uv_codes = function
| UvOk -> []
| UvError c -> c :: []
| UvPoisoned -> coq_E_SILENT :: []

(** val needs_outer_mutability : rstep list -> bool **)

let rec needs_outer_mutability = function
| [] -> true
| r :: rest ->
  (match r with
   | Autoderef -> false
   | AutodesliceByPointer -> false
   | _ -> needs_outer_mutability rest)

(** val var_is_mutable : pty -> bool **)

let var_is_mutable = function
| POk t0 ->
  (match t0 with
   | MSlice _ -> false
   | MSlicePointer _ -> false
   | MView _ -> false
   | _ -> true)
| _ -> true

(** val check_assignment : menv -> reference -> code list **)

let check_assignment v r =
  uv_codes (use_variable v (r_base r) (needs_outer_mutability (r_steps r)))

(** val is_addressed : reference -> bool **)

let is_addressed r =
  (&&) (N.ltb N0 (r_ad r)) (needs_outer_mutability (r_steps r))

(** val check_address_taken : menv -> reference -> code list **)

let check_address_taken v r =
  uv_codes (use_variable v (r_base r) (is_addressed r))

(** val mut_expr : menv -> expr -> code list **)

let rec mut_expr v = function
| EBinary (l, r) -> app (mut_expr v l) (mut_expr v r)
| EUnary x -> mut_expr v x
| EArrayLit es ->
  let rec go = function
  | [] -> []
  | x :: xs -> app (mut_expr v x) (go xs)
  in go es
| EStructural es ->
  let rec go = function
  | [] -> []
  | x :: xs -> app (mut_expr v x) (go xs)
  in go es
| EParen x -> mut_expr v x
| EAutocoerce x -> mut_expr v x
| ECast x -> mut_expr v x
| EDeref (r, _) -> mut_ref v r (is_addressed r)
| ELengthOf r -> mut_ref v r false
| ECall (_, es) ->
  let rec go = function
  | [] -> []
  | x :: xs -> app (mut_expr v x) (go xs)
  in go es
| _ -> []

(** val mut_ref : menv -> reference -> bool -> code list **)

and mut_ref v r is_mutated =
  let Ref (b, ss, _) = r in
  (match use_variable v b is_mutated with
   | UvOk ->
     let rec go = function
     | [] -> []
     | s :: xs -> app (mut_step v s) (go xs)
     in go ss
   | UvError c -> c :: []
   | UvPoisoned -> coq_E_SILENT :: [])

(** val mut_step : menv -> rstep -> code list **)

and mut_step v = function
| Element a -> mut_expr v a
| _ -> []

(** val mut_exprs : menv -> expr list -> code list **)

let rec mut_exprs v = function
| [] -> []
| x :: xs -> app (mut_expr v x) (mut_exprs v xs)

(** val mut_steps : menv -> rstep list -> code list **)

let rec mut_steps v = function
| [] -> []
| s :: xs -> app (mut_step v s) (mut_steps v xs)

(** val mut_stmt : menv -> stmt -> menv * code list **)

let rec mut_stmt v = function
| SDeclaration (x, value, t) ->
  let c = match value with
          | Some e -> mut_expr v e
          | None -> [] in
  ((declare_variable v x (var_is_mutable t)), c)
| SAssignment (r, value) ->
  (v,
    (match use_variable v (r_base r) (needs_outer_mutability (r_steps r)) with
     | UvOk -> app (mut_expr v value) (mut_steps v (r_steps r))
     | UvError c -> c :: []
     | UvPoisoned -> coq_E_SILENT :: []))
| SMethodCall (_, args) -> (v, (mut_exprs v args))
| SIf (cl, cr, th, el) ->
  let c0 = app (mut_expr v cl) (mut_expr v cr) in
  let (v1, c1) = mut_stmt v th in
  (match el with
   | Some e -> let (v2, c2) = mut_stmt v1 e in (v2, (app c0 (app c1 c2)))
   | None -> (v1, (app c0 c1)))
| SBlock b ->
  let rec go v0 = function
  | [] -> (v0, [])
  | s0 :: rest ->
    let (v1, c1) = mut_stmt v0 s0 in
    let (v2, c2) = go v1 rest in (v2, (app c1 c2))
  in go v b
| SOther -> (v, [])

(** val mut_stmts : menv -> stmt list -> menv * code list **)

let rec mut_stmts v = function
| [] -> (v, [])
| s :: rest ->
  let (v1, c1) = mut_stmt v s in
  let (v2, c2) = mut_stmts v1 rest in (v2, (app c1 c2))

(** val mut_body : menv -> fbody -> menv * code list **)

let mut_body v b =
  let (v1, c1) = mut_stmts v b.fb_statements in
  (v1, (app c1 (match b.fb_return with
                | Some e -> mut_expr v1 e
                | None -> [])))

(** val declare_param : menv -> param -> menv **)

let declare_param v p =
  match p.p_name with
  | Some x ->
    declare_variable v x (match p.p_type with
                          | Some _ -> false
                          | None -> true)
  | None -> v

(** val declare_params : menv -> param list -> menv **)

let rec declare_params v = function
| [] -> v
| p :: rest -> declare_params (declare_param v p) rest

(** val declare_members : menv -> name option list -> menv **)

let rec declare_members v = function
| [] -> v
| o :: rest ->
  (match o with
   | Some x -> declare_members (declare_variable v x true) rest
   | None -> declare_members v rest)

(** val mut_decl : menv -> decl -> menv * code list **)

let mut_decl v = function
| DConstant (x, t) ->
  ((declare_variable v x (match t with
                          | Some _ -> false
                          | None -> true)), [])
| DFunction (ps, body) ->
  let v0 = declare_params v ps in
  (match body with
   | Some b -> mut_body v0 b
   | None -> (v0, []))
| DFunctionHead ps -> ((declare_params v ps), [])
| DStructure ms -> ((declare_members v ms), [])
| DOther -> (v, [])

(** val mut_program : menv -> decl list -> menv * code list **)

let rec mut_program v = function
| [] -> (v, [])
| d :: rest ->
  let (v1, c1) = mut_decl v d in
  let (v2, c2) = mut_program v1 rest in (v2, (app c1 c2))

(** val check_value_use : bool -> pty -> code list **)

let check_value_use is_immediate_function_argument = function
| POk t0 ->
  (match t0 with
   | MArray (_, _) ->
     if is_immediate_function_argument then [] else coq_E531 :: []
   | MSlice _ -> if is_immediate_function_argument then [] else coq_E532 :: []
   | MSlicePointer _ ->
     if is_immediate_function_argument then [] else coq_E532 :: []
   | MEndless _ ->
     if is_immediate_function_argument then [] else coq_E531 :: []
   | MArraylike _ ->
     if is_immediate_function_argument then [] else coq_E532 :: []
   | MStruct _ ->
     if is_immediate_function_argument then [] else coq_E533 :: []
   | _ -> [])
| _ -> []

(** val fc_expr : bool -> expr -> bool * code list **)

let rec fc_expr imm = function
| EBinary (l, r) ->
  let (i1, c1) = fc_expr false l in
  let (i2, c2) = fc_expr i1 r in (i2, (app c1 c2))
| EUnary x -> fc_expr false x
| EArrayLit es ->
  let rec go i = function
  | [] -> (i, [])
  | x :: xs ->
    let (i1, c1) = fc_expr i x in let (i2, c2) = go i1 xs in (i2, (app c1 c2))
  in go false es
| EStructural es ->
  let rec go i = function
  | [] -> (i, [])
  | x :: xs ->
    let (i1, c1) = fc_expr i x in let (i2, c2) = go i1 xs in (i2, (app c1 c2))
  in go false es
| EParen x -> fc_expr imm x
| EAutocoerce x -> fc_expr imm x
| ECast x -> fc_expr imm x
| EDeref (r, t) ->
  let (i1, c1) = fc_ref imm r in (i1, (app (check_value_use imm t) c1))
| ELengthOf r -> fc_ref imm r
| ECall (_, args) ->
  (false,
    (let rec go = function
     | [] -> []
     | x :: xs -> app (snd (fc_expr true x)) (go xs)
     in go args))
| _ -> (imm, [])

(** val fc_ref : bool -> reference -> bool * code list **)

and fc_ref imm = function
| Ref (_, ss, _) ->
  let rec go i = function
  | [] -> (i, [])
  | s :: xs ->
    let (i1, c1) = fc_step i s in let (i2, c2) = go i1 xs in (i2, (app c1 c2))
  in go imm ss

(** val fc_step : bool -> rstep -> bool * code list **)

and fc_step imm = function
| Element a -> fc_expr false a
| _ -> (imm, [])

(** val fc_args : expr list -> code list **)

let rec fc_args = function
| [] -> []
| x :: xs -> app (snd (fc_expr true x)) (fc_args xs)

(** val fc_decl_type : pty -> pty * code list **)

let fc_decl_type t = match t with
| POk vt -> if can_be_variable vt then (t, []) else (PErr, (coq_E352 :: []))
| _ -> (t, [])

(** val fc_stmt : stmt -> bool * code list **)

let rec fc_stmt = function
| SDeclaration (_, value, t) ->
  let c0 = snd (fc_decl_type t) in
  (match value with
   | Some e -> let (i1, c1) = fc_expr false e in (i1, (app c0 c1))
   | None -> (false, c0))
| SAssignment (r, value) ->
  let (i1, c1) = fc_ref false r in
  let (i2, c2) = fc_expr i1 value in (i2, (app c1 c2))
| SMethodCall (_, args) -> (false, (fc_args args))
| SIf (cl, cr, th, el) ->
  let (i1, c1) = fc_expr false cl in
  let (_, c2) = fc_expr i1 cr in
  let (i3, c3) = fc_stmt th in
  (match el with
   | Some e -> let (i4, c4) = fc_stmt e in (i4, (app c1 (app c2 (app c3 c4))))
   | None -> (i3, (app c1 (app c2 c3))))
| SBlock b ->
  let rec go i = function
  | [] -> (i, [])
  | s0 :: rest ->
    let (i1, c1) = fc_stmt s0 in
    let (i2, c2) = go i1 rest in (i2, (app c1 c2))
  in go false b
| SOther -> (false, [])

(** val fc_stmts : bool -> stmt list -> bool * code list **)

let rec fc_stmts imm = function
| [] -> (imm, [])
| s :: rest ->
  let (i1, c1) = fc_stmt s in
  let (i2, c2) = fc_stmts i1 rest in (i2, (app c1 c2))

(** val fc_body : fbody -> code list **)

let fc_body b =
  let (i1, c1) = fc_stmts false b.fb_statements in
  app c1 (match b.fb_return with
          | Some e -> snd (fc_expr i1 e)
          | None -> [])

(** val can_hint_missing_address : bool -> mty -> mty -> bool **)

let can_hint_missing_address arg_is_deref a p =
  if arg_is_deref
  then (match p with
        | MPointer d ->
          if mty_eqb d a then true else can_coerce_address_into a p
        | _ -> can_coerce_address_into a p)
  else false

(** val argument_code : param -> bool -> pty -> code option **)

let argument_code p arg_is_deref a =
  match p.p_type with
  | Some pt ->
    (match a with
     | POk at_ ->
       if mty_eqb pt at_
       then None
       else (match p.p_name with
             | Some _ ->
               if can_hint_missing_address arg_is_deref at_ pt
               then Some coq_E513
               else Some coq_E512
             | None -> None)
     | _ -> None)
  | None -> None

(** val zip_argument_codes :
    param list -> (bool * pty) list -> code option **)

let rec zip_argument_codes ps args =
  match ps with
  | [] -> None
  | p :: ps' ->
    (match args with
     | [] -> None
     | p0 :: args' ->
       let (d, a) = p0 in
       (match argument_code p d a with
        | Some c -> Some c
        | None -> zip_argument_codes ps' args'))

(** val use_function : param list -> (bool * pty) list -> code option **)

let use_function ps args =
  if Nat.ltb (length args) (length ps)
  then Some coq_E510
  else if Nat.ltb (length ps) (length args)
       then Some coq_E511
       else zip_argument_codes ps args
