open BinNat
open BinNums
open Datatypes

type subcommand =
| Build
| Run
| Emit

(** val get_backend :
    coq_N option -> coq_N option -> coq_N option -> coq_N -> coq_N **)

let get_backend flag env config default =
  match flag with
  | Some b -> b
  | None ->
    (match env with
     | Some b -> b
     | None -> (match config with
                | Some b -> b
                | None -> default))

(** val backend_for :
    subcommand -> coq_N option -> coq_N option -> coq_N option -> coq_N
    option -> coq_N -> coq_N -> coq_N option **)

let backend_for s flag env_backend env_lli config clang lli =
  match s with
  | Build -> Some (get_backend flag env_backend config clang)
  | Run -> Some (get_backend flag env_lli None lli)
  | Emit -> None

type backend_result =
| Spawned of coq_N option
| SpawnFailed

(** val tool_succeeds : subcommand -> bool -> backend_result -> bool **)

let tool_succeeds s compile_ok b =
  if negb compile_ok
  then false
  else (match s with
        | Build ->
          (match b with
           | Spawned exit_code ->
             (match exit_code with
              | Some c -> N.eqb c N0
              | None -> false)
           | SpawnFailed -> false)
        | Run ->
          (match b with
           | Spawned exit_code ->
             (match exit_code with
              | Some _ -> true
              | None -> false)
           | SpawnFailed -> false)
        | Emit -> true)

(** val invokes_backend : subcommand -> bool -> bool **)

let invokes_backend s compile_ok =
  (&&) compile_ok (match s with
                   | Emit -> false
                   | _ -> true)

(** val ll_files_written : bool -> nat -> nat **)

let ll_files_written has_out_dir modules_generated =
  if has_out_dir then modules_generated else O
