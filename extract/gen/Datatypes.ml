
(** val negb : bool -> bool **)

let negb = function
| true -> false
| false -> true

type nat =
| O
| S of nat

(** val fst : ('a1 * 'a2) -> 'a1 **)

let fst = function
| (x, _) -> x

(** val snd : ('a1 * 'a2) -> 'a2 **)

let snd = function
| (_, y) -> y

(** val length : 'a1 list -> nat **)

let rec length = function
| [] -> O
| _ :: l' -> S (length l')

(** val app : 'a1 list -> 'a1 list -> 'a1 list **)

let rec app l m =
  match l with
  | [] -> m
  | a :: l1 -> a :: (app l1 m)

type comparison =
| Eq
| Lt
| Gt

(** val coq_CompOpp : comparison -> comparison **)

let coq_CompOpp = function
| Eq -> Eq
| Lt -> Gt
| Gt -> Lt
