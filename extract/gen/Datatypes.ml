
(** val negb : bool -> bool **)

let negb = function
| true -> false
| false -> true

(** val fst : ('a1 * 'a2) -> 'a1 **)

let fst = function
| (x, _) -> x

(** val snd : ('a1 * 'a2) -> 'a2 **)

let snd = function
| (_, y) -> y

(** val app : 'a1 list -> 'a1 list -> 'a1 list **)

let rec app l m =
  match l with
  | [] -> m
  | a :: l1 -> a :: (app l1 m)

type comparison =
| Eq
| Lt
| Gt
