open Datatypes
open IR
open Resolve
open TypeTables

(** val is_arith : binop -> bool **)

let is_arith = function
| Add -> true
| Subtract -> true
| Multiply -> true
| Divide -> true
| Modulo -> true
| _ -> false

(** val is_bitop : binop -> bool **)

let is_bitop = function
| BitwiseAnd -> true
| BitwiseOr -> true
| BitwiseXor -> true
| ShiftLeft -> true
| ShiftRight -> true
| _ -> false

(** val is_equality : cmpop -> bool **)

let is_equality = function
| Equals -> true
| DoesNotEqual -> true
| _ -> false

(** val binop_class : binop -> operand_type -> bool **)

let binop_class op = function
| OPrim p ->
  if is_arith op
  then (||) (vt_is_integral p) (prim_eqb p Char8)
  else if is_bitop op then vt_is_bitfield p else false
| OPointer -> is_advance op

(** val unop_class : unop -> operand_type -> bool **)

let unop_class op = function
| OPrim p ->
  (match op with
   | Negative -> vt_is_signed p
   | BitwiseComplement -> (||) (vt_is_bitfield p) (prim_eqb p Bool))
| OPointer -> false

(** val cmpop_class : cmpop -> operand_type -> bool **)

let cmpop_class op = function
| OPrim _ -> true
| OPointer -> is_equality op

(** val conversion_spec : prim -> prim -> bool **)

let conversion_spec s d =
  (&&) (negb (prim_eqb s d))
    ((||)
      ((||)
        ((||) ((&&) (vt_is_integral s) (vt_is_integral d))
          ((&&) (prim_eqb s Uint8) (prim_eqb d Char8)))
        ((&&) (prim_eqb s Char8) (prim_eqb d Uint8)))
      ((&&) (prim_eqb s Bool) (vt_is_integral d)))
