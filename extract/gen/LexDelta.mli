open Ascii
open BinInt
open BinNat
open BinNums
open Datatypes
open IR
open List
open String
open Tok

val lenN : coq_N list -> coq_N

val coq_MAX_SOURCE_LEN : coq_N

val coq_MAX_NUM_TOKENS : coq_N

val coq_MAX_NUM_PAYLOADS : coq_N

val coq_MAX_NUM_LEXING_ERRORS : coq_N

val two128 : coq_N

val two32 : coq_N

val token_capacity : coq_N -> coq_N

val error_capacity : coq_N -> coq_N

val bs : string -> coq_N list

val ch : ascii -> coq_N

val kw_table : (coq_N list * ((tkind * coq_Z) * tykw option)) list

val suffix_table : (coq_N list * prim) list

val punct_table : (coq_N * ((coq_N * tkind) list * tkind)) list

val simple_escape_table : (coq_N * coq_N) list

val bytes_eqb : coq_N list -> coq_N list -> bool

val assoc_bytes : coq_N list -> (coq_N list * 'a1) list -> 'a1 option

val assoc_N : coq_N -> (coq_N * 'a1) list -> 'a1 option

val parse_integer_suffix : coq_N list -> prim option

val in_range : coq_N -> coq_N -> coq_N -> bool

val is_alpha : coq_N -> bool

val is_ident_start : coq_N -> bool

val is_ident_cont : coq_N -> bool

val is_ascii_graphic : coq_N -> bool

val dec_digit : coq_N -> coq_N option

val hex_digit : coq_N -> coq_N option

val span_while : (coq_N -> bool) -> coq_N list -> coq_N list * coq_N list

val slice : coq_N list -> coq_N -> coq_N -> coq_N list

type action =
| ASkip
| ANewline
| ATok of tkind * coq_Z * tykw option * coq_N
| AErr of coq_Z * coq_N * coq_N
| AFuel

type step = { act : action; srest : coq_N list; send : coq_N; spanic : bool }

val mk_step : action -> coq_N list -> coq_N -> step

val lookup_keyword : coq_N list -> ((tkind * coq_Z) * tykw option) option

val lex_ident : coq_N -> coq_N list -> coq_N -> step

type dacc = { dval : coq_N; dov : bool; dpanic : bool }

val dec_push : dacc -> coq_N -> dacc

val scan_dec_with :
  (dacc -> coq_N -> dacc) -> dacc -> coq_N -> coq_N list ->
  (dacc * coq_N) * coq_N list

val suffixed : coq_N -> coq_N list -> coq_N -> coq_N -> action

val lex_decimal_with :
  (dacc -> coq_N -> dacc) -> coq_N -> coq_N list -> coq_N -> step

type hacc = { hval : coq_N; hdigits : bool; hov : bool }

val hex_push : hacc -> coq_N -> hacc

val scan_hex : hacc -> coq_N -> coq_N list -> (hacc * coq_N) * coq_N list

val scan_bin :
  coq_N -> coq_N -> coq_N -> coq_N list -> ((coq_N * coq_N) * coq_N) * coq_N
  list

val zero_prefix :
  coq_N list -> coq_N -> ((coq_N option * coq_N) * coq_N) * coq_N list

val lex_zero : coq_N list -> coq_N -> step

type esc =
| EPush of coq_N
| ENone
| EErr of coq_Z * coq_N * coq_N

val is_scalar_value : coq_N -> bool

val scan_udigits :
  coq_N -> coq_N -> coq_N -> coq_N list -> ((coq_N * coq_N) * coq_N) * coq_N
  list

val scan_escape : bool -> coq_N -> coq_N list -> (esc * coq_N) * coq_N list

type lit = { nb : coq_N; lastb : coq_N; lclosed : bool;
             ferr : ((coq_Z * coq_N) * coq_N) option }

val lit0 : lit

val lit_push : coq_N -> lit -> lit

val lit_err : coq_Z -> coq_N -> coq_N -> lit -> lit

val lit_close : lit -> lit

val lit_esc : esc -> lit -> lit

val scan_lit :
  nat -> coq_N -> bool -> lit -> coq_N -> coq_N list ->
  ((lit * coq_N) * coq_N list) option

val finish_lit : bool -> coq_N -> lit -> coq_N -> action

val lex_literal : nat -> bool -> coq_N -> coq_N list -> coq_N -> step

val lex_step_with :
  (dacc -> coq_N -> dacc) -> nat -> coq_N -> coq_N list -> coq_N -> step

val has_payload : tkind -> bool

val mk_tok :
  tkind -> coq_Z -> tykw option -> coq_N -> coq_N -> coq_N -> coq_N -> tok

type loop_result =
| OutOfFuel
| AllocFail of bool
| Done of tok list * coq_N * coq_N * bool

val lr_cons : tok -> loop_result -> loop_result

val lr_panic : bool -> loop_result -> loop_result

val lex_loop_with :
  (dacc -> coq_N -> dacc) -> nat -> coq_N list -> coq_N -> coq_N -> coq_N ->
  coq_N -> coq_N -> coq_N -> coq_N -> coq_N -> loop_result

val err_tok0 : coq_Z -> tok

val out_of_fuel_tok : tok

type lex_outcome =
| LexEmpty
| LexTooLong
| LexRun of loop_result

val lex_result_with : (dacc -> coq_N -> dacc) -> coq_N list -> lex_outcome

val lex_delta_with : (dacc -> coq_N -> dacc) -> coq_N list -> tok list

val num_end_tokens_with : (dacc -> coq_N -> dacc) -> coq_N list -> coq_N

val lex_delta : coq_N list -> tok list

val num_end_tokens : coq_N list -> coq_N
