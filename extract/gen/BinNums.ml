
type positive =
| Coq_xI of positive
| Coq_xO of positive
| Coq_xH

type coq_N =
| N0
| Npos of positive

type coq_Z =
| Z0
| Zpos of positive
| Zneg of positive
