open BinNat
open BinNums
open Datatypes
open List
open Nat
open Tok

type btok =
| T of tkind
| EOS

(** val kcode : tkind -> coq_N **)

let kcode = function
| KParenLeft -> Npos Coq_xH
| KParenRight -> Npos (Coq_xO Coq_xH)
| KBraceLeft -> Npos (Coq_xI Coq_xH)
| KBraceRight -> Npos (Coq_xO (Coq_xO Coq_xH))
| KBracketLeft -> Npos (Coq_xI (Coq_xO Coq_xH))
| KBracketRight -> Npos (Coq_xO (Coq_xI Coq_xH))
| KAngleLeft -> Npos (Coq_xI (Coq_xI Coq_xH))
| KAngleRight -> Npos (Coq_xO (Coq_xO (Coq_xO Coq_xH)))
| KPipe -> Npos (Coq_xI (Coq_xO (Coq_xO Coq_xH)))
| KAmpersand -> Npos (Coq_xO (Coq_xI (Coq_xO Coq_xH)))
| KCaret -> Npos (Coq_xI (Coq_xI (Coq_xO Coq_xH)))
| KExclamation -> Npos (Coq_xO (Coq_xO (Coq_xI Coq_xH)))
| KPlaceholder -> Npos (Coq_xI (Coq_xO (Coq_xI Coq_xH)))
| KPlus -> Npos (Coq_xO (Coq_xI (Coq_xI Coq_xH)))
| KMinus -> Npos (Coq_xI (Coq_xI (Coq_xI Coq_xH)))
| KTimes -> Npos (Coq_xO (Coq_xO (Coq_xO (Coq_xO Coq_xH))))
| KDivide -> Npos (Coq_xI (Coq_xO (Coq_xO (Coq_xO Coq_xH))))
| KModulo -> Npos (Coq_xO (Coq_xI (Coq_xO (Coq_xO Coq_xH))))
| KColon -> Npos (Coq_xI (Coq_xI (Coq_xO (Coq_xO Coq_xH))))
| KSemicolon -> Npos (Coq_xO (Coq_xO (Coq_xI (Coq_xO Coq_xH))))
| KDot -> Npos (Coq_xI (Coq_xO (Coq_xI (Coq_xO Coq_xH))))
| KComma -> Npos (Coq_xO (Coq_xI (Coq_xI (Coq_xO Coq_xH))))
| KAssignment -> Npos (Coq_xI (Coq_xI (Coq_xI (Coq_xO Coq_xH))))
| KEquals -> Npos (Coq_xO (Coq_xO (Coq_xO (Coq_xI Coq_xH))))
| KDoesNotEqual -> Npos (Coq_xI (Coq_xO (Coq_xO (Coq_xI Coq_xH))))
| KIsGE -> Npos (Coq_xO (Coq_xI (Coq_xO (Coq_xI Coq_xH))))
| KIsLE -> Npos (Coq_xI (Coq_xI (Coq_xO (Coq_xI Coq_xH))))
| KShiftLeft -> Npos (Coq_xO (Coq_xO (Coq_xI (Coq_xI Coq_xH))))
| KShiftRight -> Npos (Coq_xI (Coq_xO (Coq_xI (Coq_xI Coq_xH))))
| KArrow -> Npos (Coq_xO (Coq_xI (Coq_xI (Coq_xI Coq_xH))))
| KPipeForType -> Npos (Coq_xI (Coq_xI (Coq_xI (Coq_xI Coq_xH))))
| KDots -> Npos (Coq_xO (Coq_xO (Coq_xO (Coq_xO (Coq_xO Coq_xH)))))
| KFn -> Npos (Coq_xI (Coq_xO (Coq_xO (Coq_xO (Coq_xO Coq_xH)))))
| KVar -> Npos (Coq_xO (Coq_xI (Coq_xO (Coq_xO (Coq_xO Coq_xH)))))
| KConst -> Npos (Coq_xI (Coq_xI (Coq_xO (Coq_xO (Coq_xO Coq_xH)))))
| KIf -> Npos (Coq_xO (Coq_xO (Coq_xI (Coq_xO (Coq_xO Coq_xH)))))
| KGoto -> Npos (Coq_xI (Coq_xO (Coq_xI (Coq_xO (Coq_xO Coq_xH)))))
| KLoop -> Npos (Coq_xO (Coq_xI (Coq_xI (Coq_xO (Coq_xO Coq_xH)))))
| KReturn -> Npos (Coq_xI (Coq_xI (Coq_xI (Coq_xO (Coq_xO Coq_xH)))))
| KElse -> Npos (Coq_xO (Coq_xO (Coq_xO (Coq_xI (Coq_xO Coq_xH)))))
| KCast -> Npos (Coq_xI (Coq_xO (Coq_xO (Coq_xI (Coq_xO Coq_xH)))))
| KAs -> Npos (Coq_xO (Coq_xI (Coq_xO (Coq_xI (Coq_xO Coq_xH)))))
| KImport -> Npos (Coq_xI (Coq_xI (Coq_xO (Coq_xI (Coq_xO Coq_xH)))))
| KPub -> Npos (Coq_xO (Coq_xO (Coq_xI (Coq_xI (Coq_xO Coq_xH)))))
| KExtern -> Npos (Coq_xI (Coq_xO (Coq_xI (Coq_xI (Coq_xO Coq_xH)))))
| KStruct -> Npos (Coq_xO (Coq_xI (Coq_xI (Coq_xI (Coq_xO Coq_xH)))))
| KWord8 -> Npos (Coq_xI (Coq_xI (Coq_xI (Coq_xI (Coq_xO Coq_xH)))))
| KWord16 -> Npos (Coq_xO (Coq_xO (Coq_xO (Coq_xO (Coq_xI Coq_xH)))))
| KWord32 -> Npos (Coq_xI (Coq_xO (Coq_xO (Coq_xO (Coq_xI Coq_xH)))))
| KWord64 -> Npos (Coq_xO (Coq_xI (Coq_xO (Coq_xO (Coq_xI Coq_xH)))))
| KWord128 -> Npos (Coq_xI (Coq_xI (Coq_xO (Coq_xO (Coq_xI Coq_xH)))))
| KType -> Npos (Coq_xO (Coq_xO (Coq_xI (Coq_xO (Coq_xI Coq_xH)))))
| KIdentifier -> Npos (Coq_xI (Coq_xO (Coq_xI (Coq_xO (Coq_xI Coq_xH)))))
| KBuiltin -> Npos (Coq_xO (Coq_xI (Coq_xI (Coq_xO (Coq_xI Coq_xH)))))
| KNakedDecimal -> Npos (Coq_xI (Coq_xI (Coq_xI (Coq_xO (Coq_xI Coq_xH)))))
| KBitInteger -> Npos (Coq_xO (Coq_xO (Coq_xO (Coq_xI (Coq_xI Coq_xH)))))
| KSuffixedInteger -> Npos (Coq_xI (Coq_xO (Coq_xO (Coq_xI (Coq_xI Coq_xH)))))
| KCharLiteral -> Npos (Coq_xO (Coq_xI (Coq_xO (Coq_xI (Coq_xI Coq_xH)))))
| KBool -> Npos (Coq_xI (Coq_xI (Coq_xO (Coq_xI (Coq_xI Coq_xH)))))
| KStringLiteral -> Npos (Coq_xO (Coq_xO (Coq_xI (Coq_xI (Coq_xI Coq_xH)))))
| KError -> Npos (Coq_xI (Coq_xO (Coq_xI (Coq_xI (Coq_xI Coq_xH)))))

(** val all_kinds : tkind list **)

let all_kinds =
  KParenLeft :: (KParenRight :: (KBraceLeft :: (KBraceRight :: (KBracketLeft :: (KBracketRight :: (KAngleLeft :: (KAngleRight :: (KPipe :: (KAmpersand :: (KCaret :: (KExclamation :: (KPlaceholder :: (KPlus :: (KMinus :: (KTimes :: (KDivide :: (KModulo :: (KColon :: (KSemicolon :: (KDot :: (KComma :: (KAssignment :: (KEquals :: (KDoesNotEqual :: (KIsGE :: (KIsLE :: (KShiftLeft :: (KShiftRight :: (KArrow :: (KPipeForType :: (KDots :: (KFn :: (KVar :: (KConst :: (KIf :: (KGoto :: (KLoop :: (KReturn :: (KElse :: (KCast :: (KAs :: (KImport :: (KPub :: (KExtern :: (KStruct :: (KWord8 :: (KWord16 :: (KWord32 :: (KWord64 :: (KWord128 :: (KType :: (KIdentifier :: (KBuiltin :: (KNakedDecimal :: (KBitInteger :: (KSuffixedInteger :: (KCharLiteral :: (KBool :: (KStringLiteral :: (KError :: []))))))))))))))))))))))))))))))))))))))))))))))))))))))))))))

(** val btok_of_code : coq_N -> btok **)

let btok_of_code n =
  if N.eqb n N0
  then EOS
  else (match find (fun k -> N.eqb (kcode k) n) all_kinds with
        | Some k -> T k
        | None -> T KError)

(** val btok_eqb : btok -> btok -> bool **)

let btok_eqb a b =
  match a with
  | T x -> (match b with
            | T y -> N.eqb (kcode x) (kcode y)
            | EOS -> false)
  | EOS -> (match b with
            | T _ -> false
            | EOS -> true)

(** val is : tkind -> btok -> bool **)

let is k t =
  btok_eqb (T k) t

(** val is_eos : btok -> bool **)

let is_eos = function
| T _ -> false
| EOS -> true

type cursor = { cur : nat; span : btok list }

(** val peek : cursor -> btok **)

let peek c =
  match c.span with
  | [] -> EOS
  | t :: _ -> t

(** val advance : cursor -> cursor **)

let advance c =
  { cur = (S c.cur); span = (tl c.span) }

(** val consume_optional : tkind -> cursor -> bool * cursor **)

let consume_optional k c =
  if is k (peek c) then (true, (advance c)) else (false, c)

(** val coq_P_CONSUME : coq_N **)

let coq_P_CONSUME =
  Npos Coq_xH

(** val coq_P_SKIP_UNTIL : coq_N **)

let coq_P_SKIP_UNTIL =
  Npos (Coq_xO Coq_xH)

(** val coq_P_SLICE : coq_N **)

let coq_P_SLICE =
  Npos (Coq_xI Coq_xH)

(** val coq_P_ASSERT_EOS : coq_N **)

let coq_P_ASSERT_EOS =
  Npos (Coq_xO (Coq_xO Coq_xH))

(** val coq_P_FINISH_DECL : coq_N **)

let coq_P_FINISH_DECL =
  Npos (Coq_xI (Coq_xO Coq_xH))

(** val coq_P_FIRST_TOKEN : coq_N **)

let coq_P_FIRST_TOKEN =
  Npos (Coq_xO (Coq_xI Coq_xH))

type status =
| Ok
| Err
| Oof
| Panic of coq_N

type res = { rc : cursor; rn : coq_N; rs : status }

type coq_parser = cursor -> res

(** val ok : cursor -> coq_N -> res **)

let ok c n =
  { rc = c; rn = n; rs = Ok }

(** val err : cursor -> res **)

let err c =
  { rc = c; rn = N0; rs = Err }

(** val oof : cursor -> res **)

let oof c =
  { rc = c; rn = N0; rs = Oof }

(** val bind : res -> (cursor -> res) -> res **)

let bind r k =
  match r.rs with
  | Ok ->
    let r' = k r.rc in { rc = r'.rc; rn = (N.add r.rn r'.rn); rs = r'.rs }
  | _ -> r

(** val push : coq_N -> res -> res **)

let push n r =
  { rc = r.rc; rn = (N.add n r.rn); rs = r.rs }

(** val in_expectation_table : tkind -> bool **)

let in_expectation_table = function
| KParenLeft -> true
| KParenRight -> true
| KBraceLeft -> true
| KBraceRight -> true
| KBracketLeft -> true
| KBracketRight -> true
| KPipe -> true
| KColon -> true
| KSemicolon -> true
| KDot -> true
| KComma -> true
| KAssignment -> true
| KIdentifier -> true
| KStringLiteral -> true
| _ -> false

(** val consume : tkind -> cursor -> res **)

let consume k c =
  if is k (peek c)
  then ok (advance c) N0
  else if in_expectation_table k
       then err (advance c)
       else { rc = (advance c); rn = N0; rs = (Panic coq_P_CONSUME) }

(** val find_idx : (btok -> bool) -> btok list -> nat option **)

let rec find_idx p = function
| [] -> None
| t :: r ->
  if (||) (p t) (is_eos t)
  then Some O
  else (match find_idx p r with
        | Some k -> Some (S k)
        | None -> None)

(** val find_next : (btok -> bool) -> btok list -> nat -> nat option **)

let find_next p ts from =
  match find_idx p (skipn from ts) with
  | Some k -> Some (add from k)
  | None -> None

(** val with_reservation :
    btok list -> (btok -> bool) -> coq_parser -> cursor -> res **)

let with_reservation ts reserved p c =
  match find_next reserved ts c.cur with
  | Some e ->
    let r = p { cur = c.cur; span = (firstn (sub e c.cur) (skipn c.cur ts)) }
    in
    let from = r.rc.cur in
    if PeanoNat.Nat.ltb (length ts) from
    then { rc = r.rc; rn = r.rn; rs = (Panic coq_P_SLICE) }
    else { rc = { cur = from; span = (skipn from ts) }; rn = r.rn; rs = r.rs }
  | None -> { rc = c; rn = N0; rs = (Panic coq_P_SKIP_UNTIL) }

(** val parse_inner_type : nat -> cursor -> res **)

let rec parse_inner_type fuel c =
  match fuel with
  | O -> oof c
  | S f ->
    let c1 = advance c in
    (match peek c with
     | T k ->
       (match k with
        | KParenLeft ->
          bind (parse_inner_type f c1) (fun c2 ->
            bind (consume KParenRight c2) (fun c3 -> ok c3 (Npos Coq_xH)))
        | KBracketLeft ->
          let c2 = advance c1 in
          (match peek c1 with
           | T k0 ->
             (match k0 with
              | KBracketRight ->
                bind (parse_inner_type f c2) (fun c3 -> ok c3 (Npos Coq_xH))
              | KColon ->
                bind (consume KBracketRight c2) (fun c3 ->
                  bind (parse_inner_type f c3) (fun c4 -> ok c4 (Npos Coq_xH)))
              | KDots ->
                bind (consume KBracketRight c2) (fun c3 ->
                  bind (parse_inner_type f c3) (fun c4 -> ok c4 (Npos Coq_xH)))
              | KIdentifier ->
                bind (consume KBracketRight c2) (fun c3 ->
                  bind (parse_inner_type f c3) (fun c4 -> ok c4 (Npos Coq_xH)))
              | KNakedDecimal ->
                bind (consume KBracketRight c2) (fun c3 ->
                  bind (parse_inner_type f c3) (fun c4 -> ok c4 (Npos Coq_xH)))
              | _ -> err c2)
           | EOS -> err c2)
        | KAmpersand ->
          bind (parse_inner_type f c1) (fun c2 -> ok c2 (Npos Coq_xH))
        | KType -> ok c1 (Npos Coq_xH)
        | KIdentifier -> ok c1 (Npos Coq_xH)
        | _ -> err c1)
     | EOS -> err c1)

(** val parse_type : nat -> cursor -> res **)

let parse_type fuel c =
  bind (parse_inner_type fuel c) (fun c1 ->
    if PeanoNat.Nat.ltb (S c.cur) c1.cur
    then ok c1 (Npos (Coq_xO Coq_xH))
    else ok c1 N0)

(** val amp_loop : nat -> cursor -> res **)

let rec amp_loop r c =
  if is KAmpersand (peek c)
  then (match r with
        | O -> err (advance c)
        | S r' -> amp_loop r' (advance c))
  else ok c N0

(** val deref_steps_loop : coq_parser -> nat -> cursor -> res **)

let rec deref_steps_loop e n c =
  match n with
  | O -> err c
  | S n' ->
    if is KBracketLeft (peek c)
    then bind (e (advance c)) (fun c1 ->
           bind (consume KBracketRight c1) (fun c2 ->
             push (Npos (Coq_xO Coq_xH)) (deref_steps_loop e n' c2)))
    else if is KDot (peek c)
         then bind (consume KIdentifier (advance c)) (fun c1 ->
                push (Npos (Coq_xO Coq_xH)) (deref_steps_loop e n' c1))
         else ok c (Npos Coq_xH)

(** val parse_deref_steps_list : coq_parser -> cursor -> res **)

let parse_deref_steps_list e c =
  deref_steps_loop e (S (S (S (S (S (S (S (S (S (S (S (S (S (S (S (S (S (S (S
    (S (S (S (S (S (S (S (S (S (S (S (S (S (S (S (S (S (S (S (S (S (S (S (S
    (S (S (S (S (S (S (S (S (S (S (S (S (S (S (S (S (S (S (S (S (S (S (S (S
    (S (S (S (S (S (S (S (S (S (S (S (S (S (S (S (S (S (S (S (S (S (S (S (S
    (S (S (S (S (S (S (S (S (S (S (S (S (S (S (S (S (S (S (S (S (S (S (S (S
    (S (S (S (S (S (S (S (S (S (S (S (S (S
    O))))))))))))))))))))))))))))))))))))))))))))))))))))))))))))))))))))))))))))))))))))))))))))))))))))))))))))))))))))))))))))))))
    c

(** val args_loop : coq_parser -> nat -> cursor -> res **)

let rec args_loop e fuel c =
  match fuel with
  | O -> oof c
  | S f ->
    if is KParenRight (peek c)
    then ok (advance c) (Npos Coq_xH)
    else bind (e c) (fun c1 ->
           push (Npos Coq_xH)
             (if is KComma (peek c1)
              then args_loop e f (advance c1)
              else bind (consume KParenRight c1) (fun c2 ->
                     ok c2 (Npos Coq_xH))))

(** val structural_loop : coq_parser -> nat -> cursor -> res **)

let rec structural_loop e fuel c =
  match fuel with
  | O -> oof c
  | S f ->
    if is KBraceRight (peek c)
    then ok (advance c) (Npos Coq_xH)
    else bind (consume KIdentifier c) (fun c1 ->
           bind
             (if is KColon (peek c1)
              then e (advance c1)
              else ok c1 (Npos (Coq_xI (Coq_xO Coq_xH)))) (fun c2 ->
             push (Npos (Coq_xO Coq_xH))
               (if is KComma (peek c2)
                then structural_loop e f (advance c2)
                else bind (consume KBraceRight c2) (fun c3 ->
                       ok c3 (Npos Coq_xH)))))

(** val array_loop : coq_parser -> nat -> cursor -> res **)

let rec array_loop e fuel c =
  match fuel with
  | O -> oof c
  | S f ->
    if is KBracketRight (peek c)
    then ok (advance c) N0
    else bind (e c) (fun c1 ->
           push (Npos Coq_xH)
             (if is KComma (peek c1)
              then array_loop e f (advance c1)
              else consume KBracketRight c1))

(** val take_while : tkind -> nat -> btok list -> cursor **)

let rec take_while k n sp = match sp with
| [] -> { cur = n; span = [] }
| t :: rest ->
  if is k t then take_while k (S n) rest else { cur = n; span = sp }

(** val parse_reference : coq_parser -> cursor -> res **)

let parse_reference e c =
  bind
    (amp_loop (S (S (S (S (S (S (S (S (S (S (S (S (S (S (S (S (S (S (S (S (S
      (S (S (S (S (S (S (S (S (S (S (S (S (S (S (S (S (S (S (S (S (S (S (S (S
      (S (S (S (S (S (S (S (S (S (S (S (S (S (S (S (S (S (S (S (S (S (S (S (S
      (S (S (S (S (S (S (S (S (S (S (S (S (S (S (S (S (S (S (S (S (S (S (S (S
      (S (S (S (S (S (S (S (S (S (S (S (S (S (S (S (S (S (S (S (S (S (S (S (S
      (S (S (S (S (S (S (S (S (S (S
      O)))))))))))))))))))))))))))))))))))))))))))))))))))))))))))))))))))))))))))))))))))))))))))))))))))))))))))))))))))))))))))))))
      c) (fun c1 ->
    bind (consume KIdentifier c1) (fun c2 ->
      bind (parse_deref_steps_list e c2) (fun c3 ->
        ok c3 (Npos (Coq_xO (Coq_xO Coq_xH))))))

(** val parse_primary_expression : coq_parser -> nat -> cursor -> res **)

let parse_primary_expression e f c =
  let c1 = advance c in
  (match peek c with
   | T k ->
     (match k with
      | KParenLeft ->
        bind (e c1) (fun c2 ->
          bind (consume KParenRight c2) (fun c3 -> ok c3 (Npos Coq_xH)))
      | KBracketLeft ->
        bind (array_loop e f c1) (fun c2 -> ok c2 (Npos (Coq_xI Coq_xH)))
      | KAmpersand ->
        bind
          (amp_loop (S (S (S (S (S (S (S (S (S (S (S (S (S (S (S (S (S (S (S
            (S (S (S (S (S (S (S (S (S (S (S (S (S (S (S (S (S (S (S (S (S (S
            (S (S (S (S (S (S (S (S (S (S (S (S (S (S (S (S (S (S (S (S (S (S
            (S (S (S (S (S (S (S (S (S (S (S (S (S (S (S (S (S (S (S (S (S (S
            (S (S (S (S (S (S (S (S (S (S (S (S (S (S (S (S (S (S (S (S (S (S
            (S (S (S (S (S (S (S (S (S (S (S (S (S (S (S (S (S (S (S
            O))))))))))))))))))))))))))))))))))))))))))))))))))))))))))))))))))))))))))))))))))))))))))))))))))))))))))))))))))))))))))))))
            c1) (fun c2 ->
          bind (consume KIdentifier c2) (fun c3 ->
            bind (parse_deref_steps_list e c3) (fun c4 ->
              push (Npos (Coq_xO (Coq_xO Coq_xH)))
                (if is KDots (peek c4)
                 then bind (e (advance c4)) (fun c5 ->
                        ok c5 (Npos (Coq_xI Coq_xH)))
                 else ok c4 N0))))
      | KIdentifier ->
        if is KParenLeft (peek c1)
        then bind (args_loop e f (advance c1)) (fun c2 ->
               ok c2 (Npos (Coq_xI Coq_xH)))
        else if is KBraceLeft (peek c1)
             then bind (structural_loop e f (advance c1)) (fun c2 ->
                    ok c2 (Npos (Coq_xO Coq_xH)))
             else bind (parse_deref_steps_list e c1) (fun c2 ->
                    ok c2 (Npos (Coq_xO (Coq_xO Coq_xH))))
      | KBuiltin ->
        bind (consume KParenLeft c1) (fun c2 ->
          bind (args_loop e f c2) (fun c3 -> ok c3 (Npos (Coq_xI Coq_xH))))
      | KNakedDecimal -> ok c1 (Npos Coq_xH)
      | KBitInteger -> ok c1 (Npos Coq_xH)
      | KSuffixedInteger -> ok c1 (Npos (Coq_xO Coq_xH))
      | KCharLiteral -> ok c1 (Npos Coq_xH)
      | KBool -> ok c1 (Npos Coq_xH)
      | KStringLiteral ->
        if is KStringLiteral (peek c1)
        then ok (take_while KStringLiteral c1.cur c1.span) (Npos (Coq_xO
               Coq_xH))
        else ok c1 (Npos Coq_xH)
      | _ -> err c1)
   | EOS -> err c1)

(** val parse_unary_expression : coq_parser -> nat -> cursor -> res **)

let parse_unary_expression e f c =
  match peek c with
  | T k ->
    (match k with
     | KPipe ->
       bind (parse_reference e (advance c)) (fun c1 ->
         bind (consume KPipe c1) (fun c2 -> ok c2 (Npos Coq_xH)))
     | KExclamation ->
       bind (parse_primary_expression e f (advance c)) (fun c1 ->
         ok c1 (Npos (Coq_xO Coq_xH)))
     | KMinus ->
       bind (parse_primary_expression e f (advance c)) (fun c1 ->
         ok c1 (Npos (Coq_xO Coq_xH)))
     | KPipeForType ->
       bind (parse_type f (advance c)) (fun c1 ->
         bind (consume KPipe c1) (fun c2 -> ok c2 (Npos Coq_xH)))
     | _ -> parse_primary_expression e f c)
  | EOS -> parse_primary_expression e f c

(** val as_loop : nat -> nat -> cursor -> res **)

let rec as_loop fuel tf c =
  match fuel with
  | O -> oof c
  | S f ->
    if is KAs (peek c)
    then bind (parse_type tf (advance c)) (fun c1 ->
           push (Npos (Coq_xO Coq_xH)) (as_loop f tf c1))
    else ok c N0

(** val parse_singular_expression : coq_parser -> nat -> cursor -> res **)

let parse_singular_expression e f c =
  let (bitcast, c0) = consume_optional KCast c in
  bind (parse_unary_expression e f c0) (fun c1 ->
    push (if bitcast then Npos Coq_xH else N0) (as_loop f f c1))

(** val mul_loop : coq_parser -> nat -> cursor -> res **)

let rec mul_loop sg fuel c =
  match fuel with
  | O -> oof c
  | S f ->
    (match peek c with
     | T k ->
       (match k with
        | KTimes ->
          bind (sg (advance c)) (fun c1 ->
            push (Npos (Coq_xI Coq_xH)) (mul_loop sg f c1))
        | KDivide ->
          bind (sg (advance c)) (fun c1 ->
            push (Npos (Coq_xI Coq_xH)) (mul_loop sg f c1))
        | KModulo ->
          bind (sg (advance c)) (fun c1 ->
            push (Npos (Coq_xI Coq_xH)) (mul_loop sg f c1))
        | _ -> ok c N0)
     | EOS -> ok c N0)

(** val parse_multiplication : coq_parser -> nat -> cursor -> res **)

let parse_multiplication e f c =
  bind (parse_singular_expression e f c) (fun c1 ->
    mul_loop (parse_singular_expression e f) f c1)

(** val bitwise_loop : coq_parser -> btok -> nat -> cursor -> res **)

let rec bitwise_loop u op fuel c =
  match fuel with
  | O -> oof c
  | S f ->
    bind (u c) (fun c1 ->
      push (Npos (Coq_xI Coq_xH))
        (if btok_eqb op (peek c1)
         then bitwise_loop u op f (advance c1)
         else ok c1 N0))

(** val add_loop : coq_parser -> coq_parser -> nat -> cursor -> res **)

let rec add_loop m u fuel c =
  match fuel with
  | O -> oof c
  | S f ->
    (match peek c with
     | T k ->
       (match k with
        | KPipe -> bitwise_loop u (peek c) f (advance c)
        | KAmpersand -> bitwise_loop u (peek c) f (advance c)
        | KCaret -> bitwise_loop u (peek c) f (advance c)
        | KPlus ->
          bind (m (advance c)) (fun c1 ->
            push (Npos (Coq_xI Coq_xH)) (add_loop m u f c1))
        | KMinus ->
          bind (m (advance c)) (fun c1 ->
            push (Npos (Coq_xI Coq_xH)) (add_loop m u f c1))
        | KShiftLeft ->
          bind (u (advance c)) (fun c1 -> ok c1 (Npos (Coq_xI Coq_xH)))
        | KShiftRight ->
          bind (u (advance c)) (fun c1 -> ok c1 (Npos (Coq_xI Coq_xH)))
        | _ -> ok c N0)
     | EOS -> ok c N0)

(** val parse_addition : coq_parser -> nat -> cursor -> res **)

let parse_addition e f c =
  bind (parse_multiplication e f c) (fun c1 ->
    add_loop (parse_multiplication e f) (parse_unary_expression e f) f c1)

(** val parse_expression : nat -> cursor -> res **)

let rec parse_expression fuel c =
  match fuel with
  | O -> oof c
  | S f -> parse_addition (parse_expression f) (S f) c

(** val parse_comparison : coq_parser -> cursor -> res **)

let parse_comparison e c =
  bind (e c) (fun c1 ->
    match peek c1 with
    | T k ->
      (match k with
       | KAngleLeft ->
         bind (e (advance c1)) (fun c2 -> ok c2 (Npos (Coq_xI Coq_xH)))
       | KAngleRight ->
         bind (e (advance c1)) (fun c2 -> ok c2 (Npos (Coq_xI Coq_xH)))
       | KEquals ->
         bind (e (advance c1)) (fun c2 -> ok c2 (Npos (Coq_xI Coq_xH)))
       | KDoesNotEqual ->
         bind (e (advance c1)) (fun c2 -> ok c2 (Npos (Coq_xI Coq_xH)))
       | KIsGE ->
         bind (e (advance c1)) (fun c2 -> ok c2 (Npos (Coq_xI Coq_xH)))
       | KIsLE ->
         bind (e (advance c1)) (fun c2 -> ok c2 (Npos (Coq_xI Coq_xH)))
       | _ -> err (advance c1))
    | EOS -> err (advance c1))

(** val block_loop : coq_parser -> nat -> cursor -> res **)

let rec block_loop st fuel c =
  match fuel with
  | O -> oof c
  | S f ->
    if is KBraceRight (peek c)
    then ok (advance c) (Npos Coq_xH)
    else bind (st c) (fun c1 -> push (Npos Coq_xH) (block_loop st f c1))

(** val parse_then : coq_parser -> cursor -> res **)

let parse_then st c =
  bind (st c) (fun c1 ->
    if is KElse (peek c1)
    then bind (st (advance c1)) (fun c2 -> ok c2 (Npos Coq_xH))
    else ok c1 (Npos Coq_xH))

(** val assignment_tail : coq_parser -> cursor -> res **)

let assignment_tail e c =
  if is KSemicolon (peek c)
  then err (advance c)
  else bind (consume KAssignment c) (fun c1 ->
         bind (e c1) (fun c2 ->
           bind (consume KSemicolon c2) (fun c3 ->
             ok c3 (Npos (Coq_xO Coq_xH)))))

(** val reserved_in_if : btok -> bool **)

let reserved_in_if t =
  (||) (is KBraceLeft t) (is KSemicolon t)

(** val parse_statement : btok list -> coq_parser -> nat -> cursor -> res **)

let parse_statement ts st f c =
  let e = parse_expression f in
  let c1 = advance c in
  (match peek c with
   | T k ->
     (match k with
      | KBraceLeft ->
        bind (block_loop st f c1) (fun c2 -> ok c2 (Npos Coq_xH))
      | KAmpersand ->
        bind
          (amp_loop (S (S (S (S (S (S (S (S (S (S (S (S (S (S (S (S (S (S (S
            (S (S (S (S (S (S (S (S (S (S (S (S (S (S (S (S (S (S (S (S (S (S
            (S (S (S (S (S (S (S (S (S (S (S (S (S (S (S (S (S (S (S (S (S (S
            (S (S (S (S (S (S (S (S (S (S (S (S (S (S (S (S (S (S (S (S (S (S
            (S (S (S (S (S (S (S (S (S (S (S (S (S (S (S (S (S (S (S (S (S (S
            (S (S (S (S (S (S (S (S (S (S (S (S (S (S (S (S (S (S (S
            O))))))))))))))))))))))))))))))))))))))))))))))))))))))))))))))))))))))))))))))))))))))))))))))))))))))))))))))))))))))))))))))
            c1) (fun c2 ->
          bind (consume KIdentifier c2) (fun c3 ->
            bind (parse_deref_steps_list e c3) (fun c4 ->
              push (Npos (Coq_xO (Coq_xO Coq_xH))) (assignment_tail e c4))))
      | KVar ->
        bind (consume KIdentifier c1) (fun c2 ->
          bind
            (if is KColon (peek c2)
             then parse_type f (advance c2)
             else ok c2 N0) (fun c3 ->
            bind
              (if is KAssignment (peek c3) then e (advance c3) else ok c3 N0)
              (fun c4 ->
              bind (consume KSemicolon c4) (fun c5 ->
                ok c5 (Npos (Coq_xI Coq_xH))))))
      | KIf ->
        bind (with_reservation ts reserved_in_if (parse_comparison e) c1)
          (fun c2 -> bind (parse_then st c2) (fun c3 -> ok c3 (Npos Coq_xH)))
      | KGoto ->
        bind
          (if is KReturn (peek c1)
           then ok (advance c1) N0
           else consume KIdentifier c1) (fun c2 ->
          bind (consume KSemicolon c2) (fun c3 ->
            ok c3 (Npos (Coq_xO Coq_xH))))
      | KLoop -> bind (consume KSemicolon c1) (fun c2 -> ok c2 (Npos Coq_xH))
      | KIdentifier ->
        if is KColon (peek c1)
        then ok (advance c1) (Npos (Coq_xO Coq_xH))
        else if is KParenLeft (peek c1)
             then bind (args_loop e f (advance c1)) (fun c2 ->
                    bind (consume KSemicolon c2) (fun c3 ->
                      ok c3 (Npos (Coq_xI Coq_xH))))
             else bind (parse_deref_steps_list e c1) (fun c2 ->
                    push (Npos (Coq_xO (Coq_xO Coq_xH)))
                      (assignment_tail e c2))
      | KBuiltin ->
        bind (consume KParenLeft c1) (fun c2 ->
          bind (args_loop e f c2) (fun c3 ->
            bind (consume KSemicolon c3) (fun c4 ->
              ok c4 (Npos (Coq_xI Coq_xH)))))
      | _ -> err c1)
   | EOS -> err c1)

(** val parse_stmt : btok list -> nat -> cursor -> res **)

let rec parse_stmt ts fuel c =
  match fuel with
  | O -> oof c
  | S f -> parse_statement ts (parse_stmt ts f) (S f) c

(** val body_loop : btok list -> nat -> nat -> cursor -> res **)

let rec body_loop ts f fuel c =
  match fuel with
  | O -> oof c
  | S f0 ->
    if is KBraceRight (peek c)
    then ok (advance c) (Npos Coq_xH)
    else if is KReturn (peek c)
         then push (Npos Coq_xH)
                (bind (consume KColon (advance c)) (fun c1 ->
                  parse_expression f c1))
         else bind (parse_stmt ts f c) (fun c1 ->
                push (Npos Coq_xH) (body_loop ts f f0 c1))

(** val parse_function_body : btok list -> nat -> cursor -> res **)

let parse_function_body ts f c =
  bind (consume KBraceLeft c) (fun c1 -> body_loop ts f f c1)

(** val parse_identifier_and_type : nat -> cursor -> res **)

let parse_identifier_and_type f c =
  bind (consume KIdentifier c) (fun c1 ->
    if is KColon (peek c1)
    then bind (parse_type f (advance c1)) (fun c2 -> ok c2 (Npos Coq_xH))
    else err c1)

(** val params_loop : nat -> nat -> cursor -> res **)

let rec params_loop f fuel c =
  match fuel with
  | O -> oof c
  | S f0 ->
    if is KParenRight (peek c)
    then ok (advance c) N0
    else bind (parse_identifier_and_type f c) (fun c1 ->
           push (Npos Coq_xH)
             (if is KComma (peek c1)
              then params_loop f f0 (advance c1)
              else consume KParenRight c1))

(** val parse_rest_of_function_signature : nat -> cursor -> res **)

let parse_rest_of_function_signature f c =
  bind (consume KParenLeft c) (fun c1 ->
    bind (params_loop f f c1) (fun c2 ->
      push (Npos Coq_xH)
        (if is KArrow (peek c2)
         then parse_type f (advance c2)
         else ok c2 (Npos Coq_xH))))

(** val members_loop : nat -> nat -> cursor -> res **)

let rec members_loop f fuel c =
  match fuel with
  | O -> oof c
  | S f0 ->
    if is KBraceRight (peek c)
    then ok (advance c) (Npos Coq_xH)
    else bind (parse_identifier_and_type f c) (fun c1 ->
           push (Npos Coq_xH)
             (if is KComma (peek c1)
              then members_loop f f0 (advance c1)
              else bind (consume KBraceRight c1) (fun c2 ->
                     ok c2 (Npos Coq_xH))))

(** val parse_struct_members : nat -> cursor -> res **)

let parse_struct_members f c =
  bind (consume KBraceLeft c) (fun c1 -> members_loop f f c1)

(** val parse_import_declaration : cursor -> res **)

let parse_import_declaration c =
  bind (consume KStringLiteral c) (fun c1 ->
    bind (consume KSemicolon c1) (fun c2 -> ok c2 (Npos (Coq_xI Coq_xH))))

(** val parse_constant_declaration : nat -> cursor -> res **)

let parse_constant_declaration f c =
  bind (consume KIdentifier c) (fun c1 ->
    if is KColon (peek c1)
    then bind (parse_type f (advance c1)) (fun c2 ->
           bind (consume KAssignment c2) (fun c3 ->
             bind (parse_expression f c3) (fun c4 ->
               bind (consume KSemicolon c4) (fun c5 ->
                 ok c5 (Npos (Coq_xO (Coq_xO Coq_xH)))))))
    else err c1)

(** val parse_word_declaration : nat -> cursor -> res **)

let parse_word_declaration f c =
  bind (consume KIdentifier c) (fun c1 ->
    bind (parse_struct_members f c1) (fun c2 ->
      ok c2 (Npos (Coq_xI (Coq_xO Coq_xH)))))

(** val parse_struct_declaration : nat -> cursor -> res **)

let parse_struct_declaration f c =
  bind (consume KIdentifier c) (fun c1 ->
    bind
      (if is KSemicolon (peek c1)
       then ok (advance c1) (Npos Coq_xH)
       else parse_struct_members f c1) (fun c2 ->
      ok c2 (Npos (Coq_xI (Coq_xO Coq_xH)))))

(** val set_private : bool -> coq_N * bool **)

let set_private = function
| true -> (N0, true)
| false -> ((Npos Coq_xH), true)

(** val set_public : bool -> coq_N * bool **)

let set_public = function
| true -> ((Npos Coq_xH), false)
| false -> (N0, false)

(** val parse_function_declaration :
    btok list -> nat -> bool -> bool -> cursor -> res * bool **)

let parse_function_declaration ts f is_pub pz c =
  let r1 =
    bind (consume KIdentifier c) (fun c1 ->
      parse_rest_of_function_signature f c1)
  in
  (match r1.rs with
   | Ok ->
     let c2 = r1.rc in
     let n = N.add r1.rn (Npos (Coq_xO (Coq_xI Coq_xH))) in
     if is KSemicolon (peek c2)
     then ({ rc = (advance c2); rn = n; rs = Ok }, pz)
     else let (n1, pz1) = if is_pub then set_private pz else (N0, pz) in
          let rb = parse_function_body ts f c2 in
          (match rb.rs with
           | Ok ->
             let (n2, pz2) = if is_pub then set_public pz1 else (N0, pz1) in
             ({ rc = rb.rc; rn =
             (N.add (N.add (N.add (N.add n n1) rb.rn) (Npos (Coq_xI Coq_xH)))
               n2); rs = Ok }, pz2)
           | _ ->
             ({ rc = rb.rc; rn = (N.add (N.add n n1) rb.rn); rs = rb.rs },
               pz1))
   | _ -> (r1, pz))

(** val starts_declaration : btok -> bool **)

let starts_declaration = function
| T k ->
  (match k with
   | KFn -> true
   | KConst -> true
   | KImport -> true
   | KPub -> true
   | KExtern -> true
   | KStruct -> true
   | KWord8 -> true
   | KWord16 -> true
   | KWord32 -> true
   | KWord64 -> true
   | KWord128 -> true
   | _ -> false)
| EOS -> false

(** val parse_declaration :
    btok list -> nat -> bool -> cursor -> res * bool **)

let parse_declaration ts f pz c =
  let (is_pub, c1) = consume_optional KPub c in
  let (n0, pz1) = if is_pub then set_public pz else set_private pz in
  let (_, c2) = consume_optional KExtern c1 in
  let c3 = advance c2 in
  let (r, pz2) =
    match peek c2 with
    | T k ->
      (match k with
       | KFn -> parse_function_declaration ts f is_pub pz1 c3
       | KConst -> ((parse_constant_declaration f c3), pz1)
       | KImport -> ((parse_import_declaration c3), pz1)
       | KStruct -> ((parse_struct_declaration f c3), pz1)
       | KWord8 -> ((parse_word_declaration f c3), pz1)
       | KWord16 -> ((parse_word_declaration f c3), pz1)
       | KWord32 -> ((parse_word_declaration f c3), pz1)
       | KWord64 -> ((parse_word_declaration f c3), pz1)
       | KWord128 -> ((parse_word_declaration f c3), pz1)
       | _ -> ((err c3), pz1))
    | EOS -> ((err c3), pz1)
  in
  ((push n0 r), pz2)

type decl_info = { d_start : nat; d_end : nat; d_nodes : coq_N;
                   d_status : status }

type loop_out = { l_nodes : coq_N; l_errs : coq_N; l_decls : coq_N;
                  l_final : nat; l_status : status; l_log : decl_info list }

(** val add_iter : decl_info -> loop_out -> loop_out **)

let add_iter d rest =
  { l_nodes = (N.add d.d_nodes rest.l_nodes); l_errs =
    (N.add (match d.d_status with
            | Err -> Npos Coq_xH
            | _ -> N0) rest.l_errs); l_decls =
    (N.add (match d.d_status with
            | Ok -> Npos Coq_xH
            | _ -> N0) rest.l_decls); l_final = rest.l_final; l_status =
    rest.l_status; l_log = (d :: rest.l_log) }

(** val stop_iter : decl_info -> status -> loop_out **)

let stop_iter d s =
  { l_nodes = d.d_nodes; l_errs = N0; l_decls = N0; l_final = d.d_start;
    l_status = s; l_log = (d :: []) }

(** val decl_loop :
    btok list -> nat -> coq_N -> nat -> nat -> bool -> coq_N -> loop_out **)

let rec decl_loop ts f cap iters start pz nd =
  match iters with
  | O ->
    { l_nodes = N0; l_errs = N0; l_decls = N0; l_final = start; l_status =
      Ok; l_log = [] }
  | S i ->
    if PeanoNat.Nat.ltb (length ts) start
    then { l_nodes = N0; l_errs = N0; l_decls = N0; l_final = start;
           l_status = (Panic coq_P_SLICE); l_log = [] }
    else let c = { cur = start; span = (skipn start ts) } in
         (match peek c with
          | T _ ->
            let (r, pz') = parse_declaration ts f pz c in
            let d = { d_start = start; d_end = r.rc.cur; d_nodes = r.rn;
              d_status = r.rs }
            in
            (match r.rs with
             | Ok ->
               let is_ok = match r.rs with
                           | Ok -> true
                           | _ -> false in
               if (&&) is_ok (N.leb cap nd)
               then stop_iter d (Panic coq_P_FINISH_DECL)
               else (match find_next starts_declaration ts r.rc.cur with
                     | Some nxt ->
                       add_iter d
                         (decl_loop ts f cap i nxt pz'
                           (if is_ok then N.add nd (Npos Coq_xH) else nd))
                     | None -> stop_iter d (Panic coq_P_SKIP_UNTIL))
             | Err ->
               let is_ok = match r.rs with
                           | Ok -> true
                           | _ -> false in
               if (&&) is_ok (N.leb cap nd)
               then stop_iter d (Panic coq_P_FINISH_DECL)
               else (match find_next starts_declaration ts r.rc.cur with
                     | Some nxt ->
                       add_iter d
                         (decl_loop ts f cap i nxt pz'
                           (if is_ok then N.add nd (Npos Coq_xH) else nd))
                     | None -> stop_iter d (Panic coq_P_SKIP_UNTIL))
             | x -> stop_iter d x)
          | EOS ->
            { l_nodes = N0; l_errs = N0; l_decls = N0; l_final = start;
              l_status = Ok; l_log = [] })

(** val num_possible_declarations : btok list -> nat **)

let num_possible_declarations ts =
  length (filter starts_declaration ts)

(** val fuel_for : btok list -> nat **)

let fuel_for ts =
  add (length ts) (S (S (S (S (S (S (S (S O))))))))

(** val coq_MAX_PARSE_NODE_CONTEXT : coq_N **)

let coq_MAX_PARSE_NODE_CONTEXT =
  Npos (Coq_xI (Coq_xO Coq_xH))

(** val coq_MAX_NUM_PARSING_ERRORS : coq_N **)

let coq_MAX_NUM_PARSING_ERRORS =
  Npos (Coq_xO (Coq_xO (Coq_xI (Coq_xO (Coq_xO (Coq_xI Coq_xH))))))

(** val node_capacity : coq_N -> coq_N -> coq_N -> coq_N **)

let node_capacity factor ctx len =
  N.add ctx (N.mul factor len)

(** val capacity : btok list -> coq_N **)

let capacity ts =
  node_capacity (Npos (Coq_xO (Coq_xO Coq_xH))) coq_MAX_PARSE_NODE_CONTEXT
    (N.of_nat (length ts))

type outcome = { o_nodes : coq_N; o_errors_raw : coq_N; o_errors : coq_N;
                 o_decls : coq_N; o_final : nat; o_status : status;
                 o_log : decl_info list }

(** val parse_full : btok list -> outcome **)

let parse_full ts = match ts with
| [] ->
  { o_nodes = N0; o_errors_raw = N0; o_errors = N0; o_decls = N0; o_final =
    O; o_status = (Panic coq_P_FIRST_TOKEN); o_log = [] }
| _ :: _ ->
  let npd = num_possible_declarations ts in
  let l =
    decl_loop ts (fuel_for ts) (N.of_nat npd) (add npd (S (S O))) O false N0
  in
  let st =
    match l.l_status with
    | Ok ->
      if PeanoNat.Nat.ltb (length ts) l.l_final
      then Panic coq_P_SLICE
      else (match peek { cur = l.l_final; span = (skipn l.l_final ts) } with
            | T _ -> Panic coq_P_ASSERT_EOS
            | EOS -> Ok)
    | x -> x
  in
  { o_nodes = (N.add coq_MAX_PARSE_NODE_CONTEXT l.l_nodes); o_errors_raw =
  l.l_errs; o_errors =
  (N.min l.l_errs (N.min (capacity ts) coq_MAX_NUM_PARSING_ERRORS));
  o_decls = l.l_decls; o_final = l.l_final; o_status = st; o_log = l.l_log }
