open Datatypes

(** val add : nat -> nat -> nat **)

let rec add n m =
  match n with
  | O -> m
  | S p -> S (add p m)

(** val mul : nat -> nat -> nat **)

let rec mul n m =
  match n with
  | O -> O
  | S p -> add m (mul p m)

(** val sub : nat -> nat -> nat **)

let rec sub n m =
  match n with
  | O -> n
  | S k -> (match m with
            | O -> n
            | S l -> sub k l)
