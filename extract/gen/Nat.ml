open Datatypes

(** val add : nat -> nat -> nat **)

let rec add n m =
  match n with
  | O -> m
  | S p -> S (add p m)
