open BinInt
open BinNat
open BinNums
open Common
open Datatypes
open Layout
open List
open MemLower
open Mutability
open Nat

type bkind =
| KParam
| KLocal
| KConst

type bstore =
| SAddr of coq_Z
| SImm of coq_Z
| SImmSlice of coq_Z * coq_Z

type binding = { b_kind : bkind; b_ty : MemLower.pty; b_store : bstore }

type frame = binding list

(** val base_loc : binding -> loc option **)

let base_loc b =
  match b.b_store with
  | SAddr a -> Some (LocMem (a, (gen b.b_ty)))
  | SImm z ->
    (match b.b_ty with
     | PPtr u -> Some (LocPtr (z, (gen u)))
     | PView u -> Some (LocPtr (z, (gen u)))
     | _ -> None)
  | SImmSlice (p, len) ->
    (match b.b_ty with
     | PSlice e -> Some (LocSlice (p, len, (gen e)))
     | PSlicePtr e -> Some (LocSlice (p, len, (gen e)))
     | _ -> None)

(** val arg_value : MemLower.pty -> coq_Z -> binding **)

let arg_value t z =
  { b_kind = KParam; b_ty = t; b_store = (SImm z) }

(** val arg_view : coq_Z -> MemLower.pty -> binding **)

let arg_view a t =
  { b_kind = KParam; b_ty = (PView t); b_store = (SImm a) }

(** val arg_slice : coq_Z -> coq_Z -> MemLower.pty -> binding **)

let arg_slice a n e =
  { b_kind = KParam; b_ty = (PSlice e); b_store = (SImmSlice (a, n)) }

(** val arg_pointer : coq_Z -> MemLower.pty -> binding **)

let arg_pointer a t =
  { b_kind = KParam; b_ty = (PPtr t); b_store = (SImm a) }

(** val arg_slice_pointer : coq_Z -> coq_Z -> MemLower.pty -> binding **)

let arg_slice_pointer a n e =
  { b_kind = KParam; b_ty = (PSlicePtr e); b_store = (SImmSlice (a, n)) }

(** val local_var : coq_Z -> MemLower.pty -> binding **)

let local_var a t =
  { b_kind = KLocal; b_ty = t; b_store = (SAddr a) }

(** val constant : coq_Z -> MemLower.pty -> binding **)

let constant a t =
  { b_kind = KConst; b_ty = t; b_store = (SAddr a) }

type reference = { r_base : nat; r_path : path; r_ad : nat }

(** val ptr_depth : MemLower.pty -> nat **)

let rec ptr_depth = function
| PPtr u -> S (ptr_depth u)
| PSlicePtr _ -> S O
| _ -> O

(** val strip_ptrs : nat -> MemLower.pty -> MemLower.pty **)

let rec strip_ptrs n t =
  match n with
  | O -> t
  | S n' -> (match t with
             | PPtr u -> strip_ptrs n' u
             | _ -> t)

(** val elab_assign :
    MemLower.pty -> path -> nat -> (MemLower.rstep list * MemLower.pty) option **)

let elab_assign t p ad =
  match elaborate t p with
  | Some p0 ->
    let (rs, t') = p0 in
    let pd = ptr_depth t' in
    if PeanoNat.Nat.leb ad pd
    then Some ((app rs (repeat RAutoderef (sub pd ad))),
           (strip_ptrs (sub pd ad) t'))
    else None
  | None -> None

type stmt =
| SSetConst of reference * coq_Z
| SCopy of reference * reference
| SSetAddr of reference * reference

(** val step_defined : loc -> coq_Z option -> MemLower.rstep -> bool **)

let step_defined l slen = function
| RElem (i, endless) ->
  if endless
  then false
  else (match l with
        | LocMem (_, t) ->
          (match t with
           | LArr (n, _) ->
             (&&) (Z.leb Z0 i)
               (Z.ltb i (match slen with
                         | Some len -> len
                         | None -> n))
           | _ -> true)
        | _ -> true)
| _ -> true

(** val next_slen : loc -> MemLower.rstep -> coq_Z option **)

let next_slen l = function
| RDeslice0 -> (match l with
                | LocSlice (_, len, _) -> Some len
                | _ -> None)
| _ -> None

(** val sem_checked :
    mem -> loc -> coq_Z option -> MemLower.rstep list -> loc option **)

let rec sem_checked m l slen = function
| [] -> Some l
| s :: r ->
  if step_defined l slen s
  then (match sem_step m l s with
        | Some l' -> sem_checked m l' (next_slen l s) r
        | None -> None)
  else None

(** val ref_loc : mem -> frame -> reference -> (coq_Z * lt) option **)

let ref_loc m f r =
  match nth_error f r.r_base with
  | Some b ->
    (match elab_assign b.b_ty r.r_path r.r_ad with
     | Some p ->
       let (rs, _) = p in
       (match base_loc b with
        | Some l ->
          (match sem_checked m l None rs with
           | Some l0 ->
             (match l0 with
              | LocMem (a, t) -> Some (a, t)
              | _ -> None)
           | None -> None)
        | None -> None)
     | None -> None)
  | None -> None

(** val is_data : lt -> bool **)

let is_data = function
| LInt _ -> true
| LBool -> true
| _ -> false

(** val read_scalar : mem -> frame -> reference -> coq_Z option **)

let read_scalar m f r =
  match nth_error f r.r_base with
  | Some b ->
    (match b.b_store with
     | SImm z ->
       (match b.b_ty with
        | PInt _ ->
          (match r.r_path with
           | [] -> Some z
           | _ :: _ ->
             (match ref_loc m f { r_base = r.r_base; r_path = r.r_path;
                      r_ad = O } with
              | Some p ->
                let (a, t) = p in
                if is_data t
                then load_scalar m a (scalar_size (erase t))
                else None
              | None -> None))
        | PBool ->
          (match r.r_path with
           | [] -> Some z
           | _ :: _ ->
             (match ref_loc m f { r_base = r.r_base; r_path = r.r_path;
                      r_ad = O } with
              | Some p ->
                let (a, t) = p in
                if is_data t
                then load_scalar m a (scalar_size (erase t))
                else None
              | None -> None))
        | _ ->
          (match ref_loc m f { r_base = r.r_base; r_path = r.r_path; r_ad =
                   O } with
           | Some p ->
             let (a, t) = p in
             if is_data t
             then load_scalar m a (scalar_size (erase t))
             else None
           | None -> None))
     | _ ->
       (match ref_loc m f { r_base = r.r_base; r_path = r.r_path; r_ad = O } with
        | Some p ->
          let (a, t) = p in
          if is_data t then load_scalar m a (scalar_size (erase t)) else None
        | None -> None))
  | None -> None

(** val lt_eqb : lt -> lt -> bool **)

let rec lt_eqb a b =
  match a with
  | LInt x -> (match b with
               | LInt y -> Z.eqb x y
               | _ -> false)
  | LBool -> (match b with
              | LBool -> true
              | _ -> false)
  | LPtr x -> (match b with
               | LPtr y -> lt_eqb x y
               | _ -> false)
  | LArr (n, x) ->
    (match b with
     | LArr (k, y) -> (&&) (Z.eqb n k) (lt_eqb x y)
     | _ -> false)
  | LStruct xs ->
    (match b with
     | LStruct ys ->
       let rec go l r =
         match l with
         | [] -> (match r with
                  | [] -> true
                  | _ :: _ -> false)
         | x :: l' ->
           (match r with
            | [] -> false
            | y :: r' -> (&&) (lt_eqb x y) (go l' r'))
       in go xs ys
     | _ -> false)

(** val src_ad : frame -> reference -> nat **)

let src_ad f r =
  match nth_error f r.r_base with
  | Some b ->
    ptr_depth
      (match elaborate b.b_ty r.r_path with
       | Some p -> let (_, t') = p in t'
       | None -> PBool)
  | None -> O

(** val addr_of : mem -> frame -> reference -> (coq_Z * lt) option **)

let addr_of m f r =
  ref_loc m f { r_base = r.r_base; r_path = r.r_path; r_ad = (src_ad f r) }

(** val exec_stmt : mem -> frame -> stmt -> mem option **)

let exec_stmt m f = function
| SSetConst (d, z) ->
  (match ref_loc m f d with
   | Some p ->
     let (a, t) = p in
     if is_data t then Some (store m a (erase t) (VS z)) else None
   | None -> None)
| SCopy (d, s') ->
  (match ref_loc m f d with
   | Some p ->
     let (a, t) = p in
     (match read_scalar m f s' with
      | Some z ->
        if is_data t then Some (store m a (erase t) (VS z)) else None
      | None -> None)
   | None -> None)
| SSetAddr (d, s') ->
  (match ref_loc m f d with
   | Some p ->
     let (a, l) = p in
     (match l with
      | LPtr u ->
        (match addr_of m f s' with
         | Some p0 ->
           let (z, u') = p0 in
           if lt_eqb u u' then Some (store m a TPtr (VS z)) else None
         | None -> None)
      | _ -> None)
   | None -> None)

(** val exec_body : mem -> frame -> stmt list -> mem option **)

let rec exec_body m f = function
| [] -> Some m
| s :: rest ->
  (match exec_stmt m f s with
   | Some m' -> exec_body m' f rest
   | None -> None)

(** val to_mty : MemLower.pty -> mty **)

let rec to_mty = function
| PInt _ -> MPrim prim_i32
| PBool -> MPrim prim_bool
| PArr (n, e) -> MArray ((to_mty e), (Z.to_N n))
| PStruct _ -> MStruct N0
| PPtr u -> MPointer (to_mty u)
| PView u -> MView (to_mty u)
| PSlice e -> MSlice (to_mty e)
| PSlicePtr e -> MSlicePointer (to_mty e)
| PEndless e -> MEndless (to_mty e)

(** val cons_step :
    rstep -> (rstep list * MemLower.pty) option -> (rstep
    list * MemLower.pty) option **)

let cons_step s = function
| Some p -> let (ch, t) = p in Some ((s :: ch), t)
| None -> None

(** val mut_chain :
    MemLower.pty -> MemLower.rstep list -> (rstep list * MemLower.pty) option **)

let rec mut_chain t = function
| [] -> Some ([], t)
| s :: rest ->
  (match s with
   | RElem (_, endless) ->
     if endless
     then None
     else (match t with
           | PArr (_, e) -> cons_step (Element ELeaf) (mut_chain e rest)
           | _ -> None)
   | RMember k ->
     (match t with
      | PStruct ms ->
        (match nth_error ms k with
         | Some mk -> cons_step (Member (N.of_nat k)) (mut_chain mk rest)
         | None -> None)
      | _ -> None)
   | RAutoderef ->
     (match t with
      | PPtr u -> cons_step Autoderef (mut_chain u rest)
      | _ -> None)
   | RAutoview ->
     (match t with
      | PView u -> cons_step Autoview (mut_chain u rest)
      | _ -> None)
   | RDeslice0 ->
     (match t with
      | PSlice e ->
        cons_step AutodesliceByView (mut_chain (PArr (Z0, e)) rest)
      | PSlicePtr e ->
        cons_step AutodesliceByPointer (mut_chain (PArr (Z0, e)) rest)
      | _ -> None)
   | RDeslice1 -> None)

(** val to_mut_ref_at :
    frame -> reference -> nat -> coq_N -> Mutability.reference option **)

let to_mut_ref_at f r ad_steps ad_out =
  match nth_error f r.r_base with
  | Some b ->
    (match elab_assign b.b_ty r.r_path ad_steps with
     | Some p ->
       let (rs, _) = p in
       (match mut_chain b.b_ty rs with
        | Some p0 ->
          let (ch, _) = p0 in
          Some (Ref ((Some (N.of_nat r.r_base)), ch, ad_out))
        | None -> None)
     | None -> None)
  | None -> None

(** val to_mut_ref : frame -> reference -> Mutability.reference option **)

let to_mut_ref f r =
  to_mut_ref_at f r r.r_ad N0

(** val to_mut_stmt : frame -> stmt -> Mutability.stmt option **)

let to_mut_stmt f = function
| SSetConst (d, _) ->
  (match to_mut_ref f d with
   | Some d' -> Some (SAssignment (d', ELeaf))
   | None -> None)
| SCopy (d, s') ->
  (match to_mut_ref f d with
   | Some d' ->
     (match to_mut_ref_at f s' O N0 with
      | Some s'' ->
        Some (SAssignment (d', (EDeref (s'', (POk (MPrim prim_i32))))))
      | None -> None)
   | None -> None)
| SSetAddr (d, s') ->
  (match to_mut_ref f d with
   | Some d' ->
     (match to_mut_ref_at f s' (src_ad f s') (Npos Coq_xH) with
      | Some s'' ->
        Some (SAssignment (d', (EDeref (s'', (POk (MPointer (MPrim
          prim_i32)))))))
      | None -> None)
   | None -> None)

(** val declare_binding : menv -> nat -> binding -> menv **)

let declare_binding v i b =
  match b.b_kind with
  | KParam ->
    declare_param v { p_name = (Some (N.of_nat i)); p_type = (Some
      (to_mty b.b_ty)) }
  | KLocal ->
    fst
      (mut_stmt v (SDeclaration ((N.of_nat i), None, (POk (to_mty b.b_ty)))))
  | KConst ->
    fst (mut_decl v (DConstant ((N.of_nat i), (Some (to_mty b.b_ty)))))

(** val frame_menv_from : nat -> frame -> menv -> menv **)

let rec frame_menv_from i f v =
  match f with
  | [] -> v
  | b :: rest -> frame_menv_from (S i) rest (declare_binding v i b)

(** val frame_menv : frame -> menv **)

let frame_menv f =
  frame_menv_from O f []

(** val coq_E_NOT_ELABORATED : code **)

let coq_E_NOT_ELABORATED =
  Npos Coq_xH

(** val stmt_codes : frame -> stmt -> code list **)

let stmt_codes f s =
  match to_mut_stmt f s with
  | Some ms -> snd (mut_stmt (frame_menv f) ms)
  | None -> coq_E_NOT_ELABORATED :: []

(** val accepted : frame -> stmt -> bool **)

let accepted f s =
  is_nil (stmt_codes f s)

(** val body_codes : frame -> stmt list -> code list **)

let body_codes f body =
  flat_map (stmt_codes f) body

(** val accepted_body : frame -> stmt list -> bool **)

let accepted_body f body =
  forallb (accepted f) body

type range = coq_Z * coq_Z

(** val in_range : coq_Z -> range -> bool **)

let in_range x r =
  (&&) (Z.leb (fst r) x) (Z.ltb x (snd r))

(** val in_ranges : coq_Z -> range list -> bool **)

let in_ranges x rs =
  existsb (in_range x) rs

(** val obj_range : coq_Z -> lt -> range **)

let obj_range a t =
  (a, (Z.add a (lsize t)))

(** val pointees : mem -> lt -> coq_Z -> range list **)

let rec pointees m t a =
  match t with
  | LPtr u ->
    (match load_scalar m a (Zpos (Coq_xO (Coq_xO (Coq_xO Coq_xH)))) with
     | Some z -> (obj_range z u) :: (pointees m u z)
     | None -> [])
  | LArr (n, e) ->
    flat_map (fun k -> pointees m e (Z.add a (Z.mul (Z.of_nat k) (lsize e))))
      (seq O (Z.to_nat n))
  | LStruct ms ->
    let rec go l offs =
      match l with
      | [] -> []
      | x :: r ->
        (match offs with
         | [] -> []
         | off :: offs' -> app (pointees m x (Z.add a off)) (go r offs'))
    in go ms (struct_offsets (erase_list ms))
  | _ -> []

(** val binding_ranges : bool -> mem -> binding -> range list **)

let binding_ranges strict m b =
  match b.b_kind with
  | KParam ->
    (match b.b_store with
     | SAddr _ -> []
     | SImm z ->
       (match b.b_ty with
        | PPtr u -> (obj_range z (gen u)) :: (pointees m (gen u) z)
        | PView u -> if strict then [] else pointees m (gen u) z
        | _ -> [])
     | SImmSlice (p, len) ->
       (match b.b_ty with
        | PSlice e ->
          if strict then [] else pointees m (LArr (len, (gen e))) p
        | PSlicePtr e ->
          (obj_range p (LArr (len, (gen e)))) :: (pointees m (LArr (len,
                                                   (gen e))) p)
        | _ -> []))
  | KLocal ->
    (match b.b_store with
     | SAddr a -> (obj_range a (gen b.b_ty)) :: (pointees m (gen b.b_ty) a)
     | _ -> [])
  | KConst ->
    (match b.b_store with
     | SAddr a -> if strict then [] else pointees m (gen b.b_ty) a
     | _ -> [])

(** val allowed : bool -> mem -> frame -> range list **)

let allowed strict m f =
  flat_map (binding_ranges strict m) f

(** val cell_eqb : cell -> cell -> bool **)

let cell_eqb c d =
  match c with
  | CPad -> (match d with
             | CPad -> true
             | CFrag (_, _, _) -> false)
  | CFrag (z, n, i) ->
    (match d with
     | CPad -> false
     | CFrag (z', n', i') ->
       (&&) ((&&) (Z.eqb z z') (Z.eqb n n')) (Z.eqb i i'))

(** val range_addrs : range -> coq_Z list **)

let range_addrs r =
  map (fun k -> Z.add (fst r) (Z.of_nat k))
    (seq O (Z.to_nat (Z.sub (snd r) (fst r))))

(** val changed : mem -> mem -> range list -> coq_Z list **)

let changed m0 m1 probe =
  filter (fun x -> negb (cell_eqb (m0 x) (m1 x))) (flat_map range_addrs probe)

(** val mem_of : ((coq_Z * ty) * value) list -> mem -> mem **)

let rec mem_of inits m =
  match inits with
  | [] -> m
  | p :: rest ->
    let (p0, v) = p in let (a, t) = p0 in mem_of rest (store m a t v)

type case_result =
| CaseRejected of code list
| CaseUndefined
| CaseRan of coq_Z list * coq_Z list * coq_Z list

(** val run_frame_case :
    frame -> ((coq_Z * ty) * value) list -> stmt list -> range list -> bool
    -> case_result **)

let run_frame_case f inits body probe force =
  let m0 = mem_of inits (fun _ -> CPad) in
  if (||) (accepted_body f body) force
  then (match exec_body m0 f body with
        | Some m1 ->
          let ch = changed m0 m1 probe in
          CaseRan (ch,
          (filter (fun x -> negb (in_ranges x (allowed false m0 f))) ch),
          (filter (fun x -> negb (in_ranges x (allowed true m0 f))) ch))
        | None -> CaseUndefined)
  else CaseRejected (body_codes f body)
