open BinInt
open BinNums
open IR

val select_binop : binop -> bool -> instr

val select_unop : unop -> bool -> instr

val select_icmp : cmpop -> bool -> pred

val select_cast :
  prim -> prim -> bool -> bool -> bool -> coq_Z -> coq_Z -> cast option

val signed_lit_small_min : coq_Z

val signed_lit_small_max : coq_Z

val bit_lit_usize_mask : coq_Z option

val bit_lit_pointer_mask : coq_Z option
