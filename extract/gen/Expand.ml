open BinInt
open BinNat
open BinNums
open Common
open Datatypes
open List
open PeanoNat

type kind =
| KConstant
| KFunction
| KFunctionHead
| KStructure
| KImport of coq_N
| KPoison of code

type flags = { f_public : bool; f_external : bool; f_main : bool;
               f_forward : bool; f_opaque : bool }

type decl = { d_kind : kind; d_payload : coq_N; d_body : coq_N option;
              d_flags : flags }

type pmodule = coq_N * decl list

(** val dmod : pmodule **)

let dmod =
  (N0, [])

(** val decls_of : pmodule list -> nat -> decl list **)

let decls_of mods i =
  snd (nth i mods dmod)

(** val coq_E470 : code **)

let coq_E470 =
  Npos (Coq_xO (Coq_xI (Coq_xI (Coq_xO (Coq_xI (Coq_xO (Coq_xI (Coq_xI
    Coq_xH))))))))

(** val coq_E477 : code **)

let coq_E477 =
  Npos (Coq_xI (Coq_xO (Coq_xI (Coq_xI (Coq_xI (Coq_xO (Coq_xI (Coq_xI
    Coq_xH))))))))

(** val no_flags : flags **)

let no_flags =
  { f_public = false; f_external = false; f_main = false; f_forward = false;
    f_opaque = false }

(** val is_import : decl -> bool **)

let is_import d =
  match d.d_kind with
  | KImport _ -> true
  | _ -> false

(** val extract_public : flags -> flags option **)

let extract_public fl =
  if fl.f_public
  then Some { f_public = false; f_external = fl.f_external; f_main =
         fl.f_main; f_forward = fl.f_forward; f_opaque = fl.f_opaque }
  else None

(** val export : decl -> decl option **)

let export d =
  match d.d_kind with
  | KConstant ->
    (match extract_public d.d_flags with
     | Some fl ->
       Some { d_kind = KConstant; d_payload = d.d_payload; d_body = d.d_body;
         d_flags = fl }
     | None -> None)
  | KFunction ->
    (match extract_public d.d_flags with
     | Some fl ->
       Some { d_kind = KFunctionHead; d_payload = d.d_payload; d_body = None;
         d_flags = fl }
     | None -> None)
  | KFunctionHead ->
    (match extract_public d.d_flags with
     | Some fl ->
       Some { d_kind = KFunctionHead; d_payload = d.d_payload; d_body = None;
         d_flags = fl }
     | None -> None)
  | KStructure ->
    (match extract_public d.d_flags with
     | Some fl ->
       Some { d_kind = KStructure; d_payload = d.d_payload; d_body =
         d.d_body; d_flags = fl }
     | None -> None)
  | _ -> None

(** val exports : decl list -> decl list **)

let rec exports = function
| [] -> []
| d :: r ->
  (match export d with
   | Some d' -> d' :: (exports r)
   | None -> exports r)

(** val import_key : decl -> coq_Z **)

let import_key d =
  if is_import d then Zneg Coq_xH else Z0

(** val insert_stable : decl -> decl list -> decl list **)

let rec insert_stable d l = match l with
| [] -> d :: []
| y :: r ->
  if Z.leb (import_key d) (import_key y)
  then d :: l
  else y :: (insert_stable d r)

(** val sort_imports_first : decl list -> decl list **)

let sort_imports_first ds =
  fold_right insert_stable [] ds

(** val partition_point : (decl -> bool) -> decl list -> nat **)

let rec partition_point p = function
| [] -> O
| x :: r -> if p x then S (partition_point p r) else O

(** val poison_of : code -> decl -> decl **)

let poison_of c d =
  { d_kind = (KPoison c); d_payload = d.d_payload; d_body = None; d_flags =
    no_flags }

(** val path_eqb : coq_N list -> coq_N list -> bool **)

let rec path_eqb a b =
  match a with
  | [] -> (match b with
           | [] -> true
           | _ :: _ -> false)
  | x :: a' ->
    (match b with
     | [] -> false
     | y :: b' -> (&&) (N.eqb x y) (path_eqb a' b'))

(** val position_of : coq_N list -> coq_N list list -> nat option **)

let rec position_of p = function
| [] -> None
| k :: r ->
  if path_eqb k p
  then Some O
  else (match position_of p r with
        | Some i -> Some (S i)
        | None -> None)

(** val parent_of : coq_N list -> coq_N list option **)

let parent_of p = match p with
| [] -> None
| _ :: _ -> Some (removelast p)

(** val get_key_offset :
    coq_N list -> coq_N list list -> coq_N list -> nat option **)

let get_key_offset file keys includer =
  match position_of file keys with
  | Some i -> Some i
  | None ->
    (match parent_of includer with
     | Some dir -> position_of (app dir file) keys
     | None -> None)

(** val pair_eqb : (nat * nat) -> (nat * nat) -> bool **)

let pair_eqb p q =
  (&&) (Nat.eqb (fst p) (fst q)) (Nat.eqb (snd p) (snd q))

(** val pair_leb : (nat * nat) -> (nat * nat) -> bool **)

let pair_leb p q =
  (||) (Nat.ltb (fst p) (fst q))
    ((&&) (Nat.eqb (fst p) (fst q)) (Nat.leb (snd p) (snd q)))

(** val mem_pair : (nat * nat) -> (nat * nat) list -> bool **)

let mem_pair p l =
  existsb (pair_eqb p) l

(** val dedup : (nat * nat) list -> (nat * nat) list **)

let rec dedup = function
| [] -> []
| p :: r -> if mem_pair p r then dedup r else p :: (dedup r)

(** val import_set : (nat * nat) list -> (nat * nat) list **)

let import_set ps =
  filter (fun p -> negb (Nat.eqb (fst p) (snd p))) (dedup ps)

(** val insert_pair : (nat * nat) -> (nat * nat) list -> (nat * nat) list **)

let rec insert_pair p l = match l with
| [] -> p :: []
| q :: r -> if pair_leb p q then p :: l else q :: (insert_pair p r)

(** val sort_pairs : (nat * nat) list -> (nat * nat) list **)

let sort_pairs l =
  fold_right insert_pair [] l

(** val update_nth :
    nat -> (pmodule -> pmodule) -> pmodule list -> pmodule list **)

let rec update_nth n f = function
| [] -> []
| x :: r -> (match n with
             | O -> (f x) :: r
             | S n' -> x :: (update_nth n' f r))

(** val splice_one : (nat * nat) -> pmodule list -> pmodule list **)

let splice_one p mods =
  let imported = exports (decls_of mods (snd p)) in
  update_nth (fst p) (fun m -> ((fst m), (app imported (snd m)))) mods

(** val splice_all : (nat * nat) list -> pmodule list -> pmodule list **)

let splice_all ps mods =
  fold_left (fun m p -> splice_one p m) ps mods

(** val retain_nonimports : pmodule list -> pmodule list **)

let retain_nonimports mods =
  map (fun m -> ((fst m), (filter (fun d -> negb (is_import d)) (snd m))))
    mods

(** val process_import :
    (coq_N -> coq_N -> nat option) -> (coq_N -> bool) -> nat -> coq_N -> decl
    -> decl * (nat * nat) list **)

let process_import resolve hint i path d =
  match d.d_kind with
  | KImport f ->
    (match resolve path f with
     | Some j -> (d, ((i, j) :: []))
     | None -> ((poison_of (if hint f then coq_E477 else coq_E470) d), []))
  | _ -> (d, [])

(** val process_imports :
    (coq_N -> coq_N -> nat option) -> (coq_N -> bool) -> nat -> coq_N -> decl
    list -> decl list * (nat * nat) list **)

let rec process_imports resolve hint i path = function
| [] -> ([], [])
| d :: r ->
  let (d', ps) = process_import resolve hint i path d in
  let (r', ps') = process_imports resolve hint i path r in
  ((d' :: r'), (app ps ps'))

(** val phase1_module :
    (coq_N -> coq_N -> nat option) -> (coq_N -> bool) -> nat -> pmodule ->
    pmodule * (nat * nat) list **)

let phase1_module resolve hint i = function
| (path, ds) ->
  let s = sort_imports_first ds in
  let k = partition_point is_import s in
  let (pre, ps) = process_imports resolve hint i path (firstn k s) in
  ((path, (app pre (skipn k s))), ps)

(** val phase1 :
    (coq_N -> coq_N -> nat option) -> (coq_N -> bool) -> nat -> pmodule list
    -> pmodule list * (nat * nat) list **)

let rec phase1 resolve hint i = function
| [] -> ([], [])
| m :: r ->
  let (m', ps) = phase1_module resolve hint i m in
  let (r', ps') = phase1 resolve hint (S i) r in ((m' :: r'), (app ps ps'))

(** val expand_order :
    (coq_N -> coq_N -> nat option) -> (coq_N -> bool) -> ((nat * nat) list ->
    (nat * nat) list) -> pmodule list -> pmodule list **)

let expand_order resolve hint order mods =
  let (m1, ps) = phase1 resolve hint O mods in
  splice_all (order (import_set ps)) (retain_nonimports m1)

(** val expand_sorted :
    (coq_N -> coq_N -> nat option) -> (coq_N -> bool) -> pmodule list ->
    pmodule list **)

let expand_sorted resolve hint mods =
  expand_order resolve hint sort_pairs mods
