open BinNums
open Common
open Datatypes
open List

type stmt =
| SLabel of name
| SGoto of name
| SIf of stmt * stmt option
| SBlock of stmt list
| SOther

val coq_E400 : code

val coq_E420 : code

type stack = name list list

val in_stack : name -> stack -> bool

val push_last : name -> stack -> stack

val declare_label : name -> stack -> stack * code list

val use_label : name -> stack -> code list

val scan_stmt : stmt -> stack -> stack * code list

val scan_rev : stmt list -> stack -> stack * code list

val scan_program : stmt list list -> stack -> code list

val labels_of : stmt -> name list

val later : stmt list -> name list

val spec_stmt : stmt -> name list -> code list

val spec_list : stmt list -> name list -> code list

val spec_body : stmt list -> code list

val spec_program : stmt list list -> code list
