open BinNat
open BinNums
open Datatypes

type loc = { l_start : coq_N; l_end : coq_N; l_line : coq_N; l_offset : coq_N }

(** val combined_with : loc -> loc -> loc **)

let combined_with self other =
  let e = N.max self.l_end other.l_end in
  if N.ltb other.l_start self.l_start
  then { l_start = other.l_start; l_end = e; l_line = other.l_line;
         l_offset = other.l_offset }
  else { l_start = self.l_start; l_end = e; l_line = self.l_line; l_offset =
         self.l_offset }

(** val comparison_key : loc -> coq_N * coq_N **)

let comparison_key l =
  (l.l_line, l.l_offset)

(** val key_leb : (coq_N * coq_N) -> (coq_N * coq_N) -> bool **)

let key_leb a b =
  (||) (N.ltb (fst a) (fst b))
    ((&&) (N.eqb (fst a) (fst b)) (N.leb (snd a) (snd b)))

(** val key_eqb : (coq_N * coq_N) -> (coq_N * coq_N) -> bool **)

let key_eqb a b =
  (&&) (N.eqb (fst a) (fst b)) (N.eqb (snd a) (snd b))
