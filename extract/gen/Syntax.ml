open BinNums
open Common
open Datatypes
open List

type stmt =
| SSimple
| SGoto
| SLoop
| SPoison
| SIf of stmt * stmt option
| SBlock of stmt list

(** val coq_E800 : code **)

let coq_E800 =
  Npos (Coq_xO (Coq_xO (Coq_xO (Coq_xO (Coq_xO (Coq_xI (Coq_xO (Coq_xO
    (Coq_xI Coq_xH)))))))))

(** val coq_E801 : code **)

let coq_E801 =
  Npos (Coq_xI (Coq_xO (Coq_xO (Coq_xO (Coq_xO (Coq_xI (Coq_xO (Coq_xO
    (Coq_xI Coq_xH)))))))))

(** val coq_E840 : code **)

let coq_E840 =
  Npos (Coq_xO (Coq_xO (Coq_xO (Coq_xI (Coq_xO (Coq_xO (Coq_xI (Coq_xO
    (Coq_xI Coq_xH)))))))))

(** val coq_L1800 : code **)

let coq_L1800 =
  Npos (Coq_xO (Coq_xO (Coq_xO (Coq_xI (Coq_xO (Coq_xO (Coq_xO (Coq_xO
    (Coq_xI (Coq_xI Coq_xH))))))))))

type flags = { nt : bool; ne : bool; ib : bool }

(** val set_nt : flags -> bool -> flags **)

let set_nt f b =
  { nt = b; ne = f.ne; ib = f.ib }

(** val set_ne : flags -> bool -> flags **)

let set_ne f b =
  { nt = f.nt; ne = b; ib = f.ib }

(** val set_ib : flags -> bool -> flags **)

let set_ib f b =
  { nt = f.nt; ne = f.ne; ib = b }

(** val an_stmt : bool -> stmt -> flags -> (flags * code list) * bool **)

let rec an_stmt fixed s f =
  let naked_ok =
    match s with
    | SSimple -> false
    | SLoop -> false
    | SIf (_, _) -> f.ne
    | _ -> true
  in
  if (&&) ((||) f.nt f.ne) (negb naked_ok)
  then ((f, (coq_E840 :: [])), false)
  else (match s with
        | SLoop ->
          if f.ib then ((f, []), true) else ((f, (coq_E801 :: [])), false)
        | SIf (t, e) ->
          let f0 = set_ib f false in
          let f1 = if fixed then set_ne f0 false else f0 in
          let f2 = set_nt f1 true in
          let (p, _) = an_stmt fixed t f2 in
          let (f3, c1) = p in
          let f4 = set_nt f3 false in
          (match e with
           | Some e' ->
             let f5 = set_ne f4 true in
             let (p0, _) = an_stmt fixed e' f5 in
             let (f6, c2) = p0 in (((set_ne f6 false), (app c1 c2)), false)
           | None -> ((f4, c1), false))
        | SBlock b ->
          let f0 = set_ne (set_nt f false) false in
          let an_block =
            let rec an_block ss f1 =
              match ss with
              | [] -> (f1, [])
              | s0 :: rest ->
                (match rest with
                 | [] ->
                   let (p, _) = an_stmt fixed s0 (set_ib f1 true) in
                   let (f2, c) = p in ((set_ib f2 false), c)
                 | _ :: _ ->
                   let (p, still_loop) = an_stmt fixed s0 (set_ib f1 true) in
                   let (f2, c) = p in
                   let c0 = if still_loop then coq_E800 :: [] else c in
                   let (f3, cr) = an_block rest f2 in (f3, (app c0 cr)))
            in an_block
          in
          ((an_block b f0), false)
        | _ -> ((f, []), false))

(** val an_body : bool -> stmt list -> flags -> flags * code list **)

let rec an_body fixed ss f =
  match ss with
  | [] -> (f, [])
  | s :: rest ->
    let (p, _) = an_stmt fixed s f in
    let (f0, c) = p in
    let (f1, cr) = an_body fixed rest f0 in (f1, (app c cr))

(** val init_flags : flags **)

let init_flags =
  { nt = false; ne = false; ib = false }

(** val body_codes : bool -> stmt list -> code list **)

let body_codes fixed body =
  snd (an_body fixed body init_flags)

type lstate = { nb : bool; fs : bool }

(** val lint_stmt : stmt -> lstate -> lstate * code list **)

let rec lint_stmt s st =
  match s with
  | SLoop ->
    if st.fs
    then ({ nb = st.nb; fs = false }, (coq_L1800 :: []))
    else (st, [])
  | SIf (t, e) ->
    let st0 = { nb = true; fs = false } in
    let (st1, c1) = lint_stmt t st0 in
    (match e with
     | Some e' ->
       let (st2, c2) = lint_stmt e' { nb = true; fs = st1.fs } in
       ({ nb = false; fs = st2.fs }, (app c1 c2))
     | None -> ({ nb = false; fs = st1.fs }, c1))
  | SBlock b ->
    (match b with
     | [] -> (st, [])
     | first :: others ->
       let st0 = { nb = false; fs = st.nb } in
       let (st1, c1) = lint_stmt first st0 in
       let st2 = { nb = st1.nb; fs = false } in
       let lint_list0 =
         let rec lint_list0 ss st3 =
           match ss with
           | [] -> (st3, [])
           | s0 :: rest ->
             let (st4, c) = lint_stmt s0 st3 in
             let (st5, cr) = lint_list0 rest st4 in (st5, (app c cr))
         in lint_list0
       in
       let (st3, c2) = lint_list0 others st2 in (st3, (app c1 c2)))
  | _ -> (st, [])

(** val lint_list : stmt list -> lstate -> lstate * code list **)

let rec lint_list ss st =
  match ss with
  | [] -> (st, [])
  | s :: rest ->
    let (st0, c) = lint_stmt s st in
    let (st1, cr) = lint_list rest st0 in (st1, (app c cr))

(** val lint_body : stmt list -> code list **)

let lint_body body =
  snd (lint_list body { nb = false; fs = false })

type ctx =
| CBody
| COther
| CLast
| CThen
| CElse

(** val spec_stmt : ctx -> stmt -> code list **)

let rec spec_stmt c = function
| SSimple ->
  (match c with
   | CThen -> coq_E840 :: []
   | CElse -> coq_E840 :: []
   | _ -> [])
| SLoop ->
  (match c with
   | CBody -> coq_E801 :: []
   | COther -> coq_E800 :: []
   | CLast -> []
   | _ -> coq_E840 :: [])
| SIf (t, e) ->
  (match c with
   | CThen -> coq_E840 :: []
   | _ ->
     app (spec_stmt CThen t)
       (match e with
        | Some e' -> spec_stmt CElse e'
        | None -> []))
| SBlock b ->
  let rec spec_block = function
  | [] -> []
  | s0 :: rest ->
    (match rest with
     | [] -> spec_stmt CLast s0
     | _ :: _ -> app (spec_stmt COther s0) (spec_block rest))
  in spec_block b
| _ -> []

(** val spec_body : stmt list -> code list **)

let spec_body body =
  flat_map (spec_stmt CBody) body

(** val first_is_loop : stmt -> bool **)

let first_is_loop = function
| SBlock b ->
  (match b with
   | [] -> false
   | s0 :: _ -> (match s0 with
                 | SLoop -> true
                 | _ -> false))
| _ -> false

(** val lint_spec : stmt -> code list **)

let rec lint_spec = function
| SIf (t, e) ->
  app (if first_is_loop t then coq_L1800 :: [] else [])
    (app (lint_spec t)
      (match e with
       | Some e' ->
         app (if first_is_loop e' then coq_L1800 :: [] else []) (lint_spec e')
       | None -> []))
| SBlock b ->
  let rec go = function
  | [] -> []
  | s0 :: r -> app (lint_spec s0) (go r)
  in go b
| _ -> []

(** val lint_spec_body : stmt list -> code list **)

let lint_spec_body body =
  flat_map lint_spec body
