open BinInt
open BinNums
open Common

(** val coq_E380 : code **)

let coq_E380 =
  Npos (Coq_xO (Coq_xO (Coq_xI (Coq_xI (Coq_xI (Coq_xI (Coq_xI (Coq_xO
    Coq_xH))))))))

(** val coq_MAXIMUM_ALIGNMENT : coq_Z **)

let coq_MAXIMUM_ALIGNMENT =
  Zpos (Coq_xO (Coq_xO (Coq_xO Coq_xH)))

(** val align_up : coq_Z -> coq_Z -> coq_Z **)

let align_up x a =
  Z.mul a (Z.div (Z.sub (Z.add x a) (Zpos Coq_xH)) a)

(** val next_pow2 : coq_Z -> coq_Z **)

let next_pow2 x =
  if Z.leb x (Zpos Coq_xH)
  then Zpos Coq_xH
  else Z.pow (Zpos (Coq_xO Coq_xH)) (Z.log2_up x)

(** val member_alignment : coq_Z -> coq_Z **)

let member_alignment size =
  Z.min (next_pow2 size) coq_MAXIMUM_ALIGNMENT

type pvt =
| PInt8
| PInt16
| PInt32
| PInt64
| PInt128
| PUint8
| PUint16
| PUint32
| PUint64
| PUint128
| PChar8
| PBool
| PWord of coq_Z
| POther

(** val known_size_in_bytes_as_word_member : pvt -> coq_Z option **)

let known_size_in_bytes_as_word_member = function
| PInt16 -> Some (Zpos (Coq_xO Coq_xH))
| PInt32 -> Some (Zpos (Coq_xO (Coq_xO Coq_xH)))
| PInt64 -> Some (Zpos (Coq_xO (Coq_xO (Coq_xO Coq_xH))))
| PInt128 -> Some (Zpos (Coq_xO (Coq_xO (Coq_xO (Coq_xO Coq_xH)))))
| PUint16 -> Some (Zpos (Coq_xO Coq_xH))
| PUint32 -> Some (Zpos (Coq_xO (Coq_xO Coq_xH)))
| PUint64 -> Some (Zpos (Coq_xO (Coq_xO (Coq_xO Coq_xH))))
| PUint128 -> Some (Zpos (Coq_xO (Coq_xO (Coq_xO (Coq_xO Coq_xH)))))
| PWord d -> Some d
| POther -> None
| _ -> Some (Zpos Coq_xH)

(** val typer_loop : coq_Z list -> coq_Z -> coq_Z -> coq_Z * coq_Z **)

let rec typer_loop members size al =
  match members with
  | [] -> (size, al)
  | s :: rest ->
    let a = member_alignment s in
    let size1 = Z.add (align_up size a) s in
    let al1 = if Z.ltb al a then a else al in typer_loop rest size1 al1

(** val typer_aligned_size : coq_Z list -> coq_Z **)

let typer_aligned_size members =
  let (size, al) = typer_loop members Z0 (Zpos Coq_xH) in align_up size al

(** val word_accepted : coq_Z -> coq_Z list -> bool **)

let word_accepted declared members =
  Z.leb (typer_aligned_size members) declared

(** val known_sizes : pvt list -> coq_Z list **)

let rec known_sizes = function
| [] -> []
| m :: rest ->
  (match known_size_in_bytes_as_word_member m with
   | Some s -> s :: (known_sizes rest)
   | None -> known_sizes rest)

(** val align_struct_word : coq_Z -> pvt list -> code list **)

let align_struct_word declared members =
  if word_accepted declared (known_sizes members) then [] else coq_E380 :: []

type ty =
| TInt of coq_Z
| TBool
| TPtr
| TArr of coq_Z * ty
| TStruct of ty list

(** val int_abi_align : coq_Z -> coq_Z **)

let int_abi_align bytes =
  if Z.leb bytes (Zpos Coq_xH)
  then Zpos Coq_xH
  else if Z.leb bytes (Zpos (Coq_xO Coq_xH))
       then Zpos (Coq_xO Coq_xH)
       else if Z.leb bytes (Zpos (Coq_xO (Coq_xO Coq_xH)))
            then Zpos (Coq_xO (Coq_xO Coq_xH))
            else Zpos (Coq_xO (Coq_xO (Coq_xO Coq_xH)))

(** val layout_loop :
    (coq_Z * coq_Z) list -> coq_Z -> coq_Z -> (coq_Z list * coq_Z) * coq_Z **)

let rec layout_loop ms size al =
  match ms with
  | [] -> (([], size), al)
  | p :: rest ->
    let (sz, a) = p in
    let off = align_up size a in
    let (p0, al1) = layout_loop rest (Z.add off sz) (Z.max a al) in
    let (offs, size1) = p0 in (((off :: offs), size1), al1)

(** val layout_offsets : (coq_Z * coq_Z) list -> coq_Z list **)

let layout_offsets ms =
  let (p, _) = layout_loop ms Z0 (Zpos Coq_xH) in let (offs, _) = p in offs

(** val layout_size : (coq_Z * coq_Z) list -> coq_Z **)

let layout_size ms =
  let (p, al) = layout_loop ms Z0 (Zpos Coq_xH) in
  let (_, size) = p in align_up size al

(** val llvm_align : ty -> coq_Z **)

let rec llvm_align = function
| TInt b -> int_abi_align b
| TBool -> Zpos Coq_xH
| TPtr -> Zpos (Coq_xO (Coq_xO (Coq_xO Coq_xH)))
| TArr (_, e) -> llvm_align e
| TStruct ms ->
  let rec go = function
  | [] -> Zpos Coq_xH
  | m :: rest -> Z.max (llvm_align m) (go rest)
  in go ms

(** val alloc_of : coq_Z -> coq_Z -> coq_Z **)

let alloc_of bits al =
  align_up
    (Z.div (Z.add bits (Zpos (Coq_xI (Coq_xI Coq_xH)))) (Zpos (Coq_xO (Coq_xO
      (Coq_xO Coq_xH))))) al

(** val llvm_size_bits : ty -> coq_Z **)

let rec llvm_size_bits = function
| TInt b -> Z.mul (Zpos (Coq_xO (Coq_xO (Coq_xO Coq_xH)))) b
| TBool -> Zpos Coq_xH
| TPtr -> Zpos (Coq_xO (Coq_xO (Coq_xO (Coq_xO (Coq_xO (Coq_xO Coq_xH))))))
| TArr (n, e) ->
  Z.mul n
    (Z.mul (Zpos (Coq_xO (Coq_xO (Coq_xO Coq_xH))))
      (alloc_of (llvm_size_bits e) (llvm_align e)))
| TStruct ms ->
  Z.mul (Zpos (Coq_xO (Coq_xO (Coq_xO Coq_xH))))
    (layout_size
      (let rec go = function
       | [] -> []
       | m :: rest ->
         ((alloc_of (llvm_size_bits m) (llvm_align m)),
           (llvm_align m)) :: (go rest)
       in go ms))

(** val llvm_alloc_size : ty -> coq_Z **)

let llvm_alloc_size t =
  alloc_of (llvm_size_bits t) (llvm_align t)

(** val member_layouts : ty list -> (coq_Z * coq_Z) list **)

let rec member_layouts = function
| [] -> []
| m :: rest -> ((llvm_alloc_size m), (llvm_align m)) :: (member_layouts rest)

(** val struct_offsets : ty list -> coq_Z list **)

let struct_offsets ms =
  layout_offsets (member_layouts ms)

(** val llvm_size_bytes : ty -> coq_Z **)

let llvm_size_bytes t =
  Z.div (llvm_size_bits t) (Zpos (Coq_xO (Coq_xO (Coq_xO Coq_xH))))

(** val penne_sizeof : ty -> coq_Z **)

let penne_sizeof t = match t with
| TBool -> Zpos Coq_xH
| _ -> llvm_size_bytes t

(** val valid_size : coq_Z -> bool **)

let valid_size b =
  (||)
    ((||)
      ((||) ((||) (Z.eqb b (Zpos Coq_xH)) (Z.eqb b (Zpos (Coq_xO Coq_xH))))
        (Z.eqb b (Zpos (Coq_xO (Coq_xO Coq_xH)))))
      (Z.eqb b (Zpos (Coq_xO (Coq_xO (Coq_xO Coq_xH))))))
    (Z.eqb b (Zpos (Coq_xO (Coq_xO (Coq_xO (Coq_xO Coq_xH))))))

(** val wf_ty : ty -> bool **)

let rec wf_ty = function
| TInt b -> valid_size b
| TArr (n, e) -> (&&) (Z.leb Z0 n) (wf_ty e)
| TStruct ms ->
  let rec go = function
  | [] -> true
  | m :: rest -> (&&) (wf_ty m) (go rest)
  in go ms
| _ -> true
