open BinInt
open BinNums
open Datatypes
open IR

val modulus : coq_Z -> coq_Z

val repr : coq_Z -> coq_Z -> coq_Z

val sgn : coq_Z -> coq_Z -> coq_Z

val value_of : bool -> coq_Z -> coq_Z -> coq_Z

val wrap : bool -> coq_Z -> coq_Z -> coq_Z

val ir_binop : instr -> coq_Z -> coq_Z -> coq_Z -> coq_Z option

val ir_unop : instr -> coq_Z -> coq_Z -> coq_Z option

val ir_icmp : pred -> coq_Z -> coq_Z -> coq_Z -> bool

val ir_cast : cast -> coq_Z -> coq_Z -> coq_Z -> coq_Z
