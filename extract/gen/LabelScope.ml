open BinNums
open Common
open Datatypes
open List

type stmt =
| SLabel of name
| SGoto of name
| SIf of stmt * stmt option
| SBlock of stmt list
| SOther

(** val coq_E400 : code **)

let coq_E400 =
  Npos (Coq_xO (Coq_xO (Coq_xO (Coq_xO (Coq_xI (Coq_xO (Coq_xO (Coq_xI
    Coq_xH))))))))

(** val coq_E420 : code **)

let coq_E420 =
  Npos (Coq_xO (Coq_xO (Coq_xI (Coq_xO (Coq_xO (Coq_xI (Coq_xO (Coq_xI
    Coq_xH))))))))

type stack = name list list

(** val in_stack : name -> stack -> bool **)

let in_stack l st =
  existsb (mem_name l) st

(** val push_last : name -> stack -> stack **)

let rec push_last l = function
| [] -> (l :: []) :: []
| f :: rest ->
  (match rest with
   | [] -> (app f (l :: [])) :: []
   | _ :: _ -> f :: (push_last l rest))

(** val declare_label : name -> stack -> stack * code list **)

let declare_label l st =
  ((push_last l st), (if in_stack l st then coq_E420 :: [] else []))

(** val use_label : name -> stack -> code list **)

let use_label l st =
  if in_stack l st then [] else coq_E400 :: []

(** val scan_stmt : stmt -> stack -> stack * code list **)

let rec scan_stmt s st =
  match s with
  | SLabel l -> declare_label l st
  | SGoto l -> (st, (use_label l st))
  | SIf (t, e) ->
    let (st1, c1) = scan_stmt t st in
    (match e with
     | Some e' -> let (st2, c2) = scan_stmt e' st1 in (st2, (app c1 c2))
     | None -> (st1, c1))
  | SBlock b ->
    let scan_rev0 =
      let rec scan_rev0 ss st0 =
        match ss with
        | [] -> (st0, [])
        | s0 :: rest ->
          let (st1, c1) = scan_rev0 rest st0 in
          let (st2, c2) = scan_stmt s0 st1 in (st2, (app c2 c1))
      in scan_rev0
    in
    let (st1, c) = scan_rev0 b (app st ([] :: [])) in ((removelast st1), c)
  | SOther -> (st, [])

(** val scan_rev : stmt list -> stack -> stack * code list **)

let rec scan_rev ss st =
  match ss with
  | [] -> (st, [])
  | s :: rest ->
    let (st1, c1) = scan_rev rest st in
    let (st2, c2) = scan_stmt s st1 in (st2, (app c2 c1))

(** val scan_program : stmt list list -> stack -> code list **)

let rec scan_program bodies st =
  match bodies with
  | [] -> []
  | b :: rest ->
    let (st1, c) = scan_rev b (app st ([] :: [])) in
    app c (scan_program rest (removelast st1))

(** val labels_of : stmt -> name list **)

let rec labels_of = function
| SLabel l -> l :: []
| SIf (t, e) ->
  app (match e with
       | Some e' -> labels_of e'
       | None -> []) (labels_of t)
| _ -> []

(** val later : stmt list -> name list **)

let later ss =
  flat_map labels_of ss

(** val spec_stmt : stmt -> name list -> code list **)

let rec spec_stmt s v =
  match s with
  | SLabel l -> if mem_name l v then coq_E420 :: [] else []
  | SGoto l -> if mem_name l v then [] else coq_E400 :: []
  | SIf (t, e) ->
    app (spec_stmt t v)
      (match e with
       | Some e' -> spec_stmt e' (app (labels_of t) v)
       | None -> [])
  | SBlock b ->
    let rec spec_list0 = function
    | [] -> []
    | s0 :: rest -> app (spec_stmt s0 (app (later rest) v)) (spec_list0 rest)
    in spec_list0 b
  | SOther -> []

(** val spec_list : stmt list -> name list -> code list **)

let rec spec_list ss v =
  match ss with
  | [] -> []
  | s :: rest -> app (spec_stmt s (app (later rest) v)) (spec_list rest v)

(** val spec_body : stmt list -> code list **)

let spec_body body =
  spec_list body []

(** val spec_program : stmt list list -> code list **)

let spec_program bodies =
  flat_map spec_body bodies
