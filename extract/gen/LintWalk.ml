open BinInt
open BinNums
open Datatypes
open List

type tytag = coq_N

type unop =
| UNegative
| UBitwiseComplement

type expr =
| EBinary of expr * expr
| EUnary of unop * expr
| EBool
| ESigned of coq_Z * tytag option * coq_N
| EBit of coq_Z * tytag option * coq_N
| EString
| EArray of expr list
| EStructural of member list
| EParen of expr
| EDeref of refstep list
| EAutocoerce of expr
| EBitCast of expr
| ETypeCast of expr
| ELengthOfArray of refstep list
| ESizeOf
| ECall of expr list
| EPoison
and member =
| MkMember of expr
and refstep =
| RElement of expr
| RMember
| RAutodeslice
| RAutoderef
| RAutoview

type reference = refstep list

type comparison = { cmp_left : expr; cmp_right : expr; cmp_loc : coq_N }

type stmt =
| SDeclaration of expr option
| SAssignment of reference * expr
| SMethodCall of expr list
| SLoop of coq_N
| SGoto
| SLabel
| SIf of comparison * stmt * els option
| SBlock of block
| SPoison
and els =
| MkElse of stmt * coq_N
and block =
| MkBlock of stmt list * coq_N

type fbody = { fb_statements : stmt list; fb_return_value : expr option }

type decl =
| DConstant of expr
| DFunction of fbody option
| DFunctionHead
| DStructure
| DImport
| DPoison

type litkind =
| KSigned
| KBit
| KNegBit

type lintev =
| EvLiteral of coq_N * litkind * coq_Z * tytag option
| EvLoopFirst of coq_N * coq_N * coq_N

type lstate = { st_naked : coq_N option; st_first : (coq_N * coq_N) option }

(** val st_default : lstate **)

let st_default =
  { st_naked = None; st_first = None }

(** val lint_expr : expr -> lintev list **)

let rec lint_expr = function
| EBinary (l, r) -> app (lint_expr l) (lint_expr r)
| EUnary (op, e1) ->
  (match op with
   | UNegative ->
     (match e1 with
      | EBit (v, ty, p) ->
        (match ty with
         | Some t -> (EvLiteral (p, KNegBit, v, (Some t))) :: []
         | None -> lint_expr e1)
      | _ -> lint_expr e1)
   | UBitwiseComplement -> lint_expr e1)
| ESigned (v, ty, p) -> (EvLiteral (p, KSigned, v, ty)) :: []
| EBit (v, ty, p) -> (EvLiteral (p, KBit, v, ty)) :: []
| EArray els0 -> flat_map lint_expr els0
| EStructural ms -> flat_map lint_member ms
| EParen e1 -> lint_expr e1
| EDeref r -> flat_map lint_refstep r
| EAutocoerce e1 -> lint_expr e1
| EBitCast e1 -> lint_expr e1
| ETypeCast e1 -> lint_expr e1
| ELengthOfArray r -> flat_map lint_refstep r
| ECall args -> flat_map lint_expr args
| _ -> []

(** val lint_member : member -> lintev list **)

and lint_member = function
| MkMember e -> lint_expr e

(** val lint_refstep : refstep -> lintev list **)

and lint_refstep = function
| RElement a -> lint_expr a
| _ -> []

(** val lint_reference : reference -> lintev list **)

let lint_reference r =
  flat_map lint_refstep r

(** val lint_option : expr option -> lintev list **)

let lint_option = function
| Some e -> lint_expr e
| None -> []

(** val lint_stmt : stmt -> lstate -> lstate * lintev list **)

let rec lint_stmt s st =
  match s with
  | SDeclaration value -> (st, (lint_option value))
  | SAssignment (r, value) -> (st, (app (lint_reference r) (lint_expr value)))
  | SMethodCall args -> (st, (flat_map lint_expr args))
  | SLoop loc ->
    (match st.st_first with
     | Some p ->
       let (loc_cond, loc_block) = p in
       ({ st_naked = st.st_naked; st_first = None }, ((EvLoopFirst (loc,
       loc_cond, loc_block)) :: []))
     | None -> (st, []))
  | SIf (c, t, e) ->
    let ev0 = app (lint_expr c.cmp_left) (lint_expr c.cmp_right) in
    let st1 = { st_naked = (Some c.cmp_loc); st_first = None } in
    let (st2, ev1) = lint_stmt t st1 in
    let (st3, ev2) =
      match e with
      | Some e0 ->
        let MkElse (b, loc_else) = e0 in
        lint_stmt b { st_naked = (Some loc_else); st_first = st2.st_first }
      | None -> (st2, [])
    in
    ({ st_naked = None; st_first = st3.st_first }, (app ev0 (app ev1 ev2)))
  | SBlock b -> lint_block b st
  | _ -> (st, [])

(** val lint_block : block -> lstate -> lstate * lintev list **)

and lint_block b st =
  let MkBlock (ss, loc) = b in
  (match ss with
   | [] -> (st, [])
   | s1 :: others ->
     let st1 = { st_naked = None; st_first =
       (match st.st_naked with
        | Some loc_cond -> Some (loc_cond, loc)
        | None -> None) }
     in
     let (st2, ev1) = lint_stmt s1 st1 in
     let st3 = { st_naked = st2.st_naked; st_first = None } in
     let (st4, ev2) =
       let rec go l st0 =
         match l with
         | [] -> (st0, [])
         | x :: xs ->
           let (st', ev) = lint_stmt x st0 in
           let (st'', ev') = go xs st' in (st'', (app ev ev'))
       in go others st3
     in
     (st4, (app ev1 ev2)))

(** val lint_stmts : stmt list -> lstate -> lstate * lintev list **)

let rec lint_stmts l st =
  match l with
  | [] -> (st, [])
  | x :: xs ->
    let (st', ev) = lint_stmt x st in
    let (st'', ev') = lint_stmts xs st' in (st'', (app ev ev'))

(** val lint_fbody : fbody -> lstate -> lstate * lintev list **)

let lint_fbody b st =
  let (st1, ev1) = lint_stmts b.fb_statements st in
  (st1, (app ev1 (lint_option b.fb_return_value)))

(** val lint_decl_in : decl -> lstate -> lstate * lintev list **)

let lint_decl_in d st =
  match d with
  | DConstant value -> (st, (lint_expr value))
  | DFunction body0 ->
    (match body0 with
     | Some body -> lint_fbody body st
     | None -> (st, []))
  | _ -> (st, [])

(** val lint_decl : decl -> lintev list **)

let lint_decl d =
  snd (lint_decl_in d st_default)

type litocc = { oc_pos : coq_N; oc_kind : litkind; oc_val : coq_Z;
                oc_ty : tytag option }

(** val occ_key : litocc -> coq_N * tytag option **)

let occ_key o =
  (o.oc_pos, o.oc_ty)

(** val ev_occ : lintev -> litocc list **)

let ev_occ = function
| EvLiteral (p, k, v, ty) ->
  { oc_pos = p; oc_kind = k; oc_val = v; oc_ty = ty } :: []
| EvLoopFirst (_, _, _) -> []

(** val visits_of : lintev list -> litocc list **)

let visits_of l =
  flat_map ev_occ l

(** val lint_visits : decl -> litocc list **)

let lint_visits d =
  visits_of (lint_decl d)

(** val lint_events : decl -> (coq_N * tytag option) list **)

let lint_events d =
  map occ_key (lint_visits d)

(** val typed_literals :
    (coq_N * tytag option) list -> (coq_N * tytag) list **)

let typed_literals l =
  flat_map (fun x ->
    match snd x with
    | Some t -> ((fst x), t) :: []
    | None -> []) l

(** val lint_checked : decl -> (coq_N * tytag) list **)

let lint_checked d =
  typed_literals (lint_events d)

(** val lint_positions : decl -> coq_N list **)

let lint_positions d =
  map fst (lint_checked d)

(** val range_test :
    (tytag -> ((bool * coq_Z) * coq_Z) option) -> litkind -> coq_Z -> tytag
    -> bool **)

let range_test tbl k v t =
  match tbl t with
  | Some p ->
    let (p0, mx) = p in
    let (sg, mn) = p0 in
    (match k with
     | KSigned -> if Z.ltb v Z0 then Z.ltb v mn else Z.ltb mx v
     | KBit -> Z.ltb mx v
     | KNegBit -> if sg then Z.ltb (Z.add mx (Zpos Coq_xH)) v else Z.ltb mx v)
  | None -> false

(** val lint_decls_in : decl list -> lstate -> lstate * lintev list **)

let rec lint_decls_in ds st =
  match ds with
  | [] -> (st, [])
  | d :: rest ->
    let (st1, ev1) = lint_decl_in d st in
    let (st2, ev2) = lint_decls_in rest st1 in (st2, (app ev1 ev2))

(** val lint_module : decl list -> lintev list **)

let lint_module ds =
  snd (lint_decls_in ds st_default)

(** val occs_expr : expr -> litocc list **)

let rec occs_expr = function
| EBinary (l, r) -> app (occs_expr l) (occs_expr r)
| EUnary (op, e1) ->
  (match op with
   | UNegative ->
     (match e1 with
      | EBit (v, ty, p) ->
        (match ty with
         | Some t ->
           { oc_pos = p; oc_kind = KNegBit; oc_val = v; oc_ty = (Some
             t) } :: []
         | None -> occs_expr e1)
      | _ -> occs_expr e1)
   | UBitwiseComplement -> occs_expr e1)
| ESigned (v, ty, p) ->
  { oc_pos = p; oc_kind = KSigned; oc_val = v; oc_ty = ty } :: []
| EBit (v, ty, p) ->
  { oc_pos = p; oc_kind = KBit; oc_val = v; oc_ty = ty } :: []
| EArray l -> flat_map occs_expr l
| EStructural ms -> flat_map occs_member ms
| EParen e1 -> occs_expr e1
| EDeref r -> flat_map occs_refstep r
| EAutocoerce e1 -> occs_expr e1
| EBitCast e1 -> occs_expr e1
| ETypeCast e1 -> occs_expr e1
| ELengthOfArray r -> flat_map occs_refstep r
| ECall l -> flat_map occs_expr l
| _ -> []

(** val occs_member : member -> litocc list **)

and occs_member = function
| MkMember e -> occs_expr e

(** val occs_refstep : refstep -> litocc list **)

and occs_refstep = function
| RElement a -> occs_expr a
| _ -> []

(** val occs_option : expr option -> litocc list **)

let occs_option = function
| Some e -> occs_expr e
| None -> []

(** val occs_stmt : stmt -> litocc list **)

let rec occs_stmt = function
| SDeclaration value -> occs_option value
| SAssignment (r, value) -> app (flat_map occs_refstep r) (occs_expr value)
| SMethodCall args -> flat_map occs_expr args
| SIf (c, t, e) ->
  app (occs_expr c.cmp_left)
    (app (occs_expr c.cmp_right)
      (app (occs_stmt t)
        (match e with
         | Some e0 -> let MkElse (b, _) = e0 in occs_stmt b
         | None -> [])))
| SBlock b -> let MkBlock (ss, _) = b in flat_map occs_stmt ss
| _ -> []

(** val occs_decl : decl -> litocc list **)

let occs_decl = function
| DConstant value -> occs_expr value
| DFunction body0 ->
  (match body0 with
   | Some body ->
     app (flat_map occs_stmt body.fb_statements)
       (occs_option body.fb_return_value)
   | None -> [])
| _ -> []
