open IR

val valid_types_for_arithmetic : operand_type list

val valid_types_for_bitshift : operand_type list

val valid_types_for_bitwise : operand_type list

val valid_types_for_complement : operand_type list

val valid_types_for_equality : operand_type list

val valid_types_for_is_greater : operand_type list

val valid_types_for_negative : operand_type list

val valid_types_for_offset : operand_type list

val valid_types_for_pointer : operand_type list

val binop_valid_types : binop -> operand_type list

val unop_valid_types : unop -> operand_type list

val cmpop_valid_types : cmpop -> operand_type list

val is_valid_primitive_conversion : prim -> prim -> bool -> bool -> bool
