open BinInt
open BinNat
open BinNums
open Common
open Datatypes
open Limits
open List
open Nat
open TypeLegal

type vt = vty

(** val coq_E538 : code **)

let coq_E538 =
  Npos (Coq_xO (Coq_xI (Coq_xO (Coq_xI (Coq_xI (Coq_xO (Coq_xO (Coq_xO
    (Coq_xO Coq_xH)))))))))

(** val prim_tag : prim -> coq_N **)

let prim_tag = function
| KVoid -> N0
| KInt8 -> Npos Coq_xH
| KInt16 -> Npos (Coq_xO Coq_xH)
| KInt32 -> Npos (Coq_xI Coq_xH)
| KInt64 -> Npos (Coq_xO (Coq_xO Coq_xH))
| KInt128 -> Npos (Coq_xI (Coq_xO Coq_xH))
| KUint8 -> Npos (Coq_xO (Coq_xI Coq_xH))
| KUint16 -> Npos (Coq_xI (Coq_xI Coq_xH))
| KUint32 -> Npos (Coq_xO (Coq_xO (Coq_xO Coq_xH)))
| KUint64 -> Npos (Coq_xI (Coq_xO (Coq_xO Coq_xH)))
| KUint128 -> Npos (Coq_xO (Coq_xI (Coq_xO Coq_xH)))
| KUsize -> Npos (Coq_xI (Coq_xI (Coq_xO Coq_xH)))
| KChar8 -> Npos (Coq_xO (Coq_xO (Coq_xI Coq_xH)))
| KBool -> Npos (Coq_xI (Coq_xO (Coq_xI Coq_xH)))

(** val prim_eqb : prim -> prim -> bool **)

let prim_eqb a b =
  N.eqb (prim_tag a) (prim_tag b)

(** val oname_eqb : name option -> name option -> bool **)

let oname_eqb a b =
  match a with
  | Some x -> (match b with
               | Some y -> N.eqb x y
               | None -> false)
  | None -> (match b with
             | Some _ -> false
             | None -> true)

(** val vt_eqb : vt -> vt -> bool **)

let rec vt_eqb a b =
  match a with
  | VPrim k -> (match b with
                | VPrim l -> prim_eqb k l
                | _ -> false)
  | VArray (e, n) ->
    (match b with
     | VArray (f, m) -> (&&) (vt_eqb e f) (N.eqb n m)
     | _ -> false)
  | VArrayNamed (e, x) ->
    (match b with
     | VArrayNamed (f, y) -> (&&) (vt_eqb e f) (N.eqb x y)
     | _ -> false)
  | VSlice e -> (match b with
                 | VSlice f -> vt_eqb e f
                 | _ -> false)
  | VSlicePointer e ->
    (match b with
     | VSlicePointer f -> vt_eqb e f
     | _ -> false)
  | VEndless e -> (match b with
                   | VEndless f -> vt_eqb e f
                   | _ -> false)
  | VArraylike e -> (match b with
                     | VArraylike f -> vt_eqb e f
                     | _ -> false)
  | VStruct i -> (match b with
                  | VStruct j -> N.eqb i j
                  | _ -> false)
  | VWord (i, n) ->
    (match b with
     | VWord (j, m) -> (&&) (N.eqb i j) (N.eqb n m)
     | _ -> false)
  | VUnresolved i ->
    (match b with
     | VUnresolved j -> oname_eqb i j
     | _ -> false)
  | VPointer d -> (match b with
                   | VPointer e -> vt_eqb d e
                   | _ -> false)
  | VView d -> (match b with
                | VView e -> vt_eqb d e
                | _ -> false)

(** val is_alias_of : vt -> vt -> bool **)

let is_alias_of a b =
  match a with
  | VPrim k ->
    (match k with
     | KChar8 ->
       (match b with
        | VPrim k0 -> (match k0 with
                       | KUint8 -> true
                       | _ -> false)
        | _ -> false)
     | _ -> false)
  | _ -> false

(** val equals : vt -> vt -> bool **)

let rec equals a b =
  match a with
  | VPrim _ -> (||) ((||) (vt_eqb a b) (is_alias_of a b)) (is_alias_of b a)
  | VArray (e, la) ->
    (match b with
     | VArray (f, lb) -> (&&) (N.eqb la lb) (equals e f)
     | _ -> false)
  | VArrayNamed (e, x) ->
    (match b with
     | VArrayNamed (f, y) -> (&&) (N.eqb x y) (equals e f)
     | _ -> false)
  | VSlice e -> (match b with
                 | VSlice f -> equals e f
                 | _ -> false)
  | VSlicePointer e ->
    (match b with
     | VSlicePointer f -> equals e f
     | _ -> false)
  | VEndless e -> (match b with
                   | VEndless f -> equals e f
                   | _ -> false)
  | VArraylike e -> (match b with
                     | VArraylike f -> equals e f
                     | _ -> false)
  | VUnresolved _ ->
    (||) ((||) (vt_eqb a b) (is_alias_of a b)) (is_alias_of b a)
  | VPointer d -> (match b with
                   | VPointer e -> equals d e
                   | _ -> false)
  | VView d -> (match b with
                | VView e -> equals d e
                | _ -> false)
  | _ -> vt_eqb a b

(** val is_like : vt -> vt -> bool **)

let rec is_like a b =
  match a with
  | VArray (e, _) ->
    (match b with
     | VArraylike f -> is_like e f
     | _ -> vt_eqb a b)
  | VArrayNamed (e, _) ->
    (match b with
     | VArraylike f -> is_like e f
     | _ -> vt_eqb a b)
  | VEndless e -> (match b with
                   | VArraylike f -> is_like e f
                   | _ -> vt_eqb a b)
  | VStruct _ ->
    (match b with
     | VUnresolved id -> (match id with
                          | Some _ -> vt_eqb a b
                          | None -> true)
     | _ -> vt_eqb a b)
  | VWord (_, _) ->
    (match b with
     | VUnresolved id -> (match id with
                          | Some _ -> vt_eqb a b
                          | None -> true)
     | _ -> vt_eqb a b)
  | _ -> vt_eqb a b

(** val can_be_declared_as : vt -> vt -> bool **)

let can_be_declared_as a b =
  match a with
  | VArray (e, _) ->
    (match b with
     | VArraylike f -> vt_eqb e f
     | _ -> vt_eqb a b)
  | VArrayNamed (e, _) ->
    (match b with
     | VArraylike f -> vt_eqb e f
     | _ -> vt_eqb a b)
  | VSlice e -> (match b with
                 | VArraylike f -> vt_eqb e f
                 | _ -> vt_eqb a b)
  | VSlicePointer e ->
    (match b with
     | VPointer d -> (match d with
                      | VArraylike f -> vt_eqb e f
                      | _ -> false)
     | _ -> vt_eqb a b)
  | _ -> vt_eqb a b

(** val can_be_concretization_of : vt -> vt -> bool **)

let rec can_be_concretization_of a b =
  match a with
  | VArray (e, la) ->
    (match b with
     | VArray (f, lb) -> (&&) (N.eqb la lb) (can_be_concretization_of e f)
     | _ -> is_like a b)
  | VArrayNamed (e, x) ->
    (match b with
     | VArrayNamed (f, y) -> (&&) (N.eqb x y) (can_be_concretization_of e f)
     | _ -> is_like a b)
  | VSlice e ->
    (match b with
     | VSlice f -> can_be_concretization_of e f
     | VArraylike f -> is_like e f
     | _ -> vt_eqb a b)
  | VSlicePointer e ->
    (match b with
     | VSlicePointer f -> can_be_concretization_of e f
     | VArraylike f -> is_like e f
     | VPointer d ->
       (match d with
        | VArraylike f -> is_like e f
        | _ -> vt_eqb a b)
     | _ -> vt_eqb a b)
  | VEndless e ->
    (match b with
     | VEndless f -> can_be_concretization_of e f
     | _ -> is_like a b)
  | VArraylike e ->
    (match b with
     | VArraylike f -> can_be_concretization_of e f
     | _ -> vt_eqb a b)
  | VStruct i ->
    (match b with
     | VUnresolved id -> (match id with
                          | Some j -> N.eqb i j
                          | None -> true)
     | _ -> vt_eqb a b)
  | VWord (i, _) ->
    (match b with
     | VUnresolved id -> (match id with
                          | Some j -> N.eqb i j
                          | None -> true)
     | _ -> vt_eqb a b)
  | VPointer d ->
    (match b with
     | VPointer e -> can_be_concretization_of d e
     | _ -> vt_eqb a b)
  | VView d ->
    (match b with
     | VView e -> can_be_concretization_of d e
     | _ -> vt_eqb a b)
  | _ -> vt_eqb a b

(** val can_coerce_into : vt -> vt -> bool **)

let can_coerce_into a b =
  match a with
  | VArray (e, _) ->
    (match b with
     | VSlice f -> equals e f
     | VView d -> (match d with
                   | VEndless f -> equals e f
                   | _ -> false)
     | _ -> false)
  | VArrayNamed (e, _) ->
    (match b with
     | VSlice f -> equals e f
     | VView d -> (match d with
                   | VEndless f -> equals e f
                   | _ -> false)
     | _ -> false)
  | VSlice e ->
    (match b with
     | VView d -> (match d with
                   | VEndless f -> equals e f
                   | _ -> false)
     | _ -> false)
  | VSlicePointer e ->
    (match b with
     | VPointer d -> (match d with
                      | VEndless f -> equals e f
                      | _ -> false)
     | _ -> false)
  | VStruct _ -> (match b with
                  | VView d -> vt_eqb d a
                  | _ -> false)
  | _ -> false

(** val can_coerce_address_into : vt -> vt -> bool **)

let can_coerce_address_into a b =
  match a with
  | VArray (e, _) ->
    (match b with
     | VSlicePointer f -> equals e f
     | VPointer d -> (match d with
                      | VEndless f -> equals e f
                      | _ -> false)
     | _ -> false)
  | VArrayNamed (e, _) ->
    (match b with
     | VSlicePointer f -> equals e f
     | VPointer d -> (match d with
                      | VEndless f -> equals e f
                      | _ -> false)
     | _ -> false)
  | _ -> false

(** val get_element_type : vt -> vt option **)

let get_element_type = function
| VArray (e, _) -> Some e
| VArrayNamed (e, _) -> Some e
| VSlice e -> Some e
| VSlicePointer e -> Some e
| VEndless e -> Some e
| VArraylike e -> Some e
| _ -> None

(** val get_pointee_type : vt -> vt option **)

let get_pointee_type = function
| VPointer d -> Some d
| _ -> None

(** val get_viewee_type : vt -> vt option **)

let get_viewee_type = function
| VView d -> Some d
| _ -> None

(** val fully_dereferenced : vt -> vt **)

let rec fully_dereferenced t = match t with
| VPointer d -> fully_dereferenced d
| VView d -> fully_dereferenced d
| _ -> t

(** val add_pointer_depth : vt -> coq_N -> coq_N **)

let rec add_pointer_depth t total =
  match t with
  | VSlicePointer _ -> N.add total (Npos Coq_xH)
  | VPointer d -> add_pointer_depth d (N.add total (Npos Coq_xH))
  | _ -> total

(** val pointer_depth : vt -> coq_N **)

let pointer_depth t =
  add_pointer_depth t N0

(** val is_slice_pointer : vt -> bool **)

let is_slice_pointer = function
| VSlicePointer _ -> true
| _ -> false

(** val map_or_false : vt option -> (vt -> bool) -> bool **)

let map_or_false o f =
  match o with
  | Some t -> f t
  | None -> false

(** val can_subautoderef_into : vt -> vt -> bool **)

let rec can_subautoderef_into a b =
  match a with
  | VPointer d ->
    (||) ((||) (equals d b) (can_subautoderef_into d b))
      (map_or_false (get_pointee_type b) (can_subautoderef_into d))
  | VView d ->
    (||) ((||) (equals d b) (can_subautoderef_into d b))
      (map_or_false (get_viewee_type b) (can_subautoderef_into d))
  | _ -> false

(** val can_autoderef_into : vt -> vt -> bool **)

let can_autoderef_into a b =
  match a with
  | VPrim _ -> false
  | VArraylike _ -> false
  | VWord (_, _) -> false
  | VUnresolved _ -> false
  | VPointer d ->
    (||)
      ((||)
        ((||) ((||) (equals a b) (equals d b)) (can_coerce_address_into d b))
        (can_subautoderef_into d b))
      (map_or_false (get_pointee_type b) (can_subautoderef_into d))
  | VView d ->
    (||) ((||) ((||) (equals a b) (equals d b)) (can_subautoderef_into d b))
      (map_or_false (get_viewee_type b) (can_subautoderef_into d))
  | _ -> (||) (equals a b) (can_coerce_into a b)

type astep =
| AElement of bool option
| AMember of coq_N

type tstep =
| TElement of bool option
| TMember of coq_N
| TAutoderef
| TAutoview
| TAutodesliceByView
| TAutodesliceByPointer

(** val max_num_autoderef_steps : nat **)

let max_num_autoderef_steps =
  Z.to_nat
    (Z.add
      (Z.mul max_reference_depth (Z.add max_address_depth (Zpos Coq_xH)))
      max_address_depth)

type loop_result =
| LoopDone of tstep list * vt * astep list
| LoopPanic of coq_N

(** val loop_cons : tstep list -> loop_result -> loop_result **)

let loop_cons pre = function
| LoopDone (taken, ct, rest) -> LoopDone ((app pre taken), ct, rest)
| LoopPanic s -> LoopPanic s

(** val autoderef_loop :
    (coq_N -> vt option) -> nat -> vt -> astep list -> loop_result **)

let rec autoderef_loop member_type fuel current_type available =
  match fuel with
  | O -> LoopDone ([], current_type, available)
  | S fuel' ->
    (match available with
     | [] -> LoopDone ([], current_type, [])
     | s :: rest ->
       (match current_type with
        | VPrim _ -> LoopPanic (Npos Coq_xH)
        | VArray (e, _) ->
          (match s with
           | AElement _ ->
             loop_cons ((TElement (Some false)) :: [])
               (autoderef_loop member_type fuel' e rest)
           | AMember _ -> LoopPanic (Npos Coq_xH))
        | VArrayNamed (e, _) ->
          (match s with
           | AElement _ ->
             loop_cons ((TElement (Some false)) :: [])
               (autoderef_loop member_type fuel' e rest)
           | AMember _ -> LoopPanic (Npos Coq_xH))
        | VSlice e ->
          (match s with
           | AElement _ ->
             loop_cons (TAutodesliceByView :: ((TElement (Some
               false)) :: [])) (autoderef_loop member_type fuel' e rest)
           | AMember _ -> LoopPanic (Npos Coq_xH))
        | VSlicePointer e ->
          (match s with
           | AElement _ ->
             loop_cons (TAutodesliceByPointer :: ((TElement (Some
               false)) :: [])) (autoderef_loop member_type fuel' e rest)
           | AMember _ -> LoopPanic (Npos Coq_xH))
        | VEndless e ->
          (match s with
           | AElement _ ->
             loop_cons ((TElement (Some true)) :: [])
               (autoderef_loop member_type fuel' e rest)
           | AMember _ -> LoopPanic (Npos Coq_xH))
        | VArraylike e ->
          (match s with
           | AElement _ ->
             loop_cons ((TElement (Some true)) :: [])
               (autoderef_loop member_type fuel' e rest)
           | AMember _ -> LoopPanic (Npos Coq_xH))
        | VUnresolved _ -> LoopPanic (Npos Coq_xH)
        | VPointer d ->
          (match s with
           | AElement ie ->
             (match d with
              | VArraylike e ->
                loop_cons ((TElement ie) :: [])
                  (autoderef_loop member_type fuel' e rest)
              | _ ->
                loop_cons (TAutoderef :: [])
                  (autoderef_loop member_type fuel' d available))
           | AMember _ ->
             loop_cons (TAutoderef :: [])
               (autoderef_loop member_type fuel' d available))
        | VView d ->
          (match s with
           | AElement ie ->
             (match d with
              | VArraylike e ->
                loop_cons ((TElement ie) :: [])
                  (autoderef_loop member_type fuel' e rest)
              | _ ->
                loop_cons (TAutoview :: [])
                  (autoderef_loop member_type fuel' d available))
           | AMember _ ->
             loop_cons (TAutoview :: [])
               (autoderef_loop member_type fuel' d available))
        | _ ->
          (match s with
           | AElement _ -> LoopPanic (Npos Coq_xH)
           | AMember m ->
             (match member_type m with
              | Some t ->
                loop_cons ((TMember m) :: [])
                  (autoderef_loop member_type fuel' t rest)
              | None -> LoopPanic (Npos (Coq_xO Coq_xH))))))

type ad_result =
| ADOk of tstep list * bool * vt * vt option
| ADError of code
| ADPanic of coq_N

(** val opt_vt_eqb : vt option -> vt -> bool **)

let opt_vt_eqb o t =
  match o with
  | Some u -> vt_eqb u t
  | None -> false

(** val wrap_pointers : nat -> vt -> vt **)

let rec wrap_pointers n t =
  match n with
  | O -> t
  | S n' -> VPointer (wrap_pointers n' t)

(** val address_arm_cond : bool -> coq_N -> vt -> bool **)

let address_arm_cond pinned address_depth current_type =
  if pinned
  then N.ltb N0 address_depth
  else N.eqb address_depth (N.add (Npos Coq_xH) (pointer_depth current_type))

(** val autoderef_finish_gen :
    bool -> tstep list -> vt -> vt -> coq_N -> ad_result **)

let autoderef_finish_gen pinned taken current_type target_type address_depth =
  let ad0 = N.eqb address_depth N0 in
  let tpd0 = N.eqb (pointer_depth target_type) N0 in
  if (&&) ((&&) ad0 tpd0) (vt_eqb current_type target_type)
  then ADOk (taken, false, current_type, None)
  else if (&&) ((&&) ad0 tpd0)
            (opt_vt_eqb (get_viewee_type current_type) target_type)
       then ADOk ((app taken (TAutoview :: [])), false, target_type, None)
       else if (&&) ((&&) ad0 tpd0) (can_coerce_into current_type target_type)
            then ADOk (taken, false, current_type, (Some target_type))
            else if (&&)
                      ((&&) (N.eqb address_depth (Npos Coq_xH))
                        (is_slice_pointer current_type))
                      (vt_eqb current_type target_type)
                 then ADOk (taken, false, current_type, None)
                 else if (&&)
                           (address_arm_cond pinned address_depth
                             current_type)
                           (opt_vt_eqb (get_pointee_type target_type)
                             current_type)
                      then ADOk (taken, true, (VPointer current_type), None)
                      else if (&&) (N.ltb N0 address_depth)
                                (can_coerce_address_into current_type
                                  target_type)
                           then ADOk (taken, true, (VPointer current_type),
                                  (Some target_type))
                           else let pd = pointer_depth current_type in
                                if N.leb (N.add (Npos (Coq_xO Coq_xH)) pd)
                                     address_depth
                                then ADError coq_E538
                                else if N.eqb address_depth
                                          (N.add (Npos Coq_xH) pd)
                                     then ADOk (taken, true, (VPointer
                                            current_type), None)
                                     else if is_slice_pointer current_type
                                          then ADPanic (Npos (Coq_xI Coq_xH))
                                          else ADOk
                                                 ((app taken
                                                    (repeat TAutoderef
                                                      (N.to_nat
                                                        (N.sub pd
                                                          address_depth)))),
                                                 false,
                                                 (wrap_pointers
                                                   (N.to_nat address_depth)
                                                   (fully_dereferenced
                                                     current_type)), None)

(** val autoderef_finish : tstep list -> vt -> vt -> coq_N -> ad_result **)

let autoderef_finish =
  autoderef_finish_gen false

(** val autoderef :
    (coq_N -> vt option) -> vt -> vt -> astep list -> coq_N -> ad_result **)

let autoderef member_type known_ref_type target_type steps address_depth =
  match autoderef_loop member_type max_num_autoderef_steps known_ref_type
          steps with
  | LoopDone (taken, ct, _) ->
    autoderef_finish taken ct target_type address_depth
  | LoopPanic s -> ADPanic s

(** val ref_final : (coq_N -> vt option) -> vt -> astep list -> vt option **)

let rec ref_final member_type x = function
| [] -> Some x
| a :: rest ->
  (match a with
   | AElement _ ->
     (match get_element_type x with
      | Some e -> ref_final member_type (fully_dereferenced e) rest
      | None -> None)
   | AMember m ->
     (match x with
      | VStruct _ ->
        (match member_type m with
         | Some t -> ref_final member_type (fully_dereferenced t) rest
         | None -> None)
      | VWord (_, _) ->
        (match member_type m with
         | Some t -> ref_final member_type (fully_dereferenced t) rest
         | None -> None)
      | _ -> None))

(** val add_addresses : vt -> coq_N -> vt **)

let add_addresses x address_depth =
  if N.eqb address_depth N0
  then x
  else if is_slice_pointer x
       then wrap_pointers (sub (N.to_nat address_depth) (S O)) x
       else wrap_pointers (N.to_nat address_depth) x

(** val view_endless : vt -> vt **)

let view_endless x = match x with
| VEndless _ -> VView x
| _ -> x

(** val type_of_reference :
    (coq_N -> vt option) -> vt -> astep list -> coq_N -> vt option **)

let type_of_reference member_type base_type steps address_depth =
  match ref_final member_type (fully_dereferenced base_type) steps with
  | Some x -> Some (view_endless (add_addresses x address_depth))
  | None -> None

(** val deref_target : vt -> vt option -> vt **)

let deref_target known = function
| Some y ->
  if vt_eqb known y
  then y
  else if can_autoderef_into known y then y else known
| None -> known

(** val analyze_deref :
    (coq_N -> vt option) -> vt -> astep list -> coq_N -> vt option ->
    ad_result option **)

let analyze_deref member_type base_type steps address_depth contextual =
  match type_of_reference member_type base_type steps address_depth with
  | Some known ->
    Some
      (autoderef member_type base_type (deref_target known contextual) steps
        address_depth)
  | None -> None

(** val argument_coercion : vt -> vt -> vt option **)

let argument_coercion value_type parameter_type =
  if vt_eqb value_type parameter_type
  then None
  else if can_coerce_into value_type parameter_type
       then Some parameter_type
       else None

(** val pred_table : vt -> vt -> bool list **)

let pred_table a b =
  (can_be_declared_as a b) :: ((can_be_concretization_of a b) :: ((can_coerce_into
                                                                    a b) :: (
    (can_coerce_address_into a b) :: ((can_autoderef_into a b) :: ((is_wellformed
                                                                    a) :: (
    (vt_eqb a b) :: []))))))

(** val pred_table_private : vt -> vt -> bool list **)

let pred_table_private a b =
  (equals a b) :: ((is_like a b) :: ((can_subautoderef_into a b) :: []))
