open BinNat
open BinNums
open Datatypes

type loc = { l_start : coq_N; l_end : coq_N; l_line : coq_N; l_offset : coq_N }

val combined_with : loc -> loc -> loc

val comparison_key : loc -> coq_N * coq_N

val key_leb : (coq_N * coq_N) -> (coq_N * coq_N) -> bool

val key_eqb : (coq_N * coq_N) -> (coq_N * coq_N) -> bool
