open Autoderef
open BinInt
open BinNat
open BinNums
open Datatypes
open Limits
open List
open TypeLegal

(** val max_address_depth_nat : nat **)

let max_address_depth_nat =
  Z.to_nat max_address_depth

(** val strip_bounded : nat -> vt -> tstep list * vt **)

let rec strip_bounded fuel t =
  match fuel with
  | O -> ([], t)
  | S fuel' ->
    (match t with
     | VPointer d ->
       let r = strip_bounded fuel' d in ((TAutoderef :: (fst r)), (snd r))
     | VView d ->
       let r = strip_bounded fuel' d in ((TAutoview :: (fst r)), (snd r))
     | _ -> ([], t))

(** val deslice_of : vt -> tstep list **)

let deslice_of = function
| VSlice _ -> TAutodesliceByView :: []
| VSlicePointer _ -> TAutodesliceByPointer :: []
| _ -> []

(** val element_is_endless : vt -> bool option **)

let element_is_endless = function
| VArray (_, _) -> Some false
| VArrayNamed (_, _) -> Some false
| VSlice _ -> Some false
| VSlicePointer _ -> Some false
| VEndless _ -> Some true
| _ -> None

type asg_loop_result =
| AsgAt of tstep list * vt
| AsgPanic of coq_N

(** val asg_cons : tstep list -> asg_loop_result -> asg_loop_result **)

let asg_cons pre = function
| AsgAt (taken, ct) -> AsgAt ((app pre taken), ct)
| AsgPanic s -> AsgPanic s

(** val assign_loop_fuel :
    (coq_N -> vt option) -> nat -> vt -> astep list -> asg_loop_result **)

let rec assign_loop_fuel member_type bound current_type = function
| [] -> AsgAt ([], current_type)
| a :: rest ->
  (match a with
   | AElement _ ->
     let r = strip_bounded bound current_type in
     let ct = snd r in
     (match get_element_type ct with
      | Some e ->
        asg_cons
          (app (fst r)
            (app (deslice_of ct) ((TElement (element_is_endless ct)) :: [])))
          (assign_loop_fuel member_type bound e rest)
      | None -> AsgPanic (Npos Coq_xH))
   | AMember m ->
     let r = strip_bounded bound current_type in
     (match member_type m with
      | Some t ->
        asg_cons (app (fst r) ((TMember m) :: []))
          (assign_loop_fuel member_type bound t rest)
      | None -> AsgPanic (Npos (Coq_xO Coq_xH))))

(** val assign_loop :
    (coq_N -> vt option) -> vt -> astep list -> asg_loop_result **)

let assign_loop member_type =
  assign_loop_fuel member_type max_address_depth_nat

type assign_result =
| AOk of tstep list * coq_N
| APanic of coq_N

(** val excess_depth : coq_N -> coq_N **)

let excess_depth excess =
  if N.leb excess (Npos (Coq_xI (Coq_xI (Coq_xI (Coq_xI (Coq_xI (Coq_xI
       (Coq_xI Coq_xH))))))))
  then excess
  else Z.to_N max_address_depth

(** val assign_finish : tstep list -> vt -> coq_N -> assign_result **)

let assign_finish taken current_type address_depth =
  let pd = pointer_depth current_type in
  if N.leb address_depth pd
  then AOk
         ((app taken (repeat TAutoderef (N.to_nat (N.sub pd address_depth)))),
         N0)
  else AOk (taken, (excess_depth (N.sub address_depth pd)))

(** val assignment_steps :
    (coq_N -> vt option) -> vt -> astep list -> coq_N -> assign_result **)

let assignment_steps member_type base steps address_depth =
  match assign_loop member_type base steps with
  | AsgAt (taken, ct) -> assign_finish taken ct address_depth
  | AsgPanic s -> APanic s
