open BinInt
open BinNums
open Common
open Datatypes
open Layout

(** val coq_E350 : code **)

let coq_E350 =
  Npos (Coq_xO (Coq_xI (Coq_xI (Coq_xI (Coq_xI (Coq_xO (Coq_xI (Coq_xO
    Coq_xH))))))))

(** val coq_E351 : code **)

let coq_E351 =
  Npos (Coq_xI (Coq_xI (Coq_xI (Coq_xI (Coq_xI (Coq_xO (Coq_xI (Coq_xO
    Coq_xH))))))))

(** val coq_E352 : code **)

let coq_E352 =
  Npos (Coq_xO (Coq_xO (Coq_xO (Coq_xO (Coq_xO (Coq_xI (Coq_xI (Coq_xO
    Coq_xH))))))))

(** val coq_E353 : code **)

let coq_E353 =
  Npos (Coq_xI (Coq_xO (Coq_xO (Coq_xO (Coq_xO (Coq_xI (Coq_xI (Coq_xO
    Coq_xH))))))))

(** val coq_E354 : code **)

let coq_E354 =
  Npos (Coq_xO (Coq_xI (Coq_xO (Coq_xO (Coq_xO (Coq_xI (Coq_xI (Coq_xO
    Coq_xH))))))))

(** val coq_E356 : code **)

let coq_E356 =
  Npos (Coq_xO (Coq_xO (Coq_xI (Coq_xO (Coq_xO (Coq_xI (Coq_xI (Coq_xO
    Coq_xH))))))))

(** val coq_E358 : code **)

let coq_E358 =
  Npos (Coq_xO (Coq_xI (Coq_xI (Coq_xO (Coq_xO (Coq_xI (Coq_xI (Coq_xO
    Coq_xH))))))))

(** val coq_E359 : code **)

let coq_E359 =
  Npos (Coq_xI (Coq_xI (Coq_xI (Coq_xO (Coq_xO (Coq_xI (Coq_xI (Coq_xO
    Coq_xH))))))))

(** val coq_E_PANIC : code **)

let coq_E_PANIC =
  Npos (Coq_xI (Coq_xI (Coq_xI (Coq_xI (Coq_xO (Coq_xO (Coq_xO (Coq_xO
    (Coq_xI (Coq_xI (Coq_xI (Coq_xO (Coq_xO Coq_xH)))))))))))))

type prim =
| KVoid
| KInt8
| KInt16
| KInt32
| KInt64
| KInt128
| KUint8
| KUint16
| KUint32
| KUint64
| KUint128
| KUsize
| KChar8
| KBool

type sty =
| SPrim of prim
| SStruct of name
| SWord of name * coq_N
| SPtr of sty
| SView of sty
| SSlice of sty
| SEndless of sty
| SArraylike of sty
| SArray of coq_N * sty
| SArrayNamed of name * coq_N * sty

type vty =
| VPrim of prim
| VArray of vty * coq_N
| VArrayNamed of vty * name
| VSlice of vty
| VSlicePointer of vty
| VEndless of vty
| VArraylike of vty
| VStruct of name
| VWord of name * coq_N
| VUnresolved of name option
| VPointer of vty
| VView of vty

(** val known_size_in_bytes_as_word_member : vty -> coq_N option **)

let known_size_in_bytes_as_word_member = function
| VPrim k ->
  (match k with
   | KVoid -> None
   | KInt16 -> Some (Npos (Coq_xO Coq_xH))
   | KInt32 -> Some (Npos (Coq_xO (Coq_xO Coq_xH)))
   | KInt64 -> Some (Npos (Coq_xO (Coq_xO (Coq_xO Coq_xH))))
   | KInt128 -> Some (Npos (Coq_xO (Coq_xO (Coq_xO (Coq_xO Coq_xH)))))
   | KUint16 -> Some (Npos (Coq_xO Coq_xH))
   | KUint32 -> Some (Npos (Coq_xO (Coq_xO Coq_xH)))
   | KUint64 -> Some (Npos (Coq_xO (Coq_xO (Coq_xO Coq_xH))))
   | KUint128 -> Some (Npos (Coq_xO (Coq_xO (Coq_xO (Coq_xO Coq_xH)))))
   | KUsize -> None
   | _ -> Some (Npos Coq_xH))
| VWord (_, bytes) -> Some bytes
| _ -> None

(** val can_be_element : vty -> bool **)

let can_be_element = function
| VPrim k -> (match k with
              | KVoid -> false
              | _ -> true)
| VSlice _ -> false
| VSlicePointer _ -> false
| VEndless _ -> false
| VView _ -> false
| _ -> true

(** val is_wellformed_inner : vty -> bool **)

let rec is_wellformed_inner = function
| VPrim k -> (match k with
              | KVoid -> false
              | _ -> true)
| VArray (e, _) -> (&&) (can_be_element e) (is_wellformed_inner e)
| VArrayNamed (e, _) -> (&&) (can_be_element e) (is_wellformed_inner e)
| VSlice _ -> false
| VSlicePointer _ -> false
| VEndless e -> (&&) (can_be_element e) (is_wellformed_inner e)
| VArraylike e -> (&&) (can_be_element e) (is_wellformed_inner e)
| VPointer d -> is_wellformed_inner d
| VView _ -> false
| _ -> true

(** val is_wellformed_element : vty -> bool **)

let is_wellformed_element t =
  (&&) (can_be_element t) (is_wellformed_inner t)

(** val is_wellformed : vty -> bool **)

let is_wellformed = function
| VArray (e, _) -> is_wellformed_element e
| VArrayNamed (e, _) -> is_wellformed_element e
| VSlice e -> is_wellformed_element e
| VSlicePointer e -> is_wellformed_element e
| VEndless e -> is_wellformed_element e
| VArraylike e -> is_wellformed_element e
| VPointer d -> is_wellformed_inner d
| VView d -> is_wellformed_inner d
| _ -> true

(** val can_be_sized : vty -> bool **)

let can_be_sized = function
| VPrim k -> (match k with
              | KVoid -> false
              | _ -> true)
| VSlice _ -> false
| VSlicePointer _ -> false
| VEndless _ -> false
| VArraylike _ -> false
| VView _ -> false
| _ -> true

(** val can_be_struct_member : vty -> bool **)

let can_be_struct_member t = match t with
| VPrim k -> (match k with
              | KVoid -> false
              | _ -> is_wellformed t)
| VSlice _ -> false
| VSlicePointer _ -> false
| VEndless _ -> false
| VArraylike _ -> false
| VView _ -> false
| _ -> is_wellformed t

(** val can_be_word_member : vty -> bool **)

let can_be_word_member t =
  (&&) (can_be_struct_member t)
    (match known_size_in_bytes_as_word_member t with
     | Some _ -> true
     | None -> false)

(** val can_be_constant : vty -> bool **)

let can_be_constant t = match t with
| VPrim k -> (match k with
              | KVoid -> false
              | _ -> is_wellformed t)
| VSlice _ -> false
| VSlicePointer _ -> false
| VEndless _ -> false
| VArraylike _ -> false
| _ -> is_wellformed t

(** val can_be_variable : vty -> bool **)

let can_be_variable t = match t with
| VPrim k -> (match k with
              | KVoid -> false
              | _ -> is_wellformed t)
| VSlicePointer _ -> false
| VEndless _ -> false
| VArraylike _ -> false
| VView _ -> false
| _ -> is_wellformed t

(** val can_be_parameter : vty -> bool **)

let can_be_parameter t = match t with
| VPrim k -> (match k with
              | KVoid -> false
              | _ -> is_wellformed t)
| VArray (_, _) -> false
| VArrayNamed (_, _) -> false
| VEndless _ -> false
| VArraylike _ -> false
| VStruct _ -> false
| _ -> is_wellformed t

(** val can_be_returned : vty -> bool **)

let can_be_returned t = match t with
| VPrim _ -> is_wellformed t
| VWord (_, _) -> is_wellformed t
| VPointer _ -> is_wellformed t
| _ -> false

(** val parse_type : sty -> vty **)

let rec parse_type = function
| SPrim k -> VPrim k
| SStruct id -> VUnresolved (Some id)
| SWord (id, _) -> VUnresolved (Some id)
| SPtr d -> VPointer (parse_type d)
| SView d -> VView (parse_type d)
| SSlice e -> VSlice (parse_type e)
| SEndless e -> VEndless (parse_type e)
| SArraylike e -> VArraylike (parse_type e)
| SArray (len, e) -> VArray ((parse_type e), len)
| SArrayNamed (c, _, e) -> VArrayNamed ((parse_type e), c)

(** val parse_wellformed_type : sty -> vty option **)

let parse_wellformed_type t =
  let v = parse_type t in if is_wellformed v then Some v else None

(** val typed_type : sty -> vty **)

let rec typed_type = function
| SPrim k -> VPrim k
| SStruct id -> VStruct id
| SWord (id, bytes) -> VWord (id, bytes)
| SPtr d -> VPointer (typed_type d)
| SView d -> VView (typed_type d)
| SSlice e -> VSlice (typed_type e)
| SEndless e -> VEndless (typed_type e)
| SArraylike e -> VArraylike (typed_type e)
| SArray (len, e) -> VArray ((typed_type e), len)
| SArrayNamed (_, len, e) -> VArray ((typed_type e), len)

type fixctx =
| FixConst
| FixMember
| FixParameter
| FixReturned

type fixres =
| FOk of vty
| FErr of code
| FPanic of coq_N

(** val fix_map : (vty -> vty) -> fixres -> fixres **)

let fix_map f r = match r with
| FOk t -> FOk (f t)
| _ -> r

(** val prim_abi : prim -> bool **)

let prim_abi = function
| KVoid -> false
| KInt128 -> false
| KUint128 -> false
| KBool -> false
| _ -> true

(** val externalize_type_pinned : vty -> fixres **)

let rec externalize_type_pinned t =
  if negb (is_wellformed t)
  then FPanic (Npos (Coq_xO (Coq_xI (Coq_xO (Coq_xO (Coq_xO (Coq_xI (Coq_xO
         (Coq_xO (Coq_xI (Coq_xO (Coq_xI Coq_xH))))))))))))
  else (match t with
        | VPrim k -> if prim_abi k then FOk t else FErr coq_E358
        | VArraylike e ->
          fix_map (fun x -> VEndless x) (externalize_type_pinned e)
        | VPointer d ->
          fix_map (fun x -> VPointer x) (externalize_type_pinned d)
        | VView d -> fix_map (fun x -> VView x) (externalize_type_pinned d)
        | _ -> FErr coq_E358)

(** val fix_plain : vty -> fixctx -> fixres **)

let fix_plain t ctx =
  match t with
  | VArraylike e -> FOk (VSlice e)
  | VStruct _ ->
    (match ctx with
     | FixConst -> FOk t
     | FixMember -> FOk t
     | _ -> FOk (VView t))
  | VPointer d ->
    (match d with
     | VArraylike e -> FOk (VSlicePointer e)
     | _ -> FOk t)
  | _ -> FOk t

(** val fix_type_for_flags_pinned : vty -> fixctx -> bool -> fixres **)

let fix_type_for_flags_pinned t ctx = function
| true ->
  (match t with
   | VArraylike e ->
     fix_map (fun e' -> VView (VEndless e')) (externalize_type_pinned e)
   | _ -> externalize_type_pinned t)
| false -> fix_plain t ctx

(** val externalize_type : vty -> fixres **)

let rec externalize_type t =
  if negb (is_wellformed t)
  then FPanic (Npos (Coq_xO (Coq_xO (Coq_xO (Coq_xO (Coq_xO (Coq_xI (Coq_xO
         (Coq_xO (Coq_xI (Coq_xO (Coq_xI Coq_xH))))))))))))
  else (match t with
        | VPrim k -> if prim_abi k then FOk t else FErr coq_E358
        | VArraylike e ->
          (match externalize_type e with
           | FOk e' ->
             (match e' with
              | VEndless _ -> FErr coq_E358
              | _ -> FOk (VEndless e'))
           | x -> x)
        | VPointer d -> fix_map (fun x -> VPointer x) (externalize_type d)
        | VView d -> fix_map (fun x -> VView x) (externalize_type d)
        | _ -> FErr coq_E358)

(** val fix_type_for_flags : vty -> fixctx -> bool -> fixres **)

let fix_type_for_flags t ctx = function
| true ->
  (match t with
   | VArraylike _ -> fix_map (fun x -> VView x) (externalize_type t)
   | _ -> externalize_type t)
| false -> fix_plain t ctx

type dflags = { f_pub : bool; f_extern : bool }

type position =
| PVariable
| PSizeOf
| PConstant of dflags
| PParameter of dflags
| PReturn of dflags
| PStructMember of dflags
| PWordMember of coq_N * dflags

type outcome =
| OCodes of code list
| OPanic of coq_N

(** val judge : bool -> vty -> code -> coq_N -> outcome **)

let judge is_legal vt c assert_line =
  if is_legal
  then OCodes []
  else if is_wellformed vt then OCodes (c :: []) else OPanic assert_line

(** val analyze_variable : vty -> outcome **)

let analyze_variable v =
  if can_be_variable v then OCodes [] else OCodes (coq_E352 :: [])

(** val analyze_sizeof : vty -> outcome **)

let analyze_sizeof v =
  judge (can_be_sized v) v coq_E359 (Npos (Coq_xI (Coq_xO (Coq_xO (Coq_xI
    (Coq_xI (Coq_xO (Coq_xO (Coq_xI (Coq_xI (Coq_xI Coq_xH)))))))))))

(** val constant_fixed : fixres -> outcome **)

let constant_fixed = function
| FOk vt ->
  judge (can_be_constant vt) vt coq_E353 (Npos (Coq_xO (Coq_xO (Coq_xI
    (Coq_xI (Coq_xO (Coq_xI (Coq_xO (Coq_xI (Coq_xO Coq_xH))))))))))
| FErr c -> OCodes (c :: [])
| FPanic l -> OPanic l

(** val parameter_fixed : fixres -> outcome **)

let parameter_fixed = function
| FOk vt ->
  judge (can_be_parameter vt) vt coq_E354 (Npos (Coq_xI (Coq_xO (Coq_xO
    (Coq_xI (Coq_xI (Coq_xI (Coq_xI (Coq_xO (Coq_xO (Coq_xO Coq_xH)))))))))))
| FErr c -> OCodes (c :: [])
| FPanic l -> OPanic l

(** val returned_fixed : fixres -> outcome **)

let returned_fixed = function
| FOk vt ->
  judge (can_be_returned vt) vt coq_E351 (Npos (Coq_xI (Coq_xO (Coq_xI
    (Coq_xI (Coq_xO (Coq_xO (Coq_xI (Coq_xI (Coq_xO (Coq_xO (Coq_xI
    Coq_xH))))))))))))
| FErr c -> OCodes (c :: [])
| FPanic l -> OPanic l

(** val declare_constant : dflags -> vty -> outcome **)

let declare_constant fl v =
  constant_fixed (fix_type_for_flags v FixConst fl.f_extern)

(** val analyze_parameter : dflags -> vty -> outcome **)

let analyze_parameter fl v =
  parameter_fixed (fix_type_for_flags v FixParameter fl.f_extern)

(** val fix_return_type_for_flags : dflags -> vty -> outcome **)

let fix_return_type_for_flags fl v = match v with
| VPrim k ->
  (match k with
   | KVoid -> OCodes []
   | _ -> returned_fixed (fix_type_for_flags v FixReturned fl.f_extern))
| _ -> returned_fixed (fix_type_for_flags v FixReturned fl.f_extern)

(** val to_pvt : vty -> pvt **)

let to_pvt = function
| VPrim k ->
  (match k with
   | KInt8 -> PInt8
   | KInt16 -> PInt16
   | KInt32 -> PInt32
   | KInt64 -> PInt64
   | KInt128 -> PInt128
   | KUint8 -> PUint8
   | KUint16 -> PUint16
   | KUint32 -> PUint32
   | KUint64 -> PUint64
   | KUint128 -> PUint128
   | KChar8 -> PChar8
   | KBool -> PBool
   | _ -> POther)
| VWord (_, bytes) -> PWord (Z.of_N bytes)
| _ -> POther

(** val align_single_member : coq_N -> vty -> code list **)

let align_single_member declared vt =
  align_struct_word (Z.of_N declared) ((to_pvt vt) :: [])

(** val member_fixed : coq_N option -> fixres -> outcome **)

let member_fixed in_word = function
| FOk vt ->
  (match in_word with
   | Some declared ->
     (match judge (can_be_word_member vt) vt coq_E356 (Npos (Coq_xI (Coq_xI
              (Coq_xI (Coq_xI (Coq_xI (Coq_xI (Coq_xO (Coq_xO (Coq_xO (Coq_xO
              Coq_xH))))))))))) with
      | OCodes cs ->
        (match cs with
         | [] -> OCodes (align_single_member declared vt)
         | c :: l -> OCodes (c :: l))
      | OPanic line -> OPanic line)
   | None ->
     judge (can_be_struct_member vt) vt coq_E356 (Npos (Coq_xI (Coq_xI
       (Coq_xI (Coq_xI (Coq_xI (Coq_xI (Coq_xO (Coq_xO (Coq_xO (Coq_xO
       Coq_xH))))))))))))
| FErr c -> OCodes (c :: [])
| FPanic l -> OPanic l

(** val analyze_member : coq_N option -> dflags -> vty -> outcome **)

let analyze_member in_word fl v =
  member_fixed in_word (fix_type_for_flags v FixMember fl.f_extern)

(** val legal_outcome : position -> sty -> outcome **)

let legal_outcome p t =
  match parse_wellformed_type t with
  | Some _ ->
    let v = typed_type t in
    (match p with
     | PVariable -> analyze_variable v
     | PSizeOf -> analyze_sizeof v
     | PConstant fl -> declare_constant fl v
     | PParameter fl -> analyze_parameter fl v
     | PReturn fl -> fix_return_type_for_flags fl v
     | PStructMember fl -> analyze_member None fl v
     | PWordMember (bytes, fl) -> analyze_member (Some bytes) fl v)
  | None -> OCodes (coq_E350 :: [])

(** val codes_of : outcome -> code list **)

let codes_of = function
| OCodes cs -> cs
| OPanic _ -> coq_E_PANIC :: []

(** val legal : position -> sty -> code list **)

let legal p t =
  codes_of (legal_outcome p t)

(** val legal_outcome_pinned : position -> sty -> outcome **)

let legal_outcome_pinned p t =
  match parse_wellformed_type t with
  | Some _ ->
    let v = typed_type t in
    (match p with
     | PVariable -> analyze_variable v
     | PSizeOf -> analyze_sizeof v
     | PConstant fl ->
       constant_fixed (fix_type_for_flags_pinned v FixConst fl.f_extern)
     | PParameter fl ->
       parameter_fixed (fix_type_for_flags_pinned v FixParameter fl.f_extern)
     | PReturn fl ->
       (match v with
        | VPrim k ->
          (match k with
           | KVoid -> OCodes []
           | _ ->
             returned_fixed
               (fix_type_for_flags_pinned v FixReturned fl.f_extern))
        | _ ->
          returned_fixed (fix_type_for_flags_pinned v FixReturned fl.f_extern))
     | PStructMember fl ->
       member_fixed None (fix_type_for_flags_pinned v FixMember fl.f_extern)
     | PWordMember (bytes, fl) ->
       member_fixed (Some bytes)
         (fix_type_for_flags_pinned v FixMember fl.f_extern))
  | None -> OCodes (coq_E350 :: [])

(** val legal_pinned : position -> sty -> code list **)

let legal_pinned p t =
  codes_of (legal_outcome_pinned p t)
