open BinNums
open BinPosDef
open Datatypes
open Nat

module Pos :
 sig
  val succ : positive -> positive

  val add : positive -> positive -> positive

  val add_carry : positive -> positive -> positive

  val pred_double : positive -> positive

  val pred_N : positive -> coq_N

  type mask = Pos.mask =
  | IsNul
  | IsPos of positive
  | IsNeg

  val succ_double_mask : mask -> mask

  val double_mask : mask -> mask

  val double_pred_mask : positive -> mask

  val sub_mask : positive -> positive -> mask

  val sub_mask_carry : positive -> positive -> mask

  val mul : positive -> positive -> positive

  val iter : ('a1 -> 'a1) -> 'a1 -> positive -> 'a1

  val size : positive -> positive

  val compare_cont : comparison -> positive -> positive -> comparison

  val compare : positive -> positive -> comparison

  val eqb : positive -> positive -> bool

  val coq_Nsucc_double : coq_N -> coq_N

  val coq_Ndouble : coq_N -> coq_N

  val coq_lor : positive -> positive -> positive

  val coq_land : positive -> positive -> coq_N

  val ldiff : positive -> positive -> coq_N

  val coq_lxor : positive -> positive -> coq_N

  val shiftl : positive -> coq_N -> positive

  val iter_op : ('a1 -> 'a1 -> 'a1) -> positive -> 'a1 -> 'a1

  val to_nat : positive -> nat

  val of_succ_nat : nat -> positive
 end
