open BinNums
open BinPosDef
open Datatypes

module Pos :
 sig
  val succ : positive -> positive

  val add : positive -> positive -> positive

  val add_carry : positive -> positive -> positive

  val pred_double : positive -> positive

  type mask = Pos.mask =
  | IsNul
  | IsPos of positive
  | IsNeg

  val succ_double_mask : mask -> mask

  val double_mask : mask -> mask

  val double_pred_mask : positive -> mask

  val sub_mask : positive -> positive -> mask

  val sub_mask_carry : positive -> positive -> mask

  val mul : positive -> positive -> positive

  val compare_cont : comparison -> positive -> positive -> comparison

  val compare : positive -> positive -> comparison

  val eqb : positive -> positive -> bool
 end
