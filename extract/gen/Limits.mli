open BinNums

val max_address_depth : coq_Z

val max_reference_depth : coq_Z
