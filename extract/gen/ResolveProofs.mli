open Datatypes
open IR
open Resolve
open TypeTables

val is_arith : binop -> bool

val is_bitop : binop -> bool

val is_equality : cmpop -> bool

val binop_class : binop -> operand_type -> bool

val unop_class : unop -> operand_type -> bool

val cmpop_class : cmpop -> operand_type -> bool

val conversion_spec : prim -> prim -> bool
