open BinNums
open IR

type tkind =
| KParenLeft
| KParenRight
| KBraceLeft
| KBraceRight
| KBracketLeft
| KBracketRight
| KAngleLeft
| KAngleRight
| KPipe
| KAmpersand
| KCaret
| KExclamation
| KPlaceholder
| KPlus
| KMinus
| KTimes
| KDivide
| KModulo
| KColon
| KSemicolon
| KDot
| KComma
| KAssignment
| KEquals
| KDoesNotEqual
| KIsGE
| KIsLE
| KShiftLeft
| KShiftRight
| KArrow
| KPipeForType
| KDots
| KFn
| KVar
| KConst
| KIf
| KGoto
| KLoop
| KReturn
| KElse
| KCast
| KAs
| KImport
| KPub
| KExtern
| KStruct
| KWord8
| KWord16
| KWord32
| KWord64
| KWord128
| KType
| KIdentifier
| KBuiltin
| KNakedDecimal
| KBitInteger
| KSuffixedInteger
| KCharLiteral
| KBool
| KStringLiteral
| KError

type tykw =
| TyVoid
| TyPrim of prim

type tok = { kind : tkind; value : coq_Z; vtype : tykw option;
             bytes : coq_N list; tstart : coq_N; tend : coq_N; line : 
             coq_N; lstart : coq_N }

val coq_E102 : coq_Z

val coq_E103 : coq_Z

val coq_E101 : coq_Z

val coq_E110 : coq_Z

val coq_E140 : coq_Z

val coq_E141 : coq_Z

val coq_E160 : coq_Z

val coq_E161 : coq_Z

val coq_E162 : coq_Z

val coq_E163 : coq_Z
