open BinNat
open BinNums
open Datatypes
open List

val hex_digit_lower : coq_N -> coq_N

val escape_default : coq_N -> coq_N list

val escape_bytes : coq_N list -> coq_N list

val rebuild_string : coq_N list -> coq_N list

val rebuild_import : coq_N list -> coq_N list -> coq_N list

val rebuild_const_string : coq_N list -> coq_N list
