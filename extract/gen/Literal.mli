open BinInt
open BinNums
open Bits
open IR
open LowerTables
open TypeTables

val i128_max : coq_Z

val i128_min : coq_Z

type itok =
| TNaked of coq_Z
| TBits of coq_Z
| TSuffixed of coq_Z * prim

type lit =
| LSigned of coq_Z
| LBit of coq_Z
| LNeg of lit

val parse_primary : itok -> lit * prim option

val fold_minus : bool -> lit -> lit

val lint_max : coq_Z -> prim -> coq_Z

val lint_on : coq_Z -> lit -> prim -> bool

val lint : lit -> prim -> bool

val const_int : coq_Z -> coq_Z -> bool -> coq_Z

val materialise_signed : coq_Z -> coq_Z -> coq_Z

val masked : coq_Z option -> coq_Z -> coq_Z

val materialise_bit : prim -> coq_Z -> coq_Z -> coq_Z

val bits_of : coq_Z -> lit -> prim -> coq_Z

val source_literal : bool -> bool -> itok -> lit * prim option
