open BinNat
open BinNums
open Datatypes
open List

type name = coq_N list

type path = { absolute : bool; comps : name list }

(** val coq_DOT : coq_N **)

let coq_DOT =
  Npos (Coq_xO (Coq_xI (Coq_xI (Coq_xI (Coq_xO Coq_xH)))))

(** val push : path -> path -> path **)

let push base p =
  { absolute = base.absolute; comps = (app base.comps p.comps) }

(** val has_dot : name -> bool **)

let rec has_dot = function
| [] -> false
| c :: r -> (||) (N.eqb c coq_DOT) (has_dot r)

(** val stem_tail : name -> name **)

let rec stem_tail = function
| [] -> []
| c :: r ->
  if (&&) (N.eqb c coq_DOT) (negb (has_dot r)) then [] else c :: (stem_tail r)

(** val file_stem : name -> name **)

let file_stem n = match n with
| [] -> []
| c :: r -> if has_dot r then c :: (stem_tail r) else n

(** val coq_PN_LL : name **)

let coq_PN_LL =
  (Npos (Coq_xO (Coq_xO (Coq_xO (Coq_xO (Coq_xI (Coq_xI
    Coq_xH))))))) :: ((Npos (Coq_xO (Coq_xI (Coq_xI (Coq_xI (Coq_xO (Coq_xI
    Coq_xH))))))) :: ((Npos (Coq_xO (Coq_xI (Coq_xI (Coq_xI (Coq_xO
    Coq_xH)))))) :: ((Npos (Coq_xO (Coq_xO (Coq_xI (Coq_xI (Coq_xO (Coq_xI
    Coq_xH))))))) :: ((Npos (Coq_xO (Coq_xO (Coq_xI (Coq_xI (Coq_xO (Coq_xI
    Coq_xH))))))) :: []))))

(** val coq_PN : name **)

let coq_PN =
  (Npos (Coq_xO (Coq_xO (Coq_xO (Coq_xO (Coq_xI (Coq_xI
    Coq_xH))))))) :: ((Npos (Coq_xO (Coq_xI (Coq_xI (Coq_xI (Coq_xO (Coq_xI
    Coq_xH))))))) :: [])

(** val set_ext_name : name -> name **)

let set_ext_name n =
  app (file_stem n) (coq_DOT :: coq_PN_LL)

(** val set_ext_comps : name list -> name list **)

let rec set_ext_comps = function
| [] -> []
| c :: r ->
  (match r with
   | [] -> (set_ext_name c) :: []
   | _ :: _ -> c :: (set_ext_comps r))

(** val ll_path : path -> path -> path **)

let ll_path out_dir module0 =
  let p = push out_dir module0 in
  { absolute = p.absolute; comps = (set_ext_comps p.comps) }

(** val list_eqb : name -> name -> bool **)

let rec list_eqb a b =
  match a with
  | [] -> (match b with
           | [] -> true
           | _ :: _ -> false)
  | x :: a' ->
    (match b with
     | [] -> false
     | y :: b' -> (&&) (N.eqb x y) (list_eqb a' b'))

(** val ends_with : name -> name -> bool **)

let rec ends_with suffix n =
  (||) (list_eqb n suffix)
    (match n with
     | [] -> false
     | _ :: r -> ends_with suffix r)

(** val is_pn_name : name -> bool **)

let is_pn_name = function
| [] -> false
| _ :: r -> ends_with (coq_DOT :: coq_PN) r

(** val is_pn_module : path -> bool **)

let is_pn_module m =
  match rev m.comps with
  | [] -> false
  | n :: _ -> is_pn_name n
