open BinInt
open BinNat
open BinNums
open Common
open Datatypes
open IR
open List
open PeanoNat
open RefParser
open Tok

type perr =
| UnexpectedToken
| DepthExceeded

type 'a res =
| Ok of 'a
| Err of perr
| Fuel

val bind : 'a1 res -> ('a1 -> 'a2 res) -> 'a2 res

val of_opt : perr -> 'a1 option -> 'a1 res

val to_opt : 'a1 res -> 'a1 option

val expect_r : (tkind -> bool) -> tok list -> tok list res

val expect_id_r : tok list -> (name * tok list) res

val parse_inner_type : nat -> tok list -> (ty * tok list) res

val parse_type : nat -> tok list -> (ty * tok list) res

val as_loop : nat -> expr -> tok list -> (expr * tok list) res

val amp_loop : coq_N -> tok list -> (coq_N * tok list) option

val parse_addition_g : nat -> nat -> tok list -> (expr * tok list) res

val add_loop_g : nat -> nat -> expr -> tok list -> (expr * tok list) res

val bit_loop_g :
  nat -> nat -> binop -> expr -> tok list -> (expr * tok list) res

val parse_multiplication_g : nat -> nat -> tok list -> (expr * tok list) res

val mul_loop_g : nat -> nat -> expr -> tok list -> (expr * tok list) res

val parse_singular_g : nat -> nat -> tok list -> (expr * tok list) res

val parse_unary_g : nat -> nat -> tok list -> (expr * tok list) res

val parse_primary_g : nat -> nat -> tok list -> (expr * tok list) res

val expr_list_g : nat -> nat -> bool -> tok list -> (expr list * tok list) res

val members_loop_g :
  nat -> nat -> tok list -> ((name * expr) list * tok list) res

val parse_addressed_g : nat -> nat -> tok list -> (reference * tok list) res

val parse_reference_g : nat -> nat -> tok list -> (reference * tok list) res

val steps_loop_g : nat -> nat -> nat -> tok list -> (step list * tok list) res

val coq_REPAIRED_ITERATIONS : nat

val parse_addition : nat -> tok list -> (expr * tok list) res

val parse_expression_res : nat -> tok list -> (expr * tok list) res

val parse_expression : nat -> tok list -> (expr * tok list) option

val fold_neg : expr -> expr

val fold_negative_literals : expr -> expr

val fold_ref : reference -> reference

val fold_step : step -> step

val is_bitop : binop -> bool

val is_shiftop : binop -> bool

val head_is : binop -> expr -> bool

val left_ok : binop -> expr -> bool

val admissible : expr -> bool

val adm_ref : reference -> bool

val adm_step : step -> bool
