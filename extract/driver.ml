(* Correspondence driver: reads "stream<TAB>id<TAB>sexp" lines on stdin, runs the
   extracted Coq model, prints "id<TAB>result".  Hand-written glue (trusted). *)
open BinNums
open BinNat
open BinInt
module List = Stdlib.List
module String = Stdlib.String
module Hashtbl = Stdlib.Hashtbl
module Buffer = Stdlib.Buffer
module Char = Stdlib.Char

type sexp = A of string | L of sexp list

let parse_sexp (s : string) : sexp =
  let n = String.length s in
  let pos = ref 0 in
  let rec skip () = if !pos < n && (s.[!pos] = ' ' || s.[!pos] = '\n') then (incr pos; skip ()) in
  let rec one () =
    skip ();
    if !pos >= n then failwith "sexp: eof"
    else if s.[!pos] = '(' then begin
      incr pos;
      let items = ref [] in
      let rec loop () =
        skip ();
        if !pos >= n then failwith "sexp: unclosed"
        else if s.[!pos] = ')' then incr pos
        else (items := one () :: !items; loop ()) in
      loop (); L (List.rev !items)
    end else begin
      let st = !pos in
      while !pos < n && s.[!pos] <> ' ' && s.[!pos] <> '(' && s.[!pos] <> ')' do incr pos done;
      A (String.sub s st (!pos - st))
    end in
  one ()

(* ---- numbers ------------------------------------------------------------ *)
let rec pos_of_int (i : int) : positive =
  if i = 1 then Coq_xH else if i land 1 = 0 then Coq_xO (pos_of_int (i lsr 1)) else Coq_xI (pos_of_int (i lsr 1))
let n_of_int (i : int) : coq_N = if i = 0 then N0 else Npos (pos_of_int i)
let rec int_of_pos = function Coq_xH -> 1 | Coq_xO p -> 2 * int_of_pos p | Coq_xI p -> 2 * int_of_pos p + 1
let int_of_n = function N0 -> 0 | Npos p -> int_of_pos p
let z_of_int (i : int) : coq_Z = if i = 0 then Z0 else if i > 0 then Zpos (pos_of_int i) else Zneg (pos_of_int (-i))

(* decimal strings of arbitrary size, through the extracted arithmetic *)
let ten_n = n_of_int 10
let n_of_string (s : string) : coq_N =
  let acc = ref N0 in
  String.iter (fun c ->
    if c >= '0' && c <= '9' then
      acc := N.add (N.mul !acc ten_n) (n_of_int (Char.code c - 48))
    else if c = '_' then () else failwith ("n_of_string: " ^ s)) s;
  !acc
let z_of_string (s : string) : coq_Z =
  if String.length s > 0 && s.[0] = '-' then
    (match n_of_string (String.sub s 1 (String.length s - 1)) with N0 -> Z0 | Npos p -> Zneg p)
  else (match n_of_string s with N0 -> Z0 | Npos p -> Zpos p)
let string_of_n (x : coq_N) : string =
  if x = N0 then "0" else begin
    let buf = Buffer.create 40 in
    let rec go x acc =
      if x = N0 then acc else
        let (q, r) = N.div_eucl x ten_n in
        go q (string_of_int (int_of_n r) :: acc) in
    List.iter (Buffer.add_string buf) (go x []); Buffer.contents buf
  end
let string_of_z = function
  | Z0 -> "0" | Zpos p -> string_of_n (Npos p) | Zneg p -> "-" ^ string_of_n (Npos p)

let codes_to_string (cs : coq_N list) : string =
  "[" ^ String.concat "," (List.map (fun c -> string_of_int (int_of_n c)) cs) ^ "]"

(* ---- names -------------------------------------------------------------- *)
let names : (string, int) Hashtbl.t = Hashtbl.create 64
let intern (s : string) : coq_N =
  match Hashtbl.find_opt names s with
  | Some i -> n_of_int i
  | None -> let i = Hashtbl.length names + 1 in Hashtbl.add names s i; n_of_int i

(* ---- program shapes (shared by C04/C05/C06) ------------------------------
   stmt ::= (L name) | (G name) | (I (uses) then [else]) | (B stmts)
          | (D name (uses)) | (A (uses)) | (X) | (P)
   prog ::= ((C names) (F (params) stmts) ...)                               *)
let rec label_stmt (s : sexp) : LabelScope.stmt =
  match s with
  | L [A "L"; A n] -> LabelScope.SLabel (intern n)
  | L [A "G"; A n] -> LabelScope.SGoto (intern n)
  | L [A "I"; _; t] -> LabelScope.SIf (label_stmt t, None)
  | L [A "I"; _; t; e] -> LabelScope.SIf (label_stmt t, Some (label_stmt e))
  | L (A "B" :: ss) -> LabelScope.SBlock (List.map label_stmt ss)
  | _ -> LabelScope.SOther

let functions_of (p : sexp) : sexp list list =
  match p with
  | L (_ :: fs) -> List.map (function L (A "F" :: _ :: body) -> body | _ -> failwith "fn") fs
  | _ -> failwith "prog"

let run_labels (p : sexp) : string =
  let bodies = List.map (List.map label_stmt) (functions_of p) in
  "model=" ^ codes_to_string (LabelScope.scan_program bodies []) ^
  " spec=" ^ codes_to_string (LabelScope.spec_program bodies)

(* ---- C06 ------------------------------------------------------------------ *)
let rec syntax_stmt (s : sexp) : Syntax.stmt =
  match s with
  | L [A "G"; _] -> Syntax.SGoto
  | L [A "X"] -> Syntax.SLoop
  | L [A "P"] -> Syntax.SPoison
  | L [A "I"; _; t] -> Syntax.SIf (syntax_stmt t, None)
  | L [A "I"; _; t; e] -> Syntax.SIf (syntax_stmt t, Some (syntax_stmt e))
  | L (A "B" :: ss) -> Syntax.SBlock (List.map syntax_stmt ss)
  | _ -> Syntax.SSimple

let not_return (s : sexp) = match s with L (A "R" :: _) -> false | _ -> true

let run_syntax (fixed : bool) (p : sexp) : string =
  let bodies = List.map (fun b -> List.map syntax_stmt (List.filter not_return b)) (functions_of p) in
  let cat f = List.concat (List.map f bodies) in
  "model=" ^ codes_to_string (cat (Syntax.body_codes fixed)) ^
  " spec=" ^ codes_to_string (cat Syntax.spec_body) ^
  " lint=" ^ codes_to_string (cat Syntax.lint_body) ^
  " lintspec=" ^ codes_to_string (cat Syntax.lint_spec_body)

(* ---- C05 ------------------------------------------------------------------ *)
let atoms (s : sexp) : coq_N list =
  match s with L xs -> List.map (function A n -> intern n | _ -> failwith "atom") xs | _ -> failwith "atoms"
let num (s : string) : coq_N = n_of_string s

let rec var_stmt (s : sexp) : VarScope.stmt =
  match s with
  | L [A "D"; A v; us] -> VarScope.SDecl (intern v, atoms us)
  | L [A "A"; us] -> VarScope.SUse (atoms us)
  | L [A "G"; A l] -> VarScope.SGoto (num l)
  | L [A "L"; A l] -> VarScope.SLabel (num l)
  | L [A "I"; us; t] -> VarScope.SIf (atoms us, var_stmt t, None)
  | L [A "I"; us; t; e] -> VarScope.SIf (atoms us, var_stmt t, Some (var_stmt e))
  | L (A "B" :: ss) -> VarScope.SBlock (List.map var_stmt ss)
  | _ -> VarScope.SNop

let var_func (f : sexp) : VarScope.func =
  match f with
  | L (A "F" :: ps :: body) ->
      let ret = List.concat (List.map (function L [A "R"; us] -> atoms us | _ -> []) body) in
      { VarScope.params = atoms ps;
        VarScope.body = List.map var_stmt (List.filter not_return body);
        VarScope.ret = ret }
  | _ -> failwith "func"

let run_vars (p : sexp) : string =
  match p with
  | L (L (A "C" :: cs) :: fs) ->
      let consts = List.map (function A n -> intern n | _ -> failwith "const") cs in
      let funcs = List.map var_func fs in
      "model=" ^ codes_to_string (VarScope.an_program consts funcs) ^
      " spec=" ^ codes_to_string (VarScope.spec_program consts funcs) ^
      " once=" ^ (if VarScopeProofs.once [] (VarScopeProofs.events funcs) then "true" else "false")
  | _ -> failwith "prog"

(* ---- generated tables (C01/C07/C09) ----------------------------------------- *)
let prim_names = IR.[Int8,"i8"; Int16,"i16"; Int32,"i32"; Int64,"i64"; Int128,"i128";
  Uint8,"u8"; Uint16,"u16"; Uint32,"u32"; Uint64,"u64"; Uint128,"u128"; Usize,"usize"; Char8,"char8"; Bool,"bool"]
let prim_of_string s = fst (List.find (fun (_, n) -> n = s) prim_names)
let binop_names = IR.[Add,"+"; Subtract,"-"; Multiply,"*"; Divide,"/"; Modulo,"%"; BitwiseAnd,"&";
  BitwiseOr,"|"; BitwiseXor,"^"; ShiftLeft,"<<"; ShiftRight,">>"]
let unop_names = IR.[Negative,"-"; BitwiseComplement,"!"]
let cmpop_names = IR.[Equals,"=="; DoesNotEqual,"!="; IsGreater,">"; IsGE,">="; IsLess,"<"; IsLE,"<="]
let instr_name (i : IR.instr) = match i with
  | IR.IAdd -> "add" | IR.ISub -> "sub" | IR.IMul -> "mul" | IR.ISDiv -> "sdiv" | IR.IUDiv -> "udiv"
  | IR.ISRem -> "srem" | IR.IURem -> "urem" | IR.IAnd -> "and" | IR.IOr -> "or" | IR.IXor -> "xor"
  | IR.IShl -> "shl" | IR.ILShr -> "lshr" | IR.IAShr -> "ashr" | IR.IGEP -> "getelementptr"
  | IR.INeg -> "neg" | IR.INot -> "not" | IR.IAddNSW -> "add nsw" | IR.IAddNUW -> "add nuw"
  | IR.ISubNSW -> "sub nsw" | IR.ISubNUW -> "sub nuw" | IR.IMulNSW -> "mul nsw" | IR.IMulNUW -> "mul nuw"
  | IR.ISDivExact -> "sdiv exact" | IR.INegNSW -> "neg nsw" | IR.IOther -> "other"
let pred_name (p : IR.pred) = match p with
  | IR.PEq -> "eq" | IR.PNe -> "ne" | IR.PSgt -> "sgt" | IR.PUgt -> "ugt" | IR.PSlt -> "slt" | IR.PUlt -> "ult"
  | IR.PSge -> "sge" | IR.PUge -> "uge" | IR.PSle -> "sle" | IR.PUle -> "ule"
let cast_name (c : IR.cast) = match c with
  | IR.CTrunc -> "trunc" | IR.CSExt -> "sext" | IR.CZExt -> "zext" | IR.CNone -> "none"

let run_tables (usize_bits : int) : string =
  let ub = z_of_int usize_bits in
  let buf = Buffer.create 4096 in
  let add s = Buffer.add_string buf s; Buffer.add_char buf ';' in
  List.iter (fun (t, tn) ->
    let sg = TypeTables.vt_is_signed t in
    List.iter (fun (op, on) ->
      let ok = IR.mem_operand (IR.OPrim t) (ResolverTables.binop_valid_types op) in
      add (Printf.sprintf "B %s %s %b %s" on tn ok (instr_name (LowerTables.select_binop op sg)))) binop_names;
    List.iter (fun (op, on) ->
      let ok = IR.mem_operand (IR.OPrim t) (ResolverTables.unop_valid_types op) in
      add (Printf.sprintf "U %s %s %b %s" on tn ok (instr_name (LowerTables.select_unop op sg)))) unop_names;
    List.iter (fun (op, on) ->
      let ok = IR.mem_operand (IR.OPrim t) (ResolverTables.cmpop_valid_types op) in
      add (Printf.sprintf "C %s %s %b %s" on tn ok (pred_name (LowerTables.select_icmp op sg)))) cmpop_names;
    List.iter (fun (d, dn) ->
      let si = TypeTables.vt_is_integral t and di = TypeTables.vt_is_integral d in
      let ok = ResolverTables.is_valid_primitive_conversion t d si di in
      let c = LowerTables.select_cast t d si di sg (TypeTables.vt_bits ub t) (TypeTables.vt_bits ub d) in
      add (Printf.sprintf "K %s %s %b %s" tn dn ok (match c with Some c -> cast_name c | None -> "unreachable"))) prim_names;
    add (Printf.sprintf "T %s %s %s %s %b %b" tn (string_of_z (TypeTables.vt_min t)) (string_of_z (TypeTables.vt_max t))
           (string_of_z (TypeTables.vt_bits ub t)) sg (TypeTables.vt_is_integral t))
  ) prim_names;
  Buffer.contents buf

(* ---- interpreter (C01 exec stream) -------------------------------------------- *)
let binop_of_string s = fst (List.find (fun (_, n) -> n = s) binop_names)
let unop_of_string s = fst (List.find (fun (_, n) -> n = s) unop_names)
let cmpop_of_string s = fst (List.find (fun (_, n) -> n = s) cmpop_names)

let rec sem_ty (s : sexp) : Sem.ty =
  match s with
  | A n -> Sem.TPrim (prim_of_string n)
  | L [A "arr"; A n; t] -> Sem.TArr (z_of_string n, sem_ty t)
  | L [A "ptr"; t] -> Sem.TPtr (sem_ty t)
  | L [A "view"; t] -> Sem.TView (sem_ty t)
  | L [A "struct"; A n] -> Sem.TStruct (intern n)
  | _ -> failwith "ty"

let hex_bytes (s : string) : coq_N list =
  let n = String.length s / 2 in
  List.init n (fun i -> n_of_int (int_of_string ("0x" ^ String.sub s (2 * i) 2)))

let rec sem_expr (s : sexp) : Sem.expr =
  match s with
  | L [A "lit"; A t; A v] -> Sem.ELit (prim_of_string t, z_of_string v)
  | L [A "var"; A x] -> Sem.EVar (intern x)
  | L [A "idx"; e; i] -> Sem.EIndex (sem_expr e, sem_expr i)
  | L [A "mem"; e; A m] -> Sem.EMember (sem_expr e, intern m)
  | L [A "bin"; A op; l; r] -> Sem.EBin (binop_of_string op, sem_expr l, sem_expr r)
  | L [A "un"; A op; e] -> Sem.EUn (unop_of_string op, sem_expr e)
  | L [A "cast"; A t; e] -> Sem.ECast (prim_of_string t, sem_expr e)
  | L [A "len"; e] -> Sem.ELen (sem_expr e)
  | L [A "addr"; e] -> Sem.EAddr (n_of_int 1, sem_expr e)
  | L (A "call" :: A f :: args) -> Sem.ECall (intern f, List.map sem_expr args)
  | L (A "arrlit" :: es) -> Sem.EArrLit (List.map sem_expr es)
  | L (A "slit" :: A n :: fs) ->
      Sem.EStructLit (intern n, List.map (function L [A m; e] -> (intern m, sem_expr e) | _ -> failwith "slit") fs)
  | L [A "sizeof"; t] -> Sem.ESizeOf (sem_ty t)
  | L [A "paren"; e] -> Sem.EParen (sem_expr e)
  | _ -> failwith "expr"

let rec sem_stmt (s : sexp) : Sem.stmt =
  match s with
  | L [A "decl"; A x; t; A "none"] -> Sem.SDecl (intern x, sem_ty t, None)
  | L [A "decl"; A x; t; e] -> Sem.SDecl (intern x, sem_ty t, Some (sem_expr e))
  | L [A "assign"; l; r] -> Sem.SAssign (sem_expr l, sem_expr r)
  | L [A "assignaddr"; A x; r] -> Sem.SAssignAddr (n_of_int 1, intern x, sem_expr r)
  | L [A "if"; L [A "cmp"; A op; l; r]; t] -> Sem.SIf (Sem.Cmp (cmpop_of_string op, sem_expr l, sem_expr r), sem_stmt t, None)
  | L [A "if"; L [A "cmp"; A op; l; r]; t; e] -> Sem.SIf (Sem.Cmp (cmpop_of_string op, sem_expr l, sem_expr r), sem_stmt t, Some (sem_stmt e))
  | L [A "goto"; A l] -> Sem.SGoto (intern ("label:" ^ l))
  | L [A "label"; A l] -> Sem.SLabel (intern ("label:" ^ l))
  | L (A "block" :: ss) -> Sem.SBlock (List.map sem_stmt ss)
  | L [A "loop"] -> Sem.SLoop
  | L (A "call" :: A f :: args) -> Sem.SCall (intern f, List.map sem_expr args)
  | L (A "print" :: items) ->
      Sem.SPrint (List.map (function L [A "str"; A h] -> Sem.PStr (hex_bytes h) | L [A "str"] -> Sem.PStr [] | e -> Sem.PExpr (sem_expr e)) items)
  | _ -> failwith "stmt"

let sem_func (s : sexp) : Sem.func =
  match s with
  | L [A "fn"; A name; L ps; ret; L body; res] ->
      { Sem.fname = intern name;
        Sem.fparams = List.map (function L [A x; t] -> (intern x, sem_ty t) | _ -> failwith "param") ps;
        Sem.fret = (match ret with A "void" -> None | t -> Some (sem_ty t));
        Sem.fbody = List.map sem_stmt body;
        Sem.fresult = (match res with A "none" -> None | e -> Some (sem_expr e)) }
  | _ -> failwith "fn"

let rec nat_of_int (i : int) : Datatypes.nat = if i <= 0 then Datatypes.O else Datatypes.S (nat_of_int (i - 1))

let escape_bytes (bs : coq_N list) : string =
  let b = Buffer.create 64 in
  List.iter (fun c -> let c = int_of_n c in
    if c = 10 then Buffer.add_string b "\\n" else if c = 9 then Buffer.add_string b "\\t"
    else if c = 13 then Buffer.add_string b "\\r" else if c = 92 then Buffer.add_string b "\\\\"
    else if c >= 32 && c <= 126 then Buffer.add_char b (Char.chr c)
    else Buffer.add_string b (Printf.sprintf "\\x%02x" c)) bs;
  Buffer.contents b

let run_exec (fuel : int) (p : sexp) : string =
  match p with
  | L [A "prog"; L (A "structs" :: ss); L (A "consts" :: cs); L (A "funcs" :: fs)] ->
      let prog = { Sem.structs = List.map (function L (A "s" :: A n :: ms) ->
                       { Sem.sname = intern n; Sem.smembers = List.map (function L [A m; t] -> (intern m, sem_ty t) | _ -> failwith "member") ms }
                     | _ -> failwith "struct") ss;
                   Sem.consts = List.map (function L [A "c"; A x; t; e] -> ((intern x, sem_ty t), sem_expr e) | _ -> failwith "const") cs;
                   Sem.funcs = List.map sem_func fs } in
      (match Sem.run_main (nat_of_int fuel) prog (intern "main") with
       | Sem.Ok (code, out) -> "exit=" ^ string_of_z code ^ " out=" ^ escape_bytes out
       | Sem.UB -> "UB" | Sem.Stuck -> "STUCK" | Sem.OutOfFuel -> "FUEL")
  | _ -> failwith "prog"

(* ---- C12: import expansion ----------------------------------------------------- *)
let expand_flags (f : string) : Expand.flags =
  { Expand.f_public = f.[0] = 'p'; Expand.f_external = f.[1] = 'e'; Expand.f_main = f.[2] = 'm';
    Expand.f_forward = f.[3] = 'f'; Expand.f_opaque = f.[4] = 'o' }
let show_flags (f : Expand.flags) : string =
  String.concat "" [ (if f.Expand.f_public then "p" else "-"); (if f.Expand.f_external then "e" else "-");
    (if f.Expand.f_main then "m" else "-"); (if f.Expand.f_forward then "f" else "-"); (if f.Expand.f_opaque then "o" else "-") ]
let payload_names : (int, string) Hashtbl.t = Hashtbl.create 64

let expand_decl (modkey : string) (s : sexp) : Expand.decl =
  let mk kind name fl body =
    let id = intern (modkey ^ "/" ^ name) in
    Hashtbl.replace payload_names (int_of_n id) name;
    { Expand.d_kind = kind; Expand.d_payload = id; Expand.d_body = (if body = "b" then Some id else None);
      Expand.d_flags = expand_flags fl } in
  match s with
  | L [A "const"; A n; A f; A b] -> mk Expand.KConstant ("const:" ^ n) f b
  | L [A "fn"; A n; A f; A b] -> mk Expand.KFunction ("fn:" ^ n) f b
  | L [A "fnhead"; A n; A f; A b] -> mk Expand.KFunctionHead ("fn:" ^ n) f b
  | L [A "struct"; A n; A f; A b] -> mk Expand.KStructure ("struct:" ^ n) f b
  | L [A "import"; A file] -> mk (Expand.KImport (intern ("path:" ^ file))) ("import:" ^ file) "-----" "n"
  | L [A "poison"; A c] -> mk (Expand.KPoison (n_of_string c)) ("poison:" ^ c) "-----" "n"
  | _ -> failwith "expand decl"

let show_expand_decl (d : Expand.decl) : string =
  let name = try Hashtbl.find payload_names (int_of_n d.Expand.d_payload) with Not_found -> "?" in
  let base = match String.index_opt name ':' with Some i -> String.sub name (i + 1) (String.length name - i - 1) | None -> name in
  let body = match d.Expand.d_body with Some _ -> "b" | None -> "n" in
  match d.Expand.d_kind with
  | Expand.KConstant -> Printf.sprintf "(const %s %s %s)" base (show_flags d.Expand.d_flags) body
  | Expand.KFunction -> Printf.sprintf "(fn %s %s %s)" base (show_flags d.Expand.d_flags) body
  | Expand.KFunctionHead -> Printf.sprintf "(fnhead %s %s %s)" base (show_flags d.Expand.d_flags) body
  | Expand.KStructure -> Printf.sprintf "(struct %s %s %s)" base (show_flags d.Expand.d_flags) body
  | Expand.KImport _ -> Printf.sprintf "(import %s)" base
  | Expand.KPoison c -> Printf.sprintf "(poison %d)" (int_of_n c)

let run_expand (x : sexp) : string =
  match x with
  | L mods ->
      let keys = List.map (function L (A "M" :: A path :: _) -> path | _ -> failwith "module") mods in
      let pmods = List.map (function L (A "M" :: A path :: ds) -> (intern ("path:" ^ path), List.map (expand_decl path) ds) | _ -> failwith "module") mods in
      (* get_key_offset: the model's own resolution on path components *)
      let comps (p : string) = List.map (fun c -> intern ("comp:" ^ c)) (List.filter (fun c -> c <> "") (String.split_on_char '/' p)) in
      let key_comps = List.map comps keys in
      let path_names : (int, string) Hashtbl.t = Hashtbl.create 16 in
      List.iter (fun k -> Hashtbl.replace path_names (int_of_n (intern ("path:" ^ k))) k) keys;
      List.iter (function L (A "M" :: _ :: ds) -> List.iter (function L [A "import"; A f] -> Hashtbl.replace path_names (int_of_n (intern ("path:" ^ f))) f | _ -> ()) ds | _ -> ()) mods;
      let resolve (includer : coq_N) (file : coq_N) : Datatypes.nat option =
        let name n = try Hashtbl.find path_names (int_of_n n) with Not_found -> "" in
        Expand.get_key_offset (comps (name file)) key_comps (comps (name includer)) in
      let hint (_ : coq_N) = false in
      let res = Expand.expand_sorted resolve hint pmods in
      "(" ^ String.concat " " (List.map2 (fun k (_, ds) -> "(M " ^ k ^ " " ^ String.concat " " (List.map show_expand_decl ds) ^ ")") keys res) ^ ")"
  | _ -> failwith "expand"

(* ---- C17: header extraction ------------------------------------------------------ *)
let refkinds = Header.[RThenElse,"ThenElse"; RIf,"If"; RBlock,"Block"; RItem,"Item"; RList,"List"; RListItem,"ListItem"]
let header_node (s : sexp) : Header.node =
  match s with
  | L (A "P" :: A tag :: ps) -> Header.NPlain (n_of_string tag, List.map (function A p -> n_of_string p | _ -> failwith "payload") ps)
  | L [A "F"; A p; A r] -> Header.NFlags (p = "1", n_of_string r)
  | L [A "R"; A k; A t] -> Header.NRef (fst (List.find (fun (_, n) -> n = k) refkinds), n_of_string t)
  | L [A "I"; A b] -> Header.NImpl (n_of_string b)
  | L [A "S"; A e] -> Header.NStart (n_of_string e)
  | L [A "E"; A st] -> Header.NEnd (n_of_string st)
  | L [A "X"] -> Header.NEndless
  | _ -> failwith "header node"
let show_header_node (n : Header.node) : string =
  match n with
  | Header.NPlain (tag, ps) -> "(P " ^ String.concat " " (string_of_n tag :: List.map string_of_n ps) ^ ")"
  | Header.NFlags (p, r) -> Printf.sprintf "(F %s %s)" (if p then "1" else "0") (string_of_n r)
  | Header.NRef (k, t) -> Printf.sprintf "(R %s %s)" (List.assoc k refkinds) (string_of_n t)
  | Header.NImpl b -> "(I " ^ string_of_n b ^ ")"
  | Header.NStart e -> "(S " ^ string_of_n e ^ ")"
  | Header.NEnd st -> "(E " ^ string_of_n st ^ ")"
  | Header.NEndless -> "(X)"
let run_header (x : sexp) : string =
  match x with
  | L nodes ->
      let ns = List.map header_node nodes in
      let wf = Header.zones_wfb ns and loc = Header.refs_localb ns in
      let h = match Header.build_header ns with
        | Header.Done h -> "(" ^ String.concat " " (List.map show_header_node h) ^ ")"
        | Header.OutOfFuel -> "OUT-OF-FUEL" | Header.Wrapped -> "WRAPPED" in
      let spec = "(" ^ String.concat " " (List.map show_header_node (Header.header_spec ns)) ^ ")" in
      Printf.sprintf "wf=%b local=%b spec_eq=%b\t%s" wf loc (h = spec) h
  | _ -> failwith "header"

(* ---- C11: containers ------------------------------------------------------------- *)
let run_containers (x : sexp) : string =
  match x with
  | L [L cs; L es] ->
      let cs = List.map (function L [A n; A k] -> (intern n, k = "s") | _ -> failwith "container") cs in
      let es = List.map (function L [A c; A e; A m] -> ((intern c, intern e), m = "m") | _ -> failwith "edge") es in
      let names = Hashtbl.fold (fun k v acc -> (v, k) :: acc) names [] in
      let (depths, codes) = Containers.run cs es in
      "codes=" ^ codes_to_string codes ^ " depths=" ^
      String.concat "," (List.map (fun (id, d) -> List.assoc (int_of_n id) names ^ "=" ^
                                     (match d with Some d -> string_of_n d | None -> "poison")) depths)
  | _ -> failwith "containers"

(* ---- C10: layout ---------------------------------------------------------------- *)
let rec layout_ty (s : sexp) : Layout.ty =
  match s with
  | L [A "int"; A n] -> Layout.TInt (z_of_string n)
  | A "bool" -> Layout.TBool
  | A "ptr" -> Layout.TPtr
  | L [A "arr"; A n; t] -> Layout.TArr (z_of_string n, layout_ty t)
  | L (A "struct" :: ts) -> Layout.TStruct (List.map layout_ty ts)
  | _ -> failwith "layout ty"
let run_layout (x : sexp) : string =
  match x with
  | L [A "sizeof"; t] ->
      let t = layout_ty t in
      Printf.sprintf "sizeof=%s alloc=%s wf=%b" (string_of_z (Layout.penne_sizeof t)) (string_of_z (Layout.llvm_alloc_size t)) (Layout.wf_ty t)
  | L [A "word"; A declared; L sizes] ->
      let sizes = List.map (function A n -> z_of_string n | _ -> failwith "size") sizes in
      Printf.sprintf "typer=%s accepted=%b" (string_of_z (Layout.typer_aligned_size sizes)) (Layout.word_accepted (z_of_string declared) sizes)
  | _ -> failwith "layout"

(* ---- C09: literals --------------------------------------------------------------- *)
let run_literal (x : sexp) : string =
  let go neg kind mag sfx ty ub =
      let m = z_of_string mag in
      let tok = match kind with
        | "naked" -> Literal.TNaked m | "bits" -> Literal.TBits m
        | "suffixed" -> Literal.TSuffixed (m, prim_of_string sfx) | _ -> failwith "kind" in
      let t = prim_of_string ty in
      let (l, _) = Literal.source_literal true (neg = "1") tok in
      let bits = Literal.bits_of (z_of_int ub) l t in
      let w = TypeTables.vt_bits (z_of_int ub) t in
      let v = if TypeTables.vt_is_signed t then Bits.sgn w bits else bits in
      Printf.sprintf "lint=%b value=%s" (Literal.lint_on (z_of_int ub) l t) (string_of_z v) in
  match x with
  | L [A neg; A kind; A mag; A sfx; A ty] -> go neg kind mag sfx ty 64
  | L [A neg; A kind; A mag; A sfx; A ty; A ub] -> go neg kind mag sfx ty (int_of_string ub)      (* usize_bits of the target *)
  | _ -> failwith "literal"

(* ---- C03: linkage ---------------------------------------------------------------- *)
let run_linkage (x : sexp) : string =
  match x with
  | A f when String.length f = 5 ->
      let b i c = f.[i] = c in
      let (p, e, m, fw, o) = (b 0 'p', b 1 'e', b 2 'm', b 3 'f', b 4 'o') in
      (match Linkage.linkage_of p e m fw o with Linkage.LExternal -> "external" | Linkage.LPrivate -> "private" | Linkage.LInternal -> "internal") ^ " " ^
      (match Linkage.callconv_of p e m fw o with Linkage.CC_C -> "ccc" | Linkage.CC_Fast -> "fastcc")
  | _ -> failwith "linkage"

(* ---- C14: lexers ----------------------------------------------------------------- *)
let tkind_name (k : Tok.tkind) : string = Tok.(match k with
  | KParenLeft -> "ParenLeft" | KParenRight -> "ParenRight" | KBraceLeft -> "BraceLeft" | KBraceRight -> "BraceRight"
  | KBracketLeft -> "BracketLeft" | KBracketRight -> "BracketRight" | KAngleLeft -> "AngleLeft" | KAngleRight -> "AngleRight"
  | KPipe -> "Pipe" | KAmpersand -> "Ampersand" | KCaret -> "Caret" | KExclamation -> "Exclamation" | KPlaceholder -> "Placeholder"
  | KPlus -> "Plus" | KMinus -> "Minus" | KTimes -> "Times" | KDivide -> "Divide" | KModulo -> "Modulo" | KColon -> "Colon"
  | KSemicolon -> "Semicolon" | KDot -> "Dot" | KComma -> "Comma" | KAssignment -> "Assignment"
  | KEquals -> "Equals" | KDoesNotEqual -> "DoesNotEqual" | KIsGE -> "IsGE" | KIsLE -> "IsLE" | KShiftLeft -> "ShiftLeft"
  | KShiftRight -> "ShiftRight" | KArrow -> "Arrow" | KPipeForType -> "PipeForType" | KDots -> "Dots"
  | KFn -> "Fn" | KVar -> "Var" | KConst -> "Const" | KIf -> "If" | KGoto -> "Goto" | KLoop -> "Loop" | KReturn -> "Return"
  | KElse -> "Else" | KCast -> "Cast" | KAs -> "As" | KImport -> "Import" | KPub -> "Pub" | KExtern -> "Extern" | KStruct -> "Struct"
  | KWord8 -> "Word8" | KWord16 -> "Word16" | KWord32 -> "Word32" | KWord64 -> "Word64" | KWord128 -> "Word128"
  | KType -> "ValueTypeKeyword" | KIdentifier -> "Identifier" | KBuiltin -> "Builtin" | KNakedDecimal -> "NakedDecimal"
  | KBitInteger -> "BitInteger" | KSuffixedInteger -> "SuffixedInteger" | KCharLiteral -> "CharLiteral" | KBool -> "BoolLiteral"
  | KStringLiteral -> "StringLiteral" | KError -> "Error")
let prim_debug (p : IR.prim) : string = IR.(match p with
  | Int8 -> "Int8" | Int16 -> "Int16" | Int32 -> "Int32" | Int64 -> "Int64" | Int128 -> "Int128"
  | Uint8 -> "Uint8" | Uint16 -> "Uint16" | Uint32 -> "Uint32" | Uint64 -> "Uint64" | Uint128 -> "Uint128"
  | Usize -> "Usize" | Char8 -> "Char8" | Bool -> "Bool")
let show_tok (with_bytes : bool) (t : Tok.tok) : string =
  let ty = match t.Tok.vtype with None -> "-" | Some Tok.TyVoid -> "Void" | Some (Tok.TyPrim p) -> prim_debug p in
  let base = Printf.sprintf "%s %s %s %s %s %s %s" (tkind_name t.Tok.kind) (string_of_z t.Tok.value) ty
      (string_of_n t.Tok.tstart) (string_of_n t.Tok.tend) (string_of_n t.Tok.line) (string_of_n t.Tok.lstart) in
  if with_bytes && t.Tok.kind = Tok.KStringLiteral then
    base ^ " #" ^ String.concat "" (List.map (fun b -> Printf.sprintf "%02x" (int_of_n b)) t.Tok.bytes) ^ ";"
  else base ^ ";"
let utf8_decode (bs : int list) : int list =
  let rec go acc = function
    | [] -> List.rev acc
    | b :: r when b < 0x80 -> go (b :: acc) r
    | b :: b1 :: r when b land 0xE0 = 0xC0 -> go ((((b land 0x1F) lsl 6) lor (b1 land 0x3F)) :: acc) r
    | b :: b1 :: b2 :: r when b land 0xF0 = 0xE0 -> go ((((b land 0x0F) lsl 12) lor ((b1 land 0x3F) lsl 6) lor (b2 land 0x3F)) :: acc) r
    | b :: b1 :: b2 :: b3 :: r when b land 0xF8 = 0xF0 ->
        go ((((b land 0x07) lsl 18) lor ((b1 land 0x3F) lsl 12) lor ((b2 land 0x3F) lsl 6) lor (b3 land 0x3F)) :: acc) r
    | _ -> failwith "invalid utf8" in
  go [] bs
let bytes_of_hex (h : string) : int list = List.init (String.length h / 2) (fun i -> int_of_string ("0x" ^ String.sub h (2 * i) 2))
let run_lex_alpha (x : sexp) : string =
  let h = match x with A h -> h | L [] -> "" | _ -> failwith "lex input" in
  let cps = List.map n_of_int (utf8_decode (bytes_of_hex h)) in
  String.concat "" (List.map (show_tok true) (LexAlpha.lex_alpha_fixed cps))
let run_lex_delta (x : sexp) : string =
  let h = match x with A h -> h | L [] -> "" | _ -> failwith "lex input" in
  let bs = List.map n_of_int (bytes_of_hex h) in
  String.concat "" (List.map (show_tok false) (LexDelta.lex_delta bs)) ^ "|" ^ string_of_n (LexDelta.num_end_tokens bs)

(* ---- C18: command line decisions ------------------------------------------------- *)
let run_cli (x : sexp) : string =
  let opt = function A "-" -> None | A s -> Some (intern s) | _ -> failwith "opt" in
  match x with
  | L [A sub; flag; envb; envl; config; A ok; A bres] ->
      let s = match sub with "build" -> Cli.Build | "run" -> Cli.Run | "emit" -> Cli.Emit | _ -> failwith "sub" in
      let names = ref [] in
      let nm o = (match o with A "-" -> () | A v -> names := (intern v, v) :: !names | _ -> ()); opt o in
      let f = nm flag and eb = nm envb and el = nm envl and c = nm config in
      let clang = intern "clang" and lli = intern "lli" in
      names := (clang, "clang") :: (lli, "lli") :: !names;
      let backend = match Cli.backend_for s f eb el c clang lli with None -> "none" | Some b -> List.assoc b !names in
      let b = match bres with "spawnfail" -> Cli.SpawnFailed | "signal" -> Cli.Spawned None | n -> Cli.Spawned (Some (n_of_string n)) in
      Printf.sprintf "backend=%s invoked=%b success=%b" backend (Cli.invokes_backend s (ok = "1")) (Cli.tool_succeeds s (ok = "1") b)
  | _ -> failwith "cli"

(* ---- C16/C20: reference parser ----------------------------------------------------- *)
let tok_kind_of_string (k : string) : Tok.tkind = Tok.(match k with
  | "ParenLeft" -> KParenLeft | "ParenRight" -> KParenRight | "BraceLeft" -> KBraceLeft
  | "BraceRight" -> KBraceRight | "BracketLeft" -> KBracketLeft | "BracketRight" -> KBracketRight
  | "AngleLeft" -> KAngleLeft | "AngleRight" -> KAngleRight | "Pipe" -> KPipe
  | "Ampersand" -> KAmpersand | "Caret" -> KCaret | "Exclamation" -> KExclamation
  | "Placeholder" -> KPlaceholder | "Plus" -> KPlus | "Minus" -> KMinus | "Times" -> KTimes
  | "Divide" -> KDivide | "Modulo" -> KModulo | "Colon" -> KColon | "Semicolon" -> KSemicolon
  | "Dot" -> KDot | "Comma" -> KComma | "Assignment" -> KAssignment
  | "Equals" -> KEquals | "DoesNotEqual" -> KDoesNotEqual | "IsGE" -> KIsGE | "IsLE" -> KIsLE
  | "ShiftLeft" -> KShiftLeft | "ShiftRight" -> KShiftRight | "Arrow" -> KArrow
  | "PipeForType" -> KPipeForType | "Dots" -> KDots
  | "Fn" -> KFn | "Var" -> KVar | "Const" -> KConst | "If" -> KIf | "Goto" -> KGoto
  | "Loop" -> KLoop | "Return" -> KReturn | "Else" -> KElse | "Cast" -> KCast | "As" -> KAs
  | "Import" -> KImport | "Pub" -> KPub | "Extern" -> KExtern | "Struct" -> KStruct
  | "Word8" -> KWord8 | "Word16" -> KWord16 | "Word32" -> KWord32 | "Word64" -> KWord64
  | "Word128" -> KWord128
  | "ValueTypeKeyword" -> KType | "Identifier" -> KIdentifier | "Builtin" -> KBuiltin
  | "NakedDecimal" -> KNakedDecimal | "BitInteger" -> KBitInteger
  | "SuffixedInteger" -> KSuffixedInteger | "CharLiteral" -> KCharLiteral
  | "BoolLiteral" -> KBool | "StringLiteral" -> KStringLiteral | "Error" -> KError
  | s -> failwith ("unknown token kind " ^ s))
let tykw_of_string (s : string) : Tok.tykw option =
  if s = "_" then None else if s = "void" then Some Tok.TyVoid else Some (Tok.TyPrim (prim_of_string s))
let ref_tok_of_line (line : string) : Tok.tok =
  match String.split_on_char ' ' line with
  | [k; v; t; xf] ->
      let kind = tok_kind_of_string k in
      let bytes = if kind = Tok.KStringLiteral && String.length xf >= 1 && xf.[0] = 'x' then
          List.init ((String.length xf - 1) / 2) (fun i -> n_of_int (int_of_string ("0x" ^ String.sub xf (1 + 2 * i) 2))) else [] in
      RefParser.mk kind (z_of_string v) (tykw_of_string t) bytes
  | _ -> failwith ("bad token line: " ^ line)
let unescape_field (s : string) : string =
  let b = Buffer.create (String.length s) in
  let n = String.length s in
  let i = ref 0 in
  while !i < n do
    if s.[!i] = '\\' && !i + 1 < n then begin
      (match s.[!i + 1] with
       | 'n' -> Buffer.add_char b '\n'; i := !i + 2
       | 't' -> Buffer.add_char b '\t'; i := !i + 2
       | 'r' -> Buffer.add_char b '\r'; i := !i + 2
       | '\\' -> Buffer.add_char b '\\'; i := !i + 2
       | 'x' when !i + 3 < n -> Buffer.add_char b (Char.chr (int_of_string ("0x" ^ String.sub s (!i + 2) 2))); i := !i + 4
       | c -> Buffer.add_char b '\\'; incr i)
    end else (Buffer.add_char b s.[!i]; incr i)
  done;
  Buffer.contents b
let run_refparse (payload : string) : string =
  let text = unescape_field payload in
  let lines = List.filter (fun l -> l <> "") (String.split_on_char '\n' text) in
  let toks = List.map ref_tok_of_line lines in
  let fuel = nat_of_int (20 + 10 * List.length toks) in
  let ok = RefParser.toks_ok toks in
  match RefParser.parse_module fuel toks with
  | None -> Printf.sprintf "toks_ok=%b parsed=false" ok
  | Some ds ->
      let b = Buffer.create 4096 in
      List.iter (fun c -> Buffer.add_char b (Char.chr (int_of_n c))) (RefParser.show_module ds);
      (* the printer's token sequence re-parses to the same tree (C20 on the reference side) *)
      let reparsed = match RefParser.parse_module (nat_of_int (40 + 20 * List.length toks)) (RefParser.print_module ds) with
        | Some ds2 -> ds2 = ds | None -> false in
      Printf.sprintf "toks_ok=%b parsed=true wf=%b roundtrip=%b\t%s" ok (RefParser.wf_module ds) reparsed (escape_bytes (List.map (fun c -> n_of_int (Char.code c)) (List.of_seq (String.to_seq (Buffer.contents b)))))

(* ---- C16: the model of the second-generation expression parser on real tokens -------------
   payload: the tokens of a module `const X: T = EXPR;` (five tokens before the expression) *)
let run_dexpr (payload : string) : string =
  let text = unescape_field payload in
  let lines = List.filter (fun l -> l <> "") (String.split_on_char '\n' text) in
  let toks = List.map ref_tok_of_line lines in
  let rec drop n l = if n = 0 then l else match l with [] -> [] | _ :: r -> drop (n - 1) r in
  let ts = drop 5 toks in
  let fuel = nat_of_int (20 + 10 * List.length toks) in
  let semi_only rest = (match rest with [t] -> t.Tok.kind = Tok.KSemicolon | _ -> false) in
  let d = (match DeltaExpr.parse_expression_res fuel ts with
    | DeltaExpr.Ok (e, rest) -> if semi_only rest then "ok" else "leftover"
    | DeltaExpr.Err DeltaExpr.DepthExceeded -> "depth"
    | DeltaExpr.Err _ -> "err"
    | DeltaExpr.Fuel -> "fuel") in
  let r = (match RefParser.parse_expr fuel ts with Some (_, rest) -> if semi_only rest then "ok" else "leftover" | None -> "err") in
  let same = (match DeltaExpr.parse_expression_res fuel ts, RefParser.parse_expr fuel ts with
    | DeltaExpr.Ok (e, _), Some (e2, _) -> if DeltaExpr.fold_negative_literals e = e2 then "true" else "false"
    | _ -> "-") in
  Printf.sprintf "delta=%s reference=%s same=%s" d r same

(* ---- C07: the typing gate -------------------------------------------------------- *)
let vtype_of (s : sexp) : Resolve.vtype =
  match s with
  | A "ptr" -> Resolve.VPointer (n_of_int 1)
  | A "other" -> Resolve.VOther (n_of_int 1)
  | A p -> Resolve.VPrim (prim_of_string p)
  | _ -> failwith "vtype"
let rec texpr_of (s : sexp) : Resolve.texpr =
  match s with
  | L [A "v"; t] -> Resolve.TLeaf (Resolve.LDeref, Some (Resolve.ROk (vtype_of t)))
  | L [A "untyped"] -> Resolve.TLeaf (Resolve.LInteger, None)
  | L [A "bin"; A op; l; r] -> Resolve.TBinary ((if op = ".." then IR.AdvancePointer else binop_of_string op), texpr_of l, texpr_of r)
  | L [A "un"; A op; e] -> Resolve.TUnary (unop_of_string op, texpr_of e)
  | L [A "paren"; e] -> Resolve.TParen (texpr_of e)
  | L [A "cast"; e; t] -> Resolve.TTypeCast (texpr_of e, vtype_of t)
  | _ -> failwith "texpr"
(* the DECLARATIVE classes of Proofs/ResolveProofs.v (what the documentation says an operator accepts),
   for one-node expressions: spec=ok / spec=err is appended so that a disagreement between the real
   compiler and the specification comes with the concrete program *)
let operand_of (s : sexp) : IR.operand_type option =
  match s with A "ptr" -> Some IR.OPointer | A "other" -> None | A p -> Some (IR.OPrim (prim_of_string p)) | _ -> None
let spec_of (x : sexp) : string =
  let b v = if v then " spec=ok" else " spec=err" in
  match x with
  | L [A "expr"; L [A "bin"; A ".."; L [A "v"; l]; L [A "v"; r]]] -> b (l = A "ptr" && r = A "usize")
  | L [A "expr"; L [A "bin"; A op; L [A "v"; l]; L [A "v"; r]]] ->
      (match operand_of l with Some o -> b (l = r && ResolveProofs.binop_class (binop_of_string op) o) | None -> "")
  | L [A "expr"; L [A "un"; A op; L [A "v"; t]]] ->
      (match operand_of t with Some o -> b (ResolveProofs.unop_class (unop_of_string op) o) | None -> "")
  | L [A "cmp"; A op; L [A "v"; l]; L [A "v"; r]] ->
      (match operand_of l with Some o -> b (l = r && ResolveProofs.cmpop_class (cmpop_of_string op) o) | None -> "")
  | L [A "expr"; L [A "cast"; L [A "v"; A s]; A d]] when s <> "ptr" && d <> "ptr" && s <> "other" && d <> "other" ->
      b (s = d || ResolveProofs.conversion_spec (prim_of_string s) (prim_of_string d))
  | _ -> ""
let run_resolve (x : sexp) : string =
  let show = function Resolve.Ok _ -> "ok" | Resolve.Err es -> "err " ^ codes_to_string es in
  (match x with
  | L [A "expr"; e] -> show (Resolve.resolve_expr (texpr_of e))
  | L [A "cmp"; A op; l; r] ->
      (match Resolve.resolve_cmp (Resolve.TCmp (cmpop_of_string op, texpr_of l, texpr_of r)) with
       | Resolve.Ok _ -> "ok" | Resolve.Err es -> "err " ^ codes_to_string es)
  | L [A "call"; L ps; L args] ->
      (match Resolve.check_call (List.map vtype_of ps) (List.map vtype_of args) with [] -> "ok" | es -> "err " ^ codes_to_string es)
  | _ -> failwith "resolve") ^ spec_of x

(* ---- control-flow lowering (Model/Cfg.v) ---- *)
let rec cfg_stmt (s : sexp) : Cfg.stmt =
  match s with
  | L [A "a"; A k] -> Cfg.SAct (num k)
  | L [A "g"; A l] -> Cfg.SGoto (num l)
  | L [A "l"; A l] -> Cfg.SLabel (num l)
  | L [A "if"; A c; t] -> Cfg.SIf (num c, cfg_stmt t, None)
  | L [A "if"; A c; t; e] -> Cfg.SIf (num c, cfg_stmt t, Some (cfg_stmt e))
  | L (A "b" :: ss) -> Cfg.SBlock (List.map cfg_stmt ss)
  | L [A "loop"] -> Cfg.SLoop
  | _ -> failwith "cfg stmt"
let cfg_tag (t : Cfg.tag) : string = Cfg.(match t with
  | Entry -> "entry" | Looped -> "looped-block" | AfterLooped -> "after-looped-block"
  | Unreachable -> "unreachable-after-goto" | Lbl l -> "L" ^ string_of_n l
  | Then_ -> "then" | Else_ -> "else" | After -> "after")
let run_cfg (x : sexp) : string =
  match x with
  | L (A "body" :: ss) ->
      let body = List.map cfg_stmt ss in
      let acc = if Cfg.accepted body then "accepted" else "not-accepted" in
      (match Cfg.lower_body body with
       | None -> acc ^ " none"
       | Some g ->
           let show ((t, acts), term) =
             cfg_tag t ^ " [" ^ String.concat "," (List.map string_of_n acts) ^ "] " ^
             Cfg.(match term with
               | TBr b -> "br:" ^ string_of_n b
               | TCondBr (c, a, b) -> "cbr:" ^ string_of_n c ^ ":" ^ string_of_n a ^ ":" ^ string_of_n b
               | TRet -> "ret" | TNone -> "NONE") in
           acc ^ (if Cfg.cfg_wfb g then " wf " else " NOT-WF ") ^ String.concat ";" (List.map show (Cfg.cfg_view g)))
  | _ -> failwith "cfg"

(* ==== BEGIN C08: mutability.rs / function_calls.rs (Model/Mutability.v) =========
   Stream `mut`.  Payload: the s-expression printed by the harness stream `typed`
   (grammar in harness/src/mutser.rs): the typed declarations in the order in which
   Compiler::analyze_and_resolve hands them to Analyzer::analyze.
   Result: `codes [..] raw [..]`
     raw   = use_function codes ++ fc pass codes ++ mutability pass codes, each pass
             run by the model's own pass functions (fc_body, mut_program) on the tree
             that pass sees in analyzer.rs (function_calls first, then mutability);
     codes = the same after the effects BETWEEN stages that the model header lists as
             not modelled: a node that mutability.rs replaces by Poison loses the
             function_calls errors stored below it, and resolver.rs does not report
             the deref_type error of a Deref whose reference fails to resolve.
   How the glue composes the passes (every decision is taken by a model function):
   * a call whose [use_function] check fails is replaced, BEFORE the passes, by the
     marker [ECall (2^32 + code) []] / [SMethodCall (2^32 + code) []] (resolution ids
     are u32, so such names are free); a marker is inert in both passes and, like the
     Poison that replaces the real call, leaves is_immediate_function_argument false;
     the arguments of a failing call are dropped with it;
   * mutability.rs sees markers as EPoison / SOther and declared types through
     [fc_decl_type]  ([mx] [mst] [md]);
   * [prune] removes what mutability.rs poisons (decided by [check_assignment],
     [check_address_taken], [use_variable] in the state [mut_stmt]/[mut_decl] reach
     at that point) and clears the deref_type of a Deref with a failing index. *)
module M = Mutability
module Option = Stdlib.Option

let marker_base = 0x1_0000_0000
let marker (c : coq_N) : coq_N = n_of_int (marker_base + int_of_n c)
let is_marker (f : coq_N) : bool = int_of_n f >= marker_base
let inert_name : coq_N = n_of_int marker_base

let rec mut_ty (s : sexp) : M.mty =
  match s with
  | L [A "prim"; A k] -> M.MPrim (num k)
  | L [A "arr"; e; A n] -> M.MArray (mut_ty e, num n)
  | L [A "arrn"; e; A n] -> M.MArrayNamed (mut_ty e, num n)
  | L [A "slice"; e] -> M.MSlice (mut_ty e)
  | L [A "sliceptr"; e] -> M.MSlicePointer (mut_ty e)
  | L [A "endless"; e] -> M.MEndless (mut_ty e)
  | L [A "arraylike"; e] -> M.MArraylike (mut_ty e)
  | L [A "struct"; A n] -> M.MStruct (num n)
  | L [A "word"; A n] -> M.MWord (num n)
  | L [A "unresolved"] -> M.MUnresolved
  | L [A "ptr"; e] -> M.MPointer (mut_ty e)
  | L [A "view"; e] -> M.MView (mut_ty e)
  | _ -> failwith "mut ty"
let mut_pty (s : sexp) : M.pty = match s with A "?" -> M.PNone | A "!" -> M.PErr | t -> M.POk (mut_ty t)
let mut_oty (s : sexp) : M.mty option = match s with A "!" -> None | t -> Some (mut_ty t)
let mut_oname (s : sexp) : coq_N option = match s with A "_" -> None | A n -> Some (num n) | _ -> failwith "mut name"

(* function_calls::Analyzer.functions, filled by Analyzer::declare *)
let mut_ftab : (string, M.param list) Hashtbl.t = Hashtbl.create 16

let mut_call_failure (f : string) (b : string) (tys : sexp list) : coq_N option =
  if b <> "-" then None     (* builtins: arity errors are raised by the typer, never here *)
  else match Hashtbl.find_opt mut_ftab f with
    | None -> None          (* the real analyzer panics (unreachable!) *)
    | Some ps ->
        M.use_function ps
          (List.map (function L [A d; t] -> (d = "1", mut_pty t) | _ -> failwith "mut argty") tys)

let rec mut_expr_of (s : sexp) : M.expr =
  match s with
  | L [A "leaf"] -> M.ELeaf
  | L [A "bin"; l; r] -> M.EBinary (mut_expr_of l, mut_expr_of r)
  | L [A "un"; e] -> M.EUnary (mut_expr_of e)
  | L (A "arrlit" :: es) -> M.EArrayLit (List.map mut_expr_of es)
  | L (A "structural" :: es) -> M.EStructural (List.map mut_expr_of es)
  | L [A "paren"; e] -> M.EParen (mut_expr_of e)
  | L [A "coerce"; e] -> M.EAutocoerce (mut_expr_of e)
  | L [A "cast"; e] -> M.ECast (mut_expr_of e)
  | L [A "deref"; r; t] -> M.EDeref (mut_ref_of r, mut_pty t)
  | L [A "lenof"; r] -> M.ELengthOf (mut_ref_of r)
  | L (A "call" :: A f :: A b :: L (A "argtys" :: tys) :: args) ->
      (match mut_call_failure f b tys with
       | Some c -> M.ECall (marker c, [])
       | None -> M.ECall (num f, List.map mut_expr_of args))
  | L [A "poison"] -> M.EPoison
  | _ -> failwith "mut expr"
and mut_ref_of (s : sexp) : M.reference =
  match s with
  | L (A "ref" :: b :: A ad :: steps) -> M.Ref (mut_oname b, List.map mut_step_of steps, num ad)
  | _ -> failwith "mut ref"
and mut_step_of (s : sexp) : M.rstep =
  match s with
  | L [A "elem"; e] -> M.Element (mut_expr_of e)
  | L [A "mem"; A m] -> M.Member (num m)
  | L [A "autoderef"] -> M.Autoderef
  | L [A "autoview"] -> M.Autoview
  | L [A "deslice-view"] -> M.AutodesliceByView
  | L [A "deslice-ptr"] -> M.AutodesliceByPointer
  | L [A "deslice-len"] -> M.AutodesliceLength
  | _ -> failwith "mut step"

let rec mut_stmt_of (s : sexp) : M.stmt =
  match s with
  | L [A "var"; A x; v; t] ->
      M.SDeclaration (num x, (match v with L [A "novalue"] -> None | e -> Some (mut_expr_of e)), mut_pty t)
  | L [A "assign"; r; e] -> M.SAssignment (mut_ref_of r, mut_expr_of e)
  | L (A "mcall" :: A f :: A b :: L (A "argtys" :: tys) :: args) ->
      (match mut_call_failure f b tys with
       | Some c -> M.SMethodCall (marker c, [])
       | None -> M.SMethodCall (num f, List.map mut_expr_of args))
  | L [A "if"; l; r; th] -> M.SIf (mut_expr_of l, mut_expr_of r, mut_stmt_of th, None)
  | L [A "if"; l; r; th; el] -> M.SIf (mut_expr_of l, mut_expr_of r, mut_stmt_of th, Some (mut_stmt_of el))
  | L (A "block" :: ss) -> M.SBlock (List.map mut_stmt_of ss)
  | L [A "other"] -> M.SOther
  | _ -> failwith "mut stmt"

let mut_params_of (s : sexp) : M.param list =
  match s with
  | L (A "params" :: ps) ->
      List.map (function
        | L [A "param"; n; t] -> { M.p_name = mut_oname n; M.p_type = mut_oty t }
        | _ -> failwith "mut param") ps
  | _ -> failwith "mut params"

let mut_decl_of (s : sexp) : M.decl =
  match s with
  | L [A "const"; A x; t] -> M.DConstant (num x, mut_oty t)
  | L [A "fn"; A _; ps; L [A "nobody"]] -> M.DFunction (mut_params_of ps, None)
  | L [A "fn"; A _; ps; L [A "body"; L (A "stmts" :: ss); ret]] ->
      let ret = match ret with L [A "ret"; e] -> Some e | L [A "noret"] -> None | _ -> failwith "mut ret" in
      (* source order: statements, then the return value *)
      let ss = List.map mut_stmt_of ss in
      M.DFunction (mut_params_of ps, Some { M.fb_statements = ss; M.fb_return = Option.map mut_expr_of ret })
  | L [A "fnhead"; A _; ps] -> M.DFunctionHead (mut_params_of ps)
  | L [A "struct"; A _; L (A "members" :: ms)] -> M.DStructure (List.map mut_oname ms)
  | L [A "other"] -> M.DOther
  | _ -> failwith "mut decl"

(* the tree mutability.rs sees *)
let rec mx (e : M.expr) : M.expr =
  match e with
  | M.ELeaf | M.EPoison -> e
  | M.EBinary (l, r) -> M.EBinary (mx l, mx r)
  | M.EUnary x -> M.EUnary (mx x)
  | M.EParen x -> M.EParen (mx x)
  | M.EAutocoerce x -> M.EAutocoerce (mx x)
  | M.ECast x -> M.ECast (mx x)
  | M.EArrayLit es -> M.EArrayLit (List.map mx es)
  | M.EStructural es -> M.EStructural (List.map mx es)
  | M.EDeref (r, t) -> M.EDeref (mr r, t)
  | M.ELengthOf r -> M.ELengthOf (mr r)
  | M.ECall (f, args) -> if is_marker f then M.EPoison else M.ECall (f, List.map mx args)
and mr (r : M.reference) : M.reference = match r with M.Ref (b, ss, ad) -> M.Ref (b, List.map ms ss, ad)
and ms (s : M.rstep) : M.rstep = match s with M.Element a -> M.Element (mx a) | _ -> s
let rec mst (s : M.stmt) : M.stmt =
  match s with
  | M.SDeclaration (x, v, t) -> M.SDeclaration (x, Option.map mx v, fst (M.fc_decl_type t))
  | M.SAssignment (r, v) -> M.SAssignment (mr r, mx v)
  | M.SMethodCall (f, args) -> if is_marker f then M.SOther else M.SMethodCall (f, List.map mx args)
  | M.SIf (cl, cr, th, el) -> M.SIf (mx cl, mx cr, mst th, Option.map mst el)
  | M.SBlock b -> M.SBlock (List.map mst b)
  | M.SOther -> s
let md (d : M.decl) : M.decl =
  match d with
  | M.DFunction (ps, Some b) ->
      M.DFunction (ps, Some { M.fb_statements = List.map mst b.M.fb_statements; M.fb_return = Option.map mx b.M.fb_return })
  | _ -> d

(* use_function codes still in a tree, in tree order *)
let rec markers_e (e : M.expr) : coq_N list =
  match e with
  | M.ELeaf | M.EPoison -> []
  | M.EBinary (l, r) -> markers_e l @ markers_e r
  | M.EUnary x | M.EParen x | M.EAutocoerce x | M.ECast x -> markers_e x
  | M.EArrayLit es | M.EStructural es -> List.concat_map markers_e es
  | M.EDeref (r, _) | M.ELengthOf r -> markers_r r
  | M.ECall (f, args) ->
      if is_marker f then (if f = inert_name then [] else [n_of_int (int_of_n f - marker_base)])
      else List.concat_map markers_e args
and markers_r (r : M.reference) : coq_N list =
  match r with M.Ref (_, ss, _) -> List.concat_map (function M.Element a -> markers_e a | _ -> []) ss
let rec markers_s (s : M.stmt) : coq_N list =
  match s with
  | M.SDeclaration (_, v, _) -> (match v with Some e -> markers_e e | None -> [])
  | M.SAssignment (r, v) -> markers_r r @ markers_e v
  | M.SMethodCall (f, args) -> markers_e (M.ECall (f, args))
  | M.SIf (cl, cr, th, el) ->
      markers_e cl @ markers_e cr @ markers_s th @ (match el with Some e -> markers_s e | None -> [])
  | M.SBlock b -> List.concat_map markers_s b
  | M.SOther -> []

(* does resolver.rs fail on this expression for a reason that is already in the typed tree? *)
let rec prefailed_e (e : M.expr) : bool =
  match e with
  | M.ELeaf -> false
  | M.EPoison -> true
  | M.EBinary (l, r) -> prefailed_e l || prefailed_e r
  | M.EUnary x | M.EParen x | M.EAutocoerce x | M.ECast x -> prefailed_e x
  | M.EArrayLit es | M.EStructural es | M.ECall (_, es) -> List.exists prefailed_e es
  | M.EDeref (r, t) -> prefailed_r r || (match t with M.POk _ -> false | _ -> true)
  | M.ELengthOf r -> prefailed_r r
and prefailed_r (r : M.reference) : bool =
  match r with
  | M.Ref (None, _, _) -> true
  | M.Ref (_, ss, _) -> List.exists (function M.Element a -> prefailed_e a | _ -> false) ss

(* resolver.rs returns Err for this expression once both passes have run *)
let fails (v : M.menv) (a : M.expr) : bool =
  prefailed_e a || markers_e a <> [] || snd (M.fc_expr false a) <> [] || M.mut_expr v (mx a) <> []

(* a node without codes that leaves is_immediate_function_argument as [e] does *)
let inert (e : M.expr) : M.expr =
  if fst (M.fc_expr true e) then M.EPoison else M.ECall (inert_name, [])

let rec px (v : M.menv) (e : M.expr) : M.expr =
  match e with
  | M.ELeaf | M.EPoison -> e
  | M.EBinary (l, r) -> M.EBinary (px v l, px v r)
  | M.EUnary x -> M.EUnary (px v x)
  | M.EParen x -> M.EParen (px v x)
  | M.EAutocoerce x -> M.EAutocoerce (px v x)
  | M.ECast x -> M.ECast (px v x)
  | M.EArrayLit es -> M.EArrayLit (List.map (px v) es)
  | M.EStructural es -> M.EStructural (List.map (px v) es)
  | M.ECall (f, args) -> M.ECall (f, List.map (px v) args)
  | M.EDeref (r, t) ->
      if M.check_address_taken v r <> [] then inert e
      else
        let dirty = match r with
          | M.Ref (None, _, _) -> true
          | M.Ref (_, ss, _) -> List.exists (function M.Element a -> fails v a | _ -> false) ss in
        M.EDeref (pr v r, if dirty then M.PNone else t)
  | M.ELengthOf (M.Ref (b, _, _) as r) ->
      if M.uv_codes (M.use_variable v b false) <> [] then inert e else M.ELengthOf (pr v r)
and pr (v : M.menv) (r : M.reference) : M.reference =
  match r with
  | M.Ref (b, ss, ad) -> M.Ref (b, List.map (function M.Element a -> M.Element (px v a) | s -> s) ss, ad)

let rec pst (v : M.menv) (s : M.stmt) : M.menv * M.stmt =
  let v' = fst (M.mut_stmt v (mst s)) in
  (v',
   match s with
   | M.SDeclaration (x, value, t) -> M.SDeclaration (x, Option.map (px v) value, t)
   | M.SAssignment (r, value) ->
       if M.check_assignment v r <> [] then M.SOther else M.SAssignment (pr v r, px v value)
   | M.SMethodCall (f, args) -> M.SMethodCall (f, List.map (px v) args)
   | M.SIf (cl, cr, th, el) ->
       let (v1, th') = pst v th in
       M.SIf (px v cl, px v cr, th', Option.map (fun e -> snd (pst v1 e)) el)
   | M.SBlock b -> M.SBlock (snd (psts v b))
   | M.SOther -> s)
and psts (v : M.menv) (l : M.stmt list) : M.menv * M.stmt list =
  match l with
  | [] -> (v, [])
  | s :: rest -> let (v1, s') = pst v s in let (v2, rest') = psts v1 rest in (v2, s' :: rest')

let pd (v : M.menv) (d : M.decl) : M.menv * M.decl =
  let v' = fst (M.mut_decl v (md d)) in
  (v',
   match d with
   | M.DFunction (ps, Some b) ->
       let v0 = fst (M.mut_decl v (M.DFunctionHead ps)) in
       let (v1, ss) = psts v0 b.M.fb_statements in
       M.DFunction (ps, Some { M.fb_statements = ss; M.fb_return = Option.map (px v1) b.M.fb_return })
   | _ -> d)

let fc_program (ds : M.decl list) : coq_N list =
  List.concat_map (function M.DFunction (_, Some b) -> M.fc_body b | _ -> []) ds
let markers_program (ds : M.decl list) : coq_N list =
  List.concat_map (function
    | M.DFunction (_, Some b) ->
        List.concat_map markers_s b.M.fb_statements
        @ (match b.M.fb_return with Some e -> markers_e e | None -> [])
    | _ -> []) ds

let run_mut (x : sexp) : string =
  match x with
  | L (A "prog" :: ds) ->
      Hashtbl.reset mut_ftab;
      (* Analyzer::declare: every function of the module before the first body *)
      List.iter (function
        | L (A ("fn" | "fnhead") :: A f :: ps :: _) -> Hashtbl.replace mut_ftab f (mut_params_of ps)
        | _ -> ()) ds;
      let t_fc = List.map mut_decl_of ds in
      let t_mut = List.map md t_fc in
      let mutc = snd (M.mut_program [] t_mut) in
      let raw = markers_program t_fc @ fc_program t_fc @ mutc in
      let pruned =
        let rec go v = function [] -> [] | d :: rest -> let (v1, d') = pd v d in d' :: go v1 rest in
        go [] t_fc in
      let codes = markers_program pruned @ fc_program pruned @ mutc in
      "codes " ^ codes_to_string codes ^ " raw " ^ codes_to_string raw
  | _ -> failwith "mut"
(* ==== END C08 ================================================================== *)

(* ---- node accounting of the second-generation parser (Model/DeltaNodes.v) ----
   payload: (codes c1 c2 ...) = BaseToken as u8 of every token, the two EndOfSource included *)
let run_nodes (x : sexp) : string =
  match x with
  | L (A "codes" :: cs) ->
      let ts = List.map (function A c -> DeltaNodes.btok_of_code (num c) | _ -> failwith "nodes") cs in
      let o = DeltaNodes.parse_full ts in
      let st = DeltaNodes.(match o.o_status with Ok -> "ok" | Err -> "err" | Oof -> "oof" | Panic s -> "panic" ^ string_of_n s) in
      st ^ " nodes=" ^ string_of_n o.DeltaNodes.o_nodes ^ " decls=" ^ string_of_n o.DeltaNodes.o_decls ^ " errors=" ^ string_of_n o.DeltaNodes.o_errors
      ^ " cap=" ^ string_of_n (DeltaNodes.capacity ts)
  | _ -> failwith "nodes"

(* ==== BEGIN C11 TypeLegal ======================================================
   stream `legal`, payload (pos ty)
     ty  ::= void | i8 | i16 | i32 | i64 | i128 | u8 | u16 | u32 | u64 | u128 | usize | char8 | bool
           | (struct NAME) | (word NAME BYTES)
           | (ptr ty) | (view ty) | (slice ty) | (endless ty) | (arraylike ty)
           | (array LEN ty) | (named NAME LEN ty)
     pos ::= var | sizeof | (const FL) | (param FL) | (ret FL) | (smember FL) | (wmember BYTES FL)
     FL  ::= - | p | e | pe
   stream `legal-pinned`: same payload, the model of the code before commit df9eac4
   answer: "codes [c,..]" or "panic typer.rs:LINE"                                   *)
module TL = TypeLegal
let tl_prim = function
  | "void" -> TL.KVoid | "i8" -> TL.KInt8 | "i16" -> TL.KInt16 | "i32" -> TL.KInt32 | "i64" -> TL.KInt64
  | "i128" -> TL.KInt128 | "u8" -> TL.KUint8 | "u16" -> TL.KUint16 | "u32" -> TL.KUint32 | "u64" -> TL.KUint64
  | "u128" -> TL.KUint128 | "usize" -> TL.KUsize | "char8" -> TL.KChar8 | "bool" -> TL.KBool
  | s -> failwith ("legal: prim " ^ s)
let rec tl_sty (x : sexp) : TL.sty =
  match x with
  | A k -> TL.SPrim (tl_prim k)
  | L [A "struct"; A n] -> TL.SStruct (intern n)
  | L [A "word"; A n; A b] -> TL.SWord (intern n, n_of_string b)
  | L [A "ptr"; t] -> TL.SPtr (tl_sty t)
  | L [A "view"; t] -> TL.SView (tl_sty t)
  | L [A "slice"; t] -> TL.SSlice (tl_sty t)
  | L [A "endless"; t] -> TL.SEndless (tl_sty t)
  | L [A "arraylike"; t] -> TL.SArraylike (tl_sty t)
  | L [A "array"; A len; t] -> TL.SArray (n_of_string len, tl_sty t)
  | L [A "named"; A c; A len; t] -> TL.SArrayNamed (intern c, n_of_string len, tl_sty t)
  | _ -> failwith "legal: type"
let tl_flags = function
  | "-" -> { TL.f_pub = false; TL.f_extern = false }
  | "p" -> { TL.f_pub = true; TL.f_extern = false }
  | "e" -> { TL.f_pub = false; TL.f_extern = true }
  | "pe" -> { TL.f_pub = true; TL.f_extern = true }
  | s -> failwith ("legal: flags " ^ s)
let tl_pos (x : sexp) : TL.position =
  match x with
  | A "var" -> TL.PVariable
  | A "sizeof" -> TL.PSizeOf
  | L [A "const"; A fl] -> TL.PConstant (tl_flags fl)
  | L [A "param"; A fl] -> TL.PParameter (tl_flags fl)
  | L [A "ret"; A fl] -> TL.PReturn (tl_flags fl)
  | L [A "smember"; A fl] -> TL.PStructMember (tl_flags fl)
  | L [A "wmember"; A b; A fl] -> TL.PWordMember (n_of_string b, tl_flags fl)
  | _ -> failwith "legal: position"
let run_legal (pinned : bool) (x : sexp) : string =
  match x with
  | L [p; t] ->
      (match (if pinned then TL.legal_outcome_pinned else TL.legal_outcome) (tl_pos p) (tl_sty t) with
       | TL.OCodes cs -> "codes " ^ codes_to_string cs
       | TL.OPanic l -> "panic typer.rs:" ^ string_of_n l)
  | _ -> failwith "legal"
(* ==== END C11 TypeLegal ======================================================== *)

(* ==== C09 LintWalk: the declarations handed to the linter (harness/src/lintser.rs) ==== *)
(* type tags are interned: tag id -> (min, max) as value_type.rs reports them; for the primitive
   integer types the regenerated range table (Gen/TypeTables.v) must say the same *)
let lw_tags : (int, coq_Z * coq_Z) Hashtbl.t = Hashtbl.create 16
let lw_tag_ids : (string, int) Hashtbl.t = Hashtbl.create 16
let lw_table_mismatch = ref ""
let lw_ty (x : sexp) : coq_N option =
  match x with
  | A "-" -> None
  | L [A k; A mn; A mx] ->
      let key = k ^ " " ^ mn ^ " " ^ mx in
      let id = match Hashtbl.find_opt lw_tag_ids key with
        | Some i -> i
        | None ->
            let i = Hashtbl.length lw_tag_ids + 1 in
            Hashtbl.add lw_tag_ids key i;
            let (mnz, mxz) = (z_of_string mn, z_of_string mx) in
            Hashtbl.add lw_tags i (mnz, mxz);
            (if k <> "other" && k <> "bool" then
               let p = prim_of_string k in
               if TypeTables.vt_min p <> mnz || TypeTables.vt_max p <> mxz then
                 lw_table_mismatch := k);
            i in
      Some (n_of_int id)
  | _ -> failwith "lintwalk: type"
let rec lw_expr (x : sexp) : LintWalk.expr =
  match x with
  | L [A "bin"; l; r] -> LintWalk.EBinary (lw_expr l, lw_expr r)
  | L [A "neg"; e] -> LintWalk.EUnary (LintWalk.UNegative, lw_expr e)
  | L [A "un"; e] -> LintWalk.EUnary (LintWalk.UBitwiseComplement, lw_expr e)
  | L [A "bool"] -> LintWalk.EBool
  | L [A "sint"; A v; t; A p] -> LintWalk.ESigned (z_of_string v, lw_ty t, n_of_string p)
  | L [A "bits"; A v; t; A p] -> LintWalk.EBit (z_of_string v, lw_ty t, n_of_string p)
  | L [A "str"] -> LintWalk.EString
  | L (A "arr" :: es) -> LintWalk.EArray (List.map lw_expr es)
  | L (A "structural" :: es) -> LintWalk.EStructural (List.map (fun e -> LintWalk.MkMember (lw_expr e)) es)
  | L [A "paren"; e] -> LintWalk.EParen (lw_expr e)
  | L (A "deref" :: ss) -> LintWalk.EDeref (List.map lw_step ss)
  | L [A "coerce"; e] -> LintWalk.EAutocoerce (lw_expr e)
  | L [A "bitcast"; e] -> LintWalk.EBitCast (lw_expr e)
  | L [A "cast"; e] -> LintWalk.ETypeCast (lw_expr e)
  | L (A "lenof" :: ss) -> LintWalk.ELengthOfArray (List.map lw_step ss)
  | L [A "sizeof"] -> LintWalk.ESizeOf
  | L (A "call" :: es) -> LintWalk.ECall (List.map lw_expr es)
  | L [A "poison"] -> LintWalk.EPoison
  | _ -> failwith "lintwalk: expr"
and lw_step (x : sexp) : LintWalk.refstep =
  match x with
  | L [A "elem"; e] -> LintWalk.RElement (lw_expr e)
  | L [A "mem"] -> LintWalk.RMember
  | L [A "deslice"] -> LintWalk.RAutodeslice
  | L [A "autoderef"] -> LintWalk.RAutoderef
  | L [A "autoview"] -> LintWalk.RAutoview
  | _ -> failwith "lintwalk: step"
let lw_oexpr = function L [A "none"] -> None | e -> Some (lw_expr e)
let rec lw_stmt (x : sexp) : LintWalk.stmt =
  match x with
  | L [A "var"; v] -> LintWalk.SDeclaration (lw_oexpr v)
  | L [A "assign"; L (A "steps" :: ss); v] -> LintWalk.SAssignment (List.map lw_step ss, lw_expr v)
  | L (A "mcall" :: es) -> LintWalk.SMethodCall (List.map lw_expr es)
  | L [A "loop"; A p] -> LintWalk.SLoop (n_of_string p)
  | L [A "goto"] -> LintWalk.SGoto
  | L [A "label"] -> LintWalk.SLabel
  | L [A "if"; l; r; A p; t] ->
      LintWalk.SIf ({ LintWalk.cmp_left = lw_expr l; LintWalk.cmp_right = lw_expr r; LintWalk.cmp_loc = n_of_string p }, lw_stmt t, None)
  | L [A "if"; l; r; A p; t; L [A "else"; e; A pe]] ->
      LintWalk.SIf ({ LintWalk.cmp_left = lw_expr l; LintWalk.cmp_right = lw_expr r; LintWalk.cmp_loc = n_of_string p }, lw_stmt t,
                    Some (LintWalk.MkElse (lw_stmt e, n_of_string pe)))
  | L (A "block" :: A p :: ss) -> LintWalk.SBlock (LintWalk.MkBlock (List.map lw_stmt ss, n_of_string p))
  | L [A "poison"] -> LintWalk.SPoison
  | _ -> failwith "lintwalk: stmt"
let lw_decl (x : sexp) : LintWalk.decl =
  match x with
  | L [A "const"; e] -> LintWalk.DConstant (lw_expr e)
  | L [A "fn"; L [A "body"; L (A "stmts" :: ss); r]] ->
      LintWalk.DFunction (Some { LintWalk.fb_statements = List.map lw_stmt ss; LintWalk.fb_return_value = lw_oexpr r })
  | L [A "fnpoison"] -> LintWalk.DFunction None
  | L [A "head"] -> LintWalk.DFunctionHead
  | L [A "struct"] -> LintWalk.DStructure
  | L [A "import"] -> LintWalk.DImport
  | L [A "poison"] -> LintWalk.DPoison
  | _ -> failwith "lintwalk: decl"
let z_lt a b = (Z.compare a b = Lt)
let run_lintwalk (x : sexp) : string =
  Hashtbl.reset lw_tags; Hashtbl.reset lw_tag_ids; lw_table_mismatch := "";
  match x with
  | L (A "mod" :: ds) ->
      let ds = List.map lw_decl ds in
      (* linter.rs, = LintWalk.range_test over the table (min < 0, min, max) of the interned tags:
         signed literal: value < min when negative, value > max otherwise; bit literal: value > max;
         typed bit literal directly under a negation: value > max + 1 at a signed type (min < 0), at an
         unsigned type the guard of the Unary arm fails and the bit-literal test value > max applies *)
      let tbl (t : coq_N) : ((bool * coq_Z) * coq_Z) option =
        match Hashtbl.find_opt lw_tags (int_of_n t) with
        | Some (mn, mx) -> Some ((z_lt mn Z0, mn), mx)
        | None -> None in
      let oor (k : LintWalk.litkind) (v : coq_Z) (t : coq_N) : bool = LintWalk.range_test tbl k v t in
      let evs = LintWalk.lint_module ds in
      let buf = Buffer.create 256 in
      List.iter (function
        | LintWalk.EvLiteral (p, k, v, Some t) -> if oor k v t then Buffer.add_string buf ("(1142 " ^ string_of_n p ^ ")")
        | LintWalk.EvLiteral (_, _, _, None) -> ()
        | LintWalk.EvLoopFirst (l, _, _) -> Buffer.add_string buf ("(1800 " ^ string_of_n l ^ ")")) evs;
      let nocc = List.fold_left (fun a d -> a + List.length (LintWalk.occs_decl d)) 0 ds in
      "lints=" ^ Buffer.contents buf ^ " literals=" ^ string_of_int nocc ^
      (if !lw_table_mismatch = "" then "" else " range-table-mismatch=" ^ !lw_table_mismatch)
  | _ -> failwith "lintwalk: module"

(* ==== C20 Escape: what the rebuilder prints for a string constant / an import ============= *)
let hex_of_ns (l : coq_N list) : string =
  String.concat "" (List.map (fun c -> Printf.sprintf "%02x" (int_of_n c)) l)
let run_escape (x : sexp) : string =
  match x with
  | L [A kind; A h] ->
      let bs = if h = "-" then [] else hex_bytes h in
      (match kind with
       | "const" -> hex_of_ns (Escape.rebuild_const_string bs)
       | "import" -> hex_of_ns (Escape.rebuild_import [] bs)
       | "string" -> hex_of_ns (Escape.rebuild_string bs)
       | _ -> failwith "escape: kind")
  | _ -> failwith "escape"

(* ==== C01 MemLower: the instructions computing the address of a reference ================= *)
let rec ml_pty (x : sexp) : MemLower.pty =
  match x with
  | L [A "int"; A b] -> MemLower.PInt (z_of_string b)
  | A "bool" -> MemLower.PBool
  | L [A "arr"; A n; e] -> MemLower.PArr (z_of_string n, ml_pty e)
  | L (A "struct" :: ms) -> MemLower.PStruct (List.map ml_pty ms)
  | L [A "ptr"; t] -> MemLower.PPtr (ml_pty t)
  | L [A "view"; t] -> MemLower.PView (ml_pty t)
  | L [A "slice"; t] -> MemLower.PSlice (ml_pty t)
  | L [A "sliceptr"; t] -> MemLower.PSlicePtr (ml_pty t)
  | L [A "endless"; t] -> MemLower.PEndless (ml_pty t)
  | _ -> failwith "memlower: type"
let rec nat_of_int (i : int) : Datatypes.nat = if i <= 0 then Datatypes.O else Datatypes.S (nat_of_int (i - 1))
let ml_step (x : sexp) : MemLower.step =
  match x with
  | L [A "e"; A i] -> MemLower.SElem (z_of_string i)
  | L [A "m"; A k] -> MemLower.SMember (nat_of_int (int_of_string k))
  | _ -> failwith "memlower: step"
let ml_show (is : MemLower.instr list) : string =
  String.concat " " (List.map (function
    | MemLower.IGep gs -> "G[" ^ String.concat "," (List.map (function MemLower.GConst z -> string_of_z z | MemLower.GDyn _ -> "?") gs) ^ "]"
    | MemLower.ILoad -> "L"
    | MemLower.IExtract k -> "X" ^ string_of_z k) is)
let run_memlower (x : sexp) : string =
  match x with
  | L [A kind; t; L path] ->
      let b = (match kind with "param" -> MemLower.BParam | "local" -> MemLower.BLocal | "global" -> MemLower.BGlobal | _ -> failwith "memlower: base") in
      let t = ml_pty t and p = List.map ml_step path in
      (* a scalar is read or written at the end of the path: when the path ends at a pointer (to a pointer
         ...) the typer appends one Autoderef per layer (typer.rs autoderef, the coercion to the target type) *)
      let rec layers = function MemLower.PPtr u -> 1 + layers u | _ -> 0 in
      (match MemLower.elaborate t p with
       | None -> "instrs=none\tpinned=none"
       | Some (rs, reached) ->
           let rs = rs @ List.init (layers reached) (fun _ -> MemLower.RAutoderef) in
           "instrs=" ^ ml_show (MemLower.lower_ref b rs) ^ "\tpinned=" ^ ml_show (MemLower.lower_ref_pinned b rs))
  | _ -> failwith "memlower"

(* ==== C18 OutPath: where the IR of a module is written ========================================= *)
let op_path (s : string) : OutPath.path =
  let abs = String.length s > 0 && s.[0] = '/' in
  let cs = List.filter (fun c -> c <> "") (String.split_on_char '/' s) in
  { OutPath.absolute = abs; OutPath.comps = List.map (fun c -> List.init (String.length c) (fun i -> n_of_int (Char.code c.[i]))) cs }
let op_show (p : OutPath.path) : string =
  (if p.OutPath.absolute then "/" else "") ^
  String.concat "/" (List.map (fun c -> String.concat "" (List.map (fun ch -> String.make 1 (Char.chr (int_of_n ch))) c)) p.OutPath.comps)
let run_llpath (x : sexp) : string =
  match x with
  | L [A d; A m] ->
      let (d, m) = (op_path d, op_path m) in
      "path=" ^ op_show (OutPath.ll_path d m) ^ " pn=" ^ (if OutPath.is_pn_module m then "true" else "false")
  | _ -> failwith "llpath"

(* ==== C07 / C02 / C01 Autoderef: value_type.rs predicates and the typer's autoderef ================
   types in the syntax of the harness's `typed` / `vtpred` streams:
     ty ::= (prim K) | (arr ty LEN) | (arrn ty N) | (slice ty) | (sliceptr ty) | (endless ty) | (arraylike ty)
          | (struct N) | (word N SIZE) | (unresolved) | (unresolved N) | (ptr ty) | (view ty)
   stream `vtpred`, payload (pair ty ty): the public predicates on (a, b), as the harness prints them
   stream `autoderef`, payload (ad BASE (steps STEP ..) AD CTX (members (N ty) ..)):  STEP ::= e | (m N);  CTX ::= ty | none *)
module AD = Autoderef
let ad_prim (k : string) : TL.prim =
  match int_of_string k with
  | 0 -> TL.KVoid | 1 -> TL.KInt8 | 2 -> TL.KInt16 | 3 -> TL.KInt32 | 4 -> TL.KInt64 | 5 -> TL.KInt128 | 6 -> TL.KUint8
  | 7 -> TL.KUint16 | 8 -> TL.KUint32 | 9 -> TL.KUint64 | 10 -> TL.KUint128 | 11 -> TL.KUsize | 12 -> TL.KChar8 | 13 -> TL.KBool
  | _ -> failwith "autoderef: prim"
let rec ad_vt (x : sexp) : TL.vty =
  match x with
  | L [A "prim"; A k] -> TL.VPrim (ad_prim k)
  | L [A "arr"; t; A n] -> TL.VArray (ad_vt t, n_of_string n)
  | L [A "arrn"; t; A c] -> TL.VArrayNamed (ad_vt t, n_of_string c)
  | L [A "slice"; t] -> TL.VSlice (ad_vt t)
  | L [A "sliceptr"; t] -> TL.VSlicePointer (ad_vt t)
  | L [A "endless"; t] -> TL.VEndless (ad_vt t)
  | L [A "arraylike"; t] -> TL.VArraylike (ad_vt t)
  | L [A "struct"; A n] -> TL.VStruct (n_of_string n)
  | L [A "word"; A n; A b] -> TL.VWord (n_of_string n, n_of_string b)
  | L [A "unresolved"] -> TL.VUnresolved None
  | L [A "unresolved"; A n] -> TL.VUnresolved (Some (n_of_string n))
  | L [A "ptr"; t] -> TL.VPointer (ad_vt t)
  | L [A "view"; t] -> TL.VView (ad_vt t)
  | _ -> failwith "autoderef: type"
let rec ad_show_vt (t : TL.vty) : string =
  let prim_index = function
    | TL.KVoid -> 0 | TL.KInt8 -> 1 | TL.KInt16 -> 2 | TL.KInt32 -> 3 | TL.KInt64 -> 4 | TL.KInt128 -> 5 | TL.KUint8 -> 6
    | TL.KUint16 -> 7 | TL.KUint32 -> 8 | TL.KUint64 -> 9 | TL.KUint128 -> 10 | TL.KUsize -> 11 | TL.KChar8 -> 12 | TL.KBool -> 13 in
  match t with
  | TL.VPrim k -> Printf.sprintf "(prim %d)" (prim_index k)
  | TL.VArray (e, n) -> Printf.sprintf "(arr %s %s)" (ad_show_vt e) (string_of_n n)
  | TL.VArrayNamed (e, c) -> Printf.sprintf "(arrn %s %s)" (ad_show_vt e) (string_of_n c)
  | TL.VSlice e -> "(slice " ^ ad_show_vt e ^ ")" | TL.VSlicePointer e -> "(sliceptr " ^ ad_show_vt e ^ ")"
  | TL.VEndless e -> "(endless " ^ ad_show_vt e ^ ")" | TL.VArraylike e -> "(arraylike " ^ ad_show_vt e ^ ")"
  | TL.VStruct n -> "(struct " ^ string_of_n n ^ ")" | TL.VWord (n, b) -> "(word " ^ string_of_n n ^ " " ^ string_of_n b ^ ")"
  | TL.VUnresolved None -> "(unresolved)" | TL.VUnresolved (Some n) -> "(unresolved " ^ string_of_n n ^ ")"
  | TL.VPointer d -> "(ptr " ^ ad_show_vt d ^ ")" | TL.VView d -> "(view " ^ ad_show_vt d ^ ")"
let run_vtpred (x : sexp) : string =
  match x with
  | L [A "pair"; a; b] ->
      let (a, b) = (ad_vt a, ad_vt b) in
      let f v = if v then "1" else "0" in
      (match AD.pred_table a b with
       | [d; c; co; ca; au; wfa; _] ->
           String.concat " " [f d; f c; f co; f ca; f au; f wfa; f (TL.is_wellformed b); string_of_n (AD.pointer_depth a); f (AD.is_slice_pointer a)]
       | _ -> failwith "vtpred: table")
  | _ -> failwith "vtpred"
let ad_show_tstep = function
  | AD.TElement _ -> "elem" | AD.TMember m -> "(mem " ^ string_of_n m ^ ")" | AD.TAutoderef -> "autoderef" | AD.TAutoview -> "autoview"
  | AD.TAutodesliceByView -> "deslice-view" | AD.TAutodesliceByPointer -> "deslice-ptr"
let run_autoderef (x : sexp) : string =
  match x with
  | L [A "ad"; base; L (A "steps" :: steps); A ad; ctx; L (A "members" :: ms)] ->
      let members = List.map (function L [A n; t] -> (n_of_string n, ad_vt t) | _ -> failwith "autoderef: member") ms in
      let mt (m : coq_N) = try Some (List.assoc m members) with Not_found -> None in
      let steps = List.map (function A "e" -> AD.AElement None | L [A "m"; A n] -> AD.AMember (n_of_string n) | _ -> failwith "autoderef: step") steps in
      let ctx = (match ctx with A "none" -> None | t -> Some (ad_vt t)) in
      (match AD.analyze_deref mt (ad_vt base) steps (n_of_string ad) ctx with
       | None -> "untyped"
       | Some (AD.ADPanic s) -> "panic " ^ string_of_n s
       | Some (AD.ADError c) -> "error " ^ string_of_n c
       | Some (AD.ADOk (taken, ta, dt, co)) ->
           (* the wrapper around call arguments (typer.rs analyze_hinted_arguments) adds a coercion of its own *)
           let argco = (match co, ctx with
                        | None, Some pt -> (match AD.argument_coercion dt pt with Some c -> ad_show_vt c | None -> "none")
                        | _, _ -> "none") in
           Printf.sprintf "ok steps=[%s] addr=%d type=%s coerce=%s argcoerce=%s" (String.concat " " (List.map ad_show_tstep taken)) (if ta then 1 else 0)
             (ad_show_vt dt) (match co with None -> "none" | Some c -> ad_show_vt c) argco)
  | _ -> failwith "autoderef"

(* stream `assignsteps`, payload (as BASE (steps STEP ..) AD (members (N ty) ..)): typer.rs analyze_assignment_steps *)
let run_assignsteps (x : sexp) : string =
  match x with
  | L [A "as"; base; L (A "steps" :: steps); A ad; L (A "members" :: ms)] ->
      let members = List.map (function L [A n; t] -> (n_of_string n, ad_vt t) | _ -> failwith "assignsteps: member") ms in
      let mt (m : coq_N) = try Some (List.assoc m members) with Not_found -> None in
      let steps = List.map (function A "e" -> AD.AElement None | L [A "m"; A n] -> AD.AMember (n_of_string n) | _ -> failwith "assignsteps: step") steps in
      (match AssignSteps.assignment_steps mt (ad_vt base) steps (n_of_string ad) with
       | AssignSteps.APanic s -> "panic " ^ string_of_n s
       | AssignSteps.AOk (taken, rd) -> Printf.sprintf "ok steps=[%s] addr=%s" (String.concat " " (List.map ad_show_tstep taken)) (string_of_n rd))
  | _ -> failwith "assignsteps"

(* ==== C08 CallFrame: one activation on memory ====================================================
   payload (frame (bindings B ..) (inits I ..) (body S ..) (probe (LO HI) ..) FORCE)
     B ::= (value PTY Z) | (view A PTY) | (slice A N PTY) | (pointer A PTY) | (slicepointer A N PTY) | (local A PTY) | (const A PTY)
     I ::= (A PTY VALUE)    VALUE ::= Z | (VALUE ..)      (arrays and structures alike; a pointer cell holds an address)
     S ::= (set REF Z) | (copy REF REF) | (setaddr REF REF)     REF ::= (ref BINDING-INDEX AD STEP ..)   STEP as in `memlower`
   answer: rejected [codes] | undefined | ran changed=[..] outside=[..] outside-strict=[..] *)
module CF = CallFrame
let rec cf_value (t : MemLower.pty) (x : sexp) : MemLower.value =
  match t, x with
  | MemLower.PArr (_, e), L xs -> MemLower.VArr (List.map (cf_value e) xs)
  | MemLower.PStruct ms, L xs -> MemLower.VStruct (List.map2 cf_value ms xs)
  | _, A z -> MemLower.VS (z_of_string z)
  | _ -> failwith "callframe: value"
let cf_ref (x : sexp) : CF.reference =
  match x with
  | L (A "ref" :: A b :: A ad :: steps) ->
      { CF.r_base = nat_of_int (int_of_string b); CF.r_path = List.map ml_step steps; CF.r_ad = nat_of_int (int_of_string ad) }
  | _ -> failwith "callframe: ref"
let run_callframe (x : sexp) : string =
  match x with
  | L [A "frame"; L (A "bindings" :: bs); L (A "inits" :: is); L (A "body" :: ss); L (A "probe" :: ps); A force] ->
      let z = z_of_string in
      let binding = function
        | L [A "value"; t; A v] -> CF.arg_value (ml_pty t) (z v)
        | L [A "view"; A a; t] -> CF.arg_view (z a) (ml_pty t)
        | L [A "slice"; A a; A n; t] -> CF.arg_slice (z a) (z n) (ml_pty t)
        | L [A "pointer"; A a; t] -> CF.arg_pointer (z a) (ml_pty t)
        | L [A "slicepointer"; A a; A n; t] -> CF.arg_slice_pointer (z a) (z n) (ml_pty t)
        | L [A "local"; A a; t] -> CF.local_var (z a) (ml_pty t)
        | L [A "const"; A a; t] -> CF.constant (z a) (ml_pty t)
        | _ -> failwith "callframe: binding" in
      let init = function
        | L [A a; t; v] -> let t = ml_pty t in ((z a, MemLower.erase (MemLower.gen t)), cf_value t v)
        | _ -> failwith "callframe: init" in
      let stmt = function
        | L [A "set"; r; A v] -> CF.SSetConst (cf_ref r, z v)
        | L [A "copy"; d; s_] -> CF.SCopy (cf_ref d, cf_ref s_)
        | L [A "setaddr"; d; s_] -> CF.SSetAddr (cf_ref d, cf_ref s_)
        | _ -> failwith "callframe: stmt" in
      let probe = function L [A lo; A hi] -> (z lo, z hi) | _ -> failwith "callframe: probe" in
      let zs l = "[" ^ String.concat "," (List.map string_of_z l) ^ "]" in
      (match CF.run_frame_case (List.map binding bs) (List.map init is) (List.map stmt ss) (List.map probe ps) (force = "1") with
       | CF.CaseRejected codes -> "rejected [" ^ String.concat "," (List.map string_of_n codes) ^ "]"
       | CF.CaseUndefined -> "undefined"
       | CF.CaseRan (ch, out, strict) -> Printf.sprintf "ran changed=%s outside=%s outside-strict=%s" (zs ch) (zs out) (zs strict))
  | _ -> failwith "callframe"

(* ==== C13 Loc: Location::combined_with and comparison_key ===================================== *)
let run_loc (x : sexp) : string =
  match x with
  | L [A s1; A e1; A l1; A o1; A s2; A e2; A l2; A o2] ->
      let mk s e l o = { Loc.l_start = n_of_string s; Loc.l_end = n_of_string e; Loc.l_line = n_of_string l; Loc.l_offset = n_of_string o } in
      let (a, b) = (mk s1 e1 l1 o1, mk s2 e2 l2 o2) in
      let show (c : Loc.loc) = String.concat " " (List.map string_of_n [c.Loc.l_start; c.Loc.l_end; c.Loc.l_line; c.Loc.l_offset]) in
      let (ka, kb) = (Loc.comparison_key a, Loc.comparison_key b) in
      let ord = if Loc.key_eqb ka kb then "eq" else if Loc.key_leb ka kb then "lt" else "gt" in
      show (Loc.combined_with a b) ^ "\t" ^ show (Loc.combined_with b a) ^ "\t" ^ ord
  | _ -> failwith "loc"

let dispatch (stream : string) (x : sexp) : string =
  match stream with
  | "labels" -> run_labels x
  | "lintwalk" -> run_lintwalk x
  | "escape" -> run_escape x
  | "llpath" -> run_llpath x
  | "vtpred" -> run_vtpred x
  | "autoderef" -> run_autoderef x
  | "assignsteps" -> run_assignsteps x
  | "callframe" -> run_callframe x
  | "loc" -> run_loc x
  | "memlower" -> run_memlower x
  | "vars" -> run_vars x
  | "exec" -> run_exec 20000 x
  | "expand" -> run_expand x
  | "header" -> run_header x
  | "containers" -> run_containers x
  | "layout" -> run_layout x
  | "literal" -> run_literal x
  | "linkage" -> run_linkage x
  | "cli" -> run_cli x
  | "resolve" -> run_resolve x
  | "mut" -> run_mut x
  | "nodes" -> run_nodes x
  | "legal" -> run_legal false x
  | "legal-pinned" -> run_legal true x
  | "cfg" -> run_cfg x
  | "lex-alpha" -> run_lex_alpha x
  | "lex-delta" -> run_lex_delta x
  | "tables" -> run_tables (match x with A n -> int_of_string n | _ -> 64)
  | "syntax" -> run_syntax true x
  | "syntax-pinned" -> run_syntax false x
  | _ -> failwith ("unknown stream " ^ stream)

let () =
  try
    while true do
      let line = input_line stdin in
      match String.split_on_char '\t' line with
      | [stream; id; payload] ->
          Hashtbl.reset names;
          let res = try (if stream = "refparse" then run_refparse payload else if stream = "dexpr" then run_dexpr payload else dispatch stream (parse_sexp payload))
                    with Failure m -> "MODEL-ERROR " ^ m | Not_found -> "MODEL-ERROR not_found" in
          print_string id; print_char '\t'; print_endline res
      | _ -> ()
    done
  with End_of_file -> ()
