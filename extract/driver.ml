(* Correspondence driver: reads "stream<TAB>id<TAB>sexp" lines on stdin, runs the
   extracted Coq model, prints "id<TAB>result".  Hand-written glue (trusted). *)
open BinNums
open BinNat
open BinInt
module List = Stdlib.List
module String = Stdlib.String
module Hashtbl = Stdlib.Hashtbl
module Buffer = Stdlib.Buffer
module Char = Stdlib.Char

type sexp = A of string | L of sexp list

let parse_sexp (s : string) : sexp =
  let n = String.length s in
  let pos = ref 0 in
  let rec skip () = if !pos < n && (s.[!pos] = ' ' || s.[!pos] = '\n') then (incr pos; skip ()) in
  let rec one () =
    skip ();
    if !pos >= n then failwith "sexp: eof"
    else if s.[!pos] = '(' then begin
      incr pos;
      let items = ref [] in
      let rec loop () =
        skip ();
        if !pos >= n then failwith "sexp: unclosed"
        else if s.[!pos] = ')' then incr pos
        else (items := one () :: !items; loop ()) in
      loop (); L (List.rev !items)
    end else begin
      let st = !pos in
      while !pos < n && s.[!pos] <> ' ' && s.[!pos] <> '(' && s.[!pos] <> ')' do incr pos done;
      A (String.sub s st (!pos - st))
    end in
  one ()

(* ---- numbers ------------------------------------------------------------ *)
let rec pos_of_int (i : int) : positive =
  if i = 1 then Coq_xH else if i land 1 = 0 then Coq_xO (pos_of_int (i lsr 1)) else Coq_xI (pos_of_int (i lsr 1))
let n_of_int (i : int) : coq_N = if i = 0 then N0 else Npos (pos_of_int i)
let rec int_of_pos = function Coq_xH -> 1 | Coq_xO p -> 2 * int_of_pos p | Coq_xI p -> 2 * int_of_pos p + 1
let int_of_n = function N0 -> 0 | Npos p -> int_of_pos p
let z_of_int (i : int) : coq_Z = if i = 0 then Z0 else if i > 0 then Zpos (pos_of_int i) else Zneg (pos_of_int (-i))

(* decimal strings of arbitrary size, through the extracted arithmetic *)
let ten_n = n_of_int 10
let n_of_string (s : string) : coq_N =
  let acc = ref N0 in
  String.iter (fun c ->
    if c >= '0' && c <= '9' then
      acc := N.add (N.mul !acc ten_n) (n_of_int (Char.code c - 48))
    else if c = '_' then () else failwith ("n_of_string: " ^ s)) s;
  !acc
let z_of_string (s : string) : coq_Z =
  if String.length s > 0 && s.[0] = '-' then
    (match n_of_string (String.sub s 1 (String.length s - 1)) with N0 -> Z0 | Npos p -> Zneg p)
  else (match n_of_string s with N0 -> Z0 | Npos p -> Zpos p)
let string_of_n (x : coq_N) : string =
  if x = N0 then "0" else begin
    let buf = Buffer.create 40 in
    let rec go x acc =
      if x = N0 then acc else
        let (q, r) = N.div_eucl x ten_n in
        go q (string_of_int (int_of_n r) :: acc) in
    List.iter (Buffer.add_string buf) (go x []); Buffer.contents buf
  end
let string_of_z = function
  | Z0 -> "0" | Zpos p -> string_of_n (Npos p) | Zneg p -> "-" ^ string_of_n (Npos p)

let codes_to_string (cs : coq_N list) : string =
  "[" ^ String.concat "," (List.map (fun c -> string_of_int (int_of_n c)) cs) ^ "]"

(* ---- names -------------------------------------------------------------- *)
let names : (string, int) Hashtbl.t = Hashtbl.create 64
let intern (s : string) : coq_N =
  match Hashtbl.find_opt names s with
  | Some i -> n_of_int i
  | None -> let i = Hashtbl.length names + 1 in Hashtbl.add names s i; n_of_int i

(* ---- program shapes (shared by C04/C05/C06) ------------------------------
   stmt ::= (L name) | (G name) | (I (uses) then [else]) | (B stmts)
          | (D name (uses)) | (A (uses)) | (X) | (P)
   prog ::= ((C names) (F (params) stmts) ...)                               *)
let rec label_stmt (s : sexp) : LabelScope.stmt =
  match s with
  | L [A "L"; A n] -> LabelScope.SLabel (intern n)
  | L [A "G"; A n] -> LabelScope.SGoto (intern n)
  | L [A "I"; _; t] -> LabelScope.SIf (label_stmt t, None)
  | L [A "I"; _; t; e] -> LabelScope.SIf (label_stmt t, Some (label_stmt e))
  | L (A "B" :: ss) -> LabelScope.SBlock (List.map label_stmt ss)
  | _ -> LabelScope.SOther

let functions_of (p : sexp) : sexp list list =
  match p with
  | L (_ :: fs) -> List.map (function L (A "F" :: _ :: body) -> body | _ -> failwith "fn") fs
  | _ -> failwith "prog"

let run_labels (p : sexp) : string =
  let bodies = List.map (List.map label_stmt) (functions_of p) in
  "model=" ^ codes_to_string (LabelScope.scan_program bodies []) ^
  " spec=" ^ codes_to_string (LabelScope.spec_program bodies)

(* ---- C06 ------------------------------------------------------------------ *)
let rec syntax_stmt (s : sexp) : Syntax.stmt =
  match s with
  | L [A "G"; _] -> Syntax.SGoto
  | L [A "X"] -> Syntax.SLoop
  | L [A "P"] -> Syntax.SPoison
  | L [A "I"; _; t] -> Syntax.SIf (syntax_stmt t, None)
  | L [A "I"; _; t; e] -> Syntax.SIf (syntax_stmt t, Some (syntax_stmt e))
  | L (A "B" :: ss) -> Syntax.SBlock (List.map syntax_stmt ss)
  | _ -> Syntax.SSimple

let not_return (s : sexp) = match s with L (A "R" :: _) -> false | _ -> true

let run_syntax (fixed : bool) (p : sexp) : string =
  let bodies = List.map (fun b -> List.map syntax_stmt (List.filter not_return b)) (functions_of p) in
  let cat f = List.concat (List.map f bodies) in
  "model=" ^ codes_to_string (cat (Syntax.body_codes fixed)) ^
  " spec=" ^ codes_to_string (cat Syntax.spec_body) ^
  " lint=" ^ codes_to_string (cat Syntax.lint_body) ^
  " lintspec=" ^ codes_to_string (cat Syntax.lint_spec_body)

(* ---- C05 ------------------------------------------------------------------ *)
let atoms (s : sexp) : coq_N list =
  match s with L xs -> List.map (function A n -> intern n | _ -> failwith "atom") xs | _ -> failwith "atoms"
let num (s : string) : coq_N = n_of_string s

let rec var_stmt (s : sexp) : VarScope.stmt =
  match s with
  | L [A "D"; A v; us] -> VarScope.SDecl (intern v, atoms us)
  | L [A "A"; us] -> VarScope.SUse (atoms us)
  | L [A "G"; A l] -> VarScope.SGoto (num l)
  | L [A "L"; A l] -> VarScope.SLabel (num l)
  | L [A "I"; us; t] -> VarScope.SIf (atoms us, var_stmt t, None)
  | L [A "I"; us; t; e] -> VarScope.SIf (atoms us, var_stmt t, Some (var_stmt e))
  | L (A "B" :: ss) -> VarScope.SBlock (List.map var_stmt ss)
  | _ -> VarScope.SNop

let var_func (f : sexp) : VarScope.func =
  match f with
  | L (A "F" :: ps :: body) ->
      let ret = List.concat (List.map (function L [A "R"; us] -> atoms us | _ -> []) body) in
      { VarScope.params = atoms ps;
        VarScope.body = List.map var_stmt (List.filter not_return body);
        VarScope.ret = ret }
  | _ -> failwith "func"

let run_vars (p : sexp) : string =
  match p with
  | L (L (A "C" :: cs) :: fs) ->
      let consts = List.map (function A n -> intern n | _ -> failwith "const") cs in
      let funcs = List.map var_func fs in
      "model=" ^ codes_to_string (VarScope.an_program consts funcs) ^
      " spec=" ^ codes_to_string (VarScope.spec_program consts funcs) ^
      " once=" ^ (if VarScopeProofs.once [] (VarScopeProofs.events funcs) then "true" else "false")
  | _ -> failwith "prog"

let dispatch (stream : string) (x : sexp) : string =
  match stream with
  | "labels" -> run_labels x
  | "vars" -> run_vars x
  | "syntax" -> run_syntax true x
  | "syntax-pinned" -> run_syntax false x
  | _ -> failwith ("unknown stream " ^ stream)

let () =
  try
    while true do
      let line = input_line stdin in
      match String.split_on_char '\t' line with
      | [stream; id; payload] ->
          Hashtbl.reset names;
          let res = try dispatch stream (parse_sexp payload)
                    with Failure m -> "MODEL-ERROR " ^ m | Not_found -> "MODEL-ERROR not_found" in
          print_string id; print_char '\t'; print_endline res
      | _ -> ()
    done
  with End_of_file -> ()
