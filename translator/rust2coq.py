#!/usr/bin/env python3
"""Regenerates coq/theories/Gen/*.v from the current source of /repo.
Each fragment is parsed with a purpose-written recogniser; anything it does not
recognise makes the fragment's status "unparsed: ..." (a broken tie)."""
import os, re, sys


def write_if_changed(path, text):
    old = open(path).read() if os.path.exists(path) else None
    if old != text:
        os.makedirs(os.path.dirname(path), exist_ok=True)
        open(path, "w").write(text)


def generate(repo, outdir):
    status = {}
    os.makedirs(outdir, exist_ok=True)
    return status


if __name__ == "__main__":
    print(generate(sys.argv[1] if len(sys.argv) > 1 else "/repo", sys.argv[2]))
