#!/usr/bin/env python3
"""Generator of programs for the C08 tie (mutability.rs / function_calls.rs vs
Model/Mutability.v).  Writes a case file `id<TAB>escaped source`.

Every program = fixed preamble (structures, constants, callees) + one `subject`
function that introduces a binding `x` of some type in some way (local var, by-value
/ view parameter, pointer parameter, slice-pointer parameter, pointer to pointer,
local pointer variable, constant), follows a path of 0-4 member / element steps and
performs one operation on what it reaches (assign, copy into a declaration, copy in
an assignment, return, pass as immediate argument, pass `&..`, pass without `&`,
take the length, ...).  Plus hand-written programs for the interactions between the
two passes and with the resolver.

usage: gen_c08.py OUT.cases [--list] [--random N SEED]
"""
import sys
try:
    from .c08tie import esc
except ImportError:
    from c08tie import esc

PRE = """struct P
{
	a: i32,
	b: i32,
}

struct Q
{
	p: P,
	arr: [3]i32,
	n: i32,
}

struct R
{
	q: Q,
	qs: [2]Q,
}

const KI: i32 = 5;
const KA: [3]i32 = [1, 2, 3];
const KP: P = P { a: 1, b: 2 };
const KQ: Q = Q { p: P { a: 1, b: 2 }, arr: [1, 2, 3], n: 3 };

fn take_val(v: i32) -> i32
{
	return: v
}

fn take_ptr(v: &i32)
{
	v = 1;
}

fn take_pp(v: &&i32, w: &i32)
{
	&v = &w;
}

fn take_view(v: []i32) -> i32
{
	return: v[0]
}

fn take_sp(v: &[]i32)
{
	v[0] = 1;
}

fn take_arrp(v: &[3]i32)
{
	v[0] = 1;
}

fn take_struct(v: P) -> i32
{
	return: v.a
}

fn take_structp(v: &P)
{
	v.a = 1;
}

fn take_q(v: Q) -> i32
{
	return: v.n
}

fn take_qp(v: &Q)
{
	v.n = 1;
}

fn take_views(v: []P) -> i32
{
	return: 0
}

fn take_two(v: i32, w: i32) -> i32
{
	return: v + w
}

"""

# types: name -> (syntax, initialiser, by-value parameter syntax or None)
P_INIT = "P { a: 1, b: 2 }"
Q_INIT = "Q { p: %s, arr: [1, 2, 3], n: 3 }" % P_INIT
TYPES = {
    "I": ("i32", "1", "i32"),
    "A3": ("[3]i32", "[1, 2, 3]", "[]i32"),
    "P": ("P", P_INIT, "P"),
    "Q": ("Q", Q_INIT, "Q"),
    "R": ("R", "R { q: %s, qs: [%s, %s] }" % (Q_INIT, Q_INIT, Q_INIT), "R"),
    "AP": ("[2]P", "[%s, %s]" % (P_INIT, P_INIT), "[]P"),
    "AA": ("[2][3]i32", "[[1, 2, 3], [4, 5, 6]]", "[][3]i32"),
    "AQ": ("[2]Q", "[%s, %s]" % (Q_INIT, Q_INIT), "[]Q"),
}
# paths: type -> list of (suffix, type reached); depth = number of steps
PATHS = {
    "I": [("", "I")],
    "A3": [("", "A3"), ("[1]", "I"), ("[i]", "I")],
    "P": [("", "P"), (".a", "I")],
    "Q": [("", "Q"), (".p", "P"), (".p.a", "I"), (".arr", "A3"), (".arr[1]", "I"), (".n", "I")],
    "R": [("", "R"), (".q", "Q"), (".q.p", "P"), (".q.p.a", "I"), (".q.arr", "A3"), (".q.arr[2]", "I"),
          (".qs", "AQ"), (".qs[1]", "Q"), (".qs[1].p", "P"), (".qs[i].arr", "A3"), (".qs[1].arr[0]", "I"), (".qs[1].p.a", "I")],
    "AP": [("", "AP"), ("[1]", "P"), ("[1].a", "I"), ("[i].b", "I")],
    "AA": [("", "AA"), ("[1]", "A3"), ("[1][2]", "I"), ("[i][i]", "I")],
}


def bindings(t):
    """(key, parameter list, local statements) introducing `x` of (a pointer to / view of) type t."""
    syn, init, byval = TYPES[t]
    out = [("var", "", "\tvar x: %s = %s;\n" % (syn, init)),
           ("param", "x: %s" % byval, ""),
           ("ptrparam", "x: &%s" % syn, ""),
           ("ptrvar", "", "\tvar xx: %s = %s;\n\tvar x: &%s = &xx;\n" % (syn, init, syn))]
    if t in ("A3", "AP", "AA"):
        out.append(("sliceptrparam", "x: &%s" % byval, ""))
        out.append(("viewvar", "", "\tvar xx: %s = %s;\n\tvar x: %s = xx;\n" % (syn, init, byval)))
    if t == "I":
        out.append(("ptrptrparam", "x: &&i32", ""))
        out.append(("ptrptrvar", "", "\tvar xx: i32 = 1;\n\tvar xp: &i32 = &xx;\n\tvar x: &&i32 = &&xp;\n"))
    const = {"I": "KI", "A3": "KA", "P": "KP", "Q": "KQ"}.get(t)
    if const:
        out.append(("const", "", None))      # x is spelled as the constant
    return out, const


def operations(u):
    """(key, extra locals, statement(s), return type/value or None) on the place `@` of type u."""
    syn, init, byval = TYPES[u] if u in TYPES else (None, None, None)
    ops = []
    if u == "I":
        ops += [("assign", "", "\t@ = 7;\n"),
                ("assign-call", "", "\t@ = take_val(3);\n"),
                ("addr-arg", "", "\ttake_ptr(&@);\n"),
                ("noaddr-arg", "", "\ttake_ptr(@);\n"),
                ("val-arg", "", "\tvar y = take_val(@);\n"),
                ("copy-decl", "", "\tvar y: i32 = @;\n"),
                ("addr-decl", "", "\tvar y: &i32 = &@;\n\ty = 3;\n"),
                ("two-args", "", "\tvar y = take_two(@, @);\n")]
    if u == "A3":
        ops += [("assign-lit", "", "\t@ = [7, 8, 9];\n"),
                ("assign-copy", "\tvar o: [3]i32 = [4, 5, 6];\n", "\t@ = o;\n"),
                ("copy-from", "\tvar o: [3]i32 = [4, 5, 6];\n", "\to = @;\n"),
                ("copy-decl", "", "\tvar y = @;\n"),
                ("copy-decl-typed", "", "\tvar y: [3]i32 = @;\n"),
                ("view-decl", "", "\tvar y: []i32 = @;\n"),
                ("val-arg", "", "\tvar y = take_view(@);\n"),
                ("val-arg-paren", "", "\tvar y = take_view((@));\n"),
                ("val-arg-stmt", "", "\ttake_view(@);\n"),
                ("val-arg-nested", "", "\tvar y = take_val(take_view(@));\n"),
                ("val-arg-sum", "", "\tvar y = 1 + take_view(@);\n"),
                ("addr-arg-sp", "", "\ttake_sp(&@);\n"),
                ("noaddr-arg-sp", "", "\ttake_sp(@);\n"),
                ("addr-arg-arrp", "", "\ttake_arrp(&@);\n"),
                ("noaddr-arg-arrp", "", "\ttake_arrp(@);\n"),
                ("length", "", "\tvar y = |@|;\n"),
                ("in-struct-lit-arg", "", "\tvar y = take_q(Q { p: KP, arr: @, n: 1 });\n"),
                ("in-array-lit", "", "\tvar y = [@, @];\n"),
                ("cond", "", "\tif take_view(@) == 1\n\t{\n\t\ttake_view(@);\n\t}\n")]
    if u == "P":
        ops += [("assign-lit", "", "\t@ = P { a: 7, b: 8 };\n"),
                ("assign-copy", "\tvar o = P { a: 4, b: 5 };\n", "\t@ = o;\n"),
                ("copy-from", "\tvar o = P { a: 4, b: 5 };\n", "\to = @;\n"),
                ("copy-decl", "", "\tvar y = @;\n"),
                ("copy-decl-typed", "", "\tvar y: P = @;\n"),
                ("val-arg", "", "\tvar y = take_struct(@);\n"),
                ("val-arg-stmt", "", "\ttake_struct(@);\n"),
                ("addr-arg", "", "\ttake_structp(&@);\n"),
                ("noaddr-arg", "", "\ttake_structp(@);\n"),
                ("in-struct-lit-arg", "", "\tvar y = take_q(Q { p: @, arr: KA, n: 1 });\n"),
                ("in-struct-lit-arg-2nd", "", "\tvar y = take_q(Q { p: P { a: 1, b: take_val(2) }, arr: KA, n: take_struct(@) });\n"),
                ("in-struct-lit-decl", "", "\tvar y = Q { p: @, arr: [1, 2, 3], n: 1 };\n"),
                ("in-array-lit-arg", "", "\tvar y = take_views([@, @]);\n")]
    if u == "Q":
        ops += [("assign-copy", "\tvar o = %s;\n" % Q_INIT, "\t@ = o;\n"),
                ("copy-decl", "", "\tvar y = @;\n"),
                ("val-arg", "", "\tvar y = take_q(@);\n"),
                ("addr-arg", "", "\ttake_qp(&@);\n"),
                ("noaddr-arg", "", "\ttake_qp(@);\n")]
    if u in ("AP", "AA", "AQ", "R"):
        ops += [("copy-decl", "", "\tvar y = @;\n")]
        if u == "AP":
            ops += [("val-arg", "", "\tvar y = take_views(@);\n"), ("length", "", "\tvar y = |@|;\n")]
    return ops


def program(params, locals_, body, ret=None):
    head = "fn subject(%s)%s\n{\n\tvar i: usize = 1;\n" % (params, " -> " + ret[0] if ret else "")
    tail = ("\treturn: %s\n" % ret[1] if ret else "") + "}\n"
    return PRE + head + locals_ + body + tail


def generate():
    cases = []
    for t in ("I", "A3", "P", "Q", "R", "AP", "AA"):
        binds, const = bindings(t)
        for bkey, params, locals_ in binds:
            x = const if bkey == "const" else "x"
            for suffix, u in PATHS[t]:
                place = x + suffix
                for okey, extra, stmt in operations(u):
                    cid = "%s:%s:%s:%s" % (t, bkey, suffix or "-", okey)
                    cases.append((cid, program(params, (locals_ or "") + extra, stmt.replace("@", place))))
                # returning the place
                if u in ("I", "A3", "P"):
                    rt = {"I": "i32", "A3": "[3]i32", "P": "P"}[u]
                    cases.append(("%s:%s:%s:return" % (t, bkey, suffix or "-"), program(params, locals_ or "", "", (rt, place))))
            # retargeting a pointer binding
            if bkey in ("ptrparam", "ptrvar") and t in ("I", "P", "A3"):
                syn, init, _ = TYPES[t]
                cases.append(("%s:%s:retarget" % (t, bkey), program(params, (locals_ or "") + "\tvar o: %s = %s;\n" % (syn, init), "\t&x = &o;\n")))
            if bkey in ("ptrptrparam", "ptrptrvar"):
                cases.append(("I:%s:retarget-inner" % bkey, program(params, (locals_ or "") + "\tvar o: i32 = 2;\n", "\t&x = &o;\n")))
                cases.append(("I:%s:retarget-outer" % bkey, program(params, (locals_ or "") + "\tvar o: i32 = 2;\n\tvar op: &i32 = &o;\n", "\t&&x = &&op;\n")))
                cases.append(("I:%s:pass-pp" % bkey, program(params, (locals_ or "") + "\tvar o: i32 = 2;\n", "\ttake_pp(&&x, &o);\n")))
                cases.append(("I:%s:pass-pp-1" % bkey, program(params, (locals_ or "") + "\tvar o: i32 = 2;\n", "\ttake_pp(&x, &o);\n")))
                cases.append(("I:%s:pass-pp-0" % bkey, program(params, (locals_ or "") + "\tvar o: i32 = 2;\n", "\ttake_pp(x, &o);\n")))
    cases += special()
    return cases


def special():
    """Interactions between the passes, flag threading, arity, resolver masking."""
    S = []
    def add(cid, params, body, ret=None):
        S.append(("special:" + cid, program(params, "", body, ret)))
    # mutability.rs replaces an assignment whose value holds a function_calls.rs error
    add("masked-copy-under-530", "x: []i32", "\tvar o: [3]i32 = [1, 2, 3];\n\tx = o;\n")
    add("masked-call-under-530", "x: i32", "\tx = take_val(1, 2);\n")
    add("masked-513-under-530", "x: i32", "\tvar o: i32 = 1;\n\tx = take_two(1, 2) + take_val(KI);\n\ttake_ptr(o);\n")
    add("masked-struct-copy-under-530", "x: P", "\tvar o = P { a: 1, b: 2 };\n\tx = o;\n")
    add("const-assign-bad-call", "", "\tKI = take_val();\n")
    # a Deref that mutability.rs poisons, holding an index with an error
    add("addr-of-const-elem-bad-index", "", "\ttake_ptr(&KA[take_val(1, 2)]);\n")
    # resolver: failing index hides the copy error of the Deref itself
    add("index-fails-copy", "", "\tvar m: [2][3]i32 = [[1, 2, 3], [4, 5, 6]];\n\tvar j: usize = 0;\n\tvar y = m[take_val(j, j)];\n")
    add("index-ok-copy", "", "\tvar m: [2][3]i32 = [[1, 2, 3], [4, 5, 6]];\n\tvar j: usize = 0;\n\tvar y = m[j];\n")
    # arity and type mismatches
    add("too-few", "", "\tvar y = take_two(1);\n")
    add("too-many", "", "\tvar y = take_val(1, 2);\n")
    add("too-few-stmt", "", "\ttake_ptr();\n")
    add("too-many-stmt", "", "\tvar o: i32 = 1;\n\ttake_ptr(&o, &o);\n")
    add("mismatch-u8", "", "\tvar o: u8 = 1;\n\tvar y = take_val(o);\n")
    add("mismatch-ptr-for-val", "", "\tvar o: i32 = 1;\n\tvar y = take_val(&o);\n")
    add("mismatch-array-for-struct", "", "\tvar o: [3]i32 = [1, 2, 3];\n\tvar y = take_struct(o);\n")
    add("mismatch-struct-for-array", "", "\tvar o = P { a: 1, b: 2 };\n\tvar y = take_view(o);\n")
    add("mismatch-wrong-array-ptr", "", "\tvar o: [2]i32 = [1, 2];\n\ttake_arrp(&o);\n")
    add("mismatch-wrong-array-noaddr", "", "\tvar o: [2]i32 = [1, 2];\n\ttake_arrp(o);\n")
    add("noaddr-literal", "", "\ttake_ptr(5);\n")
    add("noaddr-sum", "", "\tvar o: i32 = 1;\n\ttake_ptr(o + 1);\n")
    add("noaddr-paren", "", "\tvar o: i32 = 1;\n\ttake_ptr((o));\n")
    add("noaddr-second-arg", "", "\tvar o: i32 = 1;\n\tvar p: &i32 = &o;\n\tvar pp: &&i32 = &&p;\n\ttake_pp(&&p, o);\n")
    add("nested-failing-calls", "", "\tvar y = take_val(take_val(1, 2), 3);\n")
    add("failing-call-in-arg", "", "\tvar y = take_val(take_val(1, 2));\n")
    add("failing-call-with-copy-arg", "", "\tvar o: [3]i32 = [1, 2, 3];\n\tvar y = take_two(take_view(o), o);\n")
    add("ok-call-then-copy", "", "\tvar o: [3]i32 = [1, 2, 3];\n\tvar y = take_view(o);\n\tvar z = o;\n")
    # flag threading through struct literals in immediate-argument position
    add("struct-lit-arg-members", "", "\tvar o = P { a: 1, b: 2 };\n\tvar a: [3]i32 = [1, 2, 3];\n\tvar y = take_q(Q { p: o, arr: a, n: 1 });\n")
    add("struct-lit-arg-after-call", "", "\tvar o = P { a: 1, b: 2 };\n\tvar a: [3]i32 = [1, 2, 3];\n\tvar y = take_q(Q { n: take_val(1), p: o, arr: a });\n")
    add("struct-lit-arg-after-index", "", "\tvar o = P { a: 1, b: 2 };\n\tvar a: [3]i32 = [1, 2, 3];\n\tvar j: usize = 0;\n\tvar y = take_q(Q { n: a[j], p: o, arr: a });\n")
    add("struct-lit-arg-after-sum", "", "\tvar o = P { a: 1, b: 2 };\n\tvar a: [3]i32 = [1, 2, 3];\n\tvar y = take_q(Q { n: 1 + 2, p: o, arr: a });\n")
    add("struct-lit-arg-after-paren", "", "\tvar o = P { a: 1, b: 2 };\n\tvar a: [3]i32 = [1, 2, 3];\n\tvar y = take_q(Q { n: (1), p: o, arr: a });\n")
    add("struct-lit-decl-members", "", "\tvar o = P { a: 1, b: 2 };\n\tvar a: [3]i32 = [1, 2, 3];\n\tvar y = Q { p: o, arr: a, n: 1 };\n")
    add("nested-struct-lit-arg", "", "\tvar a: [3]i32 = [1, 2, 3];\n\tvar y = take_q(Q { p: P { a: 1, b: 2 }, arr: a, n: 1 });\n")
    # conditions, blocks, else branches; declarations inside branches
    add("cond-copy", "", "\tvar a: [3]i32 = [1, 2, 3];\n\tvar b: [3]i32 = [1, 2, 3];\n\tif take_view(a) == take_view(b)\n\t{\n\t\ta = b;\n\t}\n\telse\n\t{\n\t\tb = a;\n\t}\n")
    add("cond-assign-param", "x: i32", "\tif x == 1\n\t{\n\t\tx = 2;\n\t}\n\telse if x == 2\n\t{\n\t\tx = 3;\n\t}\n\telse\n\t{\n\t\tx = 4;\n\t}\n")
    add("block-var-then-assign", "x: i32", "\t{\n\t\tvar y: i32 = x;\n\t\ty = 2;\n\t}\n")
    add("loop-assign-param", "x: i32", "\t{\n\t\tx = x + 1;\n\t\tloop;\n\t}\n")
    # length of immutable things, address of elements in indices
    add("length-const", "", "\tvar y = |KA|;\n")
    add("length-view-param", "x: []i32", "\tvar y = |x|;\n")
    add("length-sliceptr-param", "x: &[]i32", "\tvar y = |x|;\n")
    add("index-with-addr", "x: []i32", "\tvar j: usize = 0;\n\tvar y = x[take_val(x[j]) as usize];\n")
    # declared types that cannot be variables
    add("var-view-of-struct", "", "\tvar o = P { a: 1, b: 2 };\n\tvar y: (P) = o;\n")
    add("var-endless", "", "\tvar y: [..]i32 = [1, 2, 3];\n")
    add("var-sliceptr", "", "\tvar a: [3]i32 = [1, 2, 3];\n\tvar y: &[]i32 = &a;\n\ty[0] = 2;\n")
    add("var-slice-assign-elem", "", "\tvar a: [3]i32 = [1, 2, 3];\n\tvar y: []i32 = a;\n\ty[0] = 2;\n")
    add("var-slice-reassign", "", "\tvar a: [3]i32 = [1, 2, 3];\n\tvar y: []i32 = a;\n\ty = a;\n")
    add("var-void", "", "\tvar y: void = 1;\n")
    # builtins take aggregates as immediate arguments
    add("print-array", "", "\tvar a: [3]i32 = [1, 2, 3];\n\tprint!(a);\n")
    add("print-struct-elem", "", "\tvar o = P { a: 1, b: 2 };\n\tprint!(o, o.a, KA, KA[1]);\n")
    add("dbg-struct", "", "\tvar o = P { a: 1, b: 2 };\n\tdbg!(o);\n")
    add("format-array", "", "\tvar a: [3]i32 = [1, 2, 3];\n\tvar s = format!(a, 1);\n")
    add("print-sum-of-calls", "", "\tvar a: [3]i32 = [1, 2, 3];\n\tprint!(take_view(a) + take_view(a));\n")
    add("panic-struct", "", "\tvar o = P { a: 1, b: 2 };\n\tpanic!(o);\n")
    # named lengths, words, endless arrays
    S.append(("special:named-length", PRE + "const N: usize = 3;\nfn subject(v: [][N]i32)\n{\n\tvar a: [N]i32 = [1, 2, 3];\n\tvar b: [N]i32 = a;\n\tvar c = v[0];\n\tvar n = take_view(a);\n\ta[0] = 2;\n\tKA[0] = 2;\n}\n"))
    S.append(("special:word", PRE + "word32 W\n{\n\tlo: u16,\n\thi: u16,\n}\nfn take_w(w: W) -> u16\n{\n\treturn: w.lo\n}\nfn take_wp(w: &W)\n{\n\tw.lo = 1;\n}\nfn subject(x: W)\n{\n\tvar w = W { lo: 1, hi: 2 };\n\tvar c = w;\n\tvar d = x;\n\tvar n = take_w(w);\n\ttake_wp(&w);\n\ttake_wp(w);\n\tw.hi = 3;\n}\n"))
    S.append(("special:word-param-assign", PRE + "word32 W\n{\n\tlo: u16,\n\thi: u16,\n}\nfn subject(x: W)\n{\n\tx.lo = 1;\n}\n"))
    S.append(("special:endless", PRE + "extern fn fill(dst: &[]u8, n: usize);\nextern fn look(src: []u8, n: usize);\nfn subject(p: &[..]u8, q: ([..]u8))\n{\n\tvar a: [4]u8 = [1, 2, 3, 4];\n\tfill(&a, 4);\n\tfill(a, 4);\n\tlook(a, 4);\n\tfill(p, 4);\n\tfill(&p, 4);\n\tp[0] = 1;\n\tq[0] = 1;\n\tlook(q, 4);\n\tvar c = q;\n}\n"))
    S.append(("special:endless-ok", PRE + "extern fn fill(dst: &[]u8, n: usize);\nextern fn look(src: []u8, n: usize);\nfn subject(p: &[..]u8, q: ([..]u8))\n{\n\tvar a: [4]u8 = [1, 2, 3, 4];\n\tfill(&a, 4);\n\tlook(a, 4);\n\tfill(&p, 4);\n\tp[0] = 1;\n\tlook(q, 4);\n}\n"))
    S.append(("special:endless-noaddr", PRE + "extern fn fill(dst: &[]u8, n: usize);\nfn subject()\n{\n\tvar a: [4]u8 = [1, 2, 3, 4];\n\tfill(a, 4);\n}\n"))
    S.append(("special:endless-view-write", PRE + "fn subject(q: ([..]u8))\n{\n\tq[0] = 1;\n}\n"))
    S.append(("special:pointer-to-view", PRE + "fn subject(q: &[]i32, r: []i32)\n{\n\tq[1] = r[0];\n\tr[1] = q[0];\n}\n"))
    S.append(("special:string-slices", "fn show(s: []char8) -> usize\n{\n\treturn: |s|\n}\nfn subject(t: []char8)\n{\n\tvar n = show(\"abc\");\n\tvar m = show(t);\n\tvar u = t;\n\tvar v: []char8 = \"abc\";\n}\n"))
    S.append(("special:struct-with-pointer-member", "struct N\n{\n\tval: i32,\n\tnext: &N,\n}\nfn subject(n: N, m: &N)\n{\n\tn.next.val = 1;\n\tm.next.val = 2;\n\tn.val = 3;\n\tm.val = 4;\n\tm.next.next.val = 5;\n\tn.next.next.val = 6;\n}\n"))
    S.append(("special:struct-with-pointer-member-retarget", "struct N\n{\n\tval: i32,\n\tnext: &N,\n}\nfn subject(n: N, m: &N)\n{\n\t&n.next = &m;\n}\n"))
    S.append(("special:struct-with-pointer-member-retarget-ok", "struct N\n{\n\tval: i32,\n\tnext: &N,\n}\nfn subject(n: N, m: &N)\n{\n\t&m.next = &m;\n}\n"))
    S.append(("special:addr-through-pointer-member", "struct N\n{\n\tval: i32,\n\tnext: &N,\n}\nfn bump(v: &i32)\n{\n\tv = v + 1;\n}\nfn subject(n: N)\n{\n\tbump(&n.next.val);\n\tbump(&n.val);\n}\n"))
    # aggregates as operands: resolver codes next to the copy codes
    add("compare-arrays", "", "\tvar a: [3]i32 = [1, 2, 3];\n\tvar b: [3]i32 = [1, 2, 3];\n\tif a == b\n\t{\n\t\ta[0] = 2;\n\t}\n")
    add("add-arrays", "", "\tvar a: [3]i32 = [1, 2, 3];\n\tvar b: [3]i32 = [1, 2, 3];\n\tvar c = a + b;\n")
    add("compare-structs", "x: P", "\tvar o = P { a: 1, b: 2 };\n\tif o == x\n\t{\n\t\tx.a = 2;\n\t}\n")
    add("negate-array", "", "\tvar a: [3]i32 = [1, 2, 3];\n\tvar c = -a;\n")
    add("untyped-decl-with-bad-call", "", "\tvar c = take_val(1, 2);\n")
    add("cast-array", "", "\tvar a: [3]i32 = [1, 2, 3];\n\tvar c = a as i32;\n")
    add("compare-pointer-with-addr-of-const", "x: &i32", "\tif x == &KI\n\t{\n\t\tx = 2;\n\t}\n")
    add("addr-of-param-in-comparison", "x: &i32, z: i32", "\tif x == &z\n\t{\n\t\tx = 2;\n\t}\n")
    # explicit slices and views as local variables
    add("var-explicit-slice", "", "\tvar a: [3]i32 = [1, 2, 3];\n\tvar y: [:]i32 = a;\n\ty[0] = 2;\n")
    add("var-explicit-slice-read", "", "\tvar a: [3]i32 = [1, 2, 3];\n\tvar y: [:]i32 = a;\n\tvar z = y[0];\n\tvar n = take_view(y);\n\tvar c = y;\n")
    add("var-explicit-sliceptr", "", "\tvar a: [3]i32 = [1, 2, 3];\n\tvar y: &[:]i32 = &a;\n\ty[0] = 2;\n\ttake_sp(y);\n\ttake_sp(&y);\n")
    add("var-view-paren", "x: P", "\tvar y: (P) = x;\n\ty.a = 1;\n")
    add("param-explicit-view", "x: (P), z: ([3]i32)", "\tx.a = 1;\n\tz[0] = 1;\n\tvar c = take_struct(x);\n\tvar d = take_view(z);\n")
    # constants
    S.append(("special:const-copy-array", PRE + "const KB: [3]i32 = KA;\n"))
    S.append(("special:const-copy-struct", PRE + "const KB: P = KP;\n"))
    S.append(("special:const-plus-function-error", PRE + "const KB: [3]i32 = KA;\nfn subject(x: i32)\n{\n\tx = 1;\n}\n"))
    S.append(("special:forward-declared", PRE + "fn later(v: &i32);\nfn subject()\n{\n\tvar o: i32 = 1;\n\tlater(o);\n\tlater(&o);\n}\nfn later(v: &i32)\n{\n\tv = 2;\n}\n"))
    S.append(("special:extern-head", PRE + "extern fn ext(v: &i32, n: usize);\nfn subject()\n{\n\tvar o: i32 = 1;\n\text(o, 1);\n\text(&o, 1);\n\text(&o);\n}\n"))
    S.append(("special:member-named-like-param", "struct S\n{\n\tx: i32,\n}\nfn subject(x: i32, s: &S)\n{\n\ts.x = x;\n}\n"))
    S.append(("special:two-functions-same-names", "fn f(x: i32)\n{\n\tvar y = x;\n\ty = 1;\n}\nfn g(y: i32)\n{\n\tvar x = y;\n\tx = 1;\n\ty = 2;\n}\n"))
    return S


def random_programs(n, seed):
    """Several bindings and operations in one function, some inside blocks and branches."""
    import random, re
    rnd = random.Random(seed)
    out = []
    bad_path = re.compile(r"\]\.|\]\[")       # element-then-member / element-then-element: rejected by the typer
    for k in range(n):
        params, locals_, places = [], "", []
        for j in range(rnd.randint(2, 4)):
            t = rnd.choice(["I", "I", "A3", "A3", "P", "P", "Q", "R", "AA"])
            binds, const = bindings(t)
            bkey, ps, ls = rnd.choice(binds)
            name = "x%d" % j
            if bkey == "const":
                name = const
            else:
                if ps: params.append(ps.replace("x:", name + ":"))
                if ls: locals_ += ls.replace("xx", name + "x").replace("xp", name + "p").replace("var x:", "var %s:" % name)
            for suffix, u in PATHS[t]:
                if not bad_path.search(suffix): places.append((name + suffix, u))
        stmts = []
        for j in range(rnd.randint(3, 7)):
            place, u = rnd.choice(places)
            ops = operations(u)
            if not ops: continue
            okey, extra, stmt = rnd.choice(ops)
            text = (extra + stmt).replace("@", place)
            text = re.sub(r"\b([yo])\b", lambda m: "%s%d" % (m.group(1), j), text)
            shape = rnd.random()
            if shape < 0.2:
                text = "\t{\n" + text.replace("\t", "\t\t", 1).replace("\n\t", "\n\t\t") + "\t}\n"
            elif shape < 0.4:
                c = rnd.choice([p for p, uu in places if uu == "I"] or ["KI"])
                text = "\tif %s == 1\n\t{\n" % c + text.replace("\t", "\t\t", 1).replace("\n\t", "\n\t\t") + "\t}\n"
                if rnd.random() < 0.5:
                    text += "\telse\n\t{\n\t\ttake_val(%s);\n\t}\n" % c
            stmts.append(text)
        src = program(", ".join(params), locals_, "".join(stmts))
        # a caller that passes each parameter correctly, without `&`, with one `&` too many, ...
        if params and rnd.random() < 0.7:
            decls, args = "", []
            for j, p in enumerate(params):
                pt = p.split(": ", 1)[1]
                base = pt.lstrip("&")
                depth = len(pt) - len(base)
                local = {"[]i32": "[3]i32", "[][3]i32": "[2][3]i32", "[]P": "[2]P"}.get(base, base)
                key = [k2 for k2, v in TYPES.items() if v[0] == local][0]
                decls += "\tvar a%d: %s = %s;\n" % (j, local, TYPES[key][1])
                name = "a%d" % j
                if depth == 2:
                    decls += "\tvar p%d: &%s = &a%d;\n" % (j, local, j); name = "p%d" % j; depth = 1
                d = depth
                r = rnd.random()
                if r < 0.25: d = max(0, depth - 1)
                elif r < 0.35: d = depth + 1
                elif r < 0.40: name = "KI"
                args.append("&" * d + name)
            r = rnd.random()
            if r < 0.08: args = args[:-1]
            elif r < 0.16: args.append("1")
            src += "\nfn caller()\n{\n" + decls + "\tsubject(%s);\n}\n" % ", ".join(args)
        out.append(("random:%d" % k, src))
    return out


def main(argv):
    cases = generate()
    if "--random" in argv:
        i = argv.index("--random")
        cases = random_programs(int(argv[i + 1]), int(argv[i + 2]))
        argv = argv[:i] + argv[i + 3:]
    if "--list" in argv:
        for cid, _ in cases: print(cid)
        return 0
    with open(argv[0], "w") as f:
        for cid, src in cases:
            f.write("%s\t%s\n" % (cid, esc(src)))
    print("%d programs written to %s" % (len(cases), argv[0]))
    return 0


if __name__ == "__main__":
    sys.exit(main(sys.argv[1:]))
