"""Generator of well-typed, terminating, (mostly) UB-free Penne programs.
Each program is a Python tree with two renderings:
  * `source(prog, rng)` — Penne source text in a random layout (indentation,
    comments, redundant parentheses, literal spellings, optional suffixes);
  * `sexp(prog)` — the s-expression the extracted interpreter (Model/Sem.v) reads.
Phases: v1 scalars of every primitive type, control flow (if/else, goto, loop,
nested blocks), by-value calls; v2 arrays, views, pointers, address assignment;
v3 structs, words, constants."""
import random

INTS = ["i8", "i16", "i32", "i64", "i128", "u8", "u16", "u32", "u64", "u128", "usize"]
PRIMS = INTS + ["char8", "bool"]
WIDTH = {"i8": 8, "i16": 16, "i32": 32, "i64": 64, "i128": 128, "u8": 8, "u16": 16, "u32": 32, "u64": 64,
         "u128": 128, "usize": 64, "char8": 8, "bool": 1}
SIGNED = {"i8", "i16", "i32", "i64", "i128"}
BITFIELD = {"u8", "u16", "u32", "u64", "u128"}
ARITH = set(INTS) | {"char8"}


def tmin(t): return -(1 << (WIDTH[t] - 1)) if t in SIGNED else 0
def tmax(t): return (1 << (WIDTH[t] - 1)) - 1 if t in SIGNED else (1 << WIDTH[t]) - 1


class Gen:
    def __init__(self, rng, level=2, max_funcs=3, with_structs=True):
        self.rng = rng
        self.level = level
        self.with_structs = with_structs
        self.funcs = []       # (name, params [(x,T)], ret T|None, body, result)
        self.structs = []     # (name, kind, [(m, T)])
        self.consts = []      # (name, T, expr)
        self.counter = 0
        self.max_funcs = max_funcs

    def fresh(self, prefix):
        self.counter += 1
        return "%s%d" % (prefix, self.counter)

    # ---- literals ----------------------------------------------------------
    def lit_value(self, t):
        r = self.rng
        if t == "bool": return r.choice([0, 1])
        if t == "char8": return r.choice([65, 66, 97, 120, 48, 57, 32, 126])
        lo, hi = tmin(t), tmax(t)
        k = r.random()
        if k < 0.25: return r.choice([0, 1, 2, 3, 7, 10])
        if k < 0.40: return r.choice([hi, hi - 1, lo, lo + 1 if lo < 0 else 1])
        if k < 0.55: return r.randint(max(lo, -200), min(hi, 200))
        return r.randint(lo, hi)

    def lit(self, t, v=None):
        return ("lit", t, self.lit_value(t) if v is None else v)

    # ---- expressions ---------------------------------------------------------
    def expr(self, t, env, depth):
        """env: list of (name, type) of scalar variables readable here."""
        r = self.rng
        vars_t = [x for x, ty in env if ty == t]
        if self.level >= 2 and depth > 0 and r.random() < 0.12:
            arrs = [(x, ty) for x, ty in env if isinstance(ty, tuple) and ty[0] == "arr" and ty[2] == t and ty[1] > 0]
            if arrs:
                a, ty = r.choice(arrs)
                return ("idx", ("var", a), ("lit", "usize", r.randrange(ty[1])))
            if t == "usize":
                arrs = [(x, ty) for x, ty in env if isinstance(ty, tuple) and ty[0] == "arr"]
                if arrs: return ("len", ("var", r.choice(arrs)[0]))
        if self.level >= 3 and r.random() < 0.10:
            ks = [n for n, ty, _ in self.consts if ty == t]
            if ks: return ("var", r.choice(ks))
            sts = [(x, ty) for x, ty in env if isinstance(ty, tuple) and ty[0] == "struct"]
            if sts:
                x, ty = r.choice(sts)
                ms = [m for m, mt in self.struct_members(ty[1]) if mt == t]
                if ms: return ("mem", ("var", x), r.choice(ms))
        if depth <= 0 or r.random() < 0.25:
            if vars_t and r.random() < 0.65: return ("var", r.choice(vars_t))
            return self.lit(t)
        k = r.random()
        if t == "bool":
            if k < 0.3: return ("un", "!", self.expr(t, env, depth - 1))
            if vars_t: return ("var", r.choice(vars_t))
            return self.lit(t)
        if k < 0.50 and t in ARITH:
            op = r.choice(["+", "-", "*", "+", "-", "/", "%"])
            l = self.expr(t, env, depth - 1)
            if op in "/%":
                # divisor: a non-zero literal other than -1 (no division UB)
                d = r.choice([v for v in (1, 2, 3, 5, 7, 10, 16, 100, -2, -3, -7) if tmin(t) <= v <= tmax(t)])
                rr = self.lit(t, d)
            else:
                rr = self.expr(t, env, depth - 1)
            return ("bin", op, l, rr)
        if k < 0.62 and t in BITFIELD:
            op = r.choice(["&", "|", "^", "<<", ">>"])
            l = self.expr(t, env, depth - 1)
            if op in ("<<", ">>"):
                rr = self.lit(t, r.randint(0, WIDTH[t] - 1))
            else:
                rr = self.expr(t, env, depth - 1)
            return ("bin", op, l, rr)
        if k < 0.68 and t in SIGNED:
            return ("un", "-", self.expr(t, env, depth - 1))
        if k < 0.72 and t in BITFIELD:
            return ("un", "!", self.expr(t, env, depth - 1))
        if k < 0.84:
            # cast from another primitive type (valid conversions only)
            srcs = self.cast_sources(t)
            if srcs:
                s = r.choice(srcs)
                return ("cast", t, self.expr(s, env, depth - 1), s)
        if k < 0.92:
            cands = [f for f in self.funcs if f[2] == t and not f[5]]
            if cands:
                f = r.choice(cands)
                return ("call", f[0], [self.expr(pt, env, depth - 1) for _, pt in f[1]])
        if k < 0.96:
            return ("paren", self.expr(t, env, depth - 1))
        if vars_t: return ("var", r.choice(vars_t))
        return self.lit(t)

    def cast_sources(self, t):
        if t in INTS: return [s for s in INTS if s != t] + ["bool"]
        if t == "char8": return ["u8"]
        return []

    def cmp(self, env, depth):
        r = self.rng
        types = sorted({ty for _, ty in env if isinstance(ty, str) and ty in PRIMS}) or ["i32"]
        t = r.choice(types + ["i32", "u8"])
        op = r.choice(["==", "!=", "<", "<=", ">", ">="]) if t != "bool" or True else "=="
        return ("cmp", op, self.expr(t, env, depth), self.expr(t, env, depth), t)

    # ---- statements ------------------------------------------------------------
    def block(self, env, depth, n, in_loop=False):
        """returns list of statements; env is copied (block scope)."""
        r = self.rng
        env = list(env)
        out = []
        end_label = None
        for _ in range(n):
            k = r.random()
            if self.level >= 2 and r.random() < 0.25:
                out += self.mem_stmts(env)
                continue
            if k < 0.22:
                t = r.choice(PRIMS)
                x = self.fresh("v")
                out.append(("decl", x, t, self.expr(t, env, 2)))
                env.append((x, t))
            elif k < 0.45 and env:
                cands = [e for e in env if e[0].startswith("v")]
                if not cands: continue
                x, t = r.choice(cands)
                out.append(("assign", ("var", x), self.expr(t, env, 2)))
            elif k < 0.62:
                out.append(self.print_stmt(env))
            elif k < 0.72 and depth > 0:
                c = self.cmp(env, 1)
                th = self.block(env, depth - 1, r.randint(0, 3))
                el = self.block(env, depth - 1, r.randint(0, 3)) if r.random() < 0.5 else None
                out.append(("if", c, ("block", th), ("block", el) if el is not None else None))
            elif k < 0.80:
                # forward goto to a label at the end of this block
                # (half of the blocks share the name with every other block of their depth: labels are scoped to their
                # block, so sibling blocks may use one name)
                if end_label is None: end_label = self.fresh("end") if r.random() < 0.5 else "end_d%d" % depth
                c = self.cmp(env, 1)
                if r.random() < 0.8: out.append(("if", c, ("goto", end_label), None))
                else: out.append(("goto", end_label))
            elif k < 0.86 and depth > 0:
                out.append(("block", self.block(env, depth - 1, r.randint(0, 4))))
            elif k < 0.93 and depth > 0:
                out += self.counted_loop(env, depth - 1)
            else:
                voids = [f for f in self.funcs if f[2] is None and not f[5]]
                if voids:
                    f = r.choice(voids)
                    out.append(("callstmt", f[0], [self.expr(pt, env, 1) for _, pt in f[1]]))
                else:
                    out.append(self.print_stmt(env))
        if end_label is not None:
            # variables declared after a goto must not be used after the label: the label is last
            out.append(("label", end_label))
        return out

    def counted_loop(self, env, depth):
        r = self.rng
        i = self.fresh("k")
        done = self.fresh("done")
        t = r.choice(["u8", "i32", "usize", "u64", "i8"])
        n = r.randint(0, 5)
        body_env = list(env) + [(i, t)]
        body = [("if", ("cmp", r.choice(["==", ">="]), ("var", i), ("lit", t, n), t), ("goto", done), None)]
        body += self.block(body_env, depth, r.randint(0, 3))
        body.append(("assign", ("var", i), ("bin", "+", ("var", i), ("lit", t, 1))))
        body.append(("loop",))
        return [("decl", i, t, ("lit", t, 0)), ("block", body), ("label", done)]

    def print_stmt(self, env):
        r = self.rng
        items = []
        for _ in range(r.randint(1, 3)):
            senv = [e for e in env if isinstance(e[1], str)]
            if senv and r.random() < 0.7:
                x, t = r.choice(senv)
                items.append(("var", x) if r.random() < 0.7 else self.expr(t, env, 1))
                items[-1] = (items[-1], t)
            else:
                t = r.choice(PRIMS)
                items.append((self.lit(t), t))
            items.append(("str", r.choice([b" ", b",", b"|", b";"])))
        items.append(("str", b"\n"))
        return ("print", items)

    # ---- arrays, views, pointers (level >= 2) -------------------------------------
    def library(self):
        """helper functions exercising every parameter kind: view []T, slice pointer &[]T,
        pointer &T; each with a real loop over |x|"""
        r = self.rng
        self.lib = []
        for t in r.sample([x for x in INTS if x != "usize"], 2) + (["usize"] if r.random() < 0.3 else []):
            n = self.fresh("L")
            i, acc, done = "i" + n, "acc" + n, "done" + n
            # fn sum(x: []T) -> T : acc = acc op x[i]
            op = r.choice(["+", "^", "+", "-"]) if t in BITFIELD else r.choice(["+", "-"])
            body = [("decl", acc, t, ("lit", t, r.choice([0, 1, 3]))), ("decl", i, "usize", ("lit", "usize", 0)),
                    ("block", [("if", ("cmp", "==", ("var", i), ("len", ("var", "x")), "usize"), ("goto", done), None),
                               ("assign", ("var", acc), ("bin", op, ("var", acc), ("idx", ("var", "x"), ("var", i)))),
                               ("assign", ("var", i), ("bin", "+", ("var", i), ("lit", "usize", 1))), ("loop",)]),
                    ("label", done)]
            self.funcs.append(["sum" + n, [("x", ("view", t))], t, body, ("var", acc), True]); self.lib.append(("sum", "sum" + n, t))
            # fn fill(p: &[]T, v: T) : p[i] = v + (i as T)
            j, done2 = "j" + n, "fin" + n
            body = [("decl", j, "usize", ("lit", "usize", 0)),
                    ("block", [("if", ("cmp", ">=", ("var", j), ("len", ("var", "p")), "usize"), ("goto", done2), None),
                               ("assign", ("idx", ("var", "p"), ("var", j)), ("bin", "+", ("var", "v"), ("cast", t, ("var", j), "usize")) if t != "usize" else ("bin", "+", ("var", "v"), ("var", j))),
                               ("assign", ("var", j), ("bin", "+", ("var", j), ("lit", "usize", 1))), ("loop",)]),
                    ("label", done2)]
            self.funcs.append(["fill" + n, [("p", ("ptr", ("view", t))), ("v", t)], None, body, None, True]); self.lib.append(("fill", "fill" + n, t))
            # fn bump(q: &T) : q = q * 3 + 1
            self.funcs.append(["bump" + n, [("q", ("ptr", t))], None,
                               [("assign", ("var", "q"), ("bin", "+", ("bin", "*", ("var", "q"), ("lit", t, 3)), ("lit", t, 1)))], None, True]); self.lib.append(("bump", "bump" + n, t))
            # fn len(x: []T) -> usize, fn plen(p: &[]T) -> usize
            self.funcs.append(["len" + n, [("x", ("view", t))], "usize", [], ("len", ("var", "x")), True]); self.lib.append(("len", "len" + n, t))
            self.funcs.append(["plen" + n, [("p", ("ptr", ("view", t)))], "usize", [], ("len", ("var", "p")), True]); self.lib.append(("plen", "plen" + n, t))

    def mem_stmts(self, env):
        """a short sequence using arrays / pointers; env gets the new bindings"""
        r = self.rng
        out = []
        k = r.random()
        if self.level >= 3 and self.structs and r.random() < 0.4:
            return self.struct_stmts(env)
        arrays = [(x, ty) for x, ty in env if isinstance(ty, tuple) and ty[0] == "arr" and isinstance(ty[2], str)]
        prims = [(x, ty) for x, ty in env if isinstance(ty, str) and x.startswith("v")]
        lib_t = sorted({t for _, _, t in getattr(self, "lib", [])})
        if k < 0.3 or not arrays:
            t = r.choice(lib_t) if lib_t and r.random() < 0.8 else r.choice(INTS)
            n = r.randint(0, 5)
            x = self.fresh("a")
            out.append(("decl", x, ("arr", n, t), ("arrlit", [self.lit(t) for _ in range(n)])))
            env.append((x, ("arr", n, t)))
            out.append(("print", [(("len", ("var", x)), "usize"), ("str", b"\n")]))
            return out
        a, (_, n, t) = r.choice(arrays)
        if k < 0.45 and n > 0:
            out.append(("assign", ("idx", ("var", a), ("lit", "usize", r.randrange(n))), self.expr(t, [e for e in env if isinstance(e[1], str)], 2)))
        elif k < 0.6 and n > 0:
            i = r.randrange(n)
            out.append(("print", [(("idx", ("var", a), ("lit", "usize", i)), t), ("str", b" "), (("len", ("var", a)), "usize"), ("str", b"\n")]))
        elif k < 0.9:
            fs = [f for f in getattr(self, "lib", []) if f[2] == t]
            if fs:
                kind, fname, _ = r.choice(fs)
                if kind == "sum":
                    out.append(("print", [(("call", fname, [("viewarg", ("var", a))]), t), ("str", b"\n")]))
                elif kind == "fill":
                    out.append(("callstmt", fname, [("addr", ("var", a)), self.lit(t)]))
                    if n > 0: out.append(("print", [(("idx", ("var", a), ("lit", "usize", n - 1)), t), ("str", b"\n")]))
                elif kind == "bump":
                    sc = [x for x, ty in prims if ty == t]
                    if sc:
                        v = r.choice(sc)
                        out.append(("callstmt", fname, [("addr", ("var", v))]))
                        out.append(("print", [(("var", v), t), ("str", b"\n")]))
                elif kind == "len":
                    out.append(("print", [(("call", fname, [("viewarg", ("var", a))]), "usize"), ("str", b"\n")]))
                elif kind == "plen":
                    out.append(("print", [(("call", fname, [("addr", ("var", a))]), "usize"), ("str", b"\n")]))
        else:
            # pointer variable to a scalar: write through it, retarget it
            cands = [(x, ty) for x, ty in prims if ty in INTS]
            if len(cands) >= 1:
                v, t2 = r.choice(cands)
                pname = self.fresh("ptr")
                out.append(("decl", pname, ("ptr", t2), ("addr", ("var", v))))
                out.append(("assign", ("var", pname), self.expr(t2, [e for e in env if isinstance(e[1], str)], 1)))
                out.append(("print", [(("var", v), t2), ("str", b" "), (("var", pname), t2), ("str", b"\n")]))
                others = [x for x, ty in cands if ty == t2 and x != v]
                if others:
                    w = r.choice(others)
                    out.append(("assignaddr", pname, ("addr", ("var", w))))
                    out.append(("assign", ("var", pname), ("bin", "+", ("var", pname), ("lit", t2, 1))))
                    out.append(("print", [(("var", v), t2), ("str", b" "), (("var", w), t2), ("str", b"\n")]))
        return out

    # ---- structs, words, constants (level >= 3) ----------------------------------------
    def struct_members(self, name):
        for n, kind, ms in self.structs:
            if n == name: return ms
        return []

    def make_structs(self):
        r = self.rng
        WORDS = {"word16": [["u8", "i8"], ["bool", "u8"], ["i16"]], "word32": [["i16", "u16"], ["u8", "u8", "i16"], ["i32"], ["char8", "bool", "u16"]],
                 "word64": [["i32", "u32"], ["u16", "i16", "i32"], ["u64"]], "word128": [["i64", "u64"], ["i32", "i32", "u64"]]}
        for _ in range(r.randint(1, 2)):
            name = self.fresh("S")
            if r.random() < 0.35:
                kind = r.choice(sorted(WORDS)); types = r.choice(WORDS[kind])
            else:
                kind = "struct"; types = [r.choice(PRIMS) for _ in range(r.randint(1, 4))]
            ms = [("m%d" % i, t) for i, t in enumerate(types)]
            self.structs.append((name, kind, ms))
            m, t = r.choice(ms)
            # fn get(s: S) -> T (view of a structure), fn set(s: &S, v: T) (pointer to a structure)
            self.funcs.append(["get" + name, [("s", ("struct", name))], t, [], ("mem", ("var", "s"), m), True])
            rhs = ("var", "v") if t in ("bool", "char8") else ("bin", "+", ("var", "v"), ("mem", ("var", "s"), m))
            self.funcs.append(["set" + name, [("s", ("ptr", ("struct", name))), ("v", t)], None,
                               [("assign", ("mem", ("var", "s"), m), rhs)], None, True])
            self.slib = getattr(self, "slib", {}); self.slib[name] = (m, t)

    def make_consts(self):
        r = self.rng
        for _ in range(r.randint(1, 3)):
            t = r.choice(INTS + ["bool", "char8"])
            name = self.fresh("K")
            prev = [n for n, ty, _ in self.consts if ty == t]
            if prev and t in ARITH and r.random() < 0.6:
                e = ("bin", r.choice(["+", "-", "*"]), ("var", r.choice(prev)), self.lit(t))
            else:
                e = self.lit(t)
            self.consts.append((name, t, e))

    def struct_stmts(self, env):
        r = self.rng
        out = []
        senv = [e for e in env if isinstance(e[1], str)]
        have = [(x, ty) for x, ty in env if isinstance(ty, tuple) and ty[0] == "struct"]
        k = r.random()
        if k < 0.35 or not have:
            name, kind, ms = r.choice(self.structs)
            x = self.fresh("s")
            fields = [(m, self.expr(t, senv, 1)) for m, t in ms]
            if r.random() < 0.5: r.shuffle(fields)     # members may be given in any order
            out.append(("decl", x, ("struct", name), ("slit", name, fields)))
            env.append((x, ("struct", name)))
            m, t = r.choice(ms)
            out.append(("print", [(("mem", ("var", x), m), t), ("str", b"\n")]))
            return out
        x, (_, name) = r.choice(have)
        ms = self.struct_members(name)
        m, t = r.choice(ms)
        if k < 0.55:
            out.append(("assign", ("mem", ("var", x), m), self.expr(t, senv, 2)))
            out.append(("print", [(("mem", ("var", x), m), t), ("str", b"\n")]))
        elif k < 0.75:
            gm, gt = self.slib[name]
            out.append(("print", [(("call", "get" + name, [("viewarg", ("var", x))]), gt), ("str", b"\n")]))
        else:
            gm, gt = self.slib[name]
            out.append(("callstmt", "set" + name, [("addr", ("var", x)), self.expr(gt, senv, 1)]))
            items = []
            for mm, mt in ms: items += [(("mem", ("var", x), mm), mt), ("str", b" ")]
            out.append(("print", items + [("str", b"\n")]))
        return out

    # ---- functions ---------------------------------------------------------------
    def function(self, name, is_main=False):
        r = self.rng
        if is_main:
            params, ret = [], r.choice(["u8", "i32", "u8"])
        else:
            params = [(self.fresh("p"), r.choice(PRIMS)) for _ in range(r.randint(0, 3))]
            ret = r.choice(PRIMS + [None])
        env = list(params)
        body = self.block(env, 2 if not is_main else 3, r.randint(2, 7) if not is_main else r.randint(4, 12))
        # the result may only use parameters and top-level declarations of the body
        top = list(params) + [(s[1], s[2]) for s in body if s[0] == "decl" and isinstance(s[2], str)]
        # ... that are not declared after a goto to the final label (E482): the end label is last,
        # so only declarations before the first goto are safe
        safe = list(params)
        for s in body:
            if s[0] == "decl" and isinstance(s[2], str): safe.append((s[1], s[2]))
            if s[0] == "goto" or (s[0] == "if" and s[2][0] == "goto"): break
        result = self.expr(ret, safe, 2) if ret is not None else None
        self.funcs.append([name, params, ret, body, result, False])

    def program(self):
        if self.level >= 3:
            self.make_consts()
            if self.with_structs: self.make_structs()
        if self.level >= 2: self.library()
        nf = self.rng.randint(0, self.max_funcs)
        for i in range(nf):
            self.function("f%d" % i)
        self.function("main", is_main=True)
        return dict(structs=self.structs, consts=self.consts, funcs=self.funcs)


# ---------------------------------------------------------------------------
# rendering to the interpreter's s-expression
# ---------------------------------------------------------------------------

def hexs(b): return "".join("%02x" % c for c in b)


def sx_ty(t):
    if isinstance(t, str): return t
    if t[0] == "arr": return "(arr %d %s)" % (t[1], sx_ty(t[2]))
    if t[0] == "ptr": return "(ptr %s)" % sx_ty(t[1])
    if t[0] == "view": return "(view %s)" % sx_ty(t[1])
    if t[0] == "struct": return "(struct %s)" % t[1]
    raise ValueError(t)


def sx_expr(e):
    k = e[0]
    if k == "lit": return "(lit %s %d)" % (e[1], e[2])
    if k == "var": return "(var %s)" % e[1]
    if k == "bin": return "(bin %s %s %s)" % (e[1], sx_expr(e[2]), sx_expr(e[3]))
    if k == "un": return "(un %s %s)" % (e[1], sx_expr(e[2]))
    if k == "cast": return "(cast %s %s)" % (e[1], sx_expr(e[2]))
    if k == "call": return "(call %s%s)" % (e[1], "".join(" " + sx_expr(a) for a in e[2]))
    if k == "paren": return "(paren %s)" % sx_expr(e[1])
    if k == "idx": return "(idx %s %s)" % (sx_expr(e[1]), sx_expr(e[2]))
    if k == "mem": return "(mem %s %s)" % (sx_expr(e[1]), e[2])
    if k == "len": return "(len %s)" % sx_expr(e[1])
    if k == "addr": return "(addr %s)" % sx_expr(e[1])
    if k == "viewarg": return "(addr %s)" % sx_expr(e[1])
    if k == "arrlit": return "(arrlit%s)" % "".join(" " + sx_expr(a) for a in e[1])
    if k == "slit": return "(slit %s%s)" % (e[1], "".join(" (%s %s)" % (m, sx_expr(v)) for m, v in e[2]))
    raise ValueError(k)


def sx_stmt(s):
    k = s[0]
    if k == "decl": return "(decl %s %s %s)" % (s[1], sx_ty(s[2]), sx_expr(s[3]) if s[3] is not None else "none")
    if k == "assign": return "(assign %s %s)" % (sx_expr(s[1]), sx_expr(s[2]))
    if k == "assignaddr": return "(assignaddr %s %s)" % (s[1], sx_expr(s[2]))
    if k == "if":
        c = s[1]
        cs = "(cmp %s %s %s)" % (c[1], sx_expr(c[2]), sx_expr(c[3]))
        return "(if %s %s%s)" % (cs, sx_stmt(s[2]), " " + sx_stmt(s[3]) if s[3] is not None else "")
    if k == "goto": return "(goto %s)" % s[1]
    if k == "label": return "(label %s)" % s[1]
    if k == "block": return "(block%s)" % "".join(" " + sx_stmt(x) for x in s[1])
    if k == "loop": return "(loop)"
    if k == "callstmt": return "(call %s%s)" % (s[1], "".join(" " + sx_expr(a) for a in s[2]))
    if k == "print":
        items = []
        for it in s[1]:
            if it[0] == "str": items.append("(str %s)" % hexs(it[1]) if it[1] else "(str)")
            else: items.append(sx_expr(it[0]))
        return "(print %s)" % " ".join(items)
    raise ValueError(k)


def sexp(prog):
    ss = " ".join("(s %s%s)" % (n, "".join(" (%s %s)" % (m, sx_ty(t)) for m, t in ms)) for n, kind, ms in prog["structs"])
    cs = " ".join("(c %s %s %s)" % (n, sx_ty(t), sx_expr(e)) for n, t, e in prog["consts"])
    fs = []
    for name, params, ret, body, result, _ in prog["funcs"]:
        fs.append("(fn %s (%s) %s (%s) %s)" % (
            name, " ".join("(%s %s)" % (x, sx_ty(t)) for x, t in params), sx_ty(ret) if ret else "void",
            " ".join(sx_stmt(s) for s in body), sx_expr(result) if result is not None else "none"))
    return "(prog (structs%s) (consts%s) (funcs %s))" % (" " + ss if ss else "", " " + cs if cs else "", " ".join(fs))


# ---------------------------------------------------------------------------
# rendering to source text
# ---------------------------------------------------------------------------

class Layout:
    """Random but meaning-preserving layout choices."""
    def __init__(self, rng, plain=False):
        self.rng = rng
        self.plain = plain

    def ws(self):
        if self.plain: return " "
        return self.rng.choice([" ", " ", " ", "  ", "\t", " /*x*/ " if False else " "])

    def nl(self, ind):
        if self.plain or self.rng.random() < 0.85: return "\n" + "\t" * ind
        return self.rng.choice(["\n\n" + "\t" * ind, " // c\n" + "  " * ind, "\n" + " " * (2 * ind)])

    def lit(self, t, v, need_suffix):
        r = self.rng
        if t == "bool": return "true" if v else "false"
        if t == "char8":
            if v < 32 or v > 126: return "'\\x%02X'" % v
            c = chr(v)
            return "'%s'" % (c if c not in "'\\" else "\\" + c)
        suffix = t if (need_suffix or (not self.plain and r.random() < 0.3)) else ""
        if v < 0:
            body = self.digits(-v, t, allow_bits=False)
            return "-" + body + suffix
        body = self.digits(v, t, allow_bits=(t in BITFIELD) and not suffix)
        return body + suffix

    def digits(self, v, t, allow_bits):
        r = self.rng
        if self.plain or r.random() < 0.7: s = str(v)
        elif allow_bits and r.random() < 0.6:
            return r.choice(["0x%x", "0x%X"]) % v if r.random() < 0.7 else "0b" + bin(v)[2:]
        else: s = str(v)
        if not self.plain and len(s) > 3 and r.random() < 0.2:
            s = s[:-3] + "_" + s[-3:]
        return s


def src_ty(t):
    if isinstance(t, str): return t
    if t[0] == "arr": return "[%d]%s" % (t[1], src_ty(t[2]))
    if t[0] == "ptr": return "&" + src_ty(t[1])
    if t[0] == "view": return "[]" + src_ty(t[1])
    if t[0] == "struct": return t[1]
    raise ValueError(t)


def src_expr(e, lay, need_suffix=False, top=True):
    k = e[0]
    r = lay.rng
    if k == "lit": return lay.lit(e[1], e[2], need_suffix)
    if k == "var": return e[1]
    if k == "bin":
        # children of a binary operator are parenthesised when they are themselves binary
        # (the grammar only chains + and -; everything else needs parentheses)
        def child(c, left):
            s = src_expr(c, lay, need_suffix, False)
            # (`as` binds tighter than every binary operator: a cast may stand as an operand without parentheses)
            if c[0] == "cast" and c[2][0] in ("var", "paren") and r.random() < 0.5: return s
            if c[0] in ("bin", "cast") or (c[0] == "un") or (c[0] == "lit" and c[2] < 0):
                return "(" + s + ")"
            if not lay.plain and r.random() < 0.1: return "(" + s + ")"
            return s
        # at least one operand must pin the type when both are naked literals
        l, rr = e[2], e[3]
        # a literal may stay naked only next to a plain variable of the same type
        ls = paren_if(l, src_expr(l, lay, True, False))
        rs = paren_if(rr, src_expr(rr, lay, not (rr[0] == "lit" and l[0] == "var"), False))
        # `as` binds tighter than every binary operator: a cast of a variable may stand as an operand without parentheses
        if e[1] in ("+", "-", "*", "/", "%"):
            if rr[0] == "cast" and rr[2][0] == "var" and r.random() < 0.5: rs = src_expr(rr, lay, True, False)
            if l[0] == "cast" and l[2][0] == "var" and r.random() < 0.5: ls = src_expr(l, lay, True, False)
        # leave out the parentheses the grammar makes redundant: + and - chain to the left over
        # * / % chains (which chain to the left too); one and the same bitwise operator chains
        MUL, ADD = ("*", "/", "%"), ("+", "-")
        if l[0] == "bin" and r.random() < 0.6:
            if (e[1] in ADD and l[1] in ADD + MUL) or (e[1] in MUL and l[1] in MUL) or (e[1] in ("&", "|", "^") and l[1] == e[1]):
                ls = src_expr(l, lay, True, False)
        if rr[0] == "bin" and e[1] in ADD and rr[1] in MUL and r.random() < 0.6:
            rs = src_expr(rr, lay, True, False)
        if not lay.plain and r.random() < 0.08 and l[0] in ("var", "lit") and not (l[0] == "lit" and l[2] < 0): ls = "(" + ls + ")"
        return "%s%s%s%s%s" % (ls, lay.ws(), e[1], lay.ws(), rs)
    if k == "un":
        s = src_expr(e[2], lay, True, False)
        if e[2][0] in ("bin", "cast", "un") or (e[2][0] == "lit" and e[2][2] < 0) or (e[1] == "-" and e[2][0] == "lit"):
            s = "(" + s + ")"
        return e[1] + s
    if k == "cast":
        s = src_expr(e[2], lay, True, False)
        # a unary operator binds tighter than `as`: `-x as T` is `(-x) as T`; casts chain to the left
        bare_unary = e[2][0] == "un" and e[2][2][0] in ("var", "lit", "paren") and not (e[2][2][0] == "lit" and e[2][2][2] < 0) and r.random() < 0.6
        bare_cast = e[2][0] == "cast" and r.random() < 0.6
        if (e[2][0] in ("bin", "un", "cast") and not bare_unary and not bare_cast) or (e[2][0] == "lit" and e[2][2] < 0): s = "(" + s + ")"
        return "%s as %s" % (s, e[1])
    if k == "call": return "%s(%s)" % (e[1], ", ".join(src_expr(a, lay, a[0] != "lit", True) for a in e[2]))
    if k == "paren": return "(" + src_expr(e[1], lay, True, True) + ")"
    if k == "idx": return "%s[%s]" % (src_expr(e[1], lay), src_expr(e[2], lay, False, True))
    if k == "mem": return "%s.%s" % (src_expr(e[1], lay), e[2])
    if k == "len": return "|%s|" % src_expr(e[1], lay)
    if k == "addr": return "&" + src_expr(e[1], lay)
    if k == "viewarg": return src_expr(e[1], lay)
    if k == "arrlit": return "[" + ", ".join(src_expr(a, lay, need_suffix, True) for a in e[1]) + "]"
    if k == "slit": return "%s { %s }" % (e[1], ", ".join("%s: %s" % (m, src_expr(v, lay, False, True)) for m, v in e[2]))
    raise ValueError(k)


def is_naked(e):
    return e[0] == "lit" and e[1] not in ("bool", "char8") or (e[0] == "paren" and is_naked(e[1])) or \
        (e[0] == "un" and is_naked(e[2])) or (e[0] == "bin" and is_naked(e[2]) and is_naked(e[3]))


def paren_if(c, s):
    if c[0] in ("bin", "cast", "un") or (c[0] == "lit" and c[2] < 0): return "(" + s + ")"
    return s


def src_stmt(s, lay, ind):
    k = s[0]
    t = "\t" * ind
    if k == "decl":
        if s[3] is None: return "%svar %s: %s;\n" % (t, s[1], src_ty(s[2]))
        return "%svar %s:%s%s = %s;\n" % (t, s[1], lay.ws(), src_ty(s[2]), src_expr(s[3], lay, s[3][0] != "lit"))
    if k == "assign": return "%s%s = %s;\n" % (t, src_expr(s[1], lay), src_expr(s[2], lay, s[2][0] != "lit"))
    if k == "assignaddr": return "%s&%s = %s;\n" % (t, s[1], src_expr(s[2], lay))
    if k == "if":
        c = s[1]
        out = "%sif %s %s %s\n" % (t, src_expr(c[2], lay, True, False), c[1],
                                    src_expr(c[3], lay, not (c[3][0] == "lit" and c[2][0] == "var"), False))
        out += src_branch(s[2], lay, ind)
        if s[3] is not None:
            out += "%selse\n" % t + src_branch(s[3], lay, ind)
        return out
    if k == "goto": return "%sgoto %s;\n" % (t, s[1])
    if k == "label": return "%s%s:\n" % (t, s[1])
    if k == "block": return "%s{\n%s%s}\n" % (t, "".join(src_stmt(x, lay, ind + 1) for x in s[1]), t)
    if k == "loop": return "%sloop;\n" % t
    if k == "callstmt": return "%s%s(%s);\n" % (t, s[1], ", ".join(src_expr(a, lay, a[0] != "lit", True) for a in s[2]))
    if k == "print":
        items = []
        for it in s[1]:
            if it[0] == "str": items.append('"%s"' % esc_str(it[1]))
            else: items.append(src_expr(it[0], lay, True, True))
        return "%sprint!(%s);\n" % (t, ", ".join(items))
    raise ValueError(k)


def src_branch(b, lay, ind):
    if b[0] == "goto": return "\t" * (ind + 1) + "goto %s;\n" % b[1]
    return src_stmt(b, lay, ind)


def esc_str(b):
    out = ""
    for c in b:
        if c == 10: out += "\\n"
        elif c == 9: out += "\\t"
        elif c == 34: out += '\\"'
        elif c == 92: out += "\\\\"
        elif 32 <= c < 127: out += chr(c)
        else: out += "\\x%02X" % c
    return out


def source(prog, rng, plain=False, shuffle=None):
    """shuffle: a random.Random used to permute ALL top-level declarations
    (structures, constants and functions interleaved); None keeps the canonical order."""
    lay = Layout(rng, plain)
    decls = []
    for n, kind, ms in prog["structs"]:
        decls.append("%s %s\n{\n%s}\n\n" % (kind, n, "".join("\t%s: %s,\n" % (m, src_ty(t)) for m, t in ms)))
    for n, t, e in prog["consts"]:
        decls.append("const %s: %s = %s;\n" % (n, src_ty(t), src_expr(e, lay)))
    for name, params, ret, body, result, _ in prog["funcs"]:
        out = "fn %s(%s)%s\n{\n" % (name, ", ".join("%s: %s" % (x, src_ty(t)) for x, t in params),
                                       " -> " + src_ty(ret) if ret else "")
        for s in body: out += src_stmt(s, lay, 1)
        if result is not None:
            out += "\treturn: %s\n" % src_expr(result, lay, result[0] != "lit")
        out += "}\n\n"
        decls.append(out)
    if shuffle is not None: shuffle.shuffle(decls)
    return "".join(decls)


# ---------------------------------------------------------------------------
# splitting a program over several modules (C12)
# ---------------------------------------------------------------------------

def calls_in(node, acc):
    if isinstance(node, (list, tuple)):
        if len(node) >= 2 and node[0] in ("call", "callstmt") and isinstance(node[1], str):
            acc.add(node[1])
        for x in node:
            calls_in(x, acc)
    return acc


def source_modules(prog, assignment, rng, order=None, plain=True, break_privacy=None):
    """assignment: function name -> module index.  Returns the multi-module
    payload understood by the harness ("//// module <path>" separators), modules
    listed in `order`.  break_privacy = (caller, callee): leave callee private
    although it is used from another module (must be rejected)."""
    lay = Layout(rng, plain)
    nmods = max(assignment.values()) + 1
    calls = {f[0]: calls_in(f[3], set()) | calls_in(f[4], set()) for f in prog["funcs"]}
    needs_pub = set()
    imports = {m: set() for m in range(nmods)}
    for f, cs in calls.items():
        for c in cs:
            if assignment[c] != assignment[f]:
                needs_pub.add(c)
                imports[assignment[f]].add(assignment[c])
    def names_in(node, acc):
        if isinstance(node, (list, tuple)):
            if len(node) == 2 and node[0] == "var" and isinstance(node[1], str): acc.add(node[1])
            for x in node: names_in(x, acc)
        return acc
    cdefs = {n: (t, e) for n, t, e in prog.get("consts", [])}
    texts = []
    for m in range(nmods):
        out = ""
        for j in sorted(imports[m]):
            out += 'import "m%d.pn";\n' % j
        # private copies of the constants this module's functions use (and those they are defined from)
        used = set()
        for f in prog["funcs"]:
            if assignment[f[0]] == m: used |= {n for n in names_in(f[3], set()) | names_in(f[4], set()) if n in cdefs}
        grow = True
        while grow:
            more = {n for u in used for n in names_in(cdefs[u][1], set()) if n in cdefs} - used
            grow = bool(more); used |= more
        for n, t, e in prog.get("consts", []):
            if n in used: out += "const %s: %s = %s;\n" % (n, src_ty(t), src_expr(e, lay))
        for name, params, ret, body, result, _ in prog["funcs"]:
            if assignment[name] != m: continue
            pub = name in needs_pub and not (break_privacy and break_privacy == name)
            out += "%sfn %s(%s)%s\n{\n" % ("pub " if pub else "", name, ", ".join("%s: %s" % (x, src_ty(t)) for x, t in params),
                                             " -> " + src_ty(ret) if ret else "")
            for s in body: out += src_stmt(s, lay, 1)
            if result is not None:
                out += "\treturn: %s\n" % src_expr(result, lay, result[0] != "lit")
            out += "}\n\n"
        texts.append(out)
    order = order if order is not None else list(range(nmods))
    return "".join("//// module m%d.pn\n%s" % (m, texts[m]) for m in order), needs_pub
