"""Correspondence of the control-flow lowering model (Model/Cfg.v) with the
blocks of the IR the real generator emits: same blocks in creation order, same
base names, same actions in each block, same terminators with the same targets."""
import random, re, collections
from . import common as C, gen_cfg

BASE = ["entry", "looped-block", "after-looped-block", "unreachable-after-goto", "then", "else", "after"]


def parse_ir(ir):
    """blocks of @main: list of (name, [store constants], term) with term = ('br',name) | ('cbr',C,name,name) | ('ret',)"""
    m = re.search(r"define [^\n]*@main\(\)[^\n]*\{\n(.*?)\n\}", ir, re.S)
    if not m: return None
    blocks = []; cur = None; icmp = {}
    for line in m.group(1).split("\n"):
        lm = re.match(r'^("?)([^\s":]+)\1:', line)
        if lm and not line.startswith(" "):
            cur = [lm.group(2), [], None]; blocks.append(cur); continue
        line = line.strip()
        if not line or cur is None: continue
        if cur[2] is not None:
            cur[1].append("AFTER-TERMINATOR " + line); continue
        sm = re.match(r"store i32 (-?\d+), i32\* %r\b", line)
        if sm:
            k = int(sm.group(1))
            if k >= 1000: cur[1].append(k)
            continue
        im = re.match(r"(%\d+) = icmp eq i32 %\d+, (\d+)", line)
        if im: icmp[im.group(1)] = int(im.group(2)); continue
        bm = re.match(r'br label %"?([^\s",]+)"?$', line)
        if bm: cur[2] = ('br', bm.group(1)); continue
        cm = re.match(r'br i1 (%\d+), label %"?([^\s",]+)"?, label %"?([^\s",]+)"?$', line)
        if cm: cur[2] = ('cbr', icmp.get(cm.group(1)), cm.group(2), cm.group(3)); continue
        if line.startswith("ret "): cur[2] = ('ret',); continue
    return blocks


def base_ok(real, tag):
    want = ("l" + tag[1:]) if tag.startswith("L") else tag
    return real == want or (real.startswith(want) and real[len(want):].isdigit() and not tag.startswith("L"))


def compare(ir, model_line):
    """'' if the IR's blocks are the model's, else a description"""
    f = model_line.split(" ", 2)
    if len(f) < 3 or f[2] == "": return "model: " + model_line[:100]
    if f[0] != "accepted": return "model does not accept the body"
    if f[1] != "wf": return "model CFG is not well formed"
    mb = []
    for b in f[2].split(";"):
        tag, acts, term = b.split(" ")
        mb.append((tag, [int(x) for x in acts.strip("[]").split(",") if x], term.split(":")))
    rb = parse_ir(ir)
    if rb is None: return "no @main in the IR"
    if not rb or rb[-1][0] != "return" or rb[-1][2] != ('ret',) or rb[-1][1]:
        return "last block is not `return: ... ret`"
    rb = rb[:-1]
    if len(rb) != len(mb): return "block count: IR %d, model %d" % (len(rb), len(mb))
    names = [b[0] for b in rb]
    for i, ((name, acts, term), (tag, macts, mterm)) in enumerate(zip(rb, mb)):
        if not base_ok(name, tag): return "block %d is `%s`, model says %s" % (i, name, tag)
        if acts != macts: return "block %d (%s) holds actions %s, model says %s" % (i, name, acts, macts)
        if term is None: return "block %d (%s) has no terminator" % (i, name)
        def idx(n): return "return" if n == "return" else str(names.index(n)) if n in names else "?" + n
        if term[0] == 'br': rt = ["ret"] if term[1] == "return" else ["br", idx(term[1])]
        elif term[0] == 'cbr': rt = ["cbr", str(term[1]), idx(term[2]), idx(term[3])]
        else: rt = ["RET-OUTSIDE-RETURN-BLOCK"]
        if rt != mterm: return "block %d (%s) ends in %s, model says %s" % (i, name, ":".join(rt), ":".join(mterm))
    return ""


def run(ck, n, seed, label="cfg", tools=False):
    rng = random.Random(seed)
    bodies = [gen_cfg.gen(rng, depth=rng.choice([1, 2, 3, 3, 4])) for _ in range(n)]
    cases = [("g%d" % i, gen_cfg.source(b)) for i, b in enumerate(bodies)]
    impl = C.run_harness("ir", cases, ck.work + "/" + label, timeout=3000)
    verif = C.run_harness("tools", cases, ck.work + "/" + label + "-tools", timeout=3000) if tools else {}
    model = C.run_model([("cfg", "g%d" % i, gen_cfg.sexp(b)) for i, b in enumerate(bodies)], ck.work + "/" + label)
    stats = collections.Counter(); sizes = collections.Counter(); bad = 0
    for (cid, src), b in zip(cases, bodies):
        f = impl.get(cid, ["missing"])
        if not f[0].startswith("ok"):
            if f[0].startswith("err"):
                stats["rejected-by-compiler"] += 1
                # the generator only produces bodies the front end must accept
                bad += 1; ck.violation("cfg:accepted-body-rejected", "generated skeleton rejected: %s" % f[0][:100], src)
            else:
                ck.violation(C.failure_key(f[0]), "compiler failed: %s" % f[0][:160], src)
            continue
        tv = verif.get(cid)
        if tv is not None and len(tv) > 2 and tv[0].startswith("ok") and tv[2] != "tools=ok":
            bad += 1; ck.violation("invalid-ir:" + tv[2].split(":")[0], "LLVM tools reject the IR of a control-flow skeleton: " + tv[2], src)
        ir = C.unesc(f[1]).decode(errors="replace") if len(f) > 1 else ""
        d = compare(ir, model.get(cid, "MODEL-MISSING"))
        stats["same-cfg" if not d else "different"] += 1
        nb = model.get(cid, "").count(";") + 1
        sizes["<=5" if nb <= 5 else "<=15" if nb <= 15 else "<=40" if nb <= 40 else ">40"] += 1
        if "looped-block" in model.get(cid, ""): stats["with-loop"] += 1
        if d:
            bad += 1; ck.violation("cfg:lowering-differs", "control-flow lowering differs from Model/Cfg.v: " + d, src + "\n--- model\n" + model.get(cid, "") + "\n--- IR\n" + ir)
    ck.log("%s: %d skeletons %s blocks %s" % (label, n, dict(stats), dict(sizes)))
    return n, stats, sizes, bad
