"""Conversion of the second-generation parser's Debug node array into the node
language of Model/Header.v."""
import re, zlib

SPECIAL = {"NoMoreItems": 0, "FunctionDeclaration": 2, "ConstantDeclaration": 3, "StructureDeclaration": 4,
           "ImportDeclaration": 5, "UnpatchedListItem": 52}
REFS = {"ThenElse": "then", "If": "comparison", "Block": "first", "Item": "at", "List": "first", "ListItem": "next"}
FLAGBITS = {"External": 1, "Main": 2, "Forward": 4, "OpaqueStruct": 8}


def split_top(s):
    out, depth, cur = [], 0, ""
    for ch in s:
        if ch in "([{": depth += 1
        elif ch in ")]}": depth -= 1
        if ch == "," and depth == 0:
            out.append(cur.strip()); cur = ""
        else: cur += ch
    if cur.strip(): out.append(cur.strip())
    return out


def nodes_of_debug(dbg):
    m = re.search(r"nodes: \[(.*)\], declarations: \[(.*?)\], errors: \[", dbg, re.S)
    if not m: raise ValueError("unparsable Debug output")
    nodes = split_top(m.group(1))
    decls = [int(x) for x in re.findall(r"U24\((\d+)\)", m.group(2))]
    return nodes, decls


def node_sexp(text):
    name = re.match(r"\w+", text).group(0)
    if name in REFS:
        n = re.search(r"U24\((\d+)\)", text).group(1)
        return "(R %s %s)" % (name, n)
    if name == "FunctionImpl": return "(I %s)" % re.search(r"U24\((\d+)\)", text).group(1)
    if name == "StartPrivateZone": return "(S %s)" % re.search(r"U24\((\d+)\)", text).group(1)
    if name == "EndPrivateZone": return "(E %s)" % re.search(r"U24\((\d+)\)", text).group(1)
    if name == "EndlessPrivateZone": return "(X)"
    if name == "DeclarationFlags":
        flags = re.findall(r"[A-Z]\w+", text[len(name):].replace("EnumSet", ""))
        pub = "1" if "Public" in flags else "0"
        rest = sum(FLAGBITS.get(f, 16) for f in flags if f != "Public")
        return "(F %s %d)" % (pub, rest)
    tag = SPECIAL.get(name, 1000 + (zlib.crc32(name.encode()) % 1000000))
    rest = text[len(name):]
    payload = [] if not rest.strip() else [str(zlib.crc32(rest.encode()))]
    return "(P %s)" % " ".join([str(tag)] + payload)


def to_model(dbg):
    nodes, decls = nodes_of_debug(dbg)
    return "(" + " ".join(node_sexp(n) for n in nodes) + ")", decls, len(nodes)


def nodes_text(dbg):
    """the names of the nodes of a Debug dump, one per line (payloads dropped)"""
    nodes, _ = nodes_of_debug(dbg)
    return "\n".join(re.match(r"\w+", n).group(0) for n in nodes if re.match(r"\w+", n))
