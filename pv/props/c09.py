"""C09 — literals mean exactly what they say."""
import random, collections
from .. import common as C

INTS = ["i8", "i16", "i32", "i64", "i128", "u8", "u16", "u32", "u64", "u128", "usize"]
W = {"i8": 8, "i16": 16, "i32": 32, "i64": 64, "i128": 128, "u8": 8, "u16": 16, "u32": 32, "u64": 64, "u128": 128, "usize": 64}
SIGNED = {"i8", "i16", "i32", "i64", "i128"}


def tmin(t): return -(1 << (W[t] - 1)) if t in SIGNED else 0
def tmax(t): return (1 << (W[t] - 1)) - 1 if t in SIGNED else (1 << W[t]) - 1
def wrap(t, v):
    v %= 1 << W[t]
    return v - (1 << W[t]) if t in SIGNED and v >= 1 << (W[t] - 1) else v


def spell(rng, m, base):
    if base == 10: s = str(m)
    elif base == 16: s = "0x" + (("%x" if rng.random() < 0.5 else "%X") % m)
    else: s = "0b" + bin(m)[2:]
    if rng.random() < 0.3 and len(s) > 4:
        k = rng.randint(3, len(s) - 1)
        s = s[:k] + "_" + s[k:]
    return s


def int_cases(rng, extra_random):
    out = []
    for t in INTS:
        lo, hi = tmin(t), tmax(t)
        vals = {0, 1, hi, hi + 1, lo, lo - 1, 1 << 32, 1 << 64, 1 << 127, (1 << 128) - 1, 1 << 128, (1 << 128) + 3, hi - 1, lo + 1, -1, -(1 << 127), -(1 << 127) - 1, 255, 256, -128, -129}
        for _ in range(extra_random):
            vals.add(rng.randint(lo * 2 - 5, hi * 2 + 5))
        for v in sorted(vals):
            neg, m = v < 0, abs(v)
            for base in (10, 16, 2):
                for suffix in (False, True):
                    if suffix and base != 10 and rng.random() < 0.5: continue
                    for _ in range(1 if base != 10 else 2):
                        s = spell(rng, m, base)
                        if suffix: s += t
                        if neg: s = rng.choice(["-", "- ", "-"]) + s
                        kind = "suffixed" if suffix else ("naked" if base == 10 else "bits")
                        out.append(dict(t=t, v=v, neg=neg, m=m, base=base, kind=kind, text=s))
    return out


POSITIONS = ["init", "return", "argument", "assign", "element", "condition", "member", "constant", "paren", "operand", "parenarg", "index"]


def program(t, text, pos="init"):
    """the literal in one of the places a literal can stand; the program prints its value
    (position `condition`: 1 iff the value differs from zero)"""
    head, pr = "fn main() -> u8\n{\n", "\tprint!(x, \"\\n\");\n\treturn: 0\n}\n"
    if pos == "return": return "fn f() -> %s\n{\n\treturn: %s\n}\n" % (t, text) + head + "\tvar x: %s = f();\n" % t + pr
    if pos == "argument": return "fn id(a: %s) -> %s\n{\n\treturn: a\n}\n" % (t, t) + head + "\tvar x: %s = id(%s);\n" % (t, text) + pr
    if pos == "assign": return head + "\tvar x: %s = 0;\n\tx = %s;\n" % (t, text) + pr
    if pos == "element": return head + "\tvar a: [2]%s = [0, %s];\n\tvar x: %s = a[1];\n" % (t, text, t) + pr
    if pos == "condition": return head + "\tvar z: %s = 0;\n\tvar x: u8 = 0;\n\tif z != %s\n\t{\n\t\tx = 1;\n\t}\n" % (t, text) + pr
    if pos == "member": return "struct S\n{\n\tm: %s,\n}\n" % t + head + "\tvar s = S { m: %s };\n\tvar x: %s = s.m;\n" % (text, t) + pr
    if pos == "paren": return head + "\tvar x: %s = (%s);\n" % (t, text) + pr
    if pos == "operand": return head + "\tvar z: %s = 0;\n\tvar x: %s = z + (%s);\n" % (t, t, text) + pr
    if pos == "parenarg": return "fn id(a: %s) -> %s\n{\n\treturn: a\n}\n" % (t, t) + head + "\tvar x: %s = id(((%s)));\n" % (t, text) + pr
    if pos == "index": return head + "\tvar a: [2]%s = [(%s), 0];\n\tvar x: %s = a[(0)];\n" % (t, text, t) + pr
    if pos == "constant": return "const K: %s = %s;\n" % (t, text) + head + "\tvar x: %s = K;\n" % t + pr
    return head + "\tvar x: %s = %s;\n" % (t, text) + pr


ESCAPES = {"n": 10, "r": 13, "t": 9, "\\": 92, "'": 39, '"': 34, "0": 0}


def utf8(cp): return chr(cp).encode("utf-8")


def string_cases(rng, n):
    """(source fragment of a string expression, expected bytes)"""
    out = []
    for _ in range(n):
        parts, exp = [], b""
        pieces = []
        for _ in range(rng.randint(1, 3)):
            s, e = "", b""
            for _ in range(rng.randint(0, 8)):
                k = rng.random()
                if k < 0.35:
                    c = rng.choice("abcXYZ 09_!#%&()*+,-./:;<=>?@[]^{|}~'")
                    s += c; e += c.encode()
                elif k < 0.55:
                    c = rng.choice(list(ESCAPES)); s += "\\" + c; e += bytes([ESCAPES[c]])
                elif k < 0.7:
                    b = rng.randint(0, 255); s += "\\x%02X" % b if rng.random() < 0.5 else "\\x%02x" % b; e += bytes([b])
                elif k < 0.85:
                    cp = rng.choice([0x41, 0xE9, 0x20AC, 0x1F600, 0x7F, 0x80, 0x7FF, 0x800, 0xFFFF, 0x10000, 0x10FFFF])
                    s += "\\u{%X}" % cp if rng.random() < 0.5 else "\\u{%04x}" % cp; e += utf8(cp)
                else:
                    cp = rng.choice([0xE9, 0x20AC, 0x4E2D, 0x1F600]); s += chr(cp); e += utf8(cp)
            pieces.append('"%s"' % s); exp += e
        out.append((rng.choice([" ", "\n\t\t", "  "]).join(pieces), exp))
    return out


def string_program(expr, nbytes, form=0):
    """the places a string literal can stand: a sized array variable, a slice argument (the array-to-slice
    coercion of a literal), a constant, a slice variable"""
    prints = "\tprint!(|s|, \"\\n\");\n" + "".join('\tprint!(s[%d] as u8, "\\n");\n' % i for i in range(nbytes))
    if form == 1:
        return "fn show(s: []char8)\n{\n" + prints + "}\nfn main() -> u8\n{\n\tshow(%s);\n\treturn: 0\n}\n" % expr
    if form == 2:
        return "const S: [%d]char8 = %s;\nfn main() -> u8\n{\n" % (nbytes, expr) + prints.replace("|s|", "|S|").replace("(s[", "(S[") + "\treturn: 0\n}\n"
    if form == 3:
        return "fn main() -> u8\n{\n\tvar s: []char8 = %s;\n" % expr + prints + "\treturn: 0\n}\n"
    body = "\tvar s: [%d]char8 = %s;\n" % (nbytes, expr) + prints
    return "fn main() -> u8\n{\n" + body + "\treturn: 0\n}\n"


def run(tier):
    ck = C.Check("C09", tier)
    proof_ok = ck.prove()
    if not ck.builds():
        ck.violation("tie-broken:build", "model or harness does not build", "see log")
        return ck.finish()
    rng = random.Random(ck.seed)
    def witness(src):
        f = C.run_harness("exec", [("w", src)], ck.work + "/witness").get("w", ["missing"])
        if f[0].startswith("ok lints=[1142]") and "out=-128" in f[1]: return "false-lint:negated-bits"
        if src.startswith("//wasm"):
            g = C.run_harness("ir-wasm", [("w", src)], ck.work + "/witness").get("w", ["missing"])
            if g[0].startswith("ok") and "1142" not in g[0] and "store i32 0, i32* %x" in C.unesc(g[1]).decode(errors="replace"): return "silently-altered:wasm-usize"
        return None
    ck.witness_runner = witness
    cases = int_cases(rng, 2 if tier == "quick" else 40)
    for i, c in enumerate(cases): c["pos"] = POSITIONS[(i // 3) % len(POSITIONS)] if i % 3 == 2 else "init"
    srcs = [("i%d" % i, program(c["t"], c["text"], c["pos"])) for i, c in enumerate(cases)]
    impl = C.run_harness("exec", srcs, ck.work + "/int", timeout=1800)
    items = [("literal", "i%d" % i, "(%d %s %d %s %s)" % (c["neg"], c["kind"], c["m"], c["t"] if c["kind"] == "suffixed" else "-", c["t"]))
             for i, c in enumerate(cases) if c["m"] < (1 << 128)]
    model = C.run_model(items, ck.work + "/int")
    stats = collections.Counter(); mism = 0; distinct = set()
    for i, c in enumerate(cases):
        cid = "i%d" % i
        f = impl.get(cid, ["missing"])
        t, v, m = c["t"], c["v"], c["m"]
        src = srcs[i][1]
        desc = "literal `%s` as %s (%s)" % (c["text"], t, c["pos"])
        if not (f[0].startswith("ok") or f[0].startswith("err codes=")):
            ck.violation(C.failure_key(f[0]), "compiler failed on %s: %s" % (desc, f[0][:160]), src); continue
        distinct.add((t, c["text"]))
        if m >= (1 << 128):
            stats["too-big"] += 1
            if not (f[0].startswith("err") and "140" in f[0]):
                mism += 1; ck.violation("e140-missing", "%s exceeds 128 bits but the result is %s %s" % (desc, f[0], f[1][:60]), src)
            continue
        if f[0].startswith("err"):
            codes = f[0][len("err codes="):].strip("[]").split(",")
            if c["neg"] and t not in SIGNED and codes == ["550"]:
                stats["rejected-unsigned-negation"] += 1; continue
            mism += 1; ck.violation("representable-rejected", "%s is rejected: %s" % (desc, f[0]), src); continue
        lint = "1142" in f[0]
        out = f[1].split(" out=", 1)[1] if " out=" in f[1] else "?"
        printed = out.replace("\\n", "")
        in_range = tmin(t) <= v <= tmax(t)
        stats["in-range" if in_range else "out-of-range"] += 1
        stats["position:" + c["pos"]] += 1
        if printed != (str(wrap(t, v)) if c["pos"] != "condition" else ("1" if wrap(t, v) != 0 else "0")):
            mism += 1; ck.violation("wrong-value", "%s has run-time value %s, expected %s" % (desc, printed, wrap(t, v)), src); continue
        if in_range and lint:
            if c["neg"] and c["kind"] != "naked" and m == tmax(t) + 1 and not (c["kind"] == "suffixed" and c["base"] == 10 and t in SIGNED):
                ck.violation("false-lint:negated-bits", "%s is in range but raises L1142" % desc, src)
            else:
                mism += 1; ck.violation("false-lint", "%s is in range but raises L1142" % desc, src)
            continue
        if not in_range and not lint:
            mism += 1; ck.violation("silent-truncation", "%s is out of range, evaluates to %s, and no L1142 is raised" % (desc, printed), src); continue
        mm = model.get(cid, "")
        exp = "lint=%s value=%s" % ("true" if lint else "false", printed)
        if mm != exp and c["pos"] != "condition":
            mism += 1; ck.violation("tie-broken:literal-model", "model says '%s', implementation '%s' for %s" % (mm, exp, desc), src)
    # several literals on ONE line (array literals, operands of one operator, arguments of one call): each denotes its
    # own value whatever stands before it on the line (a digit buffer that is not cleared between the tokens of a line
    # glues `0x48, 0x65` into 0x4865)
    byt = collections.defaultdict(list)
    for c in cases:
        if c["m"] < (1 << 128) and not c["neg"] and tmin(c["t"]) <= c["v"] <= tmax(c["t"]) and c["t"] not in ("bool", "char8"): byt[c["t"]].append(c)
    prng = random.Random(ck.seed + 99)
    psrcs, pexp = [], {}
    for t, cs in sorted(byt.items()):
        for j in range(12 if tier == "quick" else 300):
            k = prng.randint(2, 4)
            pick = [prng.choice(cs) for _ in range(k)]
            cid = "pl%s.%d" % (t, j)
            form = j % 4
            if form == 0:
                body = "\tvar a: [%d]%s = [%s];\n\tprint!(%s, \"\\n\");\n" % (k, t, ", ".join(c["text"] for c in pick), ", \" \", ".join("a[%d]" % i for i in range(k)))
            elif form == 3:
                # literals next to a variable in one array literal: each element is where it was written
                body = "\tvar w: %s = %s;\n\tvar a: [%d]%s = [%s];\n\tprint!(%s, \"\\n\");\n" % (t, pick[0]["text"], k, t, ", ".join("w" if i == (j // 4) % k else c["text"] for i, c in enumerate(pick)), ", \" \", ".join("a[%d]" % i for i in range(k)))
                pick = [pick[0] if i == (j // 4) % k else c for i, c in enumerate(pick)]
            elif form == 1:
                body = "\tprint!(%s, \"\\n\");\n" % ", \" \", ".join("id(%s)" % c["text"] for c in pick)
            else:
                body = "".join("\tvar v%d: %s = %s;" % (i, t, c["text"]) for i, c in enumerate(pick)).replace(";\tvar", "; var") + "\n\tprint!(%s, \"\\n\");\n" % ", \" \", ".join("v%d" % i for i in range(k))
            psrcs.append((cid, "fn id(x: %s) -> %s\n{\n\treturn: x\n}\nfn main() -> u8\n{\n%s\treturn: 0\n}\n" % (t, t, body)))
            pexp[cid] = " ".join(str(wrap(t, c["v"])) for c in pick)
    pimpl = C.run_harness("exec", psrcs, ck.work + "/line", timeout=1800)
    pm = 0
    for cid, src in psrcs:
        f = pimpl.get(cid, ["missing"])
        if not f[0].startswith("ok"):
            if f[0].startswith("err codes="): pm += 1; mism += 1; ck.violation("representable-rejected:same-line", "in-range literals on one line are rejected: " + f[0], src)
            else: ck.violation(C.failure_key(f[0]), "compiler failed: " + f[0][:160], src)
            continue
        out = C.unesc(f[1].split(" out=", 1)[1].split(" stderr=")[0]).decode(errors="replace").strip() if " out=" in f[1] else "?"
        if out != pexp[cid] or "1142" in f[0]:
            pm += 1; mism += 1
            ck.violation("wrong-value:same-line", "literals on one line print `%s`%s, they denote `%s`" % (out, " (with L1142)" if "1142" in f[0] else "", pexp[cid]), src)
    ck.log("literals sharing a line: %d programs, %d problems" % (len(psrcs), pm))
    ck.log("integers: %d literals %s, %d problems" % (len(cases), dict(stats), mism))
    long_src = [("ld%d" % i, "fn main() -> u8\n{\n\tvar a: u128 = %s;\n\tprint!(a, \"\\n\");\n\treturn: 0\n}\n" % lit, lit) for i, lit in enumerate(
        ["1" + "0" * n_ for n_ in (38, 39, 40, 43, 60)] + ["340282366920938463463374607431768211455" + "0" * n_ for n_ in (0, 1, 2)] + ["1_000" * 10, "1_000" * 10 + "_000", "3" + "4" * 39, "34028236692093846346337460743176821145" + "60", "1" * 39, "1" * 40])]
    limpl = C.run_harness("exec", [(a, b) for a, b, _ in long_src], ck.work + "/longdec", timeout=600)
    for cid, src, lit in long_src:
        v_ = int(lit.replace("_", ""))
        f = limpl.get(cid, ["missing"])
        if v_ >= (1 << 128):
            if not (f[0].startswith("err") and "140" in f[0]):
                mism += 1; ck.violation("e140-missing", "the decimal literal %s (%d digits) exceeds 128 bits but the result is %s %s" % (lit, len(lit.replace("_", "")), f[0], f[1][:80] if len(f) > 1 else ""), src)
        else:
            out_ = C.unesc(f[1].split(" out=", 1)[1].split(" stderr=")[0]).decode(errors="replace").strip() if f[0].startswith("ok") and len(f) > 1 and " out=" in f[1] else f[0]
            if out_ != str(v_):
                mism += 1; ck.violation("wrong-value", "the decimal literal %s prints %s" % (lit, out_[:80]), src)
    # characters and strings
    ssrcs, sexp = [], {}
    for b in range(256):
        for form in ("\\x%02X" % b, "\\x%02x" % b):
            cid = "c%d%s" % (b, form[2])
            ssrcs.append((cid, "fn main() -> u8\n{\n\tvar c: char8 = '%s';\n\tprint!(c as u8, \"\\n\");\n\treturn: 0\n}\n" % form)); sexp[cid] = [str(b)]
    for ch in range(32, 127):
        lit = {39: "\\'", 92: "\\\\"}.get(ch, chr(ch))
        cid = "p%d" % ch
        ssrcs.append((cid, "fn main() -> u8\n{\n\tvar c: char8 = '%s';\n\tprint!(c as u8, \"\\n\");\n\treturn: 0\n}\n" % lit)); sexp[cid] = [str(ch)]
    for k, v in ESCAPES.items():
        cid = "e%d" % v
        ssrcs.append((cid, "fn main() -> u8\n{\n\tvar c: char8 = '\\%s';\n\tprint!(c as u8, \"\\n\");\n\treturn: 0\n}\n" % k)); sexp[cid] = [str(v)]
    for i, (expr, exp) in enumerate(string_cases(rng, 150 if tier == "quick" else 6000)):
        cid = "s%d" % i
        ssrcs.append((cid, string_program(expr, len(exp), i % 4))); sexp[cid] = [str(len(exp))] + [str(x) for x in exp]
    impl2 = C.run_harness("exec", ssrcs, ck.work + "/str", timeout=1800)
    smism = 0
    for cid, src in ssrcs:
        f = impl2.get(cid, ["missing"])
        if not f[0].startswith("ok"):
            if f[0].startswith("err"): smism += 1; ck.violation("valid-literal-rejected", "a valid character/string literal is rejected: " + f[0], src)
            else: ck.violation(C.failure_key(f[0]), "compiler failed: " + f[0][:160], src)
            continue
        out = f[1].split(" out=", 1)[1].split("\\n")[:-1] if " out=" in f[1] else []
        if out != sexp[cid]:
            smism += 1; ck.violation("wrong-bytes", "literal denotes bytes %s, expected %s" % (out[:12], sexp[cid][:12]), src)
    # malformed forms must be rejected with the documented codes
    bad = [("'ab'", "163"), ("''", "163"), ("'\\q'", "162"), ("\"\\x4\"", "162"), ("\"\\u{110000}\"", "162"), ("\"\\u{D800}\"", "162"), ("\"abc", "160"), ("\"abc\\", "161"), ("12abc", "141"), ("0x", "141"), ("1u7", "141")]
    bsrcs = [("b%d" % i, "fn main() -> u8\n{\n\tvar c = %s\n\t;\n\treturn: 0\n}\n" % lit) for i, (lit, _) in enumerate(bad)]
    impl3 = C.run_harness("front", bsrcs, ck.work + "/bad")
    for (cid, src), (lit, code) in zip(bsrcs, bad):
        f = impl3.get(cid, ["missing"])
        if not (f[0].startswith("err") and code in f[0]):
            smism += 1; ck.violation("malformed-accepted:" + code, "malformed literal %s should be rejected with E%s, got %s" % (lit, code, f[0]), src)
    # string literals written by print!/format! next to other arguments: every byte arrives (per cent signs and
    # conversion-like text included; a NUL ends the output: C01's listed D72, not repeated here)
    pcs = []
    for pi, lit in enumerate(["100%% of ", "%d%s%c%n", "%", "%%", "50% off %s", "a%5$lldb", "\\x25\\x64", "tab\\t%u\\n", "%.*s", "%lld %llu %p"]):
        for form in ('print!("%s", x, "|\\n");', 'print!(x, "%s", "|\\n");', 'print!("%s");'):
            pcs.append(("pc%d.%d" % (pi, len(pcs)), "fn main() -> u8\n{\n\tvar x: i32 = 7;\n\t%s\n\treturn: 0\n}\n" % (form % lit), lit, form))
    pimpl = C.run_harness("exec", [(c[0], c[1]) for c in pcs], ck.work + "/percent", timeout=600)
    for cid, src, lit, form in pcs:
        f = pimpl.get(cid, ["missing"])
        raw = lit.replace("\\x25", "%").replace("\\x64", "d").replace("\\t", "\t").replace("\\n", "\n").encode()
        want = {0: raw + b"7|\n", 1: b"7" + raw + b"|\n", 2: raw, 3: raw + b"7|\n"}[['print!("%s", x', 'print!(x, "%s"', 'print!("%s");', 'var s = format!'].index([k for k in ('print!("%s", x', 'print!(x, "%s"', 'print!("%s");', 'var s = format!') if form.startswith(k)][0])]
        if not f[0].startswith("ok"):
            if not f[0].startswith("err codes="): ck.violation(C.failure_key(f[0]), "compiler failed: " + f[0][:160], src)
            continue
        got = C.unesc(f[1].split(" out=", 1)[1].split(" stderr=")[0]) if " out=" in f[1] else b"?"
        if got != want:
            smism += 1; ck.violation("printed-literal-altered", "the string literal \"%s\" is written as %r, its bytes (with the other items) are %r" % (lit, got, want), src)
    ck.log("characters/strings: %d programs, %d problems" % (len(ssrcs) + len(bsrcs) + len(pcs), smism))
    # literals in type position (array lengths, only in size-of expressions: nothing is allocated) and the
    # range of usize on the 32-bit target: never silently altered
    lens = [0, 1, 255, 65536, (1 << 31) - 1, (1 << 32) - 1, (1 << 63) + 1, (1 << 64) - 1, 1 << 64, (1 << 64) + 3, (1 << 64) + (1 << 32), 1 << 100, (1 << 127) + 7, (1 << 128) - 1]
    lsrcs = [("n%d" % i, "fn main() -> u8\n{\n\tprint!(|:[%d]u8|, \"\\n\");\n\treturn: 0\n}\n" % v) for i, v in enumerate(lens)]
    impl4 = C.run_harness("exec", lsrcs, ck.work + "/len", timeout=600)
    lmism = 0
    for (cid, src), v in zip(lsrcs, lens):
        f = impl4.get(cid, ["missing"])
        if f[0].startswith("ok"):
            out = C.unesc(f[1].split(" out=", 1)[1].split(" stderr=")[0]).decode(errors="replace").strip() if " out=" in f[1] else "?"
            if out != str(v):
                lmism += 1; ck.violation("silently-altered:array-length", "the array length literal %d is accepted and becomes %s" % (v, out), src)
        elif not (f[0].startswith("err codes=") or f[0].startswith("internal-error")):   # (the internal error beyond 2^32 elements is C10's D45)
            ck.violation(C.failure_key(f[0]), "compiler failed: " + f[0][:200], src)
    # usize on the 32-bit target (D54, repaired): the lint and the stored value are those of the model with
    # usize_bits = 32 (Literal.lint_on 32 / bits_of 32) in every spelling of the literal
    wvals = [0, 1, (1 << 31), (1 << 32) - 1, 1 << 32, (1 << 32) + 5, 1 << 63, (1 << 64) - 1, 1 << 64, (1 << 127), (1 << 128) - 1]
    wcases = []
    for v in wvals:
        wcases.append((str(v), "naked", "-", v))
        wcases.append(("%dusize" % v, "suffixed", "usize", v))
        wcases.append((hex(v), "bits", "-", v))
        wcases.append((bin(v), "bits", "-", v))
    wsrcs = [("u%d" % i, "fn main() -> u8\n{\n\tvar x: usize = %s;\n\tvar y: usize = x + 1;\n\treturn: 0\n}\n" % text) for i, (text, _, _, _) in enumerate(wcases)]
    impl5 = C.run_harness("ir-wasm", wsrcs, ck.work + "/wasm", timeout=600)
    model5 = C.run_model([("literal", "u%d" % i, "(0 %s %d %s usize 32)" % (kind, v, sfx)) for i, (_, kind, sfx, v) in enumerate(wcases)], ck.work + "/wasm")
    for (cid, src), (text, kind, sfx, v) in zip(wsrcs, wcases):
        f = impl5.get(cid, ["missing"])
        if not f[0].startswith("ok"):
            if not f[0].startswith("err codes="): ck.violation(C.failure_key(f[0]), "compiler failed: " + f[0][:200], src)
            continue
        linted = "1142" in f[0]
        stored = __import__("re").search(r"store i32 (-?\d+), i32\* %x", C.unesc(f[1]).decode(errors="replace"))
        if (v >= (1 << 32)) != linted:
            lmism += 1
            ck.violation("silently-altered:wasm-usize" if not linted else "false-lint:wasm-usize",
                         "wasm32 target: `var x: usize = %s` %s L1142; the value stored is %s" % (text, "raises" if linted else "does not raise", stored.group(1) if stored else "?"), src)
        m = dict(x.split("=", 1) for x in model5.get(cid, "lint=? value=?").split(" "))
        got = (str(linted).lower(), str(int(stored.group(1)) % (1 << 32)) if stored else "?")
        if got != (m["lint"], m["value"]):
            lmism += 1
            ck.violation("tie-broken:literal-wasm", "wasm32 target: `var x: usize = %s`: lint %s, stored %s; Model/Literal.v (lint_on 32, bits_of 32) says lint %s, value %s" % (text, got[0], got[1], m["lint"], m["value"]), src)
    # several modules on the 32-bit target: every module is linted against ITS usize (the linter is made anew per module)
    two = "".join("//// module m%d.pn\n%sfn f%d() -> usize\n{\n\tvar n: usize = 4294967296;\n\treturn: n\n}\n" % (k_, "pub extern fn start()\n{\n}\n" if k_ == 0 else "", k_) for k_ in range(3))
    g2 = C.run_harness("ir-wasm", [("two", two)], ck.work + "/wasm2", timeout=600).get("two", ["missing"])
    if not g2[0].startswith("ok") or g2[0].count("1142") != 3:
        lmism += 1
        ck.violation("silently-altered:wasm-usize:later-module" if g2[0].startswith("ok") else C.failure_key(g2[0]), "three modules compiled for wasm32, each with `var n: usize = 4294967296;`: %s (L1142 expected three times)" % g2[0][:120], two)
    ck.log("array lengths and 32-bit usize: %d programs, %d problems" % (len(lsrcs) + len(wsrcs), lmism))
    # the tie of Model/LintWalk.v: the declarations the real pipeline hands to the linter (serialised by
    # harness/src/lintser.rs) go through the extracted traversal; its lints (code, position) must be the real ones
    from .. import gen_prog as GP2, gen_mut as GM2
    wsrc = [(cid, src) for cid, src in srcs[:: (3 if tier == "quick" else 1)]]
    wrng = random.Random(ck.seed + 909)
    for i in range(150 if tier == "quick" else 6000):
        g = GP2.Gen(random.Random(wrng.getrandbits(64)), level=3, max_funcs=3)
        text = GP2.source(g.program(), random.Random(i), plain=(i % 2 == 0))
        # push some literals out of range: append digits to a few decimal literals
        def grow(m): return m.group(0) + ("00" if wrng.random() < 0.3 else "")
        wsrc.append(("wg%d" % i, __import__("re").sub(r"(?<![\w.])[1-9][0-9]{0,2}(?![\w.])", grow, text)))
    for i, (name, text) in enumerate(GM2.corpus()):
        wsrc.append(("wc%d" % i, text))
    for i, (k, text) in enumerate(GM2.stream(wrng, 200 if tier == "quick" else 8000)):
        wsrc.append(("wm%d" % i, text))
    wimpl = C.run_harness("lintwalk", wsrc, ck.work + "/lintwalk", timeout=1800)
    witems = [("lintwalk", cid, wimpl[cid][1]) for cid, _ in wsrc if cid in wimpl and len(wimpl[cid]) >= 3 and wimpl[cid][1].startswith("(mod")]
    wmodel = C.run_model(witems, ck.work + "/lintwalk")
    wbad = 0; wstats = collections.Counter()
    for cid, src in wsrc:
        f = wimpl.get(cid, ["missing"])
        if len(f) < 3 or not f[1].startswith("(mod"):
            wstats["not-linted:" + f[0].split(" ")[0].split("=")[0]] += 1
            if f[0].startswith("panic") or f[0].startswith("crash"): pass      # crashes are C02's business
            continue
        m = wmodel.get(cid, "MODEL-MISSING")
        if f[2].startswith("DIFF"):
            wbad += 1; ck.violation("tie-broken:lint-replica", "the hand-driven pipeline of the harness sees other lints than the real one: " + f[2][:300], src); continue
        if not m.startswith("lints="):
            wbad += 1; ck.violation("tie-broken:model-error", "LintWalk model failed: " + m[:200], src); continue
        mp = {"lints": m[len("lints="):m.index(" literals=")]}
        mp.update(dict(x.split("=", 1) for x in m[m.index(" literals=") + 1:].split(" ") if "=" in x))
        if "range-table-mismatch" in mp:
            wbad += 1; ck.violation("tie-broken:range-table", "value_type.rs min/max of %s differ from Gen/TypeTables.v" % mp["range-table-mismatch"], src); continue
        nl = f[2].count("(1142 ")
        wstats["literals"] += int(mp.get("literals", 0)); wstats["L1142"] += nl; wstats["L1800"] += f[2].count("(1800 "); wstats["modules"] += 1
        if mp["lints"] != f[2]:
            wbad += 1
            missing = [x for x in mp["lints"].replace(")(", ") (").split(" ") if x and x not in f[2]]
            ck.violation("literal-not-linted" if missing else "lint-differs",
                         "the linter's lints differ from the traversal of Model/LintWalk.v (which reaches every literal: lint_visits_are_occurrences)%s" % (
                             "; not reported: " + " ".join(missing[:5]) if missing else ""),
                         "source:\n%s\nreal : %s\nmodel: %s\ndeclarations: %s" % (src, f[2], mp["lints"], f[1][:3000]))
    ck.log("lint traversal tie: %d modules %s, %d problems" % (len(wsrc), dict(wstats), wbad))
    if not proof_ok:
        ck.violation("tie-broken:proof", "Props/C09.v no longer checks", getattr(ck, "proof_output", "")[-2000:])
    ck.coverage.update(
        evaluations=len(cases) + len(ssrcs) + len(bsrcs), distinct_nontrivial=len(distinct),
        rule="integer matrix: 11 integer types x boundary values (0, 1, max, max+1, min, min-1, 2^32, 2^64, 2^127, 2^128-1, 2^128, ...) plus random values x {decimal, hex upper/lower, binary} x {underscores} x {suffix} x {unary minus}, in every place a literal can stand (initialiser, return value, call argument, assignment, array element, if condition, structure member, constant): run-time value must be the value modulo 2^N, L1142 iff out of range, E140 beyond 128 bits; every byte as \\xHH in a char literal, all printable characters, all simple escapes; random strings with simple, \\x, \\u{} escapes, raw multi-byte characters and adjacent-literal concatenation (length and every byte printed); malformed forms with their documented codes; distinct = distinct (type, spelling); every string literal stands in one of four places in turn (sized array variable, slice argument, constant, slice variable)",
        integer_stats=dict(stats), integer_problems=mism, string_problems=smism,
        samples=[dict(literal=cases[5]["text"], type=cases[5]["t"], result=impl.get("i5", ["?"])[:2]), dict(source=ssrcs[-1][1][:300])])
    ck.assumptions += ["the spelling -> token step (lexing) is proved on the lexer model (C14) and exercised here end to end",
                       "printing goes through print! (snprintf %llu/%lld and the 128-bit path)"]
    return ck.finish()
