"""C02 — the compiler never crashes and never fails silently."""
import random, collections, itertools, os
from .. import common as C
from .. import gen_mut as GM
from .. import gen_prog as GP

TOKENS = ["fn", "var", "const", "if", "else", "goto", "loop", "pub", "extern", "struct", "import", "x", "main", "i32", "u8", "1", "0x1", "'a'", '"s"',
          "(", ")", "{", "}", "[", "]", ";", ":", ",", "=", "==", "+", "-", "&", "|", "->", ".", "as", "print!", "true"]


def classify(f, src=""):
    v = f[0]
    if v.startswith("ok"): return None
    if v.startswith("err codes=[]") or v.startswith("silent-failure"): return "silent-failure"
    if v.startswith("err codes="): return None
    if v == "not-utf8": return None
    key = C.failure_key(v)
    if key.startswith("impl-failure:crash:"):
        # a signal has no site.  The listed class is "formatting an aggregate": the crash must disappear
        # when the arguments of every print!/format!/eprint! are replaced by an empty string
        import re as _re
        mods = src.split("//// module ")[1:]
        names = [set(_re.findall(r"^(?:pub )?(?:struct|word\d+) (\w+)", m, _re.M)) for m in mods]
        if len(mods) >= 2 and any(names[i] & names[j] for i in range(len(mods)) for j in range(i)) and "Broken module found" in v:
            key = "impl-failure:llvm-verifier:structure-name-in-two-modules"      # (the listed class D58)
        elif _re.search(r"^(?:pub )?struct \w+;", src, _re.M) and crash_needs_opaque(src): key = "impl-failure:llvm-verifier:opaque-structure-by-value"   # (D60)
        elif ("print!" in src or "format!" in src) and crash_is_formatting(src): key += ":print"
        elif __import__("re").search(r"\b(panic|abort|file|line)!\(", src) and crash_needs_builtin_value(src): key += ":builtin-as-value"
        elif __import__("re").search(r"\[[^\]\[]*\]\s*\[\]", src): key += ":array-of-unsized"    # a `[]T` written as the element of an array
        else: key += ":noprint"
    return key


_FMT_CACHE = {}


def crash_needs_opaque(src):
    """the crash disappears when every opaque structure declaration `struct S;` is given a body"""
    import re
    if ("opq", src) in _FMT_CACHE: return _FMT_CACHE[("opq", src)]
    filled = re.sub(r"^((?:pub )?struct \w+);", lambda m: m.group(1) + "\n{\n\tpad_: u8,\n}", src, flags=re.M)
    f = C.run_harness("ir", [("s", filled)], os.path.join(C.CACHE, "work", "C02", "strip"), jobs=1, timeout=120).get("s", ["missing"])
    res = not f[0].startswith("crash")
    _FMT_CACHE[("opq", src)] = res
    return res


def crash_needs_builtin_value(src):
    """the crash disappears when every panic!/abort! used as a VALUE (initialiser, assigned, returned) and every
    file!() is replaced by a literal"""
    import re
    if ("biv", src) in _FMT_CACHE: return _FMT_CACHE[("biv", src)]
    # (a builtin call that does not START its statement stands for a value)
    stripped = re.sub(r"(?m)^([ \t]*\S[^\n]*?)\b(?:panic|abort)!\s*\((?:[^()\"]|\"(?:\\.|[^\"\\])*\")*\)", lambda m: m.group(1) + "0", src)
    stripped = re.sub(r"\bfile!\s*\(\)", '"f"', stripped)
    res = False
    if stripped != src:
        f = C.run_harness("ir", [("s", stripped)], os.path.join(C.CACHE, "work", "C02", "strip"), jobs=1, timeout=120).get("s", ["missing"])
        res = not f[0].startswith("crash")
    _FMT_CACHE[("biv", src)] = res
    return res


def crash_is_formatting(src):
    import re, tempfile
    if src in _FMT_CACHE: return _FMT_CACHE[src]
    # (white space, also a line break, may stand between the `!` and the parenthesis; two levels of nested parentheses)
    stripped = re.sub(r"\b(print|eprint|format|dbg|panic)!\s*\((?:[^()\"]|\"(?:\\.|[^\"\\])*\"|\((?:[^()\"]|\"(?:\\.|[^\"\\])*\"|\((?:[^()\"]|\"(?:\\.|[^\"\\])*\")*\))*\))*\)", lambda m: m.group(1) + '!("")', src)
    res = False
    if stripped != src:
        f = C.run_harness("ir", [("s", stripped)], os.path.join(C.CACHE, "work", "C02", "strip"), jobs=1, timeout=120).get("s", ["missing"])
        res = not f[0].startswith("crash")
    _FMT_CACHE[src] = res
    return res


def run(tier):
    ck = C.Check("C02", tier, level="proof")
    proof_ok = ck.prove(extra_trusted=["absence of panics in the typer, the generator and inside LLVM is explored by the crash stream, not proved"])
    if not ck.builds():
        ck.violation("tie-broken:build", "model or harness does not build", "see log")
        return ck.finish()
    rng = random.Random(ck.seed)
    def witness(src):
        if src.startswith("//cli\n"):
            from . import c18 as c18_
            import subprocess as sp
            if not c18_.build_penne(ck): return None
            wd = os.path.join(ck.work, "witness-cli"); os.makedirs(wd, exist_ok=True)
            open(os.path.join(wd, "w.pn"), "w").write(src)
            p = sp.run([c18_.PENNE, "emit", "--color=never", "w.pn"], cwd=wd, capture_output=True, timeout=300)
            return "impl-failure:stack-overflow:cli-nesting" if "overflowed its stack" in p.stderr.decode(errors="replace") else None
        f = C.run_harness("ir", [("w", src)], ck.work + "/witness", timeout=120).get("w", ["missing"])
        return classify(f, src)
    ck.witness_runner = witness
    n = 2500 if tier == "quick" else 200000
    cases = [("m%d" % i, s, k) for i, (k, s) in enumerate(GM.stream(rng, n))]
    # exhaustive token sequences up to a small length
    L = 2 if tier == "quick" else 3
    k = 0
    for n_ in range(1, L + 1):
        for seq in itertools.product(TOKENS, repeat=n_):
            cases.append(("t%d" % k, " ".join(seq) + "\n", "tokens")); k += 1
    ntok = k
    # multi-module sets (2-3 modules) built from generated programs and faults
    for i in range(60 if tier == "quick" else 4000):
        g = GP.Gen(random.Random(rng.getrandbits(64)), max_funcs=4); p = g.program()
        names = [f[0] for f in p["funcs"]]
        assign = {nm: rng.randrange(rng.choice([2, 3])) for nm in names}
        used = sorted(set(assign.values())); remap = {m: j for j, m in enumerate(used)}
        assign = {nm: remap[m] for nm, m in assign.items()}
        text, _ = GP.source_modules(p, assign, random.Random(i))
        if rng.random() < 0.5: text = GM.mutate(rng, text)
        cases.append(("s%d" % i, text, "modules"))
    # modules that are each valid but define the same symbol (two `main`s, two public functions, public and
    # extern functions of one name, a public function next to a private one)
    defs = {"main": "fn main() -> i32\n{\n\treturn: %d\n}\n", "pub": "pub fn f() -> i32\n{\n\treturn: %d\n}\n", "ext": "extern fn f() -> i32\n{\n\treturn: %d\n}\n",
            "pubext": "pub extern fn f() -> i32\n{\n\treturn: %d\n}\n", "priv": "fn f() -> i32\n{\n\treturn: %d\n}\n", "head": "extern fn f() -> i32;\n"}
    kc = 0
    for a in defs:
        for b in defs:
            ta = defs[a] % 1 if "%d" in defs[a] else defs[a]; tb = defs[b] % 2 if "%d" in defs[b] else defs[b]
            cases.append(("sc%d" % kc, "//// module a.pn\n%s//// module b.pn\n%s" % (ta, tb), "symbol-clash")); kc += 1
    # every stored witness of a defect found so far (repaired or listed), of this and of the other properties
    import glob
    for fpath in sorted(glob.glob(os.path.join(C.VERIF, "findings", "*.pn"))):
        text = open(fpath, newline="").read()
        if os.path.basename(fpath)[:3] in ("C14", "C15", "C16"): continue      # (witnesses for the second-generation front end)
        if not text.startswith("//cli") and not text.startswith("//wasm"):
            cases.append(("fw:" + os.path.basename(fpath), text, "stored-witnesses"))
    # private structures of one name in two modules (D58): different and equal bodies, used or not
    for kc2, (b1, b2) in enumerate([("a: i32,\n\tb: i32,", "x: i64,\n\ty: i64,\n\tz: i64,"), ("a: i32,", "a: i32,"), ("a: i8,", "a: i64,\n\tb: i8,")]):
        ma = "struct Foo\n{\n\t%s\n}\npub fn geta() -> i32\n{\n\tvar f: Foo;\n\tf.a = 1;\n\treturn: f.a as i32\n}\n" % b1
        mb = "import \"a.pn\";\nstruct Foo\n{\n\t%s\n}\nfn main() -> i32\n{\n\tvar g: Foo;\n\tvar n: usize = |:Foo|;\n\treturn: geta() + (n as i32)\n}\n" % b2
        cases.append(("ss%d" % kc2, "//// module a.pn\n%s//// module main.pn\n%s" % (ma, mb), "same-structure-name"))
    # opaque structures (declared without members) in every place a type can stand (D60)
    for ko, (decl, use) in enumerate([("", "var s: S;"), ("struct T\n{\n\ts: S,\n\tx: i32,\n}\n", "var t: T;"), ("", "var n: usize = |:S|;"), ("", "var a: [2]S;"),
                                      ("fn f(s: S) -> i32\n{\n\treturn: 1\n}\n", "var q: i32 = 1;"), ("fn f(s: &S) -> i32\n{\n\treturn: 1\n}\n", "var q: i32 = 1;"), ("const N: usize = |:S|;\n", "var q: usize = N;")]):
        cases.append(("oq%d" % ko, "struct S;\n%sfn main() -> i32\n{\n\t%s\n\treturn: 0\n}\n" % (decl, use), "opaque-structures"))
    # cycles of 2-4 structures / constants in every declaration order (the containment bookkeeping depends on it)
    import itertools as _it
    kcy = 0
    for ncy in (2, 3, 4):
        names_ = ["A", "B", "C", "D"][:ncy]
        decls_ = ["struct %s\n{\n\tm: %s,\n}\n" % (names_[j], names_[(j + 1) % ncy]) for j in range(ncy)]
        cdecl_ = ["const %s: i32 = %s + 1;\n" % (names_[j], names_[(j + 1) % ncy]) for j in range(ncy)]
        for perm in _it.permutations(range(ncy)):
            for dl in (decls_, cdecl_):
                cases.append(("cy%d" % kcy, "".join(dl[j] for j in perm) + "fn main()\n{\n}\n", "cycles")); kcy += 1
                cases.append(("cy%d" % kcy, "fn main()\n{\n}\n" + "".join(dl[j] for j in perm), "cycles")); kcy += 1
    # every spelling of integer literals (separators, bases, suffixes)
    for kl, lit in enumerate(["0b1010_1010", "0b_1", "0b1_", "0x_FF", "0xF_F", "1_000", "1__0", "0_", "0b", "0x", "0b2", "1_u8", "0b1010_1010u8", "0xFFu8", "0b0", "0x0", "00", "0_0"]):
        cases.append(("li%d" % kl, "fn main()\n{\n\tvar mask = %s;\n}\n" % lit, "literal-spellings"))
    # a faulty structure or constant next to functions that use it (the functions are then poisoned without an
    # error of their own: the diagnostics of the declaration must survive the combination) and next to functions
    # with an error of their own
    faulty = ["struct Foo\n{\n\tx: i32,\n\ty: Bar,\n}\n", "struct Foo\n{\n\tx: i32,\n\tx: i32,\n}\n", "struct Foo\n{\n\tx: i32,\n\tv: []i32,\n}\n",
              "word8 Foo\n{\n\tx: i32,\n}\n", "struct Foo\n{\n\tx: i32,\n\tf: Foo,\n}\n", "const Foo: []i32 = 1;\n", "const Foo: i32 = Foo + 1;\n", "const Foo: i32 = true;\n"]
    users = ["fn main() -> i32\n{\n\tvar foo: Foo;\n\treturn: 0\n}\n", "fn main() -> i32\n{\n\tvar foo = Foo { x: 1, y: 2 };\n\treturn: foo.x\n}\n", "fn use(f: Foo) -> i32\n{\n\treturn: f.x\n}\nfn main()\n{\n}\n",
             "fn main() -> i32\n{\n\treturn: Foo\n}\n", "fn main() -> i32\n{\n\tvar n: usize = |:Foo|;\n\treturn: nowhere\n}\n", "fn main()\n{\n}\n"]
    kf = 0
    for fd in faulty:
        for us in users:
            cases.append(("fu%d" % kf, fd + us, "faulty-declaration-with-users")); kf += 1
            cases.append(("fu%d" % kf, us + fd, "faulty-declaration-with-users")); kf += 1
    # a local variable whose WRITTEN type is erroneous, with and without an initialiser, used or not afterwards: the
    # diagnostic of the type must survive (the declaration keeps the only copy of it)
    badtypes = [("[n]i32", "\tvar n: usize = 2;\n", ""), ("Pont", "", ""), ("[N]i32", "", "const N: usize = 1 / 0;\n"), ("[K]i32", "", ""), ("[N]i32", "", "const N: i32 = 2;\n"),
                ("&Pont", "", ""), ("[]Pont", "", ""), ("[2]Pont", "", ""), ("[N]i32", "", "const N: bool = true;\n"), ("[N]Pont", "", "const N: usize = 2;\n"), ("[f]i32", "", "fn f() -> usize\n{\n\treturn: 2\n}\n"),
                ("[N]i32", "", "const N: usize = M;\nconst M: usize = N;\n"), ("&[n]i32", "\tvar n: usize = 2;\n", ""), ("[2][n]i32", "\tvar n: usize = 2;\n", "")]
    kb = 0
    for ty, pre, top in badtypes:
        for init in ("", " = [10, 20]", " = 0", " = Pont { }", " = other"):
            for after in ("", "\tvar y = data;\n", "\tdata[0] = 1;\n", "\tother = data[0];\n"):
                cases.append(("bt%d" % kb, top + "fn main()\n{\n\tvar other: i32 = 0;\n" + pre + "\tvar data: %s%s;\n" % (ty, init) + after + "}\n", "faulty-local-types")); kb += 1
    # every builtin in every position a value or a statement can stand in, with every kind of argument (the builtins are
    # resolved by special arms in the typer, the call analyzer and the generator)
    kbv = 0
    BPRE = "struct S\n{\n\tm: i32,\n}\nfn vf()\n{\n}\nfn rows(s: [][]i32)\n{\n}\nextern fn ext(s: []i32);\nextern fn exts(s: []char8) -> i32;\n"
    for b_ in ('panic!("a")', "abort!()", "file!()", "line!()", 'include_bytes!("a")', 'format!("a", 1)', 'print!("a")', "dbg!(1)", 'eprint!("a")'):
        for ctx in ("\tvar x: i32 = %s;\n", "\tvar x = %s;\n", "\tvar s: []char8 = %s;\n", "\t%s;\n", "\tvar y: i32 = 1 + %s;\n", "\tprint!(%s);\n", "\tvar a = [%s];\n", "\tvar z: usize = %s;\n", "\tvar q = S { m: %s };\n"):
            cases.append(("bv%d" % kbv, BPRE + "fn main()\n{\n" + ctx % b_ + "}\n", "builtins-in-value-position")); kbv += 1
        cases.append(("bv%d" % kbv, BPRE + "fn foo(a: i32) -> i32\n{\n\treturn: %s\n}\nfn main()\n{\n}\n" % b_, "builtins-in-value-position")); kbv += 1
    for arg in ("vf()", "abort!()", "s[0]", "s", "[1i32, 2i32]", "[1, 2]", "S { m: 1 }", "&s", "|s|", "cast s", "s[0][0]", "\"a\" \"b\"", "'c'", "true", "-1", "0x7f", "1u128"):
        cases.append(("bv%d" % kbv, BPRE + "fn g(s: [][]i32)\n{\n\tprint!(%s);\n}\nfn main()\n{\n}\n" % arg, "builtins-in-value-position")); kbv += 1
        cases.append(("bv%d" % kbv, BPRE + "fn g(s: [][]i32)\n{\n\tvar t = format!(\"x\", %s);\n}\nfn main()\n{\n}\n" % arg, "builtins-in-value-position")); kbv += 1
    # literals and other values handed to extern functions (their views have no length: another coercion)
    for arg in ("[1i32, 2i32, 3i32]", "[1, 2, 3]", "[]", "a", "&a", "a[0]", "\"text\"", "[a[0], 2]", "v", "[[1]]"):
        cases.append(("bv%d" % kbv, BPRE + "fn g(v: []i32)\n{\n\tvar a: [3]i32 = [1, 2, 3];\n\text(%s);\n\tvar r = exts(%s);\n}\nfn main()\n{\n}\n" % (arg, arg), "builtins-in-value-position")); kbv += 1
        cases.append(("bv%d" % kbv, BPRE + "fn g(v: []i32)\n{\n\tvar a: [3]i32 = [1, 2, 3];\n\text(%s);\n}\nfn main()\n{\n}\n" % arg, "builtins-in-value-position")); kbv += 1
    # the address of something read-only (a by-value parameter, a word parameter, a constant) under a bit cast and in
    # every position: rejected (E530), never handed to the generator
    for par, ty in (("y: u8", "&i8"), ("y: W", "&[4]u8"), ("y: i32", "&u32"), ("y: []u8", "&[..]u8")):
        for form in ("cast &y", "cast (&y)", "(cast &y)", "&y", "cast &K", "cast &y as usize"):
            for ctx in ("\tvar p: %s = %s;\n", "\tvar p: %s = 0x0;\n\t&p = %s;\n", "\ttakes(%s%s);\n"):
                body = ctx % (ty, form) if ctx.count("%s") == 2 and "takes" not in ctx else ("\ttakes(%s);\n" % form)
                cases.append(("bv%d" % kbv, "word32 W\n{\n\ta: u8,\n\tb: u8,\n\tc: u8,\n\td: u8,\n}\nconst K: u8 = 1;\nfn takes(p: %s)\n{\n}\nfn foo(%s)\n{\n%s}\nfn main()\n{\n}\n" % (ty, par, body), "address-of-read-only")); kbv += 1
    # members and elements of values whose type is never given
    for acc in ("x.a", "x[0]", "x.a.b", "x[0].a", "|x|", "&x", "x as i32", "-x", "x + 1"):
        cases.append(("bv%d" % kbv, "fn main()\n{\n\tvar x;\n\tvar y: i32 = %s;\n}\n" % acc, "untyped-values")); kbv += 1
        cases.append(("bv%d" % kbv, "fn main()\n{\n\tvar x;\n\tvar y = %s;\n}\n" % acc, "untyped-values")); kbv += 1
        cases.append(("bv%d" % kbv, "fn f(i: i32)\n{\n}\nfn main()\n{\n\tvar x;\n\tf(%s);\n}\n" % acc, "untyped-values")); kbv += 1
    # written types of every shape to depth 2 (and a few deeper ones) at every declaration position: a sample of
    # C11's type-legality programs - whatever the verdict, no stage may fail on them
    from .. import gen_legal
    lrng = random.Random(ck.seed + 2011)
    lall = [(pos, t) for pos in gen_legal.positions() for t in gen_legal.types(2)]
    for kl2, (pos, t) in enumerate(lrng.sample(lall, min(len(lall), 700 if tier == "quick" else 20000))):
        cases.append(("tl%d" % kl2, gen_legal.program(pos, t)[0], "written-types"))
    for kd, ty in enumerate(["&&void", "&&&void", "&&(i32)", "&&[:]i32", "&(&void)", "[2]&&void", "&&[..]void", "&[]&void", "(&&void)"]):
        cases.append(("td%d" % kd, "fn foo(x: %s)\n{\n}\nfn main()\n{\n\tvar n: usize = |:%s|;\n}\n" % (ty, ty), "written-types"))
    # an erroneous operand inside every expression form: its diagnostic must survive (an operand whose type is
    # unknown makes the enclosing form fail without a diagnostic of its own)
    forms = ["cast q", "q as u8", "-q", "!q", "(q)", "q + 1", "1 + q", "q[0]", "arr[q]", "f(q)", "f(cast q)", "[q, 1]", "S { m: q }", "|q|", "&q", "cast &q", "q.m", "(cast q) as u8", "f(-q)"]
    forms += [f_.replace("q", alt) for f_ in ("arr[q]", "q + 1", "f(q)", "[q, 1]", "S { m: q }", "-q", "q as u8", "arr[arr[q]]", "|arr2[q]|") for alt in ("missing(1)", "f(1, 2)", "|:[:]u8|", "f()", "f(true)")]
    for kq, form in enumerate(forms):
        for ctx in ("var p: &u8 = %s;", "var p = %s;", "p2 = %s;", "f(%s);", "if %s == 1\n\t{\n\t}"):
            cases.append(("eo%d.%d" % (kq, len(cases)), "struct S\n{\n\tm: i32,\n}\nfn f(x: i32) -> i32\n{\n\treturn: x\n}\nfn main()\n{\n\tvar arr: [2]i32 = [1, 2];\n\tvar p2: i32 = 0;\n\t%s\n}\n" % (ctx % form), "erroneous-operands"))
    # deep nesting within the stated bound (depth <= 256)
    for d in (32, 128, 256):
        cases.append(("n%da" % d, "fn main() -> i32\n{\n\treturn: " + "(" * d + "1" + ")" * d + "\n}\n", "nesting"))
        cases.append(("n%db" % d, "fn main()\n{\n" + "{" * d + "}" * d + "\n}\n", "nesting"))
        cases.append(("n%dc" % d, "fn main() -> i32\n{\n\tvar x: i32 = 1;\n\treturn: " + "-(" * d + "x" + ")" * d + "\n}\n", "nesting"))
    # the inputs of the other properties' checks (small samples): whatever they are meant to test, nothing may crash
    from . import c06, c07, c08, c11
    from .. import gen_bodies as GB, gen_c08, gen_cfg
    bodies, nex6, _ = c06.cases("quick", ck.seed)
    sel = [b for k, b in bodies[:nex6] if GB.size(b) <= (4 if tier == "quick" else 5)] + [b for k, b in bodies[nex6:nex6 + (300 if tier == "quick" else 20000)]]
    for i, b in enumerate(sel): cases.append(("y%d" % i, GB.program(b), "syntax-bodies"))
    r11 = random.Random(ck.seed + 11)
    for i in range(150 if tier == "quick" else 6000):
        names, kinds, decls, edges, order = c11.graph_module(r11)
        cases.append(("g%d" % i, c11.render(names, kinds, decls, edges, r11.sample(order, len(order)))[0], "declaration-graphs"))
    c7 = c07.cases(tier); r7 = random.Random(ck.seed + 7)
    for i, c in enumerate(r7.sample(c7, min(len(c7), 600 if tier == "quick" else 5000)) + [c for c in c7 if c[0].startswith(("ADV", "CP", "LEN"))]): cases.append(("k%d" % i, c[1] + "fn main()\n{\n}\n", "typing-gate"))
    for i, (name, tmpl, _) in enumerate(c08.INVALID + c08.VALID): cases.append(("u%d" % i, tmpl.format(t="i32"), "mutability-rules"))
    g8 = gen_c08.generate(); r8 = random.Random(ck.seed + 8)
    for i, (cid, src) in enumerate(r8.sample(g8, min(len(g8), 300 if tier == "quick" else 1784)) + gen_c08.random_programs(100 if tier == "quick" else 5000, ck.seed)):
        cases.append(("z%d" % i, src, "mutability-programs"))
    rc = random.Random(ck.seed + 3)
    for i in range(100 if tier == "quick" else 5000):
        cases.append(("f%d" % i, gen_cfg.source(gen_cfg.gen(rc, depth=rc.choice([1, 2, 3, 4]))), "control-flow-skeletons"))
    # declarations that contain themselves, directly or through another one, by every kind of member type
    forms = ["A", "[2]A", "[N]A", "[N][2]A", "[2][N]A", "&A", "&[2]A", "&[N]A", "[2]&A", "[]A", "&[]A"]
    kq = 0
    for f1 in forms:
        cases.append(("q%d" % kq, "const N: usize = 2;\nstruct A\n{\n\tx: i32,\n\titems: %s,\n}\nfn main() -> i32\n{\n\tvar a: A;\n\ta.x = 1;\n\treturn: a.x\n}\n" % f1, "self-containing")); kq += 1
        for f2 in forms[:6]:
            cases.append(("q%d" % kq, "struct A\n{\n\tb: %s,\n}\nconst N: usize = 2;\nstruct B\n{\n\ta: %s,\n\tx: i32,\n}\nfn main() -> i32\n{\n\tvar v: B;\n\tv.x = 1;\n\treturn: v.x\n}\n" % (f1.replace("A", "B"), f2), "self-containing")); kq += 1
    for e in ("N", "N + 1", "|:A|", "M", "|:[N]u8|"):
        cases.append(("q%d" % kq, "const N: usize = %s;\nconst M: usize = N;\nstruct A\n{\n\titems: [M]u8,\n}\nfn main()\n{\n}\n" % e, "self-containing")); kq += 1
    # escapes in literals: every two-character tail of \x over a small alphabet, \u{...} shapes, lone backslashes
    ke = 0
    alpha = "09afAFgzZ_ }{"
    for a in alpha:
        for b in alpha:
            for q in ('"', "'"):
                cases.append(("e%d" % ke, "fn main()\n{\n\tvar s = %s\\x%s%s%s;\n}\n" % (q, a, b, q), "escapes")); ke += 1
    for body in ["\\u{}", "\\u{g}", "\\u{110000}", "\\u{D800}", "\\u{41", "\\u41}", "\\u{0000000041}", "\\", "\\q", "\\x", "\\x4", "\\0", "\\u{-1}", "\\u{ 41}", "\\U{41}"]:
        for q in ('"', "'"):
            cases.append(("e%d" % ke, "fn main()\n{\n\tvar s = %s%s%s;\n}\n" % (q, body, q), "escapes")); ke += 1
    # print! / format! with format-like and control bytes in the text, with and without arguments of every type
    texts = ["a\\0b", "%d %s %%", "100%", "\\n\\t\\r", "é€😀", "\\x00\\xFF", "{}", "a\\\"b", ""]
    args = ["", ", 1i32", ", 200u8", ", -5i128", ", true", ", 'c'", ", 18446744073709551615u64", ", x", ", x, x"]
    for ti, t in enumerate(texts):
        for ai, a in enumerate(args):
            for b in ("print", "eprint", "format"):
                stmt = '%s!("%s"%s);' % (b, t, a) if b != "format" else 'var s = format!("%s"%s);' % (t, a)
                cases.append(("pf%d" % ke, "fn main()\n{\n\tvar x: i32 = 7;\n\t%s\n}\n" % stmt, "print-formats")); ke += 1
                if b == "format" and ti < 2:
                    # the formatted text used afterwards (D73)
                    cases.append(("pf%d" % ke, "fn main()\n{\n\tvar x: i32 = 7;\n\t%s\n\tprint!(s, \"|\\n\");\n}\n" % stmt, "print-formats")); ke += 1
    # two and three modules that use the same builtins (state that survives from one module to the next)
    k2 = 0
    for b1 in ('print!("a\\n");', "abort!();", 'var s = format!("x", 1);', 'print!(12345i64, "\\n");'):
        for b2 in ('print!("b\\n");', "abort!();", 'print!(7u8, "\\n");'):
            for call in ("", "\tvar y: i32 = helper(3);\n"):
                m0 = 'import "m1.pn";\nfn main() -> u8\n{\n%s\t%s\n\treturn: 0\n}\n' % (call, b1)
                m1 = 'pub fn helper(x: i32) -> i32\n{\n\t%s\n\treturn: x\n}\n' % b2
                m2 = 'fn unused()\n{\n\t%s\n}\n' % b1
                for order in (("m0.pn", m0, "m1.pn", m1), ("m1.pn", m1, "m0.pn", m0)):
                    cases.append(("j%d" % k2, "//// module %s\n%s//// module %s\n%s" % order, "modules-sharing-builtins")); k2 += 1
                cases.append(("j%d" % k2, "//// module m0.pn\n%s//// module m1.pn\n%s//// module m2.pn\n%s" % (m0, m1, m2), "modules-sharing-builtins")); k2 += 1
    impl = C.run_harness("ir", [(c[0], c[1]) for c in cases], ck.work + "/crash", timeout=3000)
    stats = collections.Counter(); kinds = collections.Counter()
    for cid, src, kind in cases:
        f = impl.get(cid, ["missing"])
        key = classify(f, src)
        stats[f[0].split(" ")[0].split("=")[0] if key is None else key] += 1
        kinds[kind.split(":")[0]] += 1
        if key is not None:
            ck.violation(key, "compilation ended abnormally: %s" % f[0][:200], "input kind: %s\nsource:\n%s" % (kind, src))
    # the second target: everything that compiles natively must compile for wasm32 as well (same front end,
    # other types for usize and the intrinsics) - a sample of every kind of input
    by_kind = collections.defaultdict(list)
    for c in cases: by_kind[c[2].split(":")[0]].append(c)
    wsel = [c for k_ in sorted(by_kind) for c in by_kind[k_][: (12 if tier == "quick" else 400)]]
    wimpl = C.run_harness("ir-wasm", [(c[0], c[1]) for c in wsel], ck.work + "/crash-wasm", timeout=3000)
    for cid, src, kind in wsel:
        f = wimpl.get(cid, ["missing"]); fn_ = impl.get(cid, ["missing"])
        key = classify(f, src)
        if key is not None and classify(fn_, src) is None:
            ck.violation(key + ":wasm-only", "compilation for the wasm32 target ended abnormally although the native one does not: %s" % f[0][:200], "input kind: %s\nsource:\n%s" % (kind, src))
        elif f[0].split(" ")[0] != fn_[0].split(" ")[0] and key is None and classify(fn_, src) is None:
            ck.violation("target-dependent-verdict", "native verdict %s, wasm32 verdict %s" % (fn_[0][:80], f[0][:80]), "input kind: %s\nsource:\n%s" % (kind, src))
    # the same nesting cases through the real command line tool (an unoptimised debug build, the main thread's
    # 8 MiB stack): the harness is compiled with opt-level 1 and does not see what this build sees
    from . import c18
    import shutil, subprocess
    if c18.build_penne(ck):
        root = os.path.join(ck.work, "cli"); shutil.rmtree(root, ignore_errors=True); os.makedirs(root)
        for cid, src, kind in [c for c in cases if c[2] == "nesting"]:
            open(os.path.join(root, cid + ".pn"), "w").write(src)
            p = subprocess.run([c18.PENNE, "emit", "--color=never", cid + ".pn"], cwd=root, capture_output=True, timeout=300)
            err = p.stderr.decode(errors="replace")
            if p.returncode in (0, 1) and "panicked" not in err: stats["cli:" + ("ok" if p.returncode == 0 else "err")] += 1; continue
            key = "impl-failure:stack-overflow:cli-nesting" if "overflowed its stack" in err else "impl-failure:cli-exit-%d" % p.returncode
            stats[key] += 1
            ck.violation(key, "penne emit on a program nested %s deep ended with status %d: %s" % (cid[1:-1], p.returncode, err.strip().splitlines()[-1][:120] if err.strip() else ""), "input kind: nesting (command line tool)\nsource:\n%s" % src[:400])
    ck.log("crash stream: %d inputs %s" % (len(cases), dict(stats.most_common(12))))
    if not proof_ok:
        ck.violation("tie-broken:proof", "Props/C02.v no longer checks", getattr(ck, "proof_output", "")[-2000:])
    ck.coverage.update(
        evaluations=len(cases), distinct_nontrivial=len({c[1] for c in cases}), exhaustive_part=ntok,
        rule="crash stream through lex..generate_ir in isolated workers: mutated corpus (tests/samples, examples, core, vendor), generated programs with 1-3 injected faults, token soup, CRLF variants, ALL token sequences up to length %d over a %d-token alphabet (exhaustive), 2-3 module sets, modules that share builtins in both file orders, nesting depth 32/128/256, and samples of the inputs of the other checks (all small statement trees of the syntax check, dependency graphs of constants and structures with cycles, the typing-gate programs, the mutability programs, control-flow skeletons); observables ok | errors (non-empty) | errors (empty) | panic@site | signal | timeout; anything but the first two is a violation keyed by panic site or signal; distinct = distinct inputs" % (L, len(TOKENS)),
        outcomes=dict(stats), input_kinds=dict(kinds),
        samples=[dict(kind=cases[0][2], source=cases[0][1][:300], outcome=impl.get(cases[0][0], ["?"])[0][:100])])
    return ck.finish()
