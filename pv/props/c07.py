"""C07 — no implicit conversions: ill-typed programs are rejected."""
import random, collections, itertools
from .. import common as C
from .. import execstream

PRIMS = ["i8", "i16", "i32", "i64", "i128", "u8", "u16", "u32", "u64", "u128", "usize", "char8", "bool"]
BINOPS = ["+", "-", "*", "/", "%", "&", "|", "^", "<<", ">>"]
CMPOPS = ["==", "!=", ">", ">=", "<", "<="]


def cases(tier):
    out = []
    pairs = list(itertools.product(PRIMS, PRIMS))
    for op in BINOPS:
        for a, b in pairs:
            out.append(("B %s %s %s" % (op, a, b), "fn f(a: %s, b: %s) -> %s\n{\n\treturn: a %s b\n}\n" % (a, b, a, op), "(expr (bin %s (v %s) (v %s)))" % (op, a, b)))
    for op in CMPOPS:
        for a, b in pairs:
            out.append(("C %s %s %s" % (op, a, b), "fn f(a: %s, b: %s) -> bool\n{\n\tvar r: bool = false;\n\tif a %s b\n\t{\n\t\tr = true;\n\t}\n\treturn: r\n}\n" % (a, b, op), "(cmp %s (v %s) (v %s))" % (op, a, b)))
    for op in ("-", "!"):
        for a in PRIMS:
            out.append(("U %s %s" % (op, a), "fn f(a: %s) -> %s\n{\n\treturn: %sa\n}\n" % (a, a, op), "(expr (un %s (v %s)))" % (op, a)))
    for a, b in pairs:
        if a != b:
            out.append(("K %s %s" % (a, b), "fn f(a: %s) -> %s\n{\n\treturn: a as %s\n}\n" % (a, b, b), "(expr (cast (v %s) %s))" % (a, b)))
    # pointers: ordering / arithmetic on pointers, pointer advance offsets
    for op in CMPOPS:
        out.append(("CP %s" % op, "fn f(a: &i32, b: &i32) -> bool\n{\n\tvar r: bool = false;\n\tif &a %s &b\n\t{\n\t\tr = true;\n\t}\n\treturn: r\n}\n" % op, "(cmp %s (v ptr) (v ptr))" % op))
    for t in PRIMS:
        out.append(("ADV %s" % t, "fn f(x: &[..]i32, k: %s) -> i32\n{\n\tvar y: &[..]i32 = &x .. k;\n\treturn: y[0]\n}\n" % t, "(expr (bin .. (v ptr) (v %s)))" % t))
    out.append(("ADV ptr", "fn f(x: &[..]i32, k: &[..]i32) -> i32\n{\n\tvar y: &[..]i32 = &x .. &k;\n\treturn: y[0]\n}\n", "(expr (bin .. (v ptr) (v ptr)))"))
    # calls: argument type and count
    for a, b in pairs:
        out.append(("ARG %s %s" % (a, b), "fn g(x: %s)\n{\n}\nfn f(v: %s)\n{\n\tg(v);\n}\n" % (a, b), "(call (%s) (%s))" % (a, b)))
    for t in PRIMS[:4]:
        out.append(("FEW %s" % t, "fn g(x: %s, y: %s)\n{\n}\nfn f(v: %s)\n{\n\tg(v);\n}\n" % (t, t, t), "(call (%s %s) (%s))" % (t, t, t)))
        out.append(("MANY %s" % t, "fn g(x: %s)\n{\n}\nfn f(v: %s)\n{\n\tg(v, v);\n}\n" % (t, t), "(call (%s) (%s %s))" % (t, t, t)))
    # assignment, initialisation, return: no model entry (the typer decides), verdict only
    for a, b in pairs:
        if a == b: continue
        out.append(("ASG %s %s" % (a, b), "fn f(v: %s)\n{\n\tvar x: %s;\n\tx = v;\n}\n" % (b, a), None))
        out.append(("INI %s %s" % (a, b), "fn f(v: %s)\n{\n\tvar x: %s = v;\n}\n" % (b, a), None))
        out.append(("RET %s %s" % (a, b), "fn f(v: %s) -> %s\n{\n\treturn: v\n}\n" % (b, a), None))
        # the value of a member in a structure literal, of an array element, of a constant
        out.append(("MEM %s %s" % (a, b), "struct H\n{\n\tm: %s,\n}\nfn f(v: %s)\n{\n\tvar h = H { m: v };\n}\n" % (a, b), None))
        out.append(("ELT %s %s" % (a, b), "fn f(v: %s, w: %s)\n{\n\tvar x = [w, v];\n}\n" % (b, a), None))
    for n, m in ((2, 3), (3, 2), (0, 1), (1, 0)):
        out.append(("LEN %d %d" % (n, m), "struct H\n{\n\tm: [%d]i32,\n}\nfn f()\n{\n\tvar h = H { m: [%s] };\n}\n" % (n, ", ".join(["1"] * m)), None))
        out.append(("LEN %d %d" % (n + 10, m + 10), "fn f()\n{\n\tvar a: [%d]i32 = [%s];\n}\n" % (n, ", ".join(["1"] * m)), None))
    # literals: a naked integer takes any integer type (or char8) from its context and nothing else; a suffixed
    # integer, a character, a boolean and a string have exactly one type
    INTS_ = [t for t in PRIMS if t not in ("char8", "bool")]
    for lname, lit, oktypes in (("naked", "1", INTS_ + ["char8"]), ("suffixed", "1u8", ["u8"]), ("char", "'a'", ["char8"]), ("bool", "true", ["bool"]), ("string", "\"s\"", [])):
        for a in PRIMS:
            verdict = "OK" if a in oktypes else None
            out.append(("LIT-INI %s %s" % (lname, a), "fn f()\n{\n\tvar x: %s = %s;\n}\n" % (a, lit), verdict))
            out.append(("LIT-ASG %s %s" % (lname, a), "fn f(v: %s)\n{\n\tvar x: %s = v;\n\tx = %s;\n}\n" % (a, a, lit), verdict))
            out.append(("LIT-ARG %s %s" % (lname, a), "fn g(x: %s)\n{\n}\nfn f()\n{\n\tg(%s);\n}\n" % (a, lit), verdict))
            out.append(("LIT-RET %s %s" % (lname, a), "fn f() -> %s\n{\n\treturn: %s\n}\n" % (a, lit), verdict))
            out.append(("LIT-CMP %s %s" % (lname, a), "fn f(v: %s) -> bool\n{\n\tvar r: bool = false;\n\tif v == %s\n\t{\n\t\tr = true;\n\t}\n\treturn: r\n}\n" % (a, lit), verdict))
    # negation folded into a suffixed literal: signed types only
    for t in INTS_:
        sg = t.startswith("i")
        out.append(("NEG-INI %s" % t, "fn f()\n{\n\tvar x = -23%s;\n}\n" % t, "OK" if sg else None))
        out.append(("NEG-OPD %s" % t, "fn f(v: %s) -> %s\n{\n\treturn: v + -1%s\n}\n" % (t, t, t), "OK" if sg else None))
        out.append(("NEG-CMP %s" % t, "fn f(v: %s) -> bool\n{\n\tvar r: bool = false;\n\tif v > -1%s\n\t{\n\t\tr = true;\n\t}\n\treturn: r\n}\n" % (t, t), "OK" if sg else None))
        out.append(("NEG-ARG %s" % t, "fn g(x: %s)\n{\n}\nfn f()\n{\n\tg(-5%s);\n}\n" % (t, t), "OK" if sg else None))
    # arrays: the element types (lengths of nested arrays included) must be identical; only the outermost
    # length may be dropped by the array-to-slice coercion
    ELEMS = ["i32", "u8", "[3]i32", "[4]i32", "[3]u8", "[2][3]i32", "[2][4]i32", "usize", "u64", "i64", "u32"]
    for e1 in ELEMS:
        for e2 in ELEMS:
            for n, m in ((2, 2), (2, 3)):
                ok = "OK" if e1 == e2 else None
                out.append(("ARR-SLICE %s %d %s" % (e1, m, e2), "fn g(x: []%s)\n{\n}\nfn f()\n{\n\tvar a: [%d]%s;\n\tg(a);\n}\n" % (e1, m, e2), ok))
                out.append(("ARR-INI %d %s %d %s" % (n, e1, m, e2), "fn f()\n{\n\tvar a: [%d]%s;\n\tvar b: [%d]%s = a;\n}\n" % (m, e2, n, e1), None))   # arrays are never copied (E531)
                out.append(("ARR-ASG %d %s %d %s" % (n, e1, m, e2), "fn f()\n{\n\tvar a: [%d]%s;\n\tvar b: [%d]%s;\n\tb = a;\n}\n" % (m, e2, n, e1), None))
                out.append(("ARR-PTR %d %s %d %s" % (n, e1, m, e2), "fn g(x: &[%d]%s)\n{\n}\nfn f()\n{\n\tvar a: [%d]%s;\n\tg(&a);\n}\n" % (n, e1, m, e2), "OK" if e1 == e2 and n == m else None))
    # a constant initialised from another constant, or from an expression over one, has that type
    for a, b in pairs:
        if a in ("bool", "char8") or b in ("bool", "char8"): continue
        ok = "OK" if a == b else None
        out.append(("CONST-REF %s %s" % (a, b), "const A: %s = 5;\nconst B: %s = A;\nfn f()\n{\n}\n" % (a, b), ok))
        out.append(("CONST-EXPR %s %s" % (a, b), "const A: %s = 5;\nconst B: %s = A + 1;\nfn f()\n{\n}\n" % (a, b), ok))
    # calls: every combination of 0-2 parameters and 0-3 arguments
    for np_ in range(0, 3):
        for na in range(0, 4):
            out.append(("ARITY %d %d" % (np_, na), "fn g(%s)\n{\n}\nfn f(v: i32)\n{\n\tg(%s);\n}\n" % (", ".join("p%d: i32" % j for j in range(np_)), ", ".join(["v"] * na)), "OK" if np_ == na else None))
            out.append(("ARITY-LIT %d %d" % (np_, na), "fn g(%s) -> i32\n{\n\treturn: 1\n}\nfn f() -> i32\n{\n\treturn: g(%s)\n}\n" % (", ".join("p%d: i32" % j for j in range(np_)), ", ".join(["7"] * na)), "OK" if np_ == na else None))
    # an address where a value is expected (an excess `&`) is a type error in every position
    for t in ("i32", "u8", "bool"):
        lit = "true" if t == "bool" else "1"
        out.append(("XADDR-ARG %s" % t, "fn g(x: %s)\n{\n}\nfn f()\n{\n\tvar a: %s = %s;\n\tg(&a);\n}\n" % (t, t, lit), None))
        out.append(("XADDR-INI %s" % t, "fn f()\n{\n\tvar b: %s = %s;\n\tvar s: %s = &b;\n}\n" % (t, lit, t), None))
        out.append(("XADDR-ASG %s" % t, "fn f()\n{\n\tvar b: %s = %s;\n\tvar s: %s = %s;\n\ts = &b;\n}\n" % (t, lit, t, lit), None))
        out.append(("XADDR-RET %s" % t, "fn f() -> %s\n{\n\tvar b: %s = %s;\n\treturn: &b\n}\n" % (t, t, lit), None))
        if t != "bool":
            out.append(("XADDR-OPD %s" % t, "fn f() -> %s\n{\n\tvar r: %s = 1;\n\tvar s: %s = 2;\n\treturn: r + &s\n}\n" % (t, t, t), None))
        out.append(("XADDR-OK %s" % t, "fn g(x: &%s)\n{\n}\nfn f()\n{\n\tvar a: %s = %s;\n\tg(&a);\n}\n" % (t, t, lit), "OK"))
    # more `&` than the reference has levels (D80: `&&x` for an `&i32`, `&&&x`, were accepted with the excess dropped)
    for t in ("i32", "u8", "bool"):
        lit = "true" if t == "bool" else "1"
        for k in (2, 3):
            out.append(("XADDR-EXCESS-INI %s %d" % (t, k), "fn f()\n{\n\tvar x: %s = %s;\n\tvar p: &%s = %sx;\n}\n" % (t, lit, t, "&" * k), None))
            out.append(("XADDR-EXCESS-ARG %s %d" % (t, k), "fn g(p: &%s)\n{\n}\nfn f()\n{\n\tvar x: %s = %s;\n\tg(%sx);\n}\n" % (t, t, lit, "&" * k), None))
            out.append(("XADDR-EXCESS-ASG %s %d" % (t, k), "fn f()\n{\n\tvar x: %s = %s;\n\tvar y: %s = %s;\n\tvar p: &%s = &x;\n\t&p = %sy;\n}\n" % (t, lit, t, lit, t, "&" * k), None))
            out.append(("XADDR-EXCESS-MEM %s %d" % (t, k), "struct S\n{\n\tm: %s,\n}\nfn g(p: &%s)\n{\n}\nfn f(s: &S)\n{\n\tg(%ss.m);\n}\n" % (t, t, "&" * k), None))
        out.append(("XADDR-LEVELS-OK %s" % t, "fn g(p: &&%s)\n{\n}\nfn f()\n{\n\tvar x: %s = %s;\n\tvar p: &%s = &x;\n\tg(&&p);\n}\n" % (t, t, lit, t), "OK"))
    for a in ("i32", "u8", "u32"):
        for b in ("u32", "i8", "i32"):
            ok = "OK" if a == b else None
            out.append(("PTRAS %s %s" % (a, b), "fn f()\n{\n\tvar x: %s = 1;\n\tvar q: &%s = &x as &%s;\n}\n" % (a, b, b), ok))
            out.append(("PTRAS-ARG %s %s" % (a, b), "fn g(p: &%s)\n{\n}\nfn f()\n{\n\tvar x: %s = 1;\n\tg(&x as &%s);\n}\n" % (b, a, b), ok))
            out.append(("PTRAS-STORE %s %s" % (a, b), "fn f()\n{\n\tvar x: %s = 1;\n\tvar q: &%s = &x as &%s;\n\tq = 2;\n}\n" % (a, b, b), ok))
            out.append(("ARRAS %s %s" % (a, b), "fn f()\n{\n\tvar x: [2]%s = [1, 2];\n\tvar q: [2]%s = x as [2]%s;\n}\n" % (a, b, b), None))
    # long chains of member accesses through pointers to pointers (each step needs two automatic dereferences:
    # the budget of the typer's autoderef loop was too small from 85 steps on - D61): the type of the whole
    # reference is the type of the last member
    NODE = "struct Node\n{\n\tnext: &&Node,\n\tvalue: i32,\n\tflag: bool,\n}\nfn takes_node(x: Node)\n{\n}\nfn takes_i32(x: i32)\n{\n}\nfn takes_bool(x: bool)\n{\n}\n"
    for k in (1, 40, 84, 85, 86, 100, 126):
        for member, callee, verdict in (("value", "takes_i32", "OK"), ("value", "takes_node", None), ("value", "takes_bool", None), ("flag", "takes_bool", "OK"), ("flag", "takes_i32", None)):
            out.append(("DEEP %d %s %s" % (k, member, callee), NODE + "fn f(n: &Node)\n{\n\t%s(n%s.%s);\n}\n" % (callee, ".next" * k, member), verdict))
        out.append(("DEEP-ASG %d" % k, NODE + "fn f(n: &Node)\n{\n\tn%s.value = 5;\n}\n" % (".next" * k), "OK"))
        out.append(("DEEP-ASGBAD %d" % k, NODE + "fn f(n: &Node)\n{\n\tn%s.value = true;\n}\n" % (".next" * k), None))
    # a scalar is neither indexed nor given members, on either side of an assignment (on the left this reached an
    # unreachable!() of the typer - D36) or behind a pointer
    for t in ("u8", "i32", "bool", "usize"):
        lit = "true" if t == "bool" else "1"
        for acc in ("[2]", "[i]", ".m", "[0][1]", ".m.n", "[0].m"):
            out.append(("SCALAR-ASG %s %s" % (t, acc), "fn f(i: usize)\n{\n\tvar z: %s = %s;\n\tz%s = %s;\n}\n" % (t, lit, acc, lit), None))
            out.append(("SCALAR-INFER-ASG %s %s" % (t, acc), "fn f(i: usize)\n{\n\tvar z = %s;\n\tz%s = %s;\n}\n" % ("true" if t == "bool" else "1" + t, acc, lit), None))
            out.append(("SCALAR-READ %s %s" % (t, acc), "fn f(i: usize)\n{\n\tvar z: %s = %s;\n\tvar r = z%s;\n}\n" % (t, lit, acc), None))
            out.append(("SCALAR-PTR-ASG %s %s" % (t, acc), "fn f(i: usize, z: &%s)\n{\n\tz%s = %s;\n}\n" % (t, acc, lit), None))
        for acc in ("[2]", "[i]", ".m"):
            out.append(("SCALAR-INFERRED-READ %s %s" % (t, acc), "fn f(i: usize)\n{\n\tvar a;\n\ta = %s;\n\ta = a%s;\n}\n" % ("true" if t == "bool" else "3" + t, acc), None))
            out.append(("SCALAR-INFERRED-READ2 %s %s" % (t, acc), "fn f(i: usize)\n{\n\tvar a = %s;\n\tvar b;\n\tb = a%s;\n}\n" % ("true" if t == "bool" else "3" + t, acc), None))
        out.append(("SCALAR-OK %s" % t, "fn f(i: usize, z: &%s)\n{\n\tvar a: [3]%s;\n\ta[i] = %s;\n\tz = a[2];\n}\n" % (t, t, lit), "OK"))
    # the element of an array MEMBER is assigned a value of the element type only (directly, through a pointer to the
    # structure, through a nested structure)
    MT = ["i32", "u32", "u8", "i64", "bool", "usize"]
    for a in MT:
        for b in MT:
            ok = "OK" if a == b else None
            lit = "true" if b == "bool" else "1" + b
            decl = "struct Buffer\n{\n\tdata: [4]%s,\n\tused: usize,\n}\nstruct Outer\n{\n\tinner: Buffer,\n\trows: [2][3]%s,\n}\n" % (a, a)
            out.append(("MEMELT %s %s" % (a, b), decl + "fn f(v: %s)\n{\n\tvar buffer: Buffer;\n\tbuffer.data[1] = v;\n}\n" % b, ok))
            out.append(("MEMELT-LIT %s %s" % (a, b), decl + "fn f()\n{\n\tvar buffer: Buffer;\n\tbuffer.data[1] = %s;\n}\n" % lit, ok))
            out.append(("MEMELT-PTR %s %s" % (a, b), decl + "fn f(buffer: &Buffer, v: %s)\n{\n\tbuffer.data[0] = v;\n}\n" % b, ok))
            out.append(("MEMELT-NEST %s %s" % (a, b), decl + "fn f(o: &Outer, v: %s)\n{\n\to.inner.data[2] = v;\n}\n" % b, ok))
            out.append(("MEMELT-ROWS %s %s" % (a, b), decl + "fn f(o: &Outer, v: %s)\n{\n\to.rows[1][2] = v;\n}\n" % b, ok))
            out.append(("MEMELT-READ %s %s" % (a, b), decl + "fn f(o: &Outer)\n{\n\tvar r: %s = o.inner.data[2];\n}\n" % b, ok))
    # an ill-typed call (argument type, number of arguments) is rejected inside every expression form
    CTX = [("cast", "%s as i64"), ("neg", "-%s"), ("paren", "(%s)"), ("bin", "%s + 1"), ("bin2", "2 * (%s)"), ("index", "arr[%s as usize]"), ("arg", "g2(%s)"), ("castarg", "g2(%s as i32)"),
           ("arrlit", "[%s, 1]"), ("structlit", "S { m: %s }"), ("lenidx", "|rows[%s as usize]|"), ("cmp", "%s == 1"), ("castcast", "(%s as i64) as u8"), ("nested", "g2(arr[g2(%s) as usize])")]
    CPRE = "struct S\n{\n\tm: i32,\n}\nfn g(x: i32) -> i32\n{\n\treturn: x\n}\nfn g2(x: i32) -> i32\n{\n\treturn: x\n}\n"
    for cname, pat in CTX:
        for call, verdict in (("g(ok)", "OK"), ("g(bad)", None), ("g()", None), ("g(ok, ok)", None), ("g(flag)", None)):
            body = "\tvar ok: i32 = 1;\n\tvar bad: u32 = 1;\n\tvar flag: bool = true;\n\tvar arr: [4]i32 = [1, 2, 3, 4];\n\tvar rows: [2][3]i32;\n"
            if cname == "cmp": body += "\tif %s\n\t{\n\t\tok = 2;\n\t}\n" % (pat % call)
            else: body += "\tvar r = %s;\n" % (pat % call)
            out.append(("CALLCTX %s %s" % (cname, call), CPRE + "fn f()\n{\n" + body + "}\n", verdict))
    for a in PRIMS:
        out.append(("MEMOK %s" % a, "struct H\n{\n\tm: %s,\n}\nfn f(v: %s)\n{\n\tvar h = H { m: v };\n}\n" % (a, a), "OK"))
    return out


def wrap(e, es):
    if es.startswith("(v") or es.startswith("(paren"):
        return e, es
    return "(%s)" % e, "(paren %s)" % es


def rand_expr(rng, env, depth):
    """(source, sexp) of a random expression over typed variables"""
    if depth == 0 or rng.random() < 0.25:
        v, t = rng.choice(env)
        return v, "(v %s)" % t
    k = rng.random()
    if k < 0.6:
        op = rng.choice(BINOPS)
        l, ls = wrap(*rand_expr(rng, env, depth - 1)); r, rs = wrap(*rand_expr(rng, env, depth - 1))
        return "%s %s %s" % (l, op, r), "(bin %s %s %s)" % (op, ls, rs)
    if k < 0.7:
        op = rng.choice("-!")
        e, es = rand_expr(rng, env, depth - 1)
        if es.startswith("(bin") or es.startswith("(cast") or es.startswith("(un"):
            return "%s(%s)" % (op, e), "(un %s (paren %s))" % (op, es)
        return "%s%s" % (op, e), "(un %s %s)" % (op, es)
    if k < 0.85:
        e, es = rand_expr(rng, env, depth - 1)
        return "(%s)" % e, "(paren %s)" % es
    e, es = rand_expr(rng, env, depth - 1)
    t = rng.choice(PRIMS)
    if not (es.startswith("(v") or es.startswith("(paren")):
        e, es = "(%s)" % e, "(paren %s)" % es
    return "%s as %s" % (e, t), "(cast %s %s)" % (es, t)


def nested(n, seed):
    rng = random.Random(seed); out = []
    for i in range(n):
        main = rng.choice(PRIMS)
        env = [("v%d" % j, main if rng.random() < 0.8 else rng.choice(PRIMS)) for j in range(4)]
        l, ls = wrap(*rand_expr(rng, env, rng.randint(1, 4))); r, rs = wrap(*rand_expr(rng, env, rng.randint(1, 3)))
        op = rng.choice(CMPOPS)
        src = "fn f(%s) -> bool\n{\n\tvar r: bool = false;\n\tif %s %s %s\n\t{\n\t\tr = true;\n\t}\n\treturn: r\n}\n" % (
            ", ".join("%s: %s" % e for e in env), l, op, r)
        out.append(("N %d" % i, src, "(cmp %s %s %s)" % (op, ls, rs)))
    return out


def run(tier):
    ck = C.Check("C07", tier)
    proof_ok = ck.prove()
    if not ck.builds():
        ck.violation("tie-broken:build", "model or harness does not build", "see log")
        return ck.finish()
    cs = cases(tier) + nested(600 if tier == "quick" else 60000, ck.seed)
    impl = C.run_harness("front", [(c[0], c[1]) for c in cs], ck.work + "/gate", timeout=1800)
    model = C.run_model([("resolve", c[0], c[2]) for c in cs if c[2] and c[2] != "OK"], ck.work + "/gate")
    stats = collections.Counter(); bad = 0
    for cid, src, sx in cs:
        f = impl.get(cid, ["missing"])
        if not (f[0].startswith("ok") or f[0].startswith("err codes=")):
            ck.violation(C.failure_key(f[0]), "compiler failed on %s: %s" % (cid, f[0][:160]), src); continue
        accepted = f[0].startswith("ok")
        codes = [] if accepted else [x for x in f[0][len("err codes="):].strip("[]").split(",") if x]
        kind = cid.split(" ")[0]
        if sx == "OK":
            stats[kind + (":accepted" if accepted else ":rejected")] += 1
            if not accepted:
                bad += 1; ck.violation("well-typed-rejected:" + kind, "%s is rejected (%s)" % (cid, codes), src)
            continue
        if sx is None:
            # differing types on the two sides of an assignment / initialisation / return: must be rejected with an E5xx (or E33x for returns)
            stats[kind + (":accepted" if accepted else ":rejected")] += 1
            if accepted:
                bad += 1; ck.violation("implicit-conversion-accepted:" + kind, "%s: different types on both sides are accepted" % cid, src)
            elif not any(c.startswith("5") or c.startswith("33") for c in codes):
                bad += 1; ck.violation("wrong-code:" + kind, "%s rejected with %s (no E5xx / E33x)" % (cid, codes), src)
            continue
        m = model.get(cid, "MODEL-MISSING")
        spec = None
        if " spec=" in m:
            m, sp = m.split(" spec="); spec = sp == "ok"
        if spec is not None and spec != accepted:
            # the declarative classes of the specification (not the regenerated tables) disagree with the compiler
            bad += 1
            ck.violation(("ill-typed-accepted:" if accepted else "well-typed-rejected:") + kind + ":spec",
                         "%s is %s by the compiler, but the operator classes of the specification (Proofs/ResolveProofs.v binop_class / unop_class / cmpop_class / conversion_spec) say it must be %s" % (cid, "accepted" if accepted else "rejected " + str(codes), "rejected" if accepted else "accepted"), src)
            continue
        m_ok = m == "ok"
        mcodes = [] if m_ok else m[len("err "):].strip("[]").split(",")
        stats[kind + (":accepted" if accepted else ":rejected")] += 1
        if accepted != m_ok:
            bad += 1
            if accepted:
                ck.violation("ill-typed-accepted:" + kind, "%s is accepted but the type gate (Model/Resolve.v) rejects it with %s" % (cid, mcodes), src)
            else:
                ck.violation("well-typed-rejected:" + kind, "%s is rejected (%s) but satisfies every typing rule of the gate" % (cid, codes), src)
            continue
        if not accepted and not (set(mcodes) & set(codes)):
            # the typer may report its own code first (E500/E504 conflicting types); the gate's code must then not be contradicted
            if not any(c.startswith("5") for c in codes):
                bad += 1; ck.violation("wrong-code:" + kind, "%s rejected with %s, the gate says %s" % (cid, codes, mcodes), src)
            else:
                stats[kind + ":other-E5xx"] += 1
    ck.log("typing gate: %d one-function programs %s, %d problems" % (len(cs), {k: v for k, v in sorted(stats.items())}, bad))
    # well-typed generated programs must be accepted (and run as the interpreter says)
    n = 150 if tier == "quick" else 10000
    ne, estats, dout, srcs = execstream.run(ck, n, ck.seed + 7, level=2, label="welltyped", metamorphic=False)
    ck.log("well-typed generated programs: %d %s" % (ne, dict(estats)))
    # the tie of Model/Autoderef.v to value_type.rs: the public predicates (can_be_declared_as, can_be_concretization_of,
    # can_coerce_into, can_coerce_address_into, can_autoderef_into, is_wellformed, pointer_depth, is_slice_pointer) of the
    # REAL ValueType on pairs of types = the extracted model's, over every type of depth <= 1 built from a base set
    # that has both members of the char8/u8 alias, two structures, a word, resolved and unresolved names, and a
    # sample of depth 2 and 3
    base = ["(prim 3)", "(prim 6)", "(prim 12)", "(prim 13)", "(prim 11)", "(prim 0)", "(struct 1)", "(struct 2)", "(word 3 4)", "(unresolved)", "(unresolved 1)"]
    def up(ts):
        out = []
        for t in ts:
            out += ["(slice %s)" % t, "(sliceptr %s)" % t, "(endless %s)" % t, "(arraylike %s)" % t, "(ptr %s)" % t, "(view %s)" % t, "(arr %s 3)" % t, "(arr %s 4)" % t, "(arrn %s 9)" % t]
        return out
    d1 = up(base); vrng = random.Random(ck.seed + 707)
    d2 = up(vrng.sample(d1, 30)); d3 = up(vrng.sample(d2, 12))
    tys = base + d1 + vrng.sample(d2, 60 if tier == "quick" else len(d2)) + vrng.sample(d3, 20 if tier == "quick" else len(d3))
    pairs = [(a, b) for a in tys for b in tys]
    if tier == "quick": pairs = vrng.sample(pairs, 6000) + [(a, b) for a in base + d1[:27] for b in base + d1[:27]]
    # pairs a coercion is about: (x, coerced forms of x)
    for t in base[:5] + d1[:18]:
        for a in ("(arr %s 3)" % t, "(arrn %s 9)" % t, "(slice %s)" % t, "(sliceptr %s)" % t, "(ptr (arr %s 3))" % t, "(view (arr %s 3))" % t, "(ptr (ptr (arr %s 3)))" % t):
            for b in ("(slice %s)" % t, "(view (endless %s))" % t, "(ptr (endless %s))" % t, "(sliceptr %s)" % t, "(ptr (arraylike %s))" % t, "(arraylike %s)" % t, "(ptr (sliceptr %s))" % t, "(view (slice %s))" % t):
                pairs.append((a, b))
                pairs.append((a, b.replace("(prim 12)", "(prim 6)") if "(prim 12)" in b else b.replace("(prim 6)", "(prim 12)")))      # across the char8/u8 alias
    vcases = [("v%d" % i, "%s %s" % p) for i, p in enumerate(pairs)]
    vimpl = C.run_harness("vtpred", vcases, ck.work + "/vtpred", timeout=1800)
    vmodel = C.run_model([("vtpred", "v%d" % i, "(pair %s %s)" % p) for i, p in enumerate(pairs)], ck.work + "/vtpred", timeout=1800)
    vbad = 0; vtrue = collections.Counter()
    NAMES = ["can_be_declared_as", "can_be_concretization_of", "can_coerce_into", "can_coerce_address_into", "can_autoderef_into", "a.is_wellformed", "b.is_wellformed", "a.pointer_depth", "a.is_slice_pointer"]
    for i, p in enumerate(pairs):
        r = vimpl.get("v%d" % i, ["missing"])[0]; m = vmodel.get("v%d" % i, "MODEL-MISSING")
        if r != m:
            vbad += 1
            diff = [NAMES[k] for k, (x, y) in enumerate(zip(r.split(" "), m.split(" "))) if x != y] if len(r.split(" ")) == len(m.split(" ")) == 9 else ["?"]
            ck.violation("tie-broken:value-type-predicates", "value_type.rs and Model/Autoderef.v differ on %s for a = %s, b = %s" % (", ".join(diff), p[0], p[1]), "a = %s\nb = %s\nreal : %s\nmodel: %s\n(order: %s)" % (p[0], p[1], r, m, " ".join(NAMES)))
            if vbad > 20: break
        else:
            for k, x in enumerate(r.split(" ")[:5]):
                if x == "1": vtrue[NAMES[k]] += 1
    ck.log("value_type predicates: %d pairs of %d types, holding %s, %d differences" % (len(pairs), len(tys), dict(vtrue), vbad))
    # the tie of the model's autoderef to the typer: steps, address, type and coercion of generated references
    from .. import adtie
    adn, adstats, adbad = adtie.run(ck, 700 if tier == "quick" else 30000, ck.seed + 17)
    asn, asstats, asbad = adtie.run_assign(ck, 700 if tier == "quick" else 30000, ck.seed + 18)
    if not proof_ok:
        ck.violation("tie-broken:proof", "Props/C07.v no longer checks", getattr(ck, "proof_output", "")[-2000:])
    ck.coverage.update(
        evaluations=len(cs) + ne, distinct_nontrivial=len(cs), exhaustive=True,
        rule="exhaustive over primitive type pairs: every binary operator x 13 x 13 operand types, every comparison x 13 x 13, unary operators x 13, casts 13 x 12, pointer comparisons, pointer-advance offsets x 13, call argument types 13 x 13 and wrong arity, and assignment / initialisation / return / structure literal member / array element with differing types 13 x 12 each, array literals of the wrong length (as member and as initialiser), every kind of literal (naked integer, suffixed integer, character, boolean, string) against every primitive type as initialiser / assigned value / argument / return value / comparand (accepted exactly for the types the literal can have): real verdict and codes vs the extracted gate model (accept iff the gate accepts; the gate's code or another E5xx); plus well-typed generated programs (must be accepted and behave as the interpreter says)",
        stats={k: v for k, v in sorted(stats.items())}, problems=bad,
        samples=[dict(case=cs[1][0], source=cs[1][1], real=impl.get(cs[1][0], ["?"])[0], model=model.get(cs[1][0]))])
    return ck.finish()
