"""C10 — compile-time evaluation agrees with run time."""
import random, collections, re
from .. import common as C
from .. import gen_prog as GP

PRIM_SIZE = {"i8": 1, "u8": 1, "char8": 1, "i16": 2, "u16": 2, "i32": 4, "u32": 4, "i64": 8, "u64": 8, "usize": 8, "i128": 16, "u128": 16}
WORD_PRIMS = ["i8", "u8", "char8", "bool", "i16", "u16", "i32", "u32", "i64", "u64", "i128", "u128"]


class Types:
    def __init__(self, rng):
        self.rng = rng
        self.decls = []     # (kind, name, declared, members[(m, tyexpr)])
        self.layout = {}    # name -> layout sexp
        self.wordsize = {}  # name -> declared bytes

    def member_type(self, for_word):
        r = self.rng
        k = r.random()
        words = [d for d in self.decls if d[0].startswith("word")]
        structs = [d for d in self.decls if d[0] == "struct"]
        if for_word:
            if words and k < 0.25:
                w = r.choice(words); return w[1], self.layout[w[1]], self.wordsize[w[1]]
            p = r.choice(WORD_PRIMS)
            return p, ("bool" if p == "bool" else "(int %d)" % PRIM_SIZE[p]), (1 if p == "bool" else PRIM_SIZE[p])
        if k < 0.5:
            p = r.choice(WORD_PRIMS + ["usize"])
            return p, ("bool" if p == "bool" else "(int %d)" % PRIM_SIZE[p]), None
        if k < 0.6: return "&" + r.choice(["i32", "u8"]), "ptr", None
        if k < 0.75 and (words or structs):
            d = r.choice(words + structs); return d[1], self.layout[d[1]], None
        if k < 0.9:
            t, l, _ = self.member_type(False)
            n = r.randint(0, 5)
            return "[%d]%s" % (n, t), "(arr %d %s)" % (n, l), None
        p = r.choice(WORD_PRIMS); return p, ("bool" if p == "bool" else "(int %d)" % PRIM_SIZE[p]), None

    def add(self):
        r = self.rng
        name = "T%d" % len(self.decls)
        if r.random() < 0.5:
            ms = [("m%d" % i,) + self.member_type(False) for i in range(r.randint(0, 5))]
            self.decls.append(("struct", name, None, ms))
        else:
            ms = [("m%d" % i,) + self.member_type(True) for i in range(r.randint(1, 4))]
            size, al = 0, 1
            for m in ms:
                a = min(1 << (m[3] - 1).bit_length(), 8) if m[3] > 0 else 1
                size = a * ((size + a - 1) // a) + m[3]; al = max(al, a)
            size = al * ((size + al - 1) // al)
            fits = [b for b in (8, 16, 32, 64, 128) if b // 8 >= size]
            bits = r.choice(fits) if fits and r.random() < 0.8 else r.choice([8, 16, 32, 64, 128])
            self.decls.append(("word%d" % bits, name, bits // 8, ms))
            self.wordsize[name] = bits // 8
        self.layout[name] = "(struct%s)" % "".join(" " + m[2] for m in ms)
        return name


def layout_case(rng):
    t = Types(rng)
    for _ in range(rng.randint(1, 5)): t.add()
    src = ""
    for kind, name, declared, ms in t.decls:
        src += "%s %s\n{\n%s}\n\n" % (kind, name, "".join("\t%s: %s,\n" % (m[0], m[1]) for m in ms))
    items = []
    queries = []
    for kind, name, declared, ms in t.decls:
        queries.append(("|:%s|" % name, "(sizeof %s)" % t.layout[name]))
        n = rng.randint(0, 4)
        queries.append(("|:[%d]%s|" % (n, name), "(sizeof (arr %d %s))" % (n, t.layout[name])))
    # constants defined by size-of, written BEFORE the declarations they measure; one of them is an array length
    pre = ""
    for kind, name, declared, ms in t.decls:
        pre += "const SZ_%s: usize = |:%s|;\nconst TW_%s: usize = 2 * |:%s| + 1;\n" % (name, name, name, name)
        queries.append(("SZ_%s" % name, "(sizeof %s)" % t.layout[name]))
        queries.append(("|:[SZ_%s]u8|" % name, "(sizeof %s)" % t.layout[name]))
        queries.append(("TW_%s - |:%s| - 1" % (name, name), "(sizeof %s)" % t.layout[name]))
    src = pre + src
    for p in ("bool", "u8", "i128", "usize", "&i32", "[3]bool", "[2][3]u16"):
        lay = {"bool": "bool", "u8": "(int 1)", "i128": "(int 16)", "usize": "(int 8)", "&i32": "ptr", "[3]bool": "(arr 3 bool)", "[2][3]u16": "(arr 2 (arr 3 (int 2)))"}[p]
        queries.append(("|:%s|" % p, "(sizeof %s)" % lay))
    src += "fn main() -> u8\n{\n" + "".join('\tprint!(%s, "\\n");\n' % q for q, _ in queries) + "\treturn: 0\n}\n"
    words = [("(word %d (%s))" % (declared, " ".join(str(m[3]) for m in ms)), name) for kind, name, declared, ms in t.decls if declared]
    return src, queries, words


def const_case(rng, i):
    g = GP.Gen(random.Random(rng.getrandbits(64)))
    consts = []
    lay = GP.Layout(random.Random(i), plain=True)
    lines, prints, sx_consts, sx_stmts = [], [], [], []
    def lift(e, acc, k):
        # the same expression over variables holding the literal operands (nothing for the compiler to fold)
        if e[0] == "lit":
            name = "q%d_%d" % (k, len(acc)); acc.append((name, e[1], e[2])); return ("var", name)
        if e[0] == "bin": return ("bin", e[1], lift(e[2], acc, k), lift(e[3], acc, k))
        if e[0] == "un": return ("un", e[1], lift(e[2], acc, k))
        if e[0] == "cast": return ("cast", e[1], lift(e[2], acc, k))
        if e[0] == "paren": return ("paren", lift(e[1], acc, k))
        return e
    for k in range(rng.randint(1, 6)):
        t = rng.choice(GP.INTS)
        e = g.expr(t, consts, 3)
        name = "K%d" % k
        text = GP.src_expr(e, lay, e[0] != "lit")
        lines.append("const %s: %s = %s;" % (name, t, text))
        acc = []
        le = lift(e, acc, k)
        ltext = GP.src_expr(le, lay, True)
        decls = "".join("\tvar %s: %s = %s;\n" % (q, qt, GP.src_expr(("lit", qt, qv), lay, True)) for q, qt, qv in acc)
        prints.append('\tvar w%d: %s = %s;\n%s\tvar x%d: %s = %s;\n\tprint!(%s, " ", w%d, " ", x%d, " ", %s, "\\n");' % (k, t, text, decls, k, t, ltext, name, k, k, ltext))
        sx_consts.append("(c %s %s %s)" % (name, t, GP.sx_expr(e)))
        sx_stmts.append("(decl w%d %s %s) %s (decl x%d %s %s) (print (var %s) (str 20) (var w%d) (str 20) (var x%d) (str 20) %s (str 0a))" % (
            k, t, GP.sx_expr(e), " ".join("(decl %s %s (lit %s %d))" % (q, qt, qt, qv) for q, qt, qv in acc), k, t, GP.sx_expr(le), name, k, k, GP.sx_expr(le)))
        consts.append((name, t))
    # a named constant as array length
    n = rng.randint(0, 8)
    lines.append("const LEN: usize = %d + %d;" % (n // 2, n - n // 2))
    prints.append('\tvar arr: [LEN]i32;\n\tprint!(|arr|, " ", |:[LEN]i32|, "\\n");')
    lit = ", ".join(str(j) for j in range(n))
    prints.append('\tprint!(count([%s]), " ", count(arr), " ", pcount(&arr), " ", |arr|, "\\n");' % lit if n > 0 else '\tprint!(count(arr), " ", count(arr), " ", pcount(&arr), " ", |arr|, "\\n");')
    lines.append("fn count(x: []i32) -> usize\n{\n\treturn: |x|\n}\nfn pcount(x: &[]i32) -> usize\n{\n\treturn: |x|\n}")
    src = "\n".join(lines) + "\n\nfn main() -> u8\n{\n" + "\n".join(prints) + "\n\treturn: 0\n}\n"
    sx = "(prog (structs) (consts %s) (funcs (fn main () u8 (%s) (lit u8 0))))" % (" ".join(sx_consts), " ".join(sx_stmts))
    return src, sx, n


def check_words(ck, tier):
    """E380 exactly for the words whose aligned size exceeds the declared size: every word of 1-4
    members of 1/2/4/8 bytes at every declared size (used by C10 and C11)"""
    import itertools
    wp = {1: "u8", 2: "i16", 4: "u32", 8: "i64", 16: "i128"}
    cases, items = [], []
    k = 0
    for ln in range(1, 5 if tier == "quick" else 6):
        for seq in itertools.product((1, 2, 4, 8), repeat=ln):
            for bits in (8, 16, 32, 64, 128):
                cid = "x%d" % k; k += 1
                cases.append((cid, "word%d W\n{\n%s}\nfn main()\n{\n}\n" % (bits, "".join("\tm%d: %s,\n" % (i, wp[b]) for i, b in enumerate(seq)))))
                items.append(("layout", cid, "(word %d (%s))" % (bits // 8, " ".join(str(b) for b in seq))))
    impl = C.run_harness("front", cases, ck.work + "/words", timeout=1800)
    model = C.run_model(items, ck.work + "/words")
    bad = 0
    for cid, src in cases:
        f = impl.get(cid, ["missing"]); m = model.get(cid, "")
        if not (f[0].startswith("ok") or f[0].startswith("err codes=")):
            ck.violation(C.failure_key(f[0]), "compiler failed: " + f[0][:200], src); continue
        fits = "accepted=true" in m
        if f[0].startswith("ok") and not fits:
            bad += 1; ck.violation("oversized-word-accepted", "a word whose aligned size exceeds its declared size is accepted (no E380)", "source:\n%s\nmodel: %s" % (src, m))
        elif f[0].startswith("err") and fits:
            bad += 1; ck.violation("valid-layout-rejected", "a word that fits its declared size is rejected: " + f[0], "source:\n%s\nmodel: %s" % (src, m))
        elif f[0].startswith("err") and "380" not in f[0]:
            bad += 1; ck.violation("E380-missing", "a word larger than declared is rejected without E380: " + f[0], src)
    ck.log("words: %d declarations, %d problems" % (len(cases), bad))
    return len(cases), bad


def run(tier):
    ck = C.Check("C10", tier)
    proof_ok = ck.prove(extra_trusted=["LLVM's StructLayout algorithm and the ABI alignments of the module data layout as transcribed in Model/Layout.v (checked against opt-14 on sample types and against every executed program of this check)"])
    if not ck.builds():
        ck.violation("tie-broken:build", "model or harness does not build", "see log")
        return ck.finish()
    rng = random.Random(ck.seed)
    n = 250 if tier == "quick" else 8000
    lcases, items, meta = [], [], {}
    for i in range(n):
        src, queries, words = layout_case(rng)
        cid = "l%d" % i
        lcases.append((cid, src)); meta[cid] = (queries, words)
        for j, (q, sx) in enumerate(queries): items.append(("layout", "%s.q%d" % (cid, j), sx))
        for j, (sx, name) in enumerate(words): items.append(("layout", "%s.w%d" % (cid, j), sx))
    # every word of 1-4 primitive members (sizes 1, 2, 4, 8 bytes) at every declared size: accepted iff it fits
    import itertools
    wp = {1: "u8", 2: "i16", 4: "u32", 8: "i64", 16: "i128"}
    k = 0
    for ln in range(1, 5 if tier == "quick" else 6):
        for seq in list(itertools.product((1, 2, 4, 8), repeat=ln)) + ([s_ for s_ in itertools.product((1, 8, 16), repeat=ln) if 16 in s_] if ln <= 2 else []):
            for bits in (8, 16, 32, 64, 128):
                cid = "x%d" % k; k += 1
                src = "word%d W\n{\n%s}\nfn main() -> u8\n{\n\tprint!(|:W|, \"\\n\");\n\treturn: 0\n}\n" % (bits, "".join("\tm%d: %s,\n" % (i, wp[b]) for i, b in enumerate(seq)))
                lay = "(struct%s)" % "".join(" (int %d)" % b for b in seq)
                queries = [("|:W|", "(sizeof %s)" % lay)]
                words = [("(word %d (%s))" % (bits // 8, " ".join(str(b) for b in seq)), "W")]
                lcases.append((cid, src)); meta[cid] = (queries, words)
                items.append(("layout", cid + ".q0", queries[0][1])); items.append(("layout", cid + ".w0", words[0][0]))
    # sizes taken as CONSTANTS before, between and after the structures they measure, the structures nested through
    # arrays of literal and of named length, in every order of the declarations: the size of a structure is what
    # its members add up to, wherever it is asked for (a structure laid out while a member's structure is still
    # unknown would be cached with the wrong size)
    pdecls = ["const OUTER_SIZE: usize = |:Outer|;\n", "struct Outer\n{\n\ttag: u8,\n\trows: [4]Inner,\n}\n", "struct Inner\n{\n\tdata: [K]u32,\n\tw: u16,\n}\n",
              "const K: usize = J + 1;\n", "const J: usize = 2;\n", "struct Wrap\n{\n\tb: bool,\n\tgrid: [2][J]Outer,\n}\n"]
    pmain = "fn main() -> u8\n{\n\tprint!(OUTER_SIZE, \"\\n\", |:Outer|, \"\\n\", |:Inner|, \"\\n\", |:Wrap|, \"\\n\", |:[3]Outer|, \"\\n\");\n\treturn: 0\n}\n"
    inner = "(struct (arr 3 (int 4)) (int 2))"; outer = "(struct (int 1) (arr 4 %s))" % inner; wrap = "(struct bool (arr 2 (arr 2 %s)))" % outer
    pq = [("OUTER_SIZE", "(sizeof %s)" % outer), ("|:Outer|", "(sizeof %s)" % outer), ("|:Inner|", "(sizeof %s)" % inner), ("|:Wrap|", "(sizeof %s)" % wrap), ("|:[3]Outer|", "(sizeof (arr 3 %s))" % outer)]
    perms = list(itertools.permutations(range(len(pdecls))))
    prng = random.Random(ck.seed + 1010)
    for k2, perm in enumerate(perms if tier != "quick" else prng.sample(perms, 60) + [tuple(range(6)), tuple(reversed(range(6)))]):
        for mainfirst in (False, True):
            cid = "p%d%s" % (k2, "m" if mainfirst else "")
            body = "".join(pdecls[j] for j in perm)
            lcases.append((cid, (pmain + body) if mainfirst else (body + pmain))); meta[cid] = (pq, [])
            for j, (q, sx) in enumerate(pq): items.append(("layout", "%s.q%d" % (cid, j), sx))
    impl = C.run_harness("exec", lcases, ck.work + "/layout", timeout=1800)
    model = C.run_model(items, ck.work + "/layout")
    stats = collections.Counter(); mism = 0; distinct = set()
    for cid, src in lcases:
        f = impl.get(cid, ["missing"])
        queries, words = meta[cid]
        waccept = [model.get("%s.w%d" % (cid, j), "") for j in range(len(words))]
        all_accepted = all("accepted=true" in w for w in waccept)
        if not (f[0].startswith("ok") or f[0].startswith("err codes=")):
            ck.violation(C.failure_key(f[0]), "compiler failed: " + f[0][:200], src); continue
        if f[0].startswith("err"):
            codes = f[0][len("err codes="):].strip("[]").split(",")
            stats["rejected"] += 1
            if all_accepted:
                mism += 1; ck.violation("valid-layout-rejected", "every word fits its declared size by the type checker's own computation, yet: " + f[0], "source:\n%s\nmodel: %s" % (src, waccept))
            elif "380" not in codes:
                mism += 1; ck.violation("E380-missing", "a word larger than declared is rejected without E380: " + f[0], "source:\n%s\nmodel: %s" % (src, waccept))
            continue
        if not all_accepted:
            mism += 1; ck.violation("oversized-word-accepted", "a word whose aligned size exceeds its declared size is accepted (no E380)", "source:\n%s\nmodel: %s" % (src, waccept)); continue
        stats["accepted"] += 1
        out = C.unesc(f[1].split(" out=", 1)[1].split(" stderr=")[0]).decode(errors="replace").split("\n") if " out=" in f[1] else []
        for j, (q, sx) in enumerate(queries):
            m = model.get("%s.q%d" % (cid, j), "")
            mm = dict(p.split("=") for p in m.split(" ")) if m.startswith("sizeof=") else {}
            real = out[j] if j < len(out) else "?"
            distinct.add(sx)
            if not mm or mm["sizeof"] != real:
                mism += 1
                ck.violation("wrong-sizeof", "%s evaluates to %s at run time, the layout model (LLVM allocation size) says %s" % (q, real, mm.get("sizeof")), "source:\n%s\nquery %s = %s\nmodel: %s" % (src, q, real, m))
    # the length of a string literal is its number of BYTES, whichever way it is asked for (by name, through a view
    # parameter, through a variable), also when the bytes are not UTF-8
    slits = [("\\xA350", 3), ("\\xFF\\xFE", 2), ("a\\x80b\\xC3", 4), ("\\xC3\\xA9", 2), ("\\u{e9}", 2), ("\\u{20ac}x", 4), ("\\0\\xF0\\x9F", 3), ("plain", 5), ("", 0), ("\\xE2\\x82", 2)]
    ssrc = "fn count(t: []char8) -> usize\n{\n\treturn: |t|\n}\nfn main() -> u8\n{\n"
    for j_, (lit, _) in enumerate(slits):
        ssrc += "\tvar s%d: []char8 = \"%s\";\n\tvar a%d = \"%s\";\n\tprint!(count(\"%s\"), \" \", |s%d|, \" \", count(s%d), \" \", |a%d|, \" \", count(a%d), \"\\n\");\n" % (j_, lit, j_, lit, lit, j_, j_, j_, j_)
    ssrc += "\treturn: 0\n}\n"
    sres = C.run_harness("exec", [("s", ssrc)], ck.work + "/strlen", timeout=600).get("s", ["missing"])
    if not sres[0].startswith("ok"):
        mism += 1; ck.violation(C.failure_key(sres[0]) if not sres[0].startswith("err codes=") else "valid-rejected:string-lengths", "the string-length program is not compiled: " + sres[0][:200], ssrc)
    else:
        sout = C.unesc(sres[1].split(" out=", 1)[1].split(" stderr=")[0]).decode(errors="replace").strip().split("\n") if " out=" in sres[1] else []
        for j_, (lit, n_) in enumerate(slits):
            want = " ".join([str(n_)] * 5)
            if j_ >= len(sout) or sout[j_] != want:
                mism += 1
                ck.violation("wrong-length:string-literal", "the literal \"%s\" has %d bytes; asked for by name, by view, through a variable it gives `%s`" % (lit, n_, sout[j_] if j_ < len(sout) else "?"), ssrc)
    # the 32-bit target: sizes of types that contain addresses are those of ITS data layout (p:32:32, usize = i32);
    # wasm cannot be run here, so the folded constants are read off the emitted IR (`ret i32 N`)
    wq = [("&u8", 4), ("[3]&u8", 12), ("Node", 8), ("Mixed", 16), ("[2]Node", 16), ("usize", 4), ("[5]usize", 20), ("&&i64", 4), ("Deep", 24), ("u64", 8), ("[3]u16", 6)]
    wsrc = "struct Node\n{\n\ttag: u8,\n\tnext: &Node,\n}\nstruct Mixed\n{\n\tbig: u64,\n\tp: &u8,\n}\nstruct Deep\n{\n\ta: &u8,\n\tn: Node,\n\tm: [2]&Node,\n\tz: u16,\n}\n"
    wsrc += "".join("fn size_%d() -> usize\n{\n\treturn: |:%s|\n}\nconst SIZE_%d: usize = |:%s|;\nfn csize_%d() -> usize\n{\n\treturn: SIZE_%d\n}\n" % (j, t, j, t, j, j) for j, (t, _) in enumerate(wq))
    wsrc += "pub extern fn start()\n{\n}\n"
    wimpl = C.run_harness("ir-wasm", [("w", wsrc)], ck.work + "/wasm-sizes", timeout=600).get("w", ["missing"])
    if not wimpl[0].startswith("ok"):
        ck.violation(C.failure_key(wimpl[0]) if not wimpl[0].startswith("err codes=") else "valid-rejected:wasm-sizes", "the size-of module is not compiled for wasm32: " + wimpl[0][:200], wsrc)
    else:
        wir = C.unesc(wimpl[1]).decode(errors="replace")
        for j, (t, want) in enumerate(wq):
            for fn_ in ("size_%d" % j, "csize_%d" % j):
                mret = re.search(r"define[^\n]*@%s\(\)[^\n]*\{\n(?:[^}]*\n)?\s*ret i32 (-?\d+)" % fn_, wir)
                got = mret.group(1) if mret else "?"
                if got != str(want):
                    mism += 1
                    ck.violation("wrong-sizeof:wasm", "wasm32: |:%s| %s is %s, the target's data layout (32-bit addresses) gives %d" % (t, "as a constant" if fn_.startswith("c") else "in a function", got, want), "source:\n%s\nIR:\n%s" % (wsrc, wir[:6000]))
    ck.log("layout: %d programs %s, %d problems, %d distinct types" % (len(lcases), dict(stats), mism, len(distinct)))
    # constants vs variables vs interpreter
    nc = 150 if tier == "quick" else 8000
    ccases, citems, lens = [], [], {}
    for i in range(nc):
        src, sx, ln = const_case(rng, i)
        ccases.append(("c%d" % i, src)); citems.append(("exec", "c%d" % i, sx)); lens["c%d" % i] = ln
    impl2 = C.run_harness("exec", ccases, ck.work + "/const", timeout=1800)
    model2 = C.run_model(citems, ck.work + "/const")
    cmism = 0; ccmp = 0
    for cid, src in ccases:
        f = impl2.get(cid, ["missing"])
        if not f[0].startswith("ok"):
            if f[0].startswith("err codes="):
                ck.violation("const-rejected:" + f[0], "a constant initialised with a valid constant expression is rejected: " + f[0], src)
            else: ck.violation(C.failure_key(f[0]), "compiler failed: " + f[0][:200], src)
            continue
        out = C.unesc(f[1].split(" out=", 1)[1].split(" stderr=")[0]).decode(errors="replace").split("\n")
        m = model2.get(cid, "")
        if m in ("UB", "FUEL"): continue
        mout = C.unesc(m.split(" out=", 1)[1]).decode(errors="replace").split("\n") if m.startswith("exit=") else None
        ccmp += 1
        for j, line in enumerate(out[:-3]):
            parts = line.split(" ")
            if len(parts) == 4 and len(set(parts)) != 1:
                cmism += 1; ck.violation("const-differs-from-var", "a constant, a variable initialised with the same expression, the expression over variables and the same printed directly differ: %s" % line, src); break
            if mout is not None and j < len(mout) and mout[j] != line:
                cmism += 1; ck.violation("const-differs-from-semantics", "constant expression evaluates to %s, the source semantics gives %s" % (line, mout[j]), src); break
        counts = out[-2] if len(out) >= 2 else "?"
        out = out[:-1]
        if counts != " ".join([str(lens[cid])] * 4):
            cmism += 1; ck.violation("length-through-parameter", "|x| of an array of %d elements passed as a literal / by view / by slice pointer / taken directly prints '%s'" % (lens[cid], counts), src)
        last = out[-2] if len(out) >= 2 else "?"
        exp = "%d %d" % (lens[cid], 4 * lens[cid])
        if last != exp:
            cmism += 1; ck.violation("named-length", "array with named constant length: |arr| and size-of print '%s', expected '%s'" % (last, exp), src)
    # named lengths beyond 32 bits (only size-of: nothing is allocated)
    big = [("n%d" % i, "const BIG: usize = %d;\nfn main() -> u8\n{\n\tprint!(|:[BIG]u8|, \" \", |:[BIG]u16|, \"\\n\");\n\treturn: 0\n}\n" % v, v)
           for i, v in enumerate([65536, (1 << 31) + 1, (1 << 32) - 1, 1 << 32, (1 << 32) + 3, (1 << 33) + 5, (1 << 40) + 7])]
    def bigwitness(src):
        f = C.run_harness("exec", [("w", src)], ck.work + "/witness", timeout=120).get("w", ["missing"])
        return None if f[0].startswith("ok") or f[0].startswith("err codes=") else C.failure_key(f[0])
    ck.witness_runner = bigwitness
    impl3 = C.run_harness("exec", [(b[0], b[1]) for b in big], ck.work + "/big", timeout=600)
    for cid, src, v in big:
        f = impl3.get(cid, ["missing"])
        if not f[0].startswith("ok"):
            if f[0].startswith("err codes="): ck.violation("const-rejected:" + f[0], "an array type with a named length of %d is rejected: %s" % (v, f[0]), src)
            else: ck.violation(C.failure_key(f[0]), "compilation of an array type with a named length of %d ended without a diagnostic: %s" % (v, f[0][:200]), src)
            continue
        out = C.unesc(f[1].split(" out=", 1)[1].split(" stderr=")[0]).decode(errors="replace").strip()
        if out != "%d %d" % (v, 2 * v):
            cmism += 1; ck.violation("named-length", "size-of arrays with named length %d prints '%s', expected '%d %d'" % (v, out, v, 2 * v), src)
    ck.log("constants: %d programs compared, %d problems" % (ccmp, cmism))
    from . import c12
    c12.check_leaks(ck)
    # rows of a named length: `|x[0]|` through a view of rows equals the row length of the array passed
    # (an array with another row length does not coerce: such a call must be rejected)
    rows = []
    for ri, (m, cols) in enumerate([(4, 4), (4, 5), (3, 3), (5, 4), (1, 1), (2, 7)]):
        rows.append(("rw%d" % ri, "const M: usize = %d;\nfn row_len(x: [][M]i16) -> usize\n{\n\treturn: |x[0]|\n}\nfn rows(x: [][M]i16) -> usize\n{\n\treturn: |x|\n}\nfn main() -> u8\n{\n\tvar grid: [3][%d]i16;\n\tprint!(|grid|, \" \", |grid[0]|, \" \", rows(grid), \" \", row_len(grid), \"\\n\");\n\treturn: 0\n}\n" % (m, cols), m, cols))
    rimpl = C.run_harness("exec", [(x[0], x[1]) for x in rows], ck.work + "/rows", timeout=600)
    for cid, src, m, cols in rows:
        f = rimpl.get(cid, ["missing"])
        if f[0].startswith("ok"):
            got = C.unesc(f[1].split(" out=", 1)[1].split(" stderr=")[0]).decode(errors="replace").strip() if " out=" in f[1] else "?"
            if got != "3 %d 3 %d" % (cols, cols):
                ck.violation("length-through-parameter:rows", "|grid| |grid[0]| by name and through a view of rows print `%s` for a [3][%d]i16 passed as [][%d]i16" % (got, cols, m), src)
        elif m == cols and f[0].startswith("err"):
            ck.violation("const-rejected:" + f[0], "an array of rows of the named length is rejected: " + f[0], src)
        elif not f[0].startswith("err codes="):
            ck.violation(C.failure_key(f[0]), "compiler failed: " + f[0][:160], src)
    # structures of one name in two modules (each private): every module's size-of is that of its own structure
    # (the unchanged compiler aborts in LLVM's verifier on these - C02's listed D58 -; when it does not, the sizes count)
    ssets = []
    for si, (b1, b2, want) in enumerate([("tag: u8,", "id: i64,\n\tweight: i64,\n\ttag: u8,", "24 24 72"), ("a: i64,\n\tb: i64,", "x: u8,", "1 1 3"), ("a: i32,", "a: i32,\n\tb: i32,", "8 8 24")]):
        lib = "struct Item\n{\n\t%s\n}\npub fn lib_size() -> usize\n{\n\treturn: |:Item|\n}\n" % b1
        main_ = "import \"shapes.pn\";\nstruct Item\n{\n\t%s\n}\nconst SIZE_OF_ITEM: usize = |:Item|;\nfn main() -> u8\n{\n\tprint!(|:Item|, \" \", SIZE_OF_ITEM, \" \", |:[3]Item|, \"\\n\");\n\treturn: 0\n}\n" % b2
        for order in (0, 1):
            mods = [("shapes.pn", lib), ("main.pn", main_)]
            if order: mods.reverse()
            ssets.append(("ss%d.%d" % (si, order), "".join("//// module %s\n%s" % m for m in mods), want))
    simpl = C.run_harness("exec", [(x[0], x[1]) for x in ssets], ck.work + "/samename", timeout=600)
    for cid, src, want in ssets:
        f = simpl.get(cid, ["missing"])
        if not f[0].startswith("ok"): continue
        got = C.unesc(f[1].split(" out=", 1)[1].split(" stderr=")[0]).decode(errors="replace").strip() if " out=" in f[1] else "?"
        if got != want:
            ck.violation("wrong-sizeof:structure-of-another-module", "size-of of a structure that shares its name with a private structure of another module prints `%s`, its own layout gives `%s`" % (got, want), src)
    if not proof_ok:
        ck.violation("tie-broken:proof", "Props/C10.v no longer checks", getattr(ck, "proof_output", "")[-2000:])
    ck.coverage.update(
        evaluations=len(lcases) + len(ccases), distinct_nontrivial=len(distinct),
        rule="layout stream: 1-5 random struct/word declarations (primitive, pointer, array, nested struct/word members) per program, `|:T|` and `|:[N]T|` printed at run time vs Model/Layout.v; E380 iff the model's word_accepted is false, including EVERY word of 1-4 members of 1/2/4/8 bytes at every declared size; constants stream: 1-6 constants over all integer types (arithmetic, bitwise, shifts, casts, references to earlier constants) printed next to a variable with the same initialiser and compared with the interpreter, plus an array whose length is a named constant, and |x| of an array literal / variable passed by view and by slice pointer; size-of constants written before the structures they measure, used as array lengths; named lengths up to 2^40 (size-of only); distinct = distinct type layouts queried",
        layout_stats=dict(stats), layout_problems=mism, const_programs=ccmp, const_problems=cmism,
        samples=[dict(source=lcases[0][1][:800], output=impl.get(lcases[0][0], ["?", "?"])[1][:200]), dict(source=ccases[0][1][:600])])
    ck.assumptions += ["`|x|` through the different parameter kinds is covered by the C01/C08 exec streams once arrays are generated there",
                       "agreement of LLVM's constant folder with LLVM's instructions is observed by execution, not provable in this model"]
    return ck.finish()
