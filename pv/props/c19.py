"""C19 — the token fuzzer emits only valid lexemes."""
import random, collections
from .. import common as C


def run(tier):
    ck = C.Check("C19", tier)
    proof_ok = ck.prove(extra_trusted=["the random number generator (rand 0.10) is abstracted in the model as an arbitrary list of draws: the theorems hold for EVERY list, so no property of the generator is assumed",
                                       "the model Model/Fuzzer.v is hand-written; its tie to fuzzer.rs is the agreement of both real lexers and both lexer models on every generated text, and the spelling facts checked on every run"])
    if not ck.builds():
        ck.violation("tie-broken:build", "model or harness does not build", "see log")
        return ck.finish()
    sizes = [1, 1, 1, 2, 2, 3, 4, 8, 16, 32, 64]
    runs = 16 if tier == "quick" else 400
    cases = [("k%d.%d" % (kb, i), str(kb)) for i in range(runs) for kb in sizes]
    impl = C.run_harness("fuzz", cases, ck.work + "/fuzz", timeout=3000)
    stats = collections.Counter(); bad = 0; total = 0; maxident = 0; kinds = 0
    texts = []
    for cid, kbs in cases:
        f = impl.get(cid, ["missing"])
        if not f[0].startswith("len="):
            ck.violation(C.failure_key(f[0]), "the fuzzer or a lexer failed: " + f[0][:200], "requested kilobytes: " + kbs); continue
        d = dict(x.split("=") for x in f[0].split(" "))
        kb = int(kbs); total += int(d["len"]); maxident = max(maxident, int(d["maxident"])); kinds = max(kinds, int(d["kinds"]))
        stats["runs"] += 1
        text = C.unesc(f[2]).decode("utf-8", errors="replace") if len(f) > 2 and f[2] else ""
        excerpt = f[1] if len(f) > 1 else ""
        if d["delta_errors"] != "[]" or d["alpha_errors"] != "0":
            bad += 1; ck.violation("invalid-lexeme", "generated text of %s bytes has lexical errors (second generation %s, first generation %s) near: %s" % (d["len"], d["delta_errors"], d["alpha_errors"], excerpt), text or excerpt); continue
        if int(d["len"]) < kb * 1024:
            bad += 1; ck.violation("too-short", "requested %d KB, got %s bytes" % (kb, d["len"]), "requested kilobytes: " + kbs); continue
        if d["utf8"] != "true":
            bad += 1; ck.violation("invalid-utf8", "the generated text is not valid UTF-8", "requested kilobytes: " + kbs); continue
        # facts proved about the model: a disagreement means the model no longer describes fuzzer.rs
        if int(d["maxident"]) > 38 or int(d["unmarked"]) > 0:
            bad += 1; ck.violation("tie-broken:fuzzer-model", "identifier spelling differs from Model/Fuzzer.v (longest %s, %s without upper-case letter or underscore)" % (d["maxident"], d["unmarked"]), "requested kilobytes: " + kbs)
        if d["delta_tokens"] and int(d["delta_tokens"]) - 2 != int(d["alpha_tokens"]):
            stats["token-count-differs"] += 1     # `return!`, `_` ... (listed lexer divergences, not errors)
    # the command line tool itself: `penne fuzz tokens --kb K --out-dir D` (main.rs chooses the capacity)
    from . import c18
    import os, shutil, subprocess, glob
    ncli = 0
    if c18.build_penne(ck):
        root = os.path.join(ck.work, "cli"); shutil.rmtree(root, ignore_errors=True); os.makedirs(root)
        files = []
        for j, kb in enumerate([1, 1, 2, 3, 8, 16, 64] * (1 if tier == "quick" else 20)):
            d = os.path.join(root, "r%d" % j); os.makedirs(d)      # the tool does not create the directory
            p = subprocess.run([c18.PENNE, "fuzz", "tokens", "--kb", str(kb), "--out-dir", d], cwd=root, capture_output=True, timeout=300)
            outs = sorted(glob.glob(os.path.join(d, "**", "*.pn"), recursive=True))
            if p.returncode != 0 or len(outs) != 1:
                bad += 1; ck.violation("cli-fuzz-failed", "penne fuzz tokens --kb %d --out-dir D: exit %d, %d files written" % (kb, p.returncode, len(outs)), p.stderr.decode(errors="replace")[-1500:]); continue
            data = open(outs[0], "rb").read(); ncli += 1
            if len(data) < kb * 1024:
                bad += 1; ck.violation("too-short:cli", "penne fuzz tokens --kb %d wrote %d bytes" % (kb, len(data)), "penne fuzz tokens --kb %d --out-dir D\nfile size: %d" % (kb, len(data))); continue
            try: data.decode("utf-8")
            except UnicodeDecodeError:
                bad += 1; ck.violation("invalid-utf8", "the file written by penne fuzz tokens is not valid UTF-8", repr(data[:2000])); continue
            files.append(("f%d" % j, data))
        # a directory that is used again: what is left is the NEW text only (a larger earlier output, or anything else
        # of that name, is replaced - not overwritten in place)
        for j, (first, then) in enumerate([(64, 1), (16, 2), (None, 1)]):
            d = os.path.join(root, "again%d" % j); os.makedirs(d)
            if first is None:
                name = os.path.join(d, "fuzzed_tokens.pn")
                open(name, "wb").write(b"\xff\"'" * 40000)
            else:
                subprocess.run([c18.PENNE, "fuzz", "tokens", "--kb", str(first), "--out-dir", d], cwd=root, capture_output=True, timeout=300)
            p = subprocess.run([c18.PENNE, "fuzz", "tokens", "--kb", str(then), "--out-dir", d], cwd=root, capture_output=True, timeout=300)
            outs = sorted(glob.glob(os.path.join(d, "**", "*.pn"), recursive=True))
            if p.returncode != 0 or len(outs) != 1:
                bad += 1; ck.violation("cli-fuzz-failed", "penne fuzz tokens --kb %d into a directory used before: exit %d, %d files" % (then, p.returncode, len(outs)), p.stderr.decode(errors="replace")[-1500:]); continue
            data = open(outs[0], "rb").read(); ncli += 1
            if len(data) > then * 1096 * 2 + 4096:
                bad += 1; ck.violation("stale-output", "penne fuzz tokens --kb %d into a directory that already held an output of %s: the file has %d bytes (the old content was overwritten in place, not replaced)" % (then, "%d KiB" % first if first else "other content", len(data)),
                                       "penne fuzz tokens --kb %s --out-dir D; penne fuzz tokens --kb %d --out-dir D\nfile size: %d" % (first, then, len(data))); continue
            try: data.decode("utf-8")
            except UnicodeDecodeError:
                bad += 1; ck.violation("invalid-utf8", "the file written by penne fuzz tokens into a used directory is not valid UTF-8", repr(data[:2000])); continue
            files.append(("g%d" % j, data))
        lexed = C.run_harness("lex", files, ck.work + "/clilex", timeout=1800) if files else {}
        for cid, data in files:
            f = lexed.get(cid, ["missing", "missing"])
            if any("Error " in x for x in f[:2]) or f[0] in ("missing", "not-utf8") or f[0].startswith("panic"):
                bad += 1; ck.violation("invalid-lexeme", "the file written by penne fuzz tokens has lexical errors", data.decode("utf-8", errors="replace")[:20000])
    ck.log("command line tool: %d files written and lexed" % ncli)
    # the string-literal branch of the fuzzer keeps a random `char` unescaped (fuzzer.rs: rng.random::<char>(), any scalar
    # value but the quote, the backslash and control characters below U+0020 / U+007F): both lexers accept every one of
    # them raw inside a literal - the whole Basic Multilingual Plane and a sample of the other planes, 64 per literal
    chars = [c for c in range(0x20, 0x10000) if c not in (0x22, 0x5c, 0x7f) and not (0xD800 <= c <= 0xDFFF)]
    crng = random.Random(ck.seed + 1919)
    chars += crng.sample(range(0x10000, 0x110000), 4096 if tier == "quick" else 60000)
    cfiles = []
    for k in range(0, len(chars), 64):
        cfiles.append(("ch%d" % (k // 64), ('var s = "%s";\n' % "".join(chr(c) for c in chars[k:k + 64])).encode("utf-8")))
    clex = C.run_harness("lex", cfiles, ck.work + "/chars", timeout=1800)
    cbad = 0
    for cid, data in cfiles:
        f = clex.get(cid, ["missing", "missing"])
        if any("Error " in x for x in f[:2]) or f[0] in ("missing", "not-utf8") or f[0].startswith("panic"):
            cbad += 1; bad += 1
            which = [g for g, x in zip(("first", "second"), f[:2]) if "Error " in x]
            ck.violation("invalid-lexeme:raw-character", "a string literal of characters the fuzzer emits unescaped is rejected by the %s-generation lexer" % " and ".join(which or ["?"]), data.decode("utf-8")[:400] + "\n" + " | ".join(x[:200] for x in f[:2]))
    ck.log("raw characters in string literals: %d literals, %d rejected" % (len(cfiles), cbad))
    ck.log("fuzzer: %d runs, %d bytes, longest identifier %d, %d token kinds seen, %s, %d problems" % (stats["runs"], total, maxident, kinds, dict(stats), bad))
    if not proof_ok:
        ck.violation("tie-broken:proof", "Props/C19.v no longer checks", getattr(ck, "proof_output", "")[-2000:])
    ck.coverage.update(
        evaluations=len(cases), distinct_nontrivial=stats["runs"], bytes_generated=total,
        rule="the real fill_to_capacity_with_tokens(95, buffer, 0) with capacity kb * 1096 for kb in {1,1,1,2,2,3,4,8,16,32,64} x %d runs (fresh random state each), lexed by both real lexers: zero lexical errors, at least kb KiB, valid UTF-8; plus the command line tool `penne fuzz tokens --kb K --out-dir D` for K in {1,1,2,3,8,16,64} (file size, UTF-8, both lexers); identifier spelling facts of the model (<= 38 characters, an upper-case letter or underscore) checked on every text" % runs,
        stats=dict(stats), problems=bad, longest_identifier=maxident, token_kinds_seen=kinds,
        samples=[dict(case=cases[0][0], result=impl.get(cases[0][0], ["?"])[0])])
    return ck.finish()
