"""C17 — the extracted header is exactly the public interface."""
import random, collections, re
from .. import common as C
from .. import gen_prog as GP
from .. import deltatree as DT


def module(rng, i):
    # mostly small programs (the specification side of the model is cubic in the number of nodes)
    g = GP.Gen(random.Random(rng.getrandbits(64)), level=1 if i % 8 else 2, max_funcs=rng.choice([0, 1, 2, 3]))
    p = g.program()
    lay = GP.Layout(random.Random(i), plain=rng.random() < 0.5)
    pieces = []
    mode = rng.choice(["mixed", "mixed", "mixed", "allpub", "allpriv", "privfirst", "privlast"])
    def pub(k, n):
        if mode == "allpub": return True
        if mode == "allpriv": return False
        if mode == "privfirst" and k == 0: return False
        if mode == "privlast" and k == n - 1: return False
        return rng.random() < 0.5
    extra = []
    for j in range(rng.randint(0, 4)):
        k = rng.random()
        if k < 0.4: extra.append(("const", "const K%d: %s = %s;\n" % (j, "i32", rng.randint(-50, 50))))
        elif k < 0.7: extra.append(("struct", "struct S%d\n{\n\tx: i32,\n\ty: [4]u8,\n}\n" % j))
        elif k < 0.85:
            bits, members = rng.choice([(8, "a: u8,"), (16, "a: u8,\n\tb: u8,"), (32, "a: u16,\n\tb: u8,"), (64, "a: u32,\n\tb: u16,"), (128, "a: u64,\n\tb: u32,\n\tc: u16,")])
            extra.append(("word", "word%d W%d\n{\n\t%s\n}\n" % (bits, j, members)))
        elif k < 0.92: extra.append(("opaque", "struct Opaque%d;\n" % j))      # a structure without body (opaque)
        else: extra.append(("import", 'import "other%d.pn";\n' % j))
    if rng.random() < 0.3: extra.append(("opaque", "struct Handle;\n"))
    for j2 in range(rng.choice([0, 0, 1, 2])): extra.append(("import", 'import "late%d.pn";\n' % j2))      # (the header keeps the order of the source)
    if rng.random() < 0.2: extra.append(("fnhead", "fn declared_only(a: i32) -> i32;\n"))
    if rng.random() < 0.2: extra.append(("struct", "struct Empty\n{\n}\n"))
    for name, params, ret, body, result, _ in p["funcs"]:
        text = "fn %s(%s)%s\n{\n" % (name, ", ".join("%s: %s" % (x, GP.src_ty(t)) for x, t in params), " -> " + GP.src_ty(ret) if ret else "")
        for s in body: text += GP.src_stmt(s, lay, 1)
        if result is not None: text += "\treturn: %s\n" % GP.src_expr(result, lay, result[0] != "lit")
        text += "}\n"
        # a function with a body may also be `extern` (its flags are then a set of two when it is public)
        if rng.random() < 0.25 and ret != "bool" and all(t in GP.PRIMS and t not in ("bool", "char8", "i128", "u128") for _, t in params) and (ret is None or (ret in GP.PRIMS and ret not in ("bool", "char8", "i128", "u128"))):
            text = "extern " + text
        extra.append(("fn", text))
        if rng.random() < 0.15:
            extra.append(("fnhead", "extern fn ext%d(a: i32, b: []u8) -> i32;\n" % len(extra)))
    rng.shuffle(extra)
    n = len(extra)
    out = ""
    flags = []
    for k, (kind, text) in enumerate(extra):
        is_pub = pub(k, n)
        flags.append((kind, is_pub))
        out += ("pub " if is_pub else "") + text + "\n"
    return out, flags


def run(tier):
    ck = C.Check("C17", tier)
    proof_ok = ck.prove()
    if not ck.builds():
        ck.violation("tie-broken:build", "model or harness does not build", "see log")
        return ck.finish()
    rng = random.Random(ck.seed)
    n = 300 if tier == "quick" else 12000
    mods = []
    for i in range(n):
        src, flags = module(rng, i)
        mods.append(("h%d" % i, src, flags))
    impl = C.run_harness("delta-tree", [(m[0], m[1]) for m in mods], ck.work + "/tree", timeout=1800)
    items, conv = [], {}
    stats = collections.Counter()
    for cid, src, flags in mods:
        f = impl.get(cid, ["missing"])
        stats[f[0].split(" ")[0]] += 1
        if f[0] != "ok":
            ck.violation("impl-failure:" + f[0].split(" ")[0].split("=")[0], "second-generation front end did not accept a generated valid module: " + f[0][:200], src)
            continue
        try:
            m, decls, nn = DT.to_model(f[2]); hm, hdecls, hn = DT.to_model(f[3])
        except Exception as e:
            ck.violation("tie-broken:debug-format", "cannot read the Debug form of the parse tree: %s" % e, src); continue
        # independent of the zone marks the parser leaves in the node array: no statement of a function body
        # may be among the header's nodes
        stmt_nodes = sorted(set(re.findall(r"\b(FunctionBody|VariableDeclaration|Assignment|Loop|Goto|Label|If|ThenElse|Block)\b", DT.nodes_text(f[3]))))
        if stmt_nodes:
            ck.violation("body-in-header", "the header contains nodes of function bodies: %s" % ", ".join(stmt_nodes), "source:\n%s\nheader nodes: %s" % (src, f[3][:3000]))
            continue
        conv[cid] = (m, hm, decls, hdecls, nn, hn)
        items.append(("header", cid, m))
    model = C.run_model(items, ck.work + "/tree")
    mism = 0; distinct = set()
    for cid, src, flags in mods:
        if cid not in conv: continue
        m, hm, decls, hdecls, nn, hn = conv[cid]
        r = model.get(cid, "MODEL-MISSING")
        if "\t" not in r:
            ck.violation("tie-broken:model-error", "header model failed: " + r[:200], src); continue
        status, mh = r.split("\t", 1)
        st = dict(p.split("=") for p in status.split(" "))
        if st.get("wf") != "true" or st.get("local") != "true":
            ck.violation("tie-broken:hypothesis", "the real node array does not satisfy zones_wf / refs_local (%s)" % status, "source:\n%s\nnodes: %s" % (src, m[:3000]))
            continue
        npub = sum(1 for k, p in flags if p)
        if hn > 5: distinct.add(hm)
        if len(hdecls) != npub:
            mism += 1
            ck.violation("wrong-declaration-count", "header has %d declarations, the module has %d pub declarations" % (len(hdecls), npub), "source:\n%s" % src)
        try: hd = [int(x) for x in hdecls]
        except Exception: hd = None
        if hd is not None and hd != sorted(hd):
            mism += 1
            ck.violation("wrong-declaration-order", "the header lists its declarations in another order than the source (node indices %s)" % hd, "source:\n%s\nheader: %s" % (src, f[3][:3000] if False else hm[:2000]))
        if mh != hm:
            mism += 1
            if st.get("spec_eq") == "true":
                ck.violation("wrong-header", "the real header differs from the public interface (specification header_spec = filter of public nodes)",
                             "source:\n%s\nreal header : %s\nspecification: %s" % (src, hm[:3000], mh[:3000]))
            else:
                ck.violation("tie-broken:correspondence", "real header differs from the model's", "source:\n%s\nreal : %s\nmodel: %s" % (src, hm[:2000], mh[:2000]))
    ck.log("header: %d modules %s, %d mismatches, %d distinct non-empty headers" % (len(mods), dict(stats), mism, len(distinct)))
    if not proof_ok:
        ck.violation("tie-broken:proof", "Props/C17.v no longer checks", getattr(ck, "proof_output", "")[-2000:])
    ck.coverage.update(
        evaluations=len(mods), distinct_nontrivial=len(distinct),
        rule="generated modules (functions with bodies of every statement kind, constants, structs, words, extern heads, imports) with every interleaving mode of pub/private (mixed, all-public, all-private, private first, private last); the real node array (Debug form) is fed to Model/Header.v; its header must equal the real build_header() array node for node; zones_wf and refs_local are checked on every real array; number of header declarations = number of pub declarations; non-trivial = header with at least one public declaration, distinct by header",
        mismatches=mism, verdicts=dict(stats),
        samples=[dict(source=mods[0][1][:600], flags=mods[0][2])])
    ck.assumptions += ["payloads of nodes without node references are compared through a checksum of their Debug text",
                       "refs_local (no private zone between a node and its target) is an invariant of the parser argued from the code and checked on every real array, not proved"]
    return ck.finish()
