"""C01 — compiled programs behave as their source prescribes."""
from .. import common as C
from .. import opcodes, execstream


def run(tier):
    ck = C.Check("C01", tier)
    proof_ok = ck.prove(extra_trusted=["LLVM LangRef semantics of add sub mul sdiv udiv srem urem and or xor shl lshr icmp trunc sext zext as transcribed in Base/Bits.v",
                                       "LLVM 14 (IR builder, lli) and the typer are outside the proof; they are covered by the opcodes and exec correspondence streams"])
    if not ck.builds():
        ck.violation("tie-broken:build", "model or harness does not build", "see log")
        return ck.finish()
    n, accepted, mism, types = opcodes.run(ck)
    ck.log("opcodes: %d one-line functions compiled, %d accepted, %d table mismatches" % (n, accepted, len(mism)))
    for key, what in mism:
        ck.violation("tie-broken:opcodes:" + key.replace(" ", "_"), "generated table and real compiler differ for %s: %s" % (key, what),
                     "case: %s\n%s\n(the table is coq/theories/Gen/LowerTables.v / ResolverTables.v as regenerated from /repo)" % (key, what))
    nprog = 120 if tier == "quick" else 20000
    ne, stats, distinct_out, srcs = execstream.run(ck, nprog, ck.seed, level=1)
    ck.log("exec (scalars, control flow, calls): %d runs %s, %d distinct outputs" % (ne, dict(stats), distinct_out))
    ne2, stats2, distinct_out2, srcs2 = execstream.run(ck, nprog, ck.seed + 1, level=2, label="exec2")
    ck.log("exec (arrays, views, slice pointers, pointers, address assignment): %d runs %s, %d distinct outputs" % (ne2, dict(stats2), distinct_out2))
    ne3, stats3, distinct_out3, srcs3 = execstream.run(ck, nprog, ck.seed + 5, level=3, label="exec3")
    ck.log("exec (structs, words, constants, structure views and pointers): %d runs %s, %d distinct outputs" % (ne3, dict(stats3), distinct_out3))
    ne += ne2 + ne3; distinct_out += distinct_out2 + distinct_out3
    for k, v in list(stats2.items()) + list(stats3.items()): stats[k] += v
    # regression corpus: programs that once failed (their fix is recorded in known_findings.txt)
    import os
    regs = [("loop-alloca", "findings/C01-loop-alloca.pn", "exit=0 out=sum = 4498500\\n"),
            ("array-member-element", "findings/C01-array-member-element.pn", "exit=5 out="),
            ("call-convention", "findings/C03-call-convention.pn", "exit=3 out="),
            ("constant-named-main", "findings/C03-constant-named-main.pn", "exit=7 out="),
            ("member-named-like-constant", "findings/C01-member-named-like-constant.pn", "exit=43 out="),
            # a private constant / function named like a C function the generated code calls (write, snprintf, abort): D77
            ("constant-named-write", "findings/C01-constant-named-write.pn", "exit=0 out=x\\n"),
            ("function-named-write", "findings/C01-function-named-write.pn", "exit=0 out=y=5\\n"),
            ("function-named-snprintf", "findings/C01-function-named-snprintf.pn", "exit=0 out=y=8 z=101\\n")]
    rr = C.run_harness("exec", [(rn, open(os.path.join(C.VERIF, f)).read()) for rn, f, _ in regs], ck.work + "/regress", timeout=600)
    for rn, f, want in regs:
        got = rr.get(rn, ["missing"])
        if len(got) < 2 or got[1] != want:
            ck.violation("regression:" + rn, "%s no longer behaves as its source prescribes: %s (expected %s)" % (f, got[:2], want), open(os.path.join(C.VERIF, f)).read())
    # types flow backwards along chains of declarations without a type (the typer makes several passes in both
    # directions), and an array / structure argument is a view wherever it stands among the arguments
    infer = []
    for n_ in range(1, 8):
        names = ["v%d" % i for i in range(n_)]
        chain = "\tvar v0 = 250;\n" + "".join("\tvar %s = %s;\n" % (names[i], names[i - 1]) for i in range(1, n_))
        infer.append(("chain-back-%d" % n_, "fn main() -> u8\n{\n%s\tvar z: u8 = %s;\n\tprint!(z, \" \", v0, \"\\n\");\n\treturn: 0\n}\n" % (chain, names[-1]), "250 250"))
        infer.append(("chain-arg-%d" % n_, "fn take(x: i64) -> i64\n{\n\treturn: x + 1\n}\nfn main() -> u8\n{\n%s\tprint!(take(%s), \"\\n\");\n\treturn: 0\n}\n" % (chain, names[-1]), "251"))
        fwd = "\tvar v0: u16 = 300;\n" + "".join("\tvar %s = %s;\n" % (names[i], names[i - 1]) for i in range(1, n_))
        infer.append(("chain-forward-%d" % n_, "fn main() -> u8\n{\n%s\tprint!(%s + 1, \"\\n\");\n\treturn: 0\n}\n" % (fwd, names[-1]), "301"))
    AGG = "struct R\n{\n\tw: i32,\n\th: i32,\n}\nfn weighted(k: i32, xs: []i32) -> i32\n{\n\treturn: k * xs[1]\n}\nfn area(k: i32, r: R, m: i32) -> i32\n{\n\treturn: k * r.w * r.h + m\n}\nfn twice(k: i32) -> i32\n{\n\treturn: k + k\n}\n"
    for ai, first in enumerate(["k", "k + 1", "idx[1]", "twice(k)", "-k", "(k)", "k as i32", "|data| as i32", "3"]):
        infer.append(("agg-after-%d" % ai, AGG + "fn main() -> u8\n{\n\tvar k: i32 = 2;\n\tvar idx: [2]i32 = [5, 7];\n\tvar data: [3]i32 = [4, 6, 8];\n\tvar rect = R { w: 3, h: 4 };\n"
                      "\tvar c: i32 = weighted(%s, data);\n\tvar d: i32 = area(%s, rect, %s);\n\tprint!(c, \" \", d, \"\\n\");\n\treturn: 0\n}\n" % (first, first, first), None))
    infer.append(("mixed-array", "fn sum(v: []i32) -> i32\n{\n\treturn: v[0] + v[1]\n}\nfn main() -> u8\n{\n\tvar x: i32 = 7;\n\tvar y: i32 = 9;\n\tvar a: [4]i32 = [1, x, 2, y];\n\tvar b: [3]i32 = [x, y, 3];\n"
                  "\tvar grid: [2][2]i32 = [[10, 20], [x, 30]];\n\tvar c: [5]i32 = [1, 2, x, 4, y];\n\tprint!(a[0], a[1], a[2], a[3], \" \", b[0], b[1], b[2], \" \", grid[0][0], grid[0][1], grid[1][0], grid[1][1], \" \", c[0], c[1], c[2], c[3], c[4], \" \", sum([100, x + y]), \"\\n\");\n\treturn: 0\n}\n", "1729 793 1020730 12749 116"))
    iimpl = C.run_harness("exec", [(a, b) for a, b, _ in infer], ck.work + "/infer", timeout=600)
    ibad = 0
    for cid, src, want in infer:
        f = iimpl.get(cid, ["missing"])
        out = C.unesc(f[1].split(" out=", 1)[1].split(" stderr=")[0]).decode(errors="replace").strip() if f[0].startswith("ok") and len(f) > 1 and " out=" in f[1] else None
        if out is None or (want is not None and out != want):
            ibad += 1
            ck.violation("rejected-valid:" + f[0][:40] if out is None else "wrong-output:inference", "a well-formed program (%s) %s" % (cid, "is not compiled: " + f[0][:160] if out is None else "prints `%s`, its source prescribes `%s`" % (out, want)), src)
    # (the aggregate-argument programs: every form of the first argument gives the value the plain `k`-like one would)
    ck.log("inference chains and aggregate arguments: %d programs, %d problems" % (len(infer), ibad))
    # "parenthesisation of the source never changes the result": every printable kind of value printed as
    # `x`, `(x)` and `((x))`, passed as `f(x)` / `f((x))`, assigned, returned and compared with and without parentheses
    kinds = [("i8", "-7"), ("u8", "200"), ("i32", "-123456"), ("u64", "18446744073709551615"), ("i128", "-170141183460469231731687303715884105728"), ("u128", "5"),
             ("usize", "9"), ("bool", "true"), ("char8", "'q'"), ("[4]char8", "['a', 'b', 'c', '\\0']")]   # (printing arrays and structures: C02's D15)
    pcases = []
    for ki, (t, v) in enumerate(kinds):
        for wi, wrap in enumerate(("%s", "(%s)", "((%s))")):
            x = wrap % "x"
            body = "\tvar x: %s = %s;\n" % (t, v) + ("\tprint!(\"[\", %s, \"]\\n\");\n" % x if not t.startswith("[") else "")
            if t == "[4]char8":
                body += "\tvar e: &[..]char8 = &x;\n\tprint!(\"<\", %s, \">\\n\");\n" % (wrap % "e")
            if not t.startswith("["):
                body += "\tvar y: %s = %s;\n\tvar z: %s = idt(%s);\n\tprint!(y, \" \", z, \"\\n\");\n\tif %s == %s\n\t{\n\t\tprint!(\"same\\n\");\n\t}\n" % (t, x, t, x, x, wrap % "y")
                pre = "fn idt(a: %s) -> %s\n{\n\treturn: %s\n}\n" % (t, t, wrap % "a")
            else: pre = ""
            pcases.append(("pp%d.%d" % (ki, wi), pre + "struct P\n{\n\ta: i32,\n\tb: u8,\n}\nfn main() -> u8\n{\n%s\tvar p = P { a: 1, b: 2 };\n\tprint!(%s, \"\\n\");\n\treturn: 0\n}\n" % (body, wrap % "p.a")))
    pimpl = C.run_harness("exec", pcases, ck.work + "/parens", timeout=600)
    pbad = 0
    for ki in range(len(kinds)):
        outs = [tuple(pimpl.get("pp%d.%d" % (ki, wi), ["missing"])[:2]) for wi in range(3)]
        if not outs[0][0].startswith("ok") or len(set(outs)) != 1:
            pbad += 1
            ck.violation("parentheses-change-result" if outs[0][0].startswith("ok") else "valid-rejected:" + outs[0][0].split(" ")[0],
                         "the same program with x, (x) and ((x)) gives %s" % (outs,), dict(pcases)["pp%d.1" % ki])
    ck.log("parenthesisation: %d kinds of values x 3 spellings, %d problems" % (len(kinds), pbad))
    # a string literal is printed with all its bytes (D72: a NUL byte ends what print!/format! write)
    nul = [("nz0", 'fn main() -> u8\n{\n\tprint!("a\\0b|\\n");\n\treturn: 0\n}\n', b"a\x00b|\n"),
           ("nz1", 'fn main() -> u8\n{\n\tvar x: i32 = 7;\n\tprint!("a\\0b|", x, "\\n");\n\treturn: 0\n}\n', b"a\x00b|7\n"),
           ("nz2", 'fn main() -> u8\n{\n\tvar x: i32 = 7;\n\tprint!("100%% of ", x, "%d%s\\n");\n\treturn: 0\n}\n', b"100%% of 7%d%s\n")]
    # text outside ASCII is written as its UTF-8 bytes; a structure passed by view is seen in place (not copied)
    nul += [("nz3", 'fn main() -> u8\n{\n\tvar word: []char8 = "na\u00efve";\n\tprint!("price: 5 \u20ac ", |word|, "\\n");\n\treturn: 0\n}\n', "price: 5 \u20ac 6\n".encode("utf-8")),
            ("nz4", 'struct A\n{\n\tbal: i32,\n\tlog: [2]i32,\n}\nfn dep(p: &A, v: A, n: i32) -> i32\n{\n\tp.bal = p.bal + n;\n\tp.log[1] = n;\n\treturn: v.bal + v.log[1]\n}\nfn main() -> u8\n{\n\tvar a = A { bal: 1, log: [0, 0] };\n\tvar r: i32 = dep(&a, a, 100);\n\tprint!(r, " ", a.bal, "\\n");\n\treturn: 0\n}\n', b"201 101\n"),
            ("nz5", 'fn bump(p: &[]i32, v: []i32) -> i32\n{\n\tp[0] = p[0] + 5;\n\treturn: v[0]\n}\nfn main() -> u8\n{\n\tvar a: [2]i32 = [1, 2];\n\tvar r: i32 = bump(&a, a);\n\tprint!(r, " ", a[0], "\\n");\n\treturn: 0\n}\n', b"6 6\n")]
    nimpl = C.run_harness("exec", [(a, b) for a, b, _ in nul], ck.work + "/nul", timeout=300)
    for cid, src, want in nul:
        f = nimpl.get(cid, ["missing"])
        got = C.unesc(f[1].split(" out=", 1)[1].split(" stderr=")[0]) if f[0].startswith("ok") and " out=" in f[1] else f[0].encode()
        if got != want:
            parts = want.split(b"\x00")
            cut = b"\x00" in want and (got == parts[0] or got == parts[0] + parts[1][parts[1].index(b"|") + 1:])     # (the literal ends at its NUL, later items are written)
            ck.violation("print-truncates-at-nul" if cut else "wrong-print-output", "print! of string literals writes %r, the literals' bytes are %r" % (got, want), src)
    # precedence and associativity: the unparenthesised spelling means the documented grouping (unary operators
    # bind tighter than `as`, `as` chains to the left, * / % chain to the left, + - chain to the left over them),
    # on boundary values where the other grouping gives another result; expected values from the interpreter
    from .. import gen_prog as GPx
    V = lambda n: ("var", n)
    shapes = []
    for t, wide in (("i8", "i16"), ("i16", "i32"), ("i32", "i64"), ("i64", "i128"), ("i8", "i64")):
        lo = GPx.tmin(t)
        for val in (lo, lo + 1, -1, 5, GPx.tmax(t)):
            shapes.append((t, val, wide, "-a as %s" % wide, ("cast", wide, ("un", "-", V("a")))))
            shapes.append((t, val, t, "a as %s as %s" % (wide, t), ("cast", t, ("cast", wide, V("a")))))
    for t in ("i32", "u8", "i64", "u16"):
        for a_, b_, c_ in ((100, 7, 3), (GPx.tmax(t), 2, 2), (17, 5, 4), (1, 2, 3)):
            for txt, tree in (("a - b - c", ("bin", "-", ("bin", "-", V("a"), V("b")), V("c"))), ("a / b * c", ("bin", "*", ("bin", "/", V("a"), V("b")), V("c"))),
                              ("a * b / c", ("bin", "/", ("bin", "*", V("a"), V("b")), V("c"))), ("a % b * c", ("bin", "*", ("bin", "%", V("a"), V("b")), V("c"))),
                              ("a - b * c", ("bin", "-", V("a"), ("bin", "*", V("b"), V("c")))), ("a * b - c", ("bin", "-", ("bin", "*", V("a"), V("b")), V("c"))),
                              ("a / b / c", ("bin", "/", ("bin", "/", V("a"), V("b")), V("c")))):
                shapes.append((t, (a_, b_, c_), t, txt, tree))
    xcases, xitems = [], []
    for xi, (t, val, rt, txt, tree) in enumerate(shapes):
        vals = val if isinstance(val, tuple) else (val,)
        names = ["a", "b", "c"][:len(vals)]
        decl = "".join("\tvar %s: %s = %s;\n" % (n_, t, ("%d" % v_) if v_ >= 0 else "-%d" % -v_) for n_, v_ in zip(names, vals))
        xcases.append(("x%d" % xi, "fn main() -> u8\n{\n%s\tvar r: %s = %s;\n\tprint!(r, \"\\n\");\n\treturn: 0\n}\n" % (decl, rt, txt)))
        sdecl = " ".join("(decl %s %s (lit %s %d))" % (n_, t, t, v_) for n_, v_ in zip(names, vals))
        xitems.append(("exec", "x%d" % xi, "(prog (structs) (consts) (funcs (fn main () u8 (%s (decl r %s %s) (print (var r) (str 0a))) (lit u8 0))))" % (sdecl, rt, GPx.sx_expr(tree))))
    ximpl = C.run_harness("exec", xcases, ck.work + "/precedence", timeout=600)
    xmodel = C.run_model(xitems, ck.work + "/precedence")
    xbad = 0; xn = 0
    for (cid, src), (t, val, rt, txt, tree) in zip(xcases, shapes):
        f = ximpl.get(cid, ["missing"]); m = xmodel.get(cid, "")
        if m in ("UB", "FUEL") or not m.startswith("exit="): continue          # (overflowing division and the like)
        if not f[0].startswith("ok"):
            xbad += 1; ck.violation("valid-rejected:" + f[0].split(" ")[0], "`%s` on %s operands is not accepted: %s" % (txt, t, f[0][:100]), src); continue
        xn += 1
        want = m.split(" out=", 1)[1]; got = f[1].split(" out=", 1)[1].split(" stderr=")[0] if " out=" in f[1] else "?"
        if want != got:
            xbad += 1; ck.violation("wrong-grouping", "`%s` with %s = %s prints %s, the documented grouping gives %s" % (txt, t, val, got, want), src)
    ck.log("precedence and associativity: %d expressions compared, %d problems" % (xn, xbad))
    from . import c12
    c12.check_leaks(ck)
    from .. import cfgstream
    ncfg, cstats, csizes, cbad = cfgstream.run(ck, 300 if tier == "quick" else 20000, ck.seed + 2)
    from .. import memstream
    nmem, mstats, mbad = memstream.run(ck, 480 if tier == "quick" else 12000, ck.seed + 3)
    if not proof_ok:
        ck.violation("tie-broken:proof", "Props/C01.v no longer checks against the regenerated tables", getattr(ck, "proof_output", "")[-2500:])
    ck.coverage.update(
        evaluations=n + ne + ncfg, distinct_nontrivial=accepted + distinct_out, exec_programs=ne, exec_stats=dict(stats), exec_distinct_outputs=distinct_out,
        rule="exec stream: generated well-typed terminating programs (all primitive types, casts, if/else, goto, counted loops, nested blocks, by-value calls, print!; second half also arrays with literal and loop-driven indexing, |x|, view / slice-pointer / pointer parameters, pointer variables, address assignment; last third also constants defined by constant expressions, structures and words with member reads and writes, structure views and pointers to structures) in random layouts, lli output and exit status vs the extracted interpreter on the generator's tree, every 4th program also in a second layout; distinct = distinct outputs; opcodes stream: every (binary op x 13 types), (unary op x 13), (comparison x 13), (cast 13x13) compiled by the real compiler; non-trivial = accepted pair whose IR opcode is compared with the generated table; cfg stream: random accepted control-flow skeletons, the blocks of the emitted IR must be exactly those of Model/Cfg.v (names, actions per block, terminators, targets)",
        opcode_mismatches=len(mism), cfg_skeletons=ncfg, cfg_stats=dict(cstats), cfg_block_counts=dict(csizes),
        samples=[dict(case="exec", source=srcs[0][1]), dict(case="B / i8", source="fn f(a: i8, b: i8) -> i8 { return: a / b }", expected="sdiv"),
                 dict(case="K i8 u32", source="fn f(a: i8) -> u32 { return: a as u32 }", expected="sext")])
    return ck.finish()
