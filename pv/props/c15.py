"""C15 — the second-generation front end is total and memory-safe on any bytes."""
import random, collections, itertools, os, re, shutil
from .. import common as C
from .. import gen_mut as GM, gen_prog as GP
from . import c14

TOKENS = ["fn", "var", "const", "if", "else", "goto", "loop", "pub", "extern", "struct", "word64", "import", "return", "x", "main", "i32", "u8",
          "1", "0x1", "'a'", '"s"', "(", ")", "{", "}", "[", "]", ";", ":", ",", "=", "==", "+", "-", "&", "|", "->", ".", "as", "cast", "print!", "true", "|:", ".."]


def limits():
    txt = open(os.path.join(C.THEORIES, "Gen", "Limits.v")).read()
    ctx = int(re.search(r"max_parse_node_context : Z := (\d+)", txt).group(1))
    k = int(re.search(r"node_capacity_factor : Z := (\d+)", txt).group(1))
    return ctx, k


def dense(rng, kind, n):
    """inputs of extreme token / node density"""
    if kind == 0: body = "x" + "+x" * n                       # 4 nodes per token asymptotically
    elif kind == 1: body = "&" * min(n, 200) + "x" + "+1" * n
    elif kind == 2: body = "(" * min(n, 100) + "x" + ")" * min(n, 100)
    elif kind == 3: body = "x" + ".y" * n + "[0]" * (n // 2)
    elif kind == 4: body = "f(" + ",".join(["x"] * n) + ")"
    elif kind == 5: body = "[" + ",".join(["1"] * n) + "]"
    else: body = "S{" + ",".join("m%d:x" % i for i in range(n)) + "}"
    return "fn f(){x=%s;}" % body


def run(tier):
    ck = C.Check("C15", tier)
    proof_ok = ck.prove(extra_trusted=["absence of undefined behaviour inside the unsafe blocks (MaybeUninit buffers, set_len) is explored by the crash stream in debug and release builds, and under Miri in the thorough tier; it is not proved",
                                       "termination of the real parser rests on the fuel argument of the model (every loop consumes a token) and on the crash stream's timeouts"])
    if not ck.builds():
        ck.violation("tie-broken:build", "model or harness does not build", "see log")
        return ck.finish()
    okr, outr = C.build_harness(release=True)
    if not okr:
        ck.violation("tie-broken:build", "release harness does not build", outr[-1500:]); return ck.finish()
    rng = random.Random(ck.seed)
    ctx, factor = limits()
    def witness(src):
        b = src.encode("utf-8", errors="surrogateescape") if isinstance(src, str) else src
        f = C.run_harness("delta-total", [("w", b)], ck.work + "/witness", timeout=120).get("w", ["missing"])
        return classify(f, b)
    def classify(f, b=b""):
        if f[0] in ("ok", "lexerr", "parseerr"): return None
        key = C.failure_key(f[0])
        # exhausting the stack (or the time limit) is a listed finding only for inputs that are really deep or long
        if key in ("impl-failure:stack-overflow", "impl-failure:timeout"):
            key += ":deep-or-long-input" if len(b) >= 10000 else ":short-input"
        return key
    ck.witness_runner = witness
    n = 4000 if tier == "quick" else 300000
    cases = []
    for i, (k, s) in enumerate(GM.stream(rng, n // 2)):
        cases.append(("m%d" % i, s.encode("utf-8", errors="replace"), "text:" + k.split(":")[0]))
    for i in range(n // 4):
        ln = rng.choice([0, 1, 2, 3, 5, 8, 13, 40, 200]) if rng.random() < 0.9 else rng.randint(1000, 6000)
        if i % 2: b = bytes(rng.getrandbits(8) for _ in range(ln))
        else: b = bytes(rng.choice(b"ab01 \n\t\r\"'\\/x_=+-&|(){}[];:,.\x00\xff\xc3\xa9\xe2\x82\xac") for _ in range(ln))
        cases.append(("b%d" % i, b, "bytes"))
    # every source of ONE byte, and of two bytes over the interesting ones (the caps and counters of the token buffer
    # are all near their start there)
    for b_ in range(256): cases.append(("ob%d" % b_, bytes([b_]), "short-bytes"))
    for b1 in b"a1 \n\"'\\/#@\x00\xff\xc3$;{":
        for b2 in b"a1 \n\"'\\/#@\x00\xff\xa9$;}":
            cases.append(("tb%d.%d" % (b1, b2), bytes([b1, b2]), "short-bytes"))
    valid = []
    for i in range(n // 8):
        g = GP.Gen(random.Random(rng.getrandbits(64)), level=3, max_funcs=4)
        src = GP.source(g.program(), random.Random(rng.getrandbits(32)), plain=rng.random() < 0.5)
        cid = "v%d" % i
        cases.append((cid, src.encode(), "valid-program")); valid.append(cid)
    for i in range(n // 16):
        cases.append(("d%d" % i, dense(rng, i % 7, rng.choice([1, 2, 3, 10, 50, 300])).encode(), "dense"))
    # strings and comments full of escapes and multi-byte characters (the dumps slice the source by byte offsets)
    pieces = ["\\u{48}", "\\u{20ac}", "\\u{1F600}", "\\xC3\\xA9", "\\n", "\\\\", "\\\"", "é", "€", "😀", "ü", "a", " ", "x1", "\\0", "\\t"]
    for i in range(n // 16):
        lits = []
        for _ in range(rng.randint(1, 4)):
            lits.append('"' + "".join(rng.choice(pieces) for _ in range(rng.randint(0, 8))) + '"')
        src = "// é€😀 comment\n" * rng.randint(0, 2) + "".join("const S%d: []char8 = %s;\n" % (j, l) for j, l in enumerate(lits))
        src += "fn main()\n{\n\tvar c: char8 = '%s';\n\tprint!(%s, \"ü\");\n}\n" % (rng.choice(["a", "\\x41", "\\n", "\\'"]), rng.choice(lits))
        cid = "u%d" % i
        cases.append((cid, src.encode("utf-8"), "unicode-strings")); valid.append(cid)
    # integer literals around every power of two that matters (the digit loops carry checked arithmetic)
    kb = 0
    for e in (7, 8, 15, 16, 31, 32, 63, 64, 127, 128, 129):
        for d_ in (-2, -1, 0, 1, 2, 3, 4):
            v = (1 << e) + d_
            for sp in (str(v), "0x%x" % v, "0b" + bin(v)[2:], "%du128" % v, "-%d" % v):
                cid = "bi%d" % kb; kb += 1
                cases.append((cid, ("const K: u128 = %s;\n" % sp).encode(), "boundary-integers"))
                if e < 128 and not sp.startswith("-"): valid.append(cid)
    for sp in ["9" * n_ for n_ in (38, 39, 40, 60, 300)] + ["1" + "0" * n_ for n_ in (37, 38, 39, 40)] + ["0x" + "f" * n_ for n_ in (31, 32, 33, 64)] + ["0b" + "1" * n_ for n_ in (127, 128, 129, 256)]:
        cases.append(("bi%d" % kb, ("const K: u128 = %s;\n" % sp).encode(), "boundary-integers")); kb += 1
    # every spelling of integer literals, digit-less prefixes included (invalid lexemes must be rejected)
    for sp in ["0b", "0x", "0b_", "0x_", "0bu8", "0xu8", "0b2", "0xg", "0b1010_1010", "0x_FF", "1_000", "0_", "00", "0b0", "0x0", "1__0u8", "0b1u128", "0xFFi16", "12ab", "0bar"]:
        cases.append(("bi%d" % kb, ("fn main(){ var x = %s; var y = %s; }\n" % (sp, sp)).encode(), "literal-spellings")); kb += 1
    # every hexadecimal digit in both cases at every place of a \u{...} escape and of a 0x literal (the digit tables of
    # the second-generation lexer; well-formed ones must be accepted, the lexer model decides the others)
    HEX = "0123456789abcdefABCDEF"
    for d_ in HEX:
        for esc in (d_, d_ * 2, d_ + "00", "1" + d_ + "00", d_ + "000", "C" + d_ + "00", "c" + d_ + "0" + d_, "10" + d_ * 4, "0" + d_ * 4):
            cid = "hx%d" % kb; kb += 1
            cases.append((cid, ('const S: []char8 = "a\\u{%s}b";\n' % esc).encode(), "hex-digits"))
            cp = int(esc, 16)
            if cp <= 0x10FFFF and not (0xD800 <= cp <= 0xDFFF): valid.append(cid)
        for lit in ("0x" + d_, "0x" + d_ * 2, "0x" + d_ * 16, "0x" + d_ * 32, "0x1" + d_ * 31, "0x" + d_ + "_" + d_, "0x0" + d_ * 32):
            cid = "hx%d" % kb; kb += 1
            cases.append((cid, ("const K: u128 = %s;\n" % lit).encode(), "hex-digits")); valid.append(cid)
        cid = "hx%d" % kb; kb += 1
        cases.append((cid, ("const C: char8 = '\\x4%s';\nconst S: []char8 = \"\\x%s%s\";\n" % (d_, "7" if d_ in "89abcdefABCDEF" else d_, d_)).encode(), "hex-digits")); valid.append(cid)
    # every byte value, raw, inside a string literal, inside a character literal and between tokens (control characters,
    # DEL, bytes above 0x7f that are not UTF-8): the lexer model decides which are invalid lexemes
    for b_ in range(256):
        for form, tag in ((b'const S: []char8 = "he' + bytes([b_]) + b'lo";\n', "s"), (b"const C: char8 = '" + bytes([b_]) + b"';\n", "c"), (b"const K: i32 = 1 " + bytes([b_]) + b" ;\n", "o")):
            cases.append(("rb%d%s" % (b_, tag), form, "raw-bytes"))
    # many tokens that carry a payload (integers, identifiers, strings) in a small source: the payload tables grow
    # independently of the token table
    for cnt in (1000, 1023, 1024, 1025, 1200, 5000):
        cid = "pl%d" % cnt; valid.append(cid)
        cases.append((cid, ("const T: [%d]i32 = [%s];\n" % (cnt, ", ".join(str(i % 97) for i in range(cnt)))).encode(), "payload-tokens"))
        cid = "ps%d" % cnt; valid.append(cid)
        cases.append((cid, ("fn f()\n{\n%s}\n" % "".join("\tprint!(\"s%d\");\n" % i for i in range(cnt))).encode(), "payload-tokens"))
    # a trailing comma closes every list that may have one (parameters, arguments, array and structure literals;
    # the last member of a structure may also do without): well-formed, must be accepted
    for tc in ["fn add(a: i32, b: i32,) -> i32\n{\n\treturn: a + b\n}\n", "extern fn puts(text: []char8,);\n", "fn add(a: i32, b: i32) -> i32\n{\n\treturn: a + b\n}\nfn main()\n{\n\tvar r = add(1, 2,);\n}\n",
               "fn main()\n{\n\tvar a: [2]i32 = [1, 2,];\n}\n", "struct S\n{\n\tx: i32,\n\ty: i32,\n}\nfn main()\n{\n\tvar s = S { x: 1, y: 2, };\n}\n", "struct S\n{\n\tx: i32,\n\ty: i32\n}\n",
               "fn id(a: i32,) -> i32\n{\n\treturn: a\n}\n", "word16 W\n{\n\tlo: u8,\n\thi: u8\n}\n", "pub extern fn f(a: &[]u8, b: [][2]i32,);\n", "fn g(a: i32,\n\tb: i32,\n)\n{\n}\n",
               "fn main()\n{\n\tvar m: [2][2]i32 = [[1, 2,], [3, 4,],];\n\tvar r = f(g(1,), 2,);\n}\n"]:
        cid = "tc%d" % kb; kb += 1; valid.append(cid)
        cases.append((cid, tc.encode(), "trailing-commas"))
    # casts as operands of every binary operator (well-formed: must be accepted)
    for op_ in ("*", "/", "%", "+", "-"):
        for tmpl in ("y %s x as i64", "x as i64 %s y", "y %s x as i64 as i32", "y %s (x as i64)", "-x as i64 %s y"):
            cid = "co%d" % kb; kb += 1; valid.append(cid)
            cases.append((cid, ("fn f(x: i32, y: i64)\n{\n\tvar w: i64 = %s;\n}\n" % (tmpl % op_)).encode(), "cast-operands"))
    # one token repeated around every counter width (8-bit depth counters, 16-bit lengths)
    for tok in ("&", "(", "[", "{", "-", "!", "|", "&&", "[]", ".x", "[0]", " as u8", "+1", "x,", ";", "&[]", "&[1]", "pub ", "extern "):
        for cnt in (126, 127, 128, 129, 254, 255, 256, 257, 300, 1000, 65535, 65536, 65537):
            if cnt > 1000 and tier == "quick" and tok not in ("&", "(", "+1", ";"): continue
            for tmpl in ("fn f(){var p=%sx;}", "fn f(p:%si32){}", "fn f(){x%s;}", "%s"):
                cases.append(("rp%d" % kb, (tmpl % (tok * cnt)).encode(), "repeated-token")); kb += 1
    # dense well-formed modules below the token limit: no resource limit may be reported
    for cnt in (100, 1000, 1500, 2047, 2048, 3000, 4095, 4096, 8000, 16000, 30000):
        cid = "dv%d" % cnt; valid.append(cid)
        cases.append((cid, ("const TABLE:[%d]u8=[%s];" % (cnt, ",".join(str(j % 10) for j in range(cnt)))).encode(), "dense-valid"))
        cid = "dw%d" % cnt; valid.append(cid)
        cases.append((cid, ("fn f(){" + "x=x+1;" * (cnt // 6) + "}").encode(), "dense-valid"))
    L = 2 if tier == "quick" else 3
    k = 0
    for n_ in range(1, L + 1):
        for seq in itertools.product(TOKENS, repeat=n_):
            cases.append(("t%d" % k, (" ".join(seq) + "\n").encode(), "tokens")); k += 1
    ntok_exh = k
    # big inputs (up to 256 KiB)
    for i, size in enumerate([65536, 262144] if tier == "quick" else [65536, 131072, 262144, 262144, 262144]):
        body = b""
        while len(body) < size:
            body += rng.choice([b"fn f(){x=x+x;}\n", b"x ", b"{ ", b"&&&&", b"'a' ", b"\"s\" ", b"0x1F ", bytes(rng.getrandbits(8) for _ in range(8))])
        cases.append(("big%d" % i, body[:size], "big"))
        cases.append(("bigd%d" % i, dense(rng, i % 7, size // 3).encode()[:size], "big"))
    # corpus: valid samples must be accepted (outside the listed lexical divergence classes)
    corpus_valid = []
    for name, src in GM.corpus():
        if name.startswith("tests/samples/valid/") or name.startswith("examples/"):
            cid = "c%d" % len(corpus_valid); corpus_valid.append((cid, name, src)); cases.append((cid, src.encode(), "corpus-valid"))
    payloads = [(c[0], c[1]) for c in cases]
    impl = C.run_harness("delta-total", payloads, ck.work + "/debug", timeout=3000)
    implr = C.run_harness("delta-total", payloads, ck.work + "/release", timeout=3000, binary=C.PVH_RELEASE)
    # the lexer model decides which inputs contain an invalid lexeme
    prio = ("literal-spellings", "boundary-integers", "cast-operands", "unicode-strings", "hex-digits", "trailing-commas", "raw-bytes", "short-bytes")      # the deterministic families first
    small = [(c[0], c[1]) for c in sorted(cases, key=lambda c: 0 if c[2] in prio else 1) if len(c[1]) <= 4096 and c[2] != "tokens"][: (6500 if tier == "quick" else 60000)]
    model = C.run_model([("lex-delta", cid, b.hex() if b else "()") for cid, b in small], ck.work + "/lexmodel", timeout=3000)
    # node accounting: Model/DeltaNodes.v on the token kinds the real lexer produced
    nitems = []
    for cid, b, kind in cases:
        f = impl.get(cid, ["missing"])
        if f[0] in ("ok", "parseerr") and len(b) <= 8192:
            d = dict(x.split("=", 1) for x in f[1:] if "=" in x)
            if "kinds" in d: nitems.append(("nodes", cid, "(codes %s)" % d["kinds"]))
    nitems = nitems[: (4000 if tier == "quick" else 120000)]
    nmodel = C.run_model(nitems, ck.work + "/nodemodel", timeout=3000)
    stats = collections.Counter(); kinds = collections.Counter(); bad = 0; maxratio = (0.0, ""); ncmp = 0
    for cid, b, kind in cases:
        f = impl.get(cid, ["missing"]); fr = implr.get(cid, ["missing"])
        kinds[kind] += 1
        key = classify(f, b) or classify(fr, b)
        if key is not None:
            which = "debug" if classify(f, b) else "release"
            stats[key] += 1
            ck.violation(key, "second-generation front end ended abnormally (%s build): %s" % (which, (f if classify(f, b) else fr)[0][:200]),
                         "input kind: %s\nbytes (python repr): %r" % (kind, b[:4000])); continue
        stats[f[0]] += 1
        if f != fr:
            bad += 1; ck.violation("debug-release-differ", "debug and release builds disagree", "input: %r\ndebug  : %s\nrelease: %s" % (b[:2000], f, fr)); continue
        d = dict(x.split("=", 1) for x in f[1:] if "=" in x)
        ntok = int(d.get("ntok", 0))
        if "nodes" in d:
            nodes = int(d["nodes"])
            if nodes > ctx + factor * ntok:
                bad += 1; ck.violation("node-buffer-overrun", "%d nodes for %d tokens exceed the reserved %d + %d * tokens" % (nodes, ntok, ctx, factor), repr(b[:2000]))
            if ntok > 8 and nodes / ntok > maxratio[0]: maxratio = (nodes / ntok, repr(b[:60]))
        nm = nmodel.get(cid)
        if nm is not None:
            ncmp += 1
            want = "ok nodes=%s decls=%s errors=%s" % (d.get("nodes"), d.get("decls"), d.get("nerr"))
            if not nm.startswith(want + " "):
                bad += 1; ck.violation("tie-broken:node-model", "node accounting differs from Model/DeltaNodes.v", "input: %r\nreal : %s\nmodel: %s" % (b[:2000], want, nm))
        if ntok > len(b) + 2:
            bad += 1; ck.violation("token-bound", "%d tokens for %d bytes" % (ntok, len(b)), repr(b[:2000]))
        m = model.get(cid)
        if m is not None:
            has_err = "Error " in m
            if has_err != (f[0] == "lexerr"):
                bad += 1; ck.violation("invalid-lexeme-verdict", "the lexer model %s an invalid lexeme but the front end says %s" % ("finds" if has_err else "finds no", f[0]),
                                       "input: %r\nmodel tokens: %s\nreal: %s" % (b[:2000], m[:500], f))
    for cid in valid:
        f = impl.get(cid, ["missing"])
        if f[0] in ("lexerr", "parseerr"):
            bad += 1; ck.violation("valid-rejected:generated", "a generated well-formed module is rejected: %s" % f, dict(payloads)[cid].decode())
    for cid, name, src in corpus_valid:
        f = impl.get(cid, ["missing"])
        if f[0] in ("lexerr", "parseerr"):
            k_ = c14.known_class(src)
            key = "valid-rejected:" + (k_ if (k_ and f[0] == "lexerr") else "return-as-plain-label" if re.search(r"\breturn:\s*\n\s*\}", src) is None and re.search(r"goto return|return:", src) and f[0] == "parseerr" else name)
            ck.violation(key, "the repository's valid sample %s is rejected by the second generation: %s" % (name, f[:4]), src)
    # Miri: the same front end interpreted with checks for uninitialised reads, out-of-bounds accesses and
    # invalid values inside the unsafe buffer code (thorough tier; PV_MIRI=1 forces it in the quick tier)
    miri = None
    if tier == "thorough" or os.environ.get("PV_MIRI") == "1":
        mrng = random.Random(ck.seed + 15)
        sel = [c for c in cases if len(c[1]) <= 1200 and c[2] not in ("tokens",)]
        mrng.shuffle(sel)
        sel = sel[: (60 if tier == "quick" else 400)] + [("dense", dense(mrng, k, 120).encode(), "dense") for k in range(7)]
        mdir = os.path.join(ck.work, "miri"); os.makedirs(mdir, exist_ok=True)
        shards = [sel[i::8] for i in range(8)]
        import subprocess
        procs = []
        for k, sh_ in enumerate(shards):
            path = os.path.join(mdir, "cases%d.txt" % k)
            open(path, "w").write("".join(c[1].hex() + "\n" for c in sh_))
            env = C.env(); env["MIRIFLAGS"] = "-Zmiri-disable-isolation"; env["CARGO_TARGET_DIR"] = os.path.join(C.CACHE, "miri-target"); env.pop("RUSTFLAGS", None)
            lockp = os.path.join(C.VERIF, "harness-miri", "Cargo.lock")
            if not os.path.exists(lockp): shutil.copy(os.path.join(C.REPO, "Cargo.lock"), lockp)
            procs.append((k, sh_, subprocess.Popen(["cargo", "+nightly", "miri", "run", "--offline", "-q", "--", path], cwd=os.path.join(C.VERIF, "harness-miri"), env=env, stdout=subprocess.PIPE, stderr=subprocess.PIPE)))
            if k == 0: procs[0][2].wait(); procs[0] = (0, sh_, procs[0][2])      # the first one builds, the others reuse it
        nm_ok = 0
        for k, sh_, p in procs:
            try: out, err = p.communicate(timeout=6000)
            except subprocess.TimeoutExpired:
                p.kill(); out, err = p.communicate()
            lines = out.decode(errors="replace").splitlines()
            nm_ok += len(lines)
            if p.returncode != 0 or len(lines) != len(sh_):
                culprit = sh_[len(lines)][1] if len(lines) < len(sh_) else b""
                et = err.decode(errors="replace")
                key = "miri:undefined-behaviour" if "Undefined Behavior" in et else "miri:" + ("stack-overflow" if "stack" in et.lower() and "overflow" in et.lower() else "failed")
                ck.violation(key, "Miri stopped on an input of the second-generation front end: " + (re.search(r"error: (.*)", et).group(1)[:200] if re.search(r"error: (.*)", et) else "exit %s" % p.returncode),
                             "input (python repr): %r\n--- miri\n%s" % (culprit[:3000], et[-3000:]))
        miri = dict(inputs=len(sel), completed=nm_ok)
        ck.log("miri: %d inputs interpreted, %d completed" % (len(sel), nm_ok))
    ck.log("crash stream (debug + release): %d inputs, %d node counts compared with the model, %s; kinds %s; max nodes/token %.2f on %s" % (len(cases), ncmp, dict(stats.most_common(8)), dict(kinds), maxratio[0], maxratio[1]))
    if not proof_ok:
        ck.violation("tie-broken:proof", "Props/C15.v no longer checks", getattr(ck, "proof_output", "")[-2000:])
    ck.coverage.update(
        evaluations=2 * len(cases), distinct_nontrivial=len({c[1] for c in cases}), exhaustive_part=ntok_exh,
        rule="every input through lex -> token dump -> parse -> errors -> header -> tree and header dumps (staged as main.rs does: no parse after lexical errors, no header or dumps after syntax errors) in isolated workers, in a debug build (overflow checks, debug assertions) AND a release build, results compared: mutated corpus, generated programs with faults, token soup, CRLF variants, random bytes and random bytes over a lexically dense alphabet (NUL, 0xFF, multi-byte), generated valid programs and programs full of string escapes and multi-byte characters (must be accepted), inputs of extreme node density (x+x+..., &&&&, nested parentheses, long member/index chains, argument / array / structure lists), ALL token sequences up to length %d over %d tokens, inputs of 64-256 KiB; checked: no panic / signal / timeout, nodes <= %d + %d * tokens (the regenerated capacity), tokens <= bytes + 2, lexical verdict = 'the extracted lexer model finds an Error token', node / declaration / error counts = Model/DeltaNodes.v run on the token kinds the real lexer produced" % (L, len(TOKENS), ctx, factor),
        outcomes=dict(stats), input_kinds=dict(kinds), problems=bad, node_model_compared=ncmp, miri=miri, max_nodes_per_token=round(maxratio[0], 3), node_capacity="%d + %d * tokens" % (ctx, factor),
        samples=[dict(kind=cases[0][2], input=repr(cases[0][1][:200]), outcome=impl.get(cases[0][0], ["?"])[:5])])
    return ck.finish()
